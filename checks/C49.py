"""C49 — Quantum-information functions match their definitions (DESIGN §5.9).

E1, exhaustive within the bound: a 15-state family (basis, |+..+>, GHZ, W, two generic pure states, a product of
pairwise different qubit states, I/d, rank-2, depolarised, diagonal, product-mixed ...) on 1-4 qubits
(thorough 5) x every ordered index subset x base {None, 2, e} x batch {None, 1, 3} x c_dtype; all ordered pairs
of states for fidelity / trace distance / relative entropy, all triples for the triangle inequality; every
(wires, wire_order) with wire_order a permutation of <=4 labels for expand_matrix (dense, batched, scipy-sparse).
Oracle: explicit tensor contraction and eigenvalue / singular-value formulas in plain numpy (mc/x_qinfo)."""
import itertools
import math

import numpy as np

from mc.engine import ok, bad, skip
from mc import x_qinfo as xq

PROPERTY = "C49"
LEVEL = "exploration"
TECHNIQUE = "bounded exhaustive enumeration of states x index subsets x options vs. explicit-contraction / eigenvalue reference"
LEVEL_TEXT = ("For a 15-state family on 1-4 qubits (thorough 5), every ordered index subset, base in {None,2,e}, batch in {None,1,3} and both "
              "complex dtypes, reduce_dm / reduce_statevector / partial_trace / purity / entropies / mutual information, all ordered state pairs "
              "for fidelity, trace distance, relative entropy, all triples for the triangle inequality and every wire-order permutation of <=4 "
              "labels for expand_matrix are compared with plain-numpy definitions.")
LEVEL_NOTE = ("Reference = numpy einsum contraction, eigvalsh, svd. Only the numpy interface is driven here (interface agreement is C48); "
              "states outside the family, >5 qubits and traced inputs are not explored. Bounds are checked with 1e-9 slack.")
DESIGN_REF = "5.9 C49"
RULE = ("complete product of the state family x ordered index subsets x base x batch x dtype per function; all ordered pairs / all triples "
        "of the family for the two-state functions; all (wires, wire_order) pairs for expand_matrix; non-trivial = subsystem is a proper "
        "subset, or two different states, or the matrix is actually moved")

BASES = [None, 2, math.e]
BATCH = [None, 1, 3]
TOL = 1e-9
TOL32 = 2e-6


def close(a, b, tol=TOL):
    a, b = np.asarray(a), np.asarray(b)
    if a.shape != b.shape:
        return False
    return bool(np.all(np.abs(a - b) <= tol * max(1.0, float(np.max(np.abs(b))) if b.size else 1.0)))


def states_dm(name, n, b, family=None):
    family = family or xq.FAMILY
    if b is None:
        return xq.dm(name, n), [xq.dm(name, n)]
    lst = [xq.dm(x, n) for x in xq.batch_names(name, b, family)]
    return np.stack(lst), lst


def states_sv(name, n, b):
    if b is None:
        return xq.pure(name, n), [xq.pure(name, n)]
    lst = [xq.pure(x, n) for x in xq.batch_names(name, b, xq.PURE)]
    return np.stack(lst), lst


def unbatch(res, b):
    res = np.asarray(res)
    if b is None:
        return [res]
    if res.shape[0] != b:
        return None
    return [res[i] for i in range(b)]


# ------------------------------------------------------------------------------------------------ reductions
def check_reduce(spec):
    import pennylane as qp

    n, name, idx, b, dt, chk = spec["n"], spec["state"], spec["idx"], spec["b"], spec["dtype"], spec["check"]
    tol = TOL if dt == "complex128" else TOL32
    arr, lst = states_dm(name, n, b)
    got = unbatch(qp.math.reduce_dm(arr, idx, check_state=chk, c_dtype=dt), b)
    exp = [xq.rdm(r, idx) for r in lst]
    if got is None or any(not close(g, e, tol) for g, e in zip(got, exp)):
        return bad(f"reduce_dm:{'batched' if b else 'single'}", got, exp)
    if str(np.asarray(got[0]).dtype) != dt:
        return bad("reduce_dm:dtype", str(np.asarray(got[0]).dtype), dt)
    if name in xq.PURE:
        arr, lst = states_sv(name, n, b)
        got = unbatch(qp.math.reduce_statevector(arr, idx, check_state=chk, c_dtype=dt), b)
        exp = [xq.rdm(xq.proj(v), idx) for v in lst]
        if got is None or any(not close(g, e, tol) for g, e in zip(got, exp)):
            return bad(f"reduce_statevector:{'batched' if b else 'single'}", got, exp)
        if len(idx) == n and idx == sorted(idx):
            got = unbatch(qp.math.dm_from_state_vector(arr, check_state=chk, c_dtype=dt), b)
            if got is None or any(not close(g, xq.proj(v), tol) for g, v in zip(got, lst)):
                return bad("dm_from_state_vector", got, [xq.proj(v) for v in lst])
    # partial_trace traces the given indices (any order) and keeps the rest in ascending order; also on a non-state matrix
    arr, lst = states_dm(name, n, b)
    if len(idx) < n or True:
        got = unbatch(qp.math.partial_trace(arr, idx, c_dtype=dt), b)
        exp = [xq.ptrace(r, idx) for r in lst]
        if got is None or any(not close(g, e, tol) for g, e in zip(got, exp)):
            return bad(f"partial_trace:{'batched' if b else 'single'}", got, exp)
    if name == "g1":
        G = xq.generic_matrix(2 ** n, 1)
        got = np.asarray(qp.math.partial_trace(G, idx, c_dtype=dt))
        if not close(got, xq.ptrace(G, idx), tol):
            return bad("partial_trace:generic-matrix", got, xq.ptrace(G, idx))
        got = np.asarray(qp.math.reduce_dm(G, idx, c_dtype=dt))
        if not close(got, xq.rdm(G, idx), tol):
            return bad("reduce_dm:generic-matrix", got, xq.rdm(G, idx))
    e0 = exp[0] if len(idx) < n else xq.rdm(lst[0], idx)
    return ok(outcome=[len(idx), round(float(np.abs(e0).sum()), 6), round(float(np.abs(e0[0]).sum()), 6)],
              nontrivial=len(idx) < n or idx != sorted(idx))


# ------------------------------------------------------------------------------------------------ entropies
def check_entropy(spec):
    import pennylane as qp

    n, name, idx, b, base = spec["n"], spec["state"], spec["idx"], spec["b"], spec["base"]
    arr, lst = states_dm(name, n, b)
    k = len(idx)
    red = [xq.rdm(r, idx) for r in lst]
    logd = k * math.log(2) / (math.log(base) if base else 1)
    out = []
    for fname, ref in (("vn_entropy", xq.entropy), ("max_entropy", xq.max_entropy), ("min_entropy", xq.min_entropy)):
        if fname == "min_entropy" and b is not None:
            continue  # documented for a single (2**N, 2**N) matrix only
        got = unbatch(getattr(qp.math, fname)(arr, idx, base=base), b)
        exp = [ref(r, base) for r in red]
        if got is None or any(abs(float(g) - e) > 1e-8 for g, e in zip(got, exp)):
            return bad(f"{fname}:value", [float(g) for g in got] if got else None, exp, base=base)
        if any(float(g) < -TOL or float(g) > logd + TOL for g in got):
            return bad(f"{fname}:bounds", [float(g) for g in got], [0, logd])
        out.append(round(float(got[0]), 6))
    if b is None and not (out[2] <= out[0] + 1e-6 and out[0] <= out[1] + 1e-6):
        return bad("entropy:ordering", out, "S_min <= S_vn <= S_max")
    got = unbatch(qp.math.purity(arr, idx), b)
    exp = [xq.purity(r) for r in red]
    if got is None or any(abs(float(g) - e) > TOL for g, e in zip(got, exp)):
        return bad("purity:value", [float(g) for g in got] if got else None, exp)
    if any(float(g) > 1 + TOL or float(g) < 1 / 2 ** k - TOL for g in got):
        return bad("purity:bounds", [float(g) for g in got], [1 / 2 ** k, 1])
    if name in xq.PURE and b is None and 0 < k < n:
        rest = [i for i in range(n) if i not in idx]
        a = float(qp.math.vn_entanglement_entropy(arr, idx, rest, base=base))
        c = float(qp.math.vn_entanglement_entropy(arr, rest, idx, base=base))
        if abs(a - c) > 1e-8 or abs(a - xq.entropy(red[0], base)) > 1e-8:
            return bad("vn_entanglement_entropy", [a, c], xq.entropy(red[0], base))
    return ok(outcome=out + [round(float(got[0]), 6)], nontrivial=k < n)


def check_mi(spec):
    import pennylane as qp

    n, name, A, B, b, base = spec["n"], spec["state"], spec["A"], spec["B"], spec["b"], spec["base"]
    arr, lst = states_dm(name, n, b)
    if set(A) & set(B):
        try:
            qp.math.mutual_info(arr, A, B, base=base)
        except ValueError as e:
            if "overlap" in str(e):
                return skip("overlapping subsystems rejected")
            raise
        return bad("mutual_info:overlap-accepted", "no error", "ValueError")
    got = unbatch(qp.math.mutual_info(arr, A, B, base=base), b)
    exp = [xq.entropy(xq.rdm(r, A), base) + xq.entropy(xq.rdm(r, B), base) - xq.entropy(xq.rdm(r, sorted(A + B)), base) for r in lst]
    if got is None or any(abs(float(g) - e) > 1e-8 for g, e in zip(got, exp)):
        return bad("mutual_info:value", [float(g) for g in got] if got else None, exp)
    if any(float(g) < -1e-8 for g in got):
        return bad("mutual_info:negative", [float(g) for g in got], ">= 0")
    sym = unbatch(qp.math.mutual_info(arr, B, A, base=base), b)
    if any(abs(float(g) - float(s)) > 1e-8 for g, s in zip(got, sym)):
        return bad("mutual_info:asymmetric", [float(s) for s in sym], [float(g) for g in got])
    return ok(outcome=round(float(got[0]), 6), nontrivial=True)


# ------------------------------------------------------------------------------------------------ two-state functions
def _pairwise(fn_name, A, B, la, lb, ref, tol=1e-8, **kw):
    """Evaluate qp.math.<fn_name>(A, B, **kw) where A, B may be batched; returns violation or list of values."""
    import pennylane as qp

    got = np.asarray(getattr(qp.math, fn_name)(A, B, **kw))
    m = max(len(la), len(lb)) if (np.ndim(A) == 3 or np.ndim(B) == 3) else None
    vals = unbatch(got, m)
    if vals is None:
        return None, bad(f"{fn_name}:batch-shape", list(got.shape), m)
    exp = []
    for i in range(len(vals)):
        a = la[i if len(la) > 1 else 0]
        b_ = lb[i if len(lb) > 1 else 0]
        exp.append(ref(a, b_))
    for g, e in zip(vals, exp):
        g = float(g)
        if math.isnan(g):
            return None, bad(f"{fn_name}:nan", [float(x) for x in vals], exp)
        if math.isinf(e):
            if not (math.isinf(g) and g > 0):
                return None, bad(f"{fn_name}:finite-instead-of-inf", [float(x) for x in vals], exp)
        elif math.isinf(g):
            return None, bad(f"{fn_name}:inf-instead-of-finite", [float(x) for x in vals], exp)
        elif not abs(g - e) <= tol * max(1.0, abs(e)):
            return None, bad(f"{fn_name}:value", [float(x) for x in vals], exp)
    return [float(v) for v in vals], None


def check_pair(spec):
    import pennylane as qp

    n, s0, s1, b0, b1 = spec["n"], spec["a"], spec["b"], spec["ba"], spec["bb"]
    A, la = states_dm(s0, n, b0)
    B, lb = states_dm(s1, n, b1)
    f, v = _pairwise("fidelity", A, B, la, lb, xq.fidelity, tol=1e-7)
    if v:
        return v
    f2, v = _pairwise("fidelity", B, A, lb, la, xq.fidelity, tol=1e-7)
    if v:
        return v
    if any(abs(x - y) > 1e-7 for x, y in zip(f, f2)):
        return bad("fidelity:asymmetric", f2, f)
    if any(x < -1e-9 or x > 1 + 1e-7 for x in f):
        return bad("fidelity:bounds", f, [0, 1])
    t, v = _pairwise("trace_distance", A, B, la, lb, xq.trace_distance)
    if v:
        return v
    t2, v = _pairwise("trace_distance", B, A, lb, la, xq.trace_distance)
    if v:
        return v
    if any(abs(x - y) > TOL for x, y in zip(t, t2)):
        return bad("trace_distance:asymmetric", t2, t)
    if any(x < -TOL or x > 1 + TOL for x in t):
        return bad("trace_distance:bounds", t, [0, 1])
    if s0 == s1 and b0 == b1 and any(abs(x) > TOL for x in t):
        return bad("trace_distance:identity-of-indiscernibles", t, 0)
    if s0 == s1 and b0 == b1 and any(abs(x - 1) > 1e-7 for x in f):
        return bad("fidelity:same-state", f, 1)
    out = [round(f[0], 6), round(t[0], 6)]
    if s0 in xq.PURE and s1 in xq.PURE and b0 in (None, 1, 3) and b1 in (None, 1, 3):
        # pure states: |<psi|phi>|^2 through both entry points
        va, lva = states_sv(s0, n, b0)
        vb, lvb = states_sv(s1, n, b1)
        ov = lambda x, y: float(abs(np.vdot(x, y)) ** 2)
        g, v = _pairwise_sv(va, vb, lva, lvb, ov)
        if v:
            return v
        Ap = np.stack([xq.proj(x) for x in lva]) if b0 else xq.proj(lva[0])
        Bp = np.stack([xq.proj(x) for x in lvb]) if b1 else xq.proj(lvb[0])
        g2, v = _pairwise("fidelity", Ap, Bp, lva, lvb, ov, tol=1e-7)
        if v:
            v["sig"] = "fidelity:pure-states-overlap"
            v["o"] = "bad:" + v["sig"]
            return v
        out.append(round(g[0], 6))
    # relative entropy last: its rank-deficient failure classes are recorded findings and must not mask the checks above
    if spec.get("rel"):
        for base in BASES:
            r, v = _pairwise("relative_entropy", A, B, la, lb, lambda x, y: xq.relative_entropy(x, y, base), tol=1e-7, base=base)
            if v:
                v["sig"] += ":" + relclass(la, lb)
                v["o"] = "bad:" + v["sig"]
                v["x"]["base"] = base
                return v
            if any(x < -1e-8 for x in r):
                return bad("relative_entropy:negative", r, ">= 0")
            if s0 == s1 and b0 == b1 and any(abs(x) > 1e-8 for x in r):
                return bad("relative_entropy:same-state", r, 0)
        out.append(r[0] if math.isinf(r[0]) else round(r[0], 6))
    return ok(outcome=out, nontrivial=not (s0 == s1 and b0 == b1))


def relclass(la, lb):
    """Classify a relative-entropy input pair for the failure signature: are rho / sigma rank deficient?"""
    ra = min(int((xq.evals(a) > 1e-10).sum()) for a in la) < la[0].shape[0]
    rb = min(int((xq.evals(b) > 1e-10).sum()) for b in lb) < lb[0].shape[0]
    return ("rho-" + ("deficient" if ra else "full")) + "/" + ("sigma-" + ("deficient" if rb else "full"))


def _pairwise_sv(va, vb, lva, lvb, ref):
    import pennylane as qp

    got = np.asarray(qp.math.fidelity_statevector(va, vb))
    m = max(len(lva), len(lvb)) if (np.ndim(va) == 2 or np.ndim(vb) == 2) else None
    vals = unbatch(got, m)
    if vals is None:
        return None, bad("fidelity_statevector:batch-shape", list(got.shape), m)
    exp = [ref(lva[i if len(lva) > 1 else 0], lvb[i if len(lvb) > 1 else 0]) for i in range(len(vals))]
    if any(abs(float(g) - e) > TOL for g, e in zip(vals, exp)):
        return None, bad("fidelity_statevector:value", [float(x) for x in vals], exp)
    return [float(x) for x in vals], None


def check_triple(spec):
    import pennylane as qp

    n = spec["n"]
    a, b, c = (xq.dm(x, n) for x in spec["s"])
    dab = float(qp.math.trace_distance(a, b))
    dbc = float(qp.math.trace_distance(b, c))
    dac = float(qp.math.trace_distance(a, c))
    if dac > dab + dbc + TOL:
        return bad("trace_distance:triangle", [dac, dab, dbc], "d(a,c) <= d(a,b) + d(b,c)")
    for x, (p, q_) in zip((dab, dbc, dac), ((a, b), (b, c), (a, c))):
        if abs(x - xq.trace_distance(p, q_)) > 1e-8:
            return bad("trace_distance:value", x, xq.trace_distance(p, q_))
    return ok(outcome=[round(dab, 5), round(dbc, 5), round(dac, 5)], nontrivial=len(set(spec["s"])) == 3)


def check_sqrt(spec):
    import pennylane as qp

    n, name, b = spec["n"], spec["state"], spec["b"]
    arr, lst = states_dm(name, n, b)
    got = unbatch(qp.math.sqrt_matrix(arr), b)
    for g, r in zip(got, lst):
        if not close(g @ g, r, 1e-8):
            return bad("sqrt_matrix:square", g @ g, r)
        if not close(g, g.conj().T, 1e-8) or np.linalg.eigvalsh(0.5 * (g + g.conj().T)).min() < -1e-8:
            return bad("sqrt_matrix:not-psd", g, "Hermitian PSD root")
    return ok(outcome=round(float(np.trace(got[0]).real), 6), nontrivial=True)


# ------------------------------------------------------------------------------------------------ expand_matrix
def check_expand(spec):
    import pennylane as qp
    import scipy.sparse as sps

    wires, order, form, b = spec["wires"], spec["order"], spec["form"], spec["b"]
    k = len(wires)
    mats = [xq.generic_matrix(2 ** k, s) for s in range(b or 1)]
    if form == "sparse":
        for M in mats:
            M[np.abs(M.real) < 0.5] = 0  # make it genuinely sparse (deterministic pattern)
    if k == 0:
        mats = [np.array([[2.5 - 1j]])]
    exp = [xq.embed(M, wires, order) if k else M[0, 0] * np.eye(2 ** len(order)) for M in mats]
    if form == "sparse":
        got = qp.math.expand_matrix(sps.csr_matrix(mats[0]), wires, wire_order=order)
        if not sps.issparse(got):
            return bad("expand_matrix:sparse:type", type(got).__name__, "scipy sparse matrix")
        got = [got.toarray()]
        fmt = qp.math.expand_matrix(sps.csr_matrix(mats[0]), wires, wire_order=order, sparse_format="coo")
        if wires != order and sps.issparse(fmt) and fmt.format != "coo":
            return bad("expand_matrix:sparse:format", fmt.format, "coo")
    else:
        arg = np.stack(mats) if b else mats[0]
        raw = np.asarray(qp.math.expand_matrix(arg, wires, wire_order=order))
        if b == 1 and raw.ndim == 2 and close(raw, exp[0]):
            return bad("expand_matrix:dense:batch-of-1-axis-dropped", list(raw.shape), [1] + list(exp[0].shape))
        got = unbatch(raw, b)
    if got is None or len(got) != len(exp) or any(not close(g, e) for g, e in zip(got, exp)):
        return bad(f"expand_matrix:{form}{':batched' if b else ''}", got, exp)
    if k == 1 and form == "dense" and not b:
        g2 = np.asarray(qp.math.expand_matrix(mats[0], wires[0], wire_order=order))
        if not close(g2, exp[0]):
            return bad("expand_matrix:int-wire", g2, exp[0])
    if form == "dense" and not b and k:
        g3 = np.asarray(qp.math.expand_matrix(mats[0], wires, wire_order=None))
        if not close(g3, mats[0]):
            return bad("expand_matrix:no-wire-order", g3, mats[0])
    pos = [order.index(w) for w in wires]
    return ok(outcome=[k, len(order), pos], nontrivial=wires != order)


def check_misc(spec):
    import pennylane as qp

    what = spec["what"]
    n = spec["n"]
    if what == "marginal_prob":
        name, axis = spec["state"], spec["idx"]
        p = np.real(np.diag(xq.dm(name, n)))
        got = np.asarray(qp.math.marginal_prob(p, axis))
        T = p.reshape((2,) * n)
        keep = sorted(axis)
        exp = np.einsum(T, list(range(n)), keep).ravel()  # documented: marginal over the *set* of axes, ascending order
        if not close(got, exp):
            return bad("marginal_prob", got, exp)
        return ok(outcome=[round(float(x), 6) for x in exp[:4]], nontrivial=len(axis) < n)
    if what == "expectation_value":
        name, b = spec["state"], spec["b"]
        arr, lst = states_sv(name, n, b)
        H = xq.generic_matrix(2 ** n, 2)
        H = H + H.conj().T
        got = unbatch(qp.math.expectation_value(H, arr, check_state=True, check_operator=True), b)
        exp = [np.vdot(v, H @ v) for v in lst]
        if got is None or any(abs(complex(g) - e) > TOL * 10 for g, e in zip(got, exp)):
            return bad("expectation_value", got, exp)
        return ok(outcome=round(float(np.real(exp[0])), 6), nontrivial=True)
    if what == "choi":
        kind = spec["ks"]
        d = 2 ** n
        U1, U2 = np.linalg.qr(xq.generic_matrix(d, 1))[0], np.linalg.qr(xq.generic_matrix(d, 4))[0]
        Ks = {"unitary": [U1], "mix": [math.sqrt(0.3) * U1, math.sqrt(0.7) * U2], "nontp": [0.5 * U1]}[kind]
        try:
            got = np.asarray(qp.math.choi_matrix(Ks, check_Ks=True))
        except ValueError as e:
            if kind == "nontp" and "trace-preserving" in str(e):
                return skip("non trace-preserving Kraus set rejected")
            raise
        if kind == "nontp":
            return bad("choi_matrix:non-tp-accepted", "no error", "ValueError")
        exp = np.zeros((d * d, d * d), dtype=complex)
        for i in range(d):
            for j in range(d):
                E = np.zeros((d, d), dtype=complex)
                E[i, j] = 1
                exp += np.kron(E, sum(K @ E @ K.conj().T for K in Ks)) / d
        if not close(got, exp):
            return bad("choi_matrix", got, exp)
        return ok(outcome=[kind, round(float(np.trace(got @ got).real), 6)], nontrivial=True)
    raise AssertionError(what)


def check(spec):
    return {"reduce": check_reduce, "entropy": check_entropy, "mi": check_mi, "pair": check_pair, "triple": check_triple,
            "sqrt": check_sqrt, "expand": check_expand, "misc": check_misc}[spec["kind"]](spec)


# ------------------------------------------------------------------------------------------------ enumeration
def disjoint_pairs(n):
    out = []
    for assign in itertools.product((0, 1, 2), repeat=n):
        A = [i for i in range(n) if assign[i] == 1]
        B = [i for i in range(n) if assign[i] == 2]
        if A and B:
            out.append((A, B))
    return out


def run(ctx):
    fails = xq.selftest()
    if fails:
        raise RuntimeError(f"reference self-test failed: {fails}")
    q = ctx.quick
    nmax = 4 if q else 5
    fam = xq.FAMILY
    # ---- reductions
    specs = []
    for n in range(1, nmax + 1):
        for idx in xq.ordered_subsets(n):
            for name in fam:
                for b in BATCH:
                    if n == 5 and b == 3 and len(idx) > 3:
                        continue
                    for dt in ("complex128", "complex64"):
                        if dt == "complex64" and (b == 3 or (n >= 4 and name not in ("g1", "r2", "prod"))):
                            continue
                        specs.append({"kind": "reduce", "n": n, "state": name, "idx": idx, "b": b, "dtype": dt,
                                      "check": dt == "complex128" and b != 3})
    ctx.enumerate(specs, axis="reduce")
    # ---- entropies / purity
    specs = []
    for n in range(1, nmax + 1):
        subsets = list(xq.ordered_subsets(n)) if n <= 3 else [list(c) for k in range(1, n + 1) for c in itertools.combinations(range(n), k)] + \
            [list(reversed(c)) for k in range(2, n + 1) for c in itertools.combinations(range(n), k)]
        for idx in subsets:
            for name in fam:
                for b in BATCH:
                    for base in BASES:
                        if b is not None and base == math.e:
                            continue
                        specs.append({"kind": "entropy", "n": n, "state": name, "idx": idx, "b": b, "base": base})
    ctx.enumerate(specs, axis="entropy")
    specs = []
    for n in range(2, nmax + 1):
        for A, B in disjoint_pairs(n):
            for name in fam:
                for b in BATCH:
                    for base in (BASES if b is None else [None]):
                        specs.append({"kind": "mi", "n": n, "state": name, "A": A, "B": B, "b": b, "base": base})
                if len(A) > 1 and len(B) > 1:
                    specs.append({"kind": "mi", "n": n, "state": name, "A": A[::-1], "B": B[::-1], "b": None, "base": 2})
        for name in ("g1", "r2"):
            specs.append({"kind": "mi", "n": n, "state": name, "A": [0, 1], "B": [1], "b": None, "base": None})
    ctx.enumerate(specs, axis="mutual_info")
    # ---- pairs and triples
    specs = []
    for n in range(1, nmax + 1 if q else 5):
        for a in fam:
            for b_ in fam:
                specs.append({"kind": "pair", "n": n, "a": a, "b": b_, "ba": None, "bb": None, "rel": True})
                if n <= 3:
                    for ba, bb in ((3, 3), (3, None), (None, 3), (1, 1), (1, None)):
                        specs.append({"kind": "pair", "n": n, "a": a, "b": b_, "ba": ba, "bb": bb, "rel": n <= 2})
    ctx.enumerate(specs, axis="state-pair")
    specs = []
    for n in range(1, 4 if q else 5):
        for s in itertools.product(fam, repeat=3):
            specs.append({"kind": "triple", "n": n, "s": list(s)})
    ctx.enumerate(specs, axis="state-triple")
    specs = [{"kind": "sqrt", "n": n, "state": name, "b": b} for n in range(1, nmax + 1) for name in fam for b in BATCH]
    ctx.enumerate(specs, axis="sqrt_matrix")
    # ---- expand_matrix
    specs = []
    labelsets = [[0, 1, 2, 3], ["a", "b", "c", "d"], [3, "q", 0, "z"]] + ([] if q else [[0, 1, 2, 3, 4]])
    for L in labelsets:
        for m in range(1, len(L) + 1):
            if len(L) == 5 and m < 5:
                continue
            for order in itertools.permutations(L[:m]):
                order = list(order)
                for k in range(0, min(m, 3) + 1):
                    for wires in itertools.permutations(L[:m], k):
                        wires = list(wires)
                        for form, b in (("dense", None), ("dense", 3), ("dense", 1), ("sparse", None)):
                            if L != labelsets[0] and (b == 1 or (form == "dense" and b == 3 and m == 4)):
                                continue
                            if k == 0 and (b or form == "sparse" and False):
                                continue
                            specs.append({"kind": "expand", "wires": wires, "order": order, "form": form, "b": b})
    ctx.enumerate(specs, axis="expand_matrix")
    # ---- misc documented helpers of math/quantum.py
    specs = []
    for n in range(1, 4):
        for name in ("g1", "diag", "w", "prodmix"):
            for idx in xq.ordered_subsets(n):
                specs.append({"kind": "misc", "what": "marginal_prob", "n": n, "state": name, "idx": idx})
        for name in xq.PURE:
            for b in BATCH:
                specs.append({"kind": "misc", "what": "expectation_value", "n": n, "state": name, "b": b})
    for n in (1, 2):
        for ks in ("unitary", "mix", "nontp"):
            specs.append({"kind": "misc", "what": "choi", "n": n, "ks": ks})
    ctx.enumerate(specs, axis="misc")
    ctx.coverage["alphabet"] = {"states": fam, "bases": ["None", 2, "e"], "batch": BATCH, "c_dtype": ["complex128", "complex64"],
                                "index_subsets": "every ordered subset (entropies for n>=4: every subset, ascending and descending)",
                                "expand_matrix": "every permutation of <=4 labels as wire_order x every ordered sub-list of <=3 wires x {dense, batch 1/3, scipy csr}",
                                "label_sets": labelsets}
    ctx.coverage["bound"] = {"qubits": nmax, "expand_matrix_wires": 4 if q else 5, "pair_qubits": nmax if q else 4, "triple_qubits": 3 if q else 4}
