"""C47 — Resource estimation composes additively (DESIGN §5.8).

Part A (TLC + conformance): models/WireResourceManager.tla checked by TLC for every initial (zeroed, any_state)
in {0,1,2}^2 x tight in {T,F}; every edge and every spanning path replayed on the real WireResourceManager.
Part B (E2): all workflows (words of length <= 3, quick 2) over 10 estimator operators + 3 synthetic
ResourceOperators with allocate/free patterns x gate sets; oracle: Counter arithmetic
(estimate(w1;w2) = estimate(w1) + estimate(w2), estimate(n*op) = n*estimate(op)), non-negative wire
counters, total >= algorithmic wires, any_state accounts for every unreleased allocation and
zeroed+any_state covers the peak simultaneous allocation of each synthetic operator.
"""
import itertools
from collections import Counter

from mc.engine import ok, bad, skip, HarnessError
from mc.explore import words

PROPERTY = "C47"
LEVEL = "model_checking"
TECHNIQUE = "TLC model of the estimator's wire counters with edge-by-edge conformance replay + exhaustive workflow words compared by Counter arithmetic"
LEVEL_TEXT = ("TLC explores all states of the wire-counter protocol (grab/free of 1..3 wires, 18 initial configurations, totals <=7) and every edge is "
              "replayed on the real WireResourceManager; all workflows of <=3 (quick 2) operators over a 13-letter alphabet x 3 gate sets are estimated "
              "whole and in parts and compared additively, with wire-accounting invariants on every result.")
LEVEL_NOTE = ("Additivity is checked on gate counts by gate name; wire accounting is checked exactly only for the synthetic operators whose allocation "
              "pattern is known to the harness. Trusted: TLC, the 2-counter model (bound to the code by the replay).")
DESIGN_REF = "5.8 C47"
RULE = "A: every TLC edge; B: every operator word x gate set; non-trivial = word of >=2 operators or an allocating operator"

# --------------------------------------------------------------------------------------------- Part A
def check_tlc(spec):
    from mc import tlc
    from pennylane.estimator import WireResourceManager

    cfg = spec["cfg"]
    g = tlc.run("WireResourceManager", cfg, ["NonNegative", "TotalCoversPeak"])
    if g["violated"]:
        raise HarnessError(f"model violates its own invariant {g['violated']}")
    states, edges = g["states"], g["edges"]
    validated = 0
    for src, act, dst in edges:
        s, d = states[src], states[dst]
        m = WireResourceManager(zeroed=s["zeroed"], any_state=s["anyst"], algo_wires=2, tight_budget=cfg["Tight"])
        kind, n = d["last"]
        before = (m.zeroed, m.any_state)
        try:
            if kind.startswith("grab"):
                m.grab_zeroed(n)
            else:
                m.free_wires(n)
            raised = False
        except ValueError:
            raised = True
        after = (m.zeroed, m.any_state)
        ctx = {"cfg": cfg, "source": [s["zeroed"], s["anyst"]], "action": d["last"]}
        if kind.endswith("fail"):
            if not raised:
                return bad(f"wires:{kind}:no-error", after, "ValueError", **ctx)
            if after != before:
                return bad(f"wires:{kind}:state-changed-by-rejected-operation", after, before, **ctx)
        else:
            if raised:
                return bad(f"wires:{kind}:unexpected-ValueError", "ValueError", [d["zeroed"], d["anyst"]], **ctx)
            if min(after) < 0:
                return bad("wires:negative-counter", after, ">= 0", **ctx)
            if sum(after) < sum(before):
                return bad("wires:total-decreased", after, before, **ctx)
            if after != (d["zeroed"], d["anyst"]):
                return bad(f"wires:{kind}:counters", after, [d["zeroed"], d["anyst"]], **ctx)
            if m.total_wires != sum(after) + 2 or m.total_wires < m.algo_wires:
                return bad("wires:total_wires", m.total_wires, sum(after) + 2, **ctx)
        validated += 1
    # spanning paths from a fresh manager
    from collections import deque

    succ = {}
    for src, act, dst in edges:
        succ.setdefault(src, []).append(dst)
    parent = {g["init"][0]: None}
    dq = deque(g["init"])
    while dq:
        u = dq.popleft()
        for v in succ.get(u, []):
            if v not in parent:
                parent[v] = u
                dq.append(v)
    leaves = set(parent) - {p for p in parent.values() if p is not None}
    paths = 0
    for leaf in leaves:
        path, x = [], leaf
        while parent[x] is not None:
            path.append(x)
            x = parent[x]
        path.reverse()
        m = WireResourceManager(zeroed=cfg["Z0"], any_state=cfg["A0"], tight_budget=cfg["Tight"])
        out = 0
        peak = 0
        for x in path:
            kind, n = states[x]["last"]
            try:
                if kind.startswith("grab"):
                    m.grab_zeroed(n)
                    out += n
                    peak = max(peak, out)
                else:
                    m.free_wires(n)
                    out = max(0, out - n)
            except ValueError:
                if not kind.endswith("fail"):
                    return bad(f"wires:{kind}:unexpected-ValueError", "ValueError", "ok", cfg=cfg, path=[states[y]["last"] for y in path])
                if kind.startswith("grab"):
                    pass
            if (m.zeroed, m.any_state) != (states[x]["zeroed"], states[x]["anyst"]):
                return bad("wires:path-state", [m.zeroed, m.any_state], [states[x]["zeroed"], states[x]["anyst"]], cfg=cfg, path=[states[y]["last"] for y in path])
            if m.zeroed + m.any_state < states[x]["peak"]:
                return bad("wires:total-below-peak-allocation", m.zeroed + m.any_state, states[x]["peak"], cfg=cfg)
        paths += 1
    return ok(outcome=[len(states), len(edges)], nontrivial=True, **{"states": len(states), "edges": len(edges), "validated": validated, "paths": paths})


# --------------------------------------------------------------------------------------------- Part B
_SYN = {}


def _synthetic():
    if _SYN:
        return _SYN
    import pennylane.estimator as qre
    from pennylane.estimator.resource_operator import ResourceOperator, GateCount, CompressedResourceOp, resource_rep
    from pennylane.estimator.wires_manager import Allocate, Deallocate

    def mk(name, decomp_fn, nw):
        class Op(ResourceOperator):
            num_wires = nw

            def __init__(self, wires=None):
                super().__init__(wires=wires)

            @property
            def resource_params(self):
                return {}

            @classmethod
            def resource_rep(cls):
                return CompressedResourceOp(cls, num_wires=cls.num_wires, params={})

            @classmethod
            def resource_decomp(cls):
                return decomp_fn()

        Op.__name__ = name
        Op.__qualname__ = name
        return Op

    S1 = mk("SynBalanced", lambda: [Allocate(2), GateCount(resource_rep(qre.T), 3), Deallocate(2)], 1)
    S2 = mk("SynLeaky", lambda: [Allocate(1), GateCount(resource_rep(qre.CNOT), 2)], 2)
    S3 = mk("SynNested", lambda: [GateCount(S1.resource_rep(), 2), Allocate(1), GateCount(S2.resource_rep(), 1), Deallocate(1)], 2)
    _SYN.update({"S1": S1, "S2": S2, "S3": S3})
    return _SYN


# per synthetic letter: (unreleased wires after one application, peak simultaneous allocation inside one application)
SYN_WIRES = {"S1": (0, 2), "S2": (1, 1), "S3": (1, 2)}
LETTERS = ["X", "H", "CNOT", "Toffoli", "RZ", "QFT3", "MCX3", "AdjQFT", "CtrlRZ", "PowX3", "S1", "S2", "S3"]
GATE_SETS = {"default": None, "coarse": ["Toffoli", "CNOT", "T", "Hadamard", "X", "Z", "S", "Y", "QFT"], "rz": ["RZ", "CNOT", "Hadamard", "T", "Toffoli", "X", "S", "Z", "Y"]}


def _make(letter):
    import pennylane.estimator as qre

    syn = _synthetic()
    return {
        "X": lambda: qre.X(), "H": lambda: qre.Hadamard(), "CNOT": lambda: qre.CNOT(), "Toffoli": lambda: qre.Toffoli(),
        "RZ": lambda: qre.RZ(precision=1e-3), "QFT3": lambda: qre.QFT(num_wires=3),
        "MCX3": lambda: qre.MultiControlledX(num_ctrl_wires=3, num_zero_ctrl=1),
        "AdjQFT": lambda: qre.Adjoint(qre.QFT(num_wires=3)), "CtrlRZ": lambda: qre.Controlled(qre.RZ(precision=1e-3), 1, 0),
        "PowX3": lambda: qre.Pow(qre.X(), 3),
        "S1": lambda: syn["S1"](), "S2": lambda: syn["S2"](), "S3": lambda: syn["S3"](),
    }[letter]()


def _estimate_word(word, gate_set, zeroed=0, tight=False):
    import pennylane.estimator as qre

    def wf():
        for l in word:
            _make(l)

    gs = None if gate_set is None else set(gate_set)
    return qre.estimate(wf, gate_set=gs, zeroed_wires=zeroed, tight_wires_budget=tight)()


def _counts(res):
    return Counter({k: v for k, v in res.gate_counts.items() if v})


def check_word(spec):
    import pennylane.estimator as qre

    word, gsname = spec["word"], spec["gate_set"]
    gs = GATE_SETS[gsname]
    whole = _estimate_word(word, gs)
    parts = [_estimate_word([l], gs) for l in word]
    total = Counter()
    for p in parts:
        total.update(_counts(p))
    if _counts(whole) != total:
        return bad("additivity:gate-counts", dict(_counts(whole)), dict(total))
    # wires
    if whole.zeroed_wires < 0 or whole.any_state_wires < 0:
        return bad("wires:negative-counter", [whole.zeroed_wires, whole.any_state_wires], ">= 0")
    if whole.total_wires < whole.algo_wires or whole.total_wires != whole.zeroed_wires + whole.any_state_wires + whole.algo_wires:
        return bad("wires:total-below-algo", whole.total_wires, whole.algo_wires)
    if all(l in SYN_WIRES or l in ("X", "H", "CNOT", "Toffoli", "PowX3") for l in word) and gsname == "default":
        unreleased = sum(SYN_WIRES.get(l, (0, 0))[0] for l in word)
        # peak: walk the word, outstanding unreleased + the op's internal peak
        out, peak = 0, 0
        for l in word:
            u, p = SYN_WIRES.get(l, (0, 0))
            peak = max(peak, out + p)
            out += u
        if whole.any_state_wires != unreleased:
            return bad("wires:unreleased-allocations-not-accounted", whole.any_state_wires, unreleased)
        if whole.zeroed_wires + whole.any_state_wires < peak:
            return bad("wires:total-below-peak-allocation", whole.zeroed_wires + whole.any_state_wires, peak)
    # scaling: n * op for single letters
    if len(word) == 1:
        for n in (0, 1, 3):
            try:
                scaled = qre.estimate(n * _make(word[0]), gate_set=None if gs is None else set(gs))
            except Exception as e:  # noqa
                if n == 0:
                    continue
                raise
            exp = Counter({k: n * v for k, v in _counts(parts[0]).items() if n * v})
            if _counts(scaled) != exp:
                return bad("scaling:gate-counts", dict(_counts(scaled)), dict(exp), n=n)
    return ok(outcome=[sum(total.values()), whole.zeroed_wires, whole.any_state_wires, whole.algo_wires],
              nontrivial=len(word) > 1 or word[0] in SYN_WIRES or word[0] == "MCX3")


def check_algebra(spec):
    """Resources objects combine like Counters and never modify their operands:
    spec = {"a": letter, "b": letter, "c": letter, "n": int}."""
    a, b, c_ = (_estimate_word([spec[k]], None) for k in ("a", "b", "c"))
    n = spec["n"]
    ca, cb, cc = _counts(a), _counts(b), _counts(c_)
    snap = lambda r: (dict(_counts(r)), r.zeroed_wires, r.any_state_wires, r.algo_wires)
    sa, sb, sc = snap(a), snap(b), snap(c_)
    steps = [("add_series", lambda: a.add_series(b), ca + cb), ("add_series-again", lambda: a.add_series(c_), ca + cc),
             ("add_parallel", lambda: a.add_parallel(b), ca + cb), ("add_parallel-again", lambda: b.add_parallel(a), ca + cb),
             ("multiply_series", lambda: a.multiply_series(n), Counter({k: n * v for k, v in ca.items()})),
             ("multiply_parallel", lambda: a.multiply_parallel(n), Counter({k: n * v for k, v in ca.items()})),
             ("chain", lambda: a.add_series(b).add_series(c_), ca + cb + cc)]
    for name, f, exp in steps:
        r = f()
        if _counts(r) != exp:
            return bad(f"algebra:{name}:gate-counts", dict(_counts(r)), dict(exp))
        if r.zeroed_wires < 0 or r.any_state_wires < 0 or r.total_wires < r.algo_wires:
            return bad(f"algebra:{name}:wires", [r.zeroed_wires, r.any_state_wires, r.algo_wires], ">= 0 and total >= algo")
        if (snap(a), snap(b), snap(c_)) != (sa, sb, sc):
            return bad(f"algebra:{name}:operand-modified", [snap(a), snap(b), snap(c_)], [sa, sb, sc])
    return ok(outcome=[sum(ca.values()), sum(cb.values()), sum(cc.values()), n], nontrivial=True)


def check_budget(spec):
    """Tight budgets: over-grab must raise ValueError and never produce negative counters."""
    word, zeroed = spec["word"], spec["zeroed"]
    need = 0
    out = 0
    for l in word:
        u, p = SYN_WIRES[l]
        need = max(need, out + p)
        out += u
    try:
        r = _estimate_word(word, None, zeroed=zeroed, tight=True)
    except ValueError:
        if need <= zeroed:
            return bad("budget:rejected-although-sufficient", "ValueError", {"needed": need, "zeroed": zeroed})
        return skip("ValueError: tight budget exceeded (as the reference predicts)")
    if need > zeroed:
        return bad("budget:accepted-although-insufficient", [r.zeroed_wires, r.any_state_wires], {"needed": need, "zeroed": zeroed})
    if r.zeroed_wires < 0 or r.any_state_wires < 0 or r.zeroed_wires + r.any_state_wires != zeroed:
        return bad("budget:counters", [r.zeroed_wires, r.any_state_wires], {"sum": zeroed})
    return ok(outcome=[r.zeroed_wires, r.any_state_wires], nontrivial=True)


def run(ctx):
    cfgs = []
    for z in (0, 1, 2):
        for a in (0, 1, 2):
            for tight in (False, True):
                cfgs.append({"Z0": z, "A0": a, "Tight": tight, "MaxN": 3 if not ctx.quick else 2, "MaxTotal": 7 if not ctx.quick else 6})
    if ctx.quick:
        cfgs = [c for c in cfgs if (c["Z0"], c["A0"]) in ((0, 0), (1, 1), (2, 0), (0, 2), (2, 2))]
    pool = ctx.pool()
    tot = {"states": 0, "edges": 0, "validated": 0, "paths": 0}
    specs = [{"cfg": c} for c in cfgs]
    for spec, r in zip(specs, pool.imap(_tlc_job, specs)):
        ctx.record(spec, r)
        for k in tot:
            tot[k] += (r.get("x") or {}).get(k, 0)
    n = 2 if ctx.quick else 3
    W = list(words(LETTERS, n, 1))
    ctx.enumerate([{"word": w, "gate_set": g} for w in W for g in (GATE_SETS if len(w) <= 2 else ["default"])], fn="check_word", axis="workflows")
    pool_letters = ["X", "Toffoli", "QFT3", "MCX3", "S1", "S3"]
    ctx.enumerate([{"a": a, "b": b, "c": c_, "n": n} for a in pool_letters for b in pool_letters for c_ in pool_letters[:3] for n in (1, 3)],
                  fn="check_algebra", axis="resources-algebra")
    syn = ["S1", "S2", "S3"]
    ctx.enumerate([{"word": w, "zeroed": z} for w in words(syn, 3, 1) for z in (0, 1, 2, 3, 4)], fn="check_budget", axis="tight-budget")
    ctx.coverage.update({
        "states": tot["states"], "transitions": tot["edges"], "traces_validated_against_impl": tot["validated"] + tot["paths"],
        "tlc_configs": len(cfgs), "spanning_paths_replayed": tot["paths"],
        "alphabet": {"operators": LETTERS, "gate_sets": GATE_SETS, "wire_actions": "grab_zeroed(n), free_wires(n), n in 1..3"},
        "bound": {"word_len": n, "counter_total": 7},
    })


def _tlc_job(spec):
    from mc.engine import _call

    return _call("checks.C47", "check_tlc", spec)
