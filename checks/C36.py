"""C36 — Finite-difference coefficients have their stated accuracy (DESIGN §5.6).

E1, fully exhaustive over the declared (n, approx_order, strategy) grid plus the invalid argument forms.
Oracle: the moment conditions  sum_i c_i s_i^k = k! * delta_{k,n}  for every k < n + approx_order, decided in
exact rational arithmetic: the unique rational rule c* on the *returned* shifts is computed with
fractions.Fraction (Gauss-Jordan on the first N conditions), every remaining condition k < n + approx_order is
verified exactly on c*, and the returned float64 coefficients must equal c* to 1e-9 * max(1, |c*|_inf).
Since the rule is linear and translation invariant, the moment conditions are equivalent to exactness on every
polynomial of degree < n + approx_order at every point (complete argument, no sample polynomials needed)."""
from fractions import Fraction
from math import factorial

from mc.engine import ok, bad, skip

PROPERTY = "C36"
LEVEL = "exploration"
TECHNIQUE = "exhaustive (n, approx_order, strategy) grid; exact rational moment conditions on the returned shifts"
LEVEL_TEXT = ("Every derivative order n<=4 (thorough n<=6) x approx_order<=6 (center <=8; thorough any with n+approx_order<=10) x "
              "strategy in {forward, backward, center} plus the invalid forms is evaluated; the moment conditions for all "
              "k < n+approx_order are decided exactly in rational arithmetic and the float64 coefficients must match the exact "
              "rule to 1e-9 (norm-wise).")
LEVEL_NOTE = ("Reference = fractions.Fraction Gauss-Jordan on the returned (integer) shifts. Stencils with n+approx_order > 10 are not "
              "explored: the implementation solves an ill-conditioned Vandermonde system in float64 and loses more than 1e-9 there "
              "(e.g. forward n=4, approx_order=8: 4e-7), which is rounding, not a wrong rule. Column order is not judged.")
DESIGN_REF = "5.6 C36"
PARALLEL = False
RULE = ("full grid of (n, approx_order, strategy) + invalid argument forms; non-trivial = a rule with more than two points")

STRATEGIES = ["forward", "backward", "center"]
INVALID = [
    {"n": 0, "approx_order": 1, "strategy": "forward"}, {"n": -1, "approx_order": 2, "strategy": "center"},
    {"n": 1, "approx_order": 0, "strategy": "forward"}, {"n": 1, "approx_order": -2, "strategy": "backward"},
    {"n": 1.0, "approx_order": 1, "strategy": "forward"}, {"n": 1, "approx_order": 2.0, "strategy": "center"},
    {"n": 1, "approx_order": 1, "strategy": "centre"}, {"n": 1, "approx_order": 1, "strategy": "Forward"},
    {"n": 2, "approx_order": 2, "strategy": ""},
]
TOL = 1e-9


def exact_rule(shifts, n):
    """Unique c (Fractions) with sum_i c_i s_i^k = k! delta_{kn} for k = 0..N-1 (Vandermonde, distinct shifts)."""
    N = len(shifts)
    M = [[Fraction(s) ** k for s in shifts] + [Fraction(factorial(n)) if k == n else Fraction(0)] for k in range(N)]
    for i in range(N):
        p = next(r for r in range(i, N) if M[r][i] != 0)
        M[i], M[p] = M[p], M[i]
        piv = M[i][i]
        M[i] = [x / piv for x in M[i]]
        for r in range(N):
            if r != i and M[r][i] != 0:
                f = M[r][i]
                M[r] = [x - f * y for x, y in zip(M[r], M[i])]
    return [M[i][N] for i in range(N)]


def check(spec):
    import numpy as np
    from pennylane.gradients import finite_diff_coeffs

    n, a, strat = spec["n"], spec["approx_order"], spec["strategy"]
    # the function is wrapped in functools.cache: start every case from an empty cache so that the verdict is a pure
    # function of the spec (with a warm cache, hash-equal arguments such as approx_order=2.0 bypass the validation)
    clear = getattr(finite_diff_coeffs, "cache_clear", None)
    if clear is not None:
        clear()
    if spec.get("invalid"):
        try:
            r = finite_diff_coeffs(n, a, strat)
        except ValueError:
            return ok("ValueError")
        return bad("invalid:accepted", np.asarray(r).tolist(), "ValueError")
    try:
        r = finite_diff_coeffs(n, a, strat)
    except ValueError as e:
        if strat == "center" and a % 2 == 1:
            return skip("center requires even approx_order")
        return bad(f"valid-rejected:{strat}", str(e), "a rule")
    if strat == "center" and a % 2 == 1:
        return bad("center:odd-order-accepted", np.asarray(r).tolist(), "ValueError")
    r = np.asarray(r)
    again = np.asarray(finite_diff_coeffs(n, a, strat))  # second (cached) call must give the same rule
    if again.shape != r.shape or not np.array_equal(again, r):
        return bad("second-call-differs", again.tolist(), r.tolist())
    if r.ndim != 2 or r.shape[0] != 2 or r.dtype.kind != "f":
        return bad("shape", list(r.shape), "(2, N) float array")
    coeffs, shifts_f = [float(x) for x in r[0]], [float(x) for x in r[1]]
    if any(x != int(x) for x in shifts_f):
        return bad(f"shifts:non-integer:{strat}", shifts_f, "integer multiples of h")
    shifts = [int(x) for x in shifts_f]
    N = len(shifts)
    if len(set(shifts)) != N:
        return bad(f"shifts:repeated:{strat}", shifts, "distinct shifts")
    if strat == "forward" and any(s < 0 for s in shifts):
        return bad("shifts:forward-uses-negative", shifts, ">= 0")
    if strat == "backward" and any(s > 0 for s in shifts):
        return bad("shifts:backward-uses-positive", shifts, "<= 0")
    if strat == "center" and set(shifts) - {0} != {-s for s in shifts} - {0}:
        return bad("shifts:center-not-symmetric", shifts, "symmetric around 0")
    order = n + a
    if N <= n:
        return bad(f"too-few-points:{strat}", shifts, f"more than {n} points for a derivative of order {n}")
    cstar = exact_rule(shifts, n)
    # conditions k = 0..N-1 hold by construction; the stated accuracy needs all k < n + approx_order
    for k in range(N, order):
        m = sum(c * Fraction(s) ** k for c, s in zip(cstar, shifts))
        if m != 0:
            return bad(f"moment-condition:{strat}", {"k": k, "moment": str(m), "shifts": shifts},
                       f"0 for every k < {order} except k = n")
    scale = max(1.0, max(abs(float(c)) for c in cstar))
    err = max(abs(float(c) - x) for c, x in zip(cstar, coeffs))
    if not err <= TOL * scale:
        return bad(f"coefficients:{strat}", coeffs, [str(c) for c in cstar], shifts=shifts, err=err, scale=scale)
    return ok([strat, n, a, sorted(shifts), [str(c) for c in cstar]], nontrivial=N > 2)


def run(ctx):
    specs = []
    nmax = 4 if ctx.quick else 6
    for n in range(1, nmax + 1):
        for strat in STRATEGIES:
            amax = 8 if strat == "center" else 6
            for a in range(1, amax + 1):
                if n + a > 10 and strat != "center":
                    continue
                specs.append({"n": n, "approx_order": a, "strategy": strat})
    if not ctx.quick:
        for n in range(1, 5):
            for a in (7, 8, 9):
                if n + a <= 10:
                    for strat in ("forward", "backward"):
                        specs.append({"n": n, "approx_order": a, "strategy": strat})
    specs.sort(key=lambda s: (s["n"] + s["approx_order"], s["n"], s["strategy"]))
    ctx.enumerate(specs, axis="grid")
    ctx.enumerate([dict(s, invalid=True) for s in INVALID], axis="invalid")
    ctx.coverage["alphabet"] = {"strategy": STRATEGIES, "n": [1, nmax], "approx_order": "1..6 (center 1..8; thorough forward/backward up to n+approx_order<=10)",
                                "invalid": INVALID}
    ctx.coverage["bound"] = {"n_max": nmax, "n_plus_approx_order_max_forward_backward": 10, "tolerance": TOL}
