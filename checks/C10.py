"""C10 — every registered decomposition rule implements its operator exactly (DESIGN §5.2).

E1: registry read at run time; for every key every instance recipe of mc/x_decomp.py; for every instance every rule the
graph system would consider (registered + generic symbolic rules).  Oracle: reference simulation (R-sv) of the recorded
rule on op.wires + work wires equals the operator's matrix, global phase included; zeroed work wires end in |0>,
borrowed ones are untouched; rules with mid-circuit measurements are routed to C13."""
from mc.engine import ok, bad, skip

PROPERTY = "C10"
LEVEL = "exploration"
TECHNIQUE = "exhaustive sweep of the decomposition registry x instance catalogue x applicable rules vs. reference state-vector simulation"
LEVEL_TEXT = ("Every key of the decomposition registry (read at run time) plus the generic Adjoint/Pow/Controlled families is instantiated "
              "from a fixed recipe table (parameters, wire labels, control values, work-wire counts/types, powers); every rule the graph "
              "system lists for the instance is recorded and multiplied out with an independent numpy simulator on <=15 wires and "
              "compared with the operator's matrix including global phase, with work-wire restoration checked on all basis inputs.")
LEVEL_NOTE = ("Trusted: mc.refsim/refgates; matrices of non-table operators emitted by a rule come from qp.matrix (declared dependence on "
              "C01/C02). Operators without a matrix and without a semantic reference are compared with their legacy decomposition "
              "(outcome tag 'legacy-decomposition'), which is weaker. Instances are a fixed finite table, not all parameter values. "
              "Rules with mid-circuit measurements are decided by C13; instances above 15 wires are counted as skipped.")
DESIGN_REF = "5.2 C10"
PARALLEL = True
RULE = ("one case per (registry key, instance expression, rule name); non-trivial = rule applicable, emits >=1 gate and is not the "
        "operator itself")
ASSUMPTIONS = ["matrices of non-table operators emitted by rules are taken from qp.matrix (C01/C02)",
               "template work wires listed inside op.wires are only exercised in |0>"]


def check(spec):
    from mc import x_decomp as X

    op, rules = X.instance(spec["expr"])
    rule = rules.get(spec["rule"])
    if rule is None:
        return bad(f"rule-vanished:{spec['key']}:{spec['rule']}", None, spec["rule"])
    params = X.decomp_args(op)[0]
    if not rule.is_applicable(**params):
        return ok(outcome="inapplicable", nontrivial=False)
    try:
        queue = X.emit(op, rule)
    except Exception as e:  # noqa: BLE001 - a rule that reports itself applicable must run
        if isinstance(e, (ImportError, MemoryError, OSError)):
            raise
        return bad(f"rule-raised:{type(e).__name__}:{spec['key']}:{spec['rule']}", f"{type(e).__name__}: {e}"[:300], "rule runs", expr=spec["expr"])
    if X.has_measurement(queue):
        return ok(outcome="routed-to-C13", nontrivial=False)
    try:
        sim_ops = X.expand_for_sim(queue)
        if X.has_measurement(sim_ops):
            return ok(outcome="routed-to-C13(nested)", nontrivial=False)
        lay = X.Layout(op, sim_ops)
        legacy = None if getattr(op, "has_matrix", False) else X.legacy_ops(op)
        v, info = X.verify_unitary(op, lay, legacy)
    except X.TooBig as e:
        return skip(f"too-big:{e}")
    except X.Unsimulable as e:
        return skip(f"unsimulable:{e}")
    if v is not None:
        tag, obs, exp = v
        sig = f"{tag}:{spec['rule']}" if tag == "fractional-power-branch" else f"{tag}:{spec['key']}:{spec['rule']}"
        return bad(sig, obs, exp, expr=spec["expr"], source=info.get("source"), n_ops=len(lay.ops))
    nontrivial = len(lay.ops) > 0 and not (len(lay.ops) == 1 and type(lay.ops[0]) is type(op))
    kinds = sorted(set(k for _w, _s, _r, k in lay.dyn))
    return ok(outcome=[spec["key"], spec["rule"], len(lay.ops), lay.n, kinds, info.get("source"), info.get("phase_checked")],
              nontrivial=nontrivial)


def run(ctx):
    from mc import x_decomp as X

    cases, cov = X.enumerate_cases(ctx.tier)
    ctx.enumerate(cases, axis="(key, instance, rule)")
    ctx.coverage.update(cov)
