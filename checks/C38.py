"""C38 — Metric tensors equal the Fubini-Study metric (DESIGN §5.6).

E2 x route product.  Layered circuits = 1-3 parametrized layers, each a word of length <= 2 over {RX, RY, RZ, IsingXX,
PhaseShift, CRY, PauliRot(XY)} (CRY has a two-term generator and must be decomposed by the transform), separated by
entangling / basis-change layers {CNOT, H}; behind a fixed parameter-free prefix; classical pre-processing distinct /
shared / 2x / x^2 / sin x between the QNode argument vector and the gate angles; labels standard / strings / mixed.
Routes: metric_tensor approx=None (Hadamard tests, aux wire; also allow_nonunitary=False), approx="block-diag", approx="diag",
tape-level metric_tensor with argnum subsets, adjoint_metric_tensor, quantum_fisher; autograd, plus jax / torch on a subset.
Oracle: g_ij = Re( <d_i psi|d_j psi> - <d_i psi|psi><psi|d_j psi> ) with the state from an independent plain-numpy
simulation and its derivatives w.r.t. the QNode arguments by 8th-order central differences (1e-7).  The block-diagonal
and diagonal approximations are compared at gate level (no pre-processing) with the full reference tensor masked by an
independently computed greedy layering (a parametrized gate opens a new layer iff it depends, through shared wires, on
a gate of the current layer); quantum_fisher = 4 g.
"""
import itertools

import numpy as np

from mc.engine import ok, bad, skip
from mc import refsim as RS
from mc import x_diff as XD

PROPERTY = "C38"
LEVEL = "exploration"
TECHNIQUE = "bounded exhaustive layered-circuit x route enumeration vs Fubini-Study metric from finite differences of an independent simulator"
LEVEL_TEXT = ("Every 1-layer circuit (56 words), 2-layer circuits over a 4-letter (thorough 7-letter) layer alphabet x 2 separators and "
              "(thorough) 3 single-gate layers, with pre-processing patterns and label sets, through metric_tensor (full / block-diag / "
              "diag / allow_nonunitary=False / tape-level argnum), adjoint_metric_tensor and quantum_fisher; compared with the "
              "Fubini-Study metric of an independent plain-numpy simulation (1e-7).")
LEVEL_NOTE = ("Reference state by tensordot from closed-form matrices; derivatives by 8th-order central differences (h=1e-2). Block / "
              "diagonal masks from an independent re-implementation of the documented greedy layering. Finite-shot metric tensors "
              "(stochastic) and Catalyst are not explored.")
DESIGN_REF = "5.6 C38"
START = "spawn"
PARALLEL = True
RULE = ("one case = (layered circuit, pre-processing, labels) x route; non-trivial = the reference tensor has a non-zero off-diagonal entry "
        "(full routes) / at least two parameters (approximations)")

LAYER = ["RX", "RY", "RZ1", "IsingXX", "PhaseShift", "CRY", "PauliRot"]
LAYER_Q = ["RX", "RY", "IsingXX", "CRY"]
SEPS = ["CNOT", "H"]
TOL = 1e-7


def fs_metric(c):
    """Fubini-Study metric w.r.t. the QNode argument vector from the reference simulator."""
    z = XD.z0(c)

    def psi(y):
        return XD.ref_state(c, [float(x) for x in XD.gate_params(c, np.asarray(y, dtype=float), np)]).reshape(-1)

    p0 = psi(z)
    D = RS.fd_jacobian(psi, z)  # (dim, n) complex
    G = D.conj().T @ D
    b = D.conj().T @ p0  # <d_i psi | psi>
    return np.real(G - np.outer(b, b.conj()))


def ref_layers(w):
    """Greedy layering of the parametrized gates of word w (positions in the parameter list), prefix gates ignored
    (they are parameter-free, and dependencies through them do not involve a parametrized gate)."""
    ops = []  # (wires, is_param)
    for l in w:
        npar, pos = XD.LETTERS[l]
        ops.append((set(pos), npar))
    anc = []  # ancestor sets (indices into ops)
    last_on = {}
    for i, (ws, _) in enumerate(ops):
        a = set()
        for q in ws:
            if q in last_on:
                a |= {last_on[q]} | anc[last_on[q]]
        anc.append(a)
        for q in ws:
            last_on[q] = i
    layers, cur, cur_ops, k = [], [], set(), 0
    for i, (ws, npar) in enumerate(ops):
        if not npar:
            continue
        if anc[i] & cur_ops:
            layers.append(cur)
            cur, cur_ops = [], set()
        cur.append(k)
        cur_ops.add(i)
        k += 1
    layers.append(cur)
    return [l for l in layers if l]


def to_np(x):
    if hasattr(x, "detach"):
        x = x.detach().numpy()
    return np.asarray(x, dtype=float)


def mk_arg(iface, z):
    if iface == "autograd":
        from pennylane import numpy as anp

        return anp.array(z, requires_grad=True)
    if iface == "jax":
        import jax

        jax.config.update("jax_enable_x64", True)
        import jax.numpy as jnp

        return jnp.asarray(z)
    import torch

    return torch.tensor(z, dtype=torch.float64, requires_grad=True)


def check(spec):
    import pennylane as qp

    c, route, iface = spec["c"], spec["route"], spec.get("iface", "autograd")
    lab = XD.LABS[c["lab"]]
    nw = XD.n_wires(c["w"])
    dev = qp.device("default.qubit", wires=list(lab[:nw]) + ["aux"])
    qn = XD.make_qnode(c, dev, iface, "parameter-shift" if iface != "autograd" else "best")
    z = XD.z0(c)
    n = len(z)
    G = fs_metric(c)
    tag = f"{route}:{iface}"
    if ("CRY" in c["w"] or ("PhaseShift" in c["w"] and XD.n_gate_params(c["w"]) >= 2)) and route not in ("adjoint", "fisher"):
        # recorded defect class (generator contains a Projector): one signature per route / interface
        tag = f"projector-generator:{route}:{iface}"
    if route in ("full", "full-unitary", "adjoint", "fisher"):
        if route == "full":
            g = qp.metric_tensor(qn, approx=None, aux_wire="aux")(mk_arg(iface, z))
        elif route == "full-unitary":
            try:
                g = qp.metric_tensor(qn, approx=None, allow_nonunitary=False, aux_wire="aux")(mk_arg(iface, z))
            except ValueError as e:
                if "non-unitary operations deactivated via allow_nonunitary=False" in str(e):
                    return skip("allow_nonunitary=False: generator not in the table of unitary generators")
                raise
        elif route == "adjoint":
            g = qp.adjoint_metric_tensor(qn)(mk_arg(iface, z))
        else:
            g = qp.gradients.quantum_fisher(qn)(mk_arg(iface, z))
        g = to_np(g)
        want = 4 * G if route == "fisher" else G
        if g.shape != want.shape and g.size == want.size:
            g = g.reshape(want.shape)  # a single QNode argument entry may come back as a scalar
        return compare(g, want, tag if tag.startswith("projector") else f"{tag}:{c['share']}", c)
    if route in ("block-diag", "diag"):
        g = to_np(qp.metric_tensor(qn, approx=route)(mk_arg(iface, z)))
        layers = ref_layers(c["w"])
        mask = np.zeros((n, n), dtype=bool)
        if route == "diag":
            mask = np.eye(n, dtype=bool)
        else:
            for L in layers:
                for i in L:
                    for j in L:
                        mask[i, j] = True
        if g.shape != G.shape and g.size == G.size:
            g = g.reshape(G.shape)
        return compare(g, G * mask, f"{tag}", c, layers=layers)
    if route == "tape-argnum":
        from pennylane import numpy as anp

        tape = qp.workflow.construct_tape(qn)(anp.array(z, requires_grad=True))
        keepidx = spec["argnum"]
        idx = [i for i in {"first": [0], "last": [n - 1], "ends": sorted({0, n - 1}), "all-but-first": list(range(1, n))}[keepidx]]
        if not idx:
            return skip("empty argnum")
        tapes, fn = qp.metric_tensor(tape, argnum=[tape.trainable_params[i] for i in idx], approx=None, aux_wire="aux")
        g = to_np(fn(dev.execute(tapes)))
        mask = np.zeros((n, n), dtype=bool)
        for i in idx:
            for j in idx:
                mask[i, j] = True
        if g.shape != G.shape and g.size == G.size:
            g = g.reshape(G.shape)
        return compare(g, G * mask, tag if tag.startswith("projector") else f"{tag}:{keepidx}", c)
    raise KeyError(route)


def compare(g, want, tag, c, **extra):
    if g.shape != want.shape:
        return bad(f"metric-shape:{tag}", list(g.shape), list(want.shape))
    err = float(np.max(np.abs(g - want))) if g.size else 0.0
    if not err <= TOL:
        i = np.unravel_index(np.argmax(np.abs(g - want)), g.shape)
        where = "diagonal" if i[0] == i[1] else "off-diagonal"
        sig = f"metric-value:{tag}" if tag.startswith("projector") else f"metric-value:{tag}:{where}:{'+'.join(sorted(set(c['w'])))}"
        return bad(sig, np.round(g, 8), np.round(want, 8), err=err, **extra)
    n = want.shape[0]
    off = want[~np.eye(n, dtype=bool)] if n > 1 else np.zeros(0)
    return ok(outcome=[np.round(want, 5).tolist()[:2], extra.get("layers")], nontrivial=bool(np.any(np.abs(off) > 1e-9)) or (n > 1 and "layers" in extra))


def layer_words(alpha):
    return [[a] for a in alpha] + [[a, b] for a in alpha for b in alpha]


def circuits(ctx):
    q = ctx.quick
    out = []
    words = list(layer_words(LAYER))  # one layer
    two_alpha = LAYER_Q if q else LAYER
    k = 0
    for l1 in layer_words(two_alpha):
        for s in SEPS:
            for l2 in layer_words(two_alpha):
                k += 1
                if k % (4 if q else 9):
                    continue
                words.append(l1 + [s] + l2)
    if not q:
        three = ["RX", "RY", "IsingXX", "CRY", "PhaseShift"]
        for a, s1, b, s2, d in itertools.product(three, SEPS, three, SEPS, three):
            k += 1
            if k % 2:
                continue
            words.append([a, s1, b, s2, d])
    for wi, w in enumerate(words):
        p = XD.n_gate_params(w)
        shares = ["distinct", "2x", "sq", "sin"] + (["shared"] if p >= 2 else [])
        # every circuit without pre-processing; one rotating pre-processing pattern per circuit
        for share in ("distinct", shares[1 + wi % (len(shares) - 1)]):
            out.append({"w": w, "share": share, "meas": "E", "lab": ["std", "str", "mix"][wi % 3], "bcast": False})
    return out


def run(ctx):
    q = ctx.quick
    circs = circuits(ctx)
    specs = []
    for ci, c in enumerate(circs):
        for route in ("full", "adjoint", "fisher"):
            specs.append({"c": c, "route": route})
        if ci % 3 == 0:
            specs.append({"c": c, "route": "full-unitary"})
        if c["share"] == "distinct":
            specs.append({"c": c, "route": "block-diag"})
            specs.append({"c": c, "route": "diag"})
            if XD.n_gate_params(c["w"]) >= 2:
                for a in ("first", "last", "ends", "all-but-first"):
                    specs.append({"c": c, "route": "tape-argnum", "argnum": a})
    ctx.enumerate(specs, axis="autograd", chunk=12)
    fam = circs[:: (30 if q else 10)]
    specs = [{"c": c, "route": r, "iface": i} for c in fam for i in ("jax", "torch") for r in ("full", "adjoint", "block-diag")
             if not (r == "block-diag" and c["share"] != "distinct")]
    ctx.enumerate(specs, axis="jax-torch", chunk=4)
    ctx.coverage["alphabet"] = {"layer_gates": LAYER, "two_layer_gates": LAYER_Q if q else LAYER, "separators": SEPS,
                                "pre_processing": ["distinct", "shared", "2x", "sq", "sin"], "labels": XD.LABS,
                                "routes": ["full", "full-unitary", "block-diag", "diag", "tape-argnum", "adjoint", "fisher"],
                                "interfaces": ["autograd", "jax", "torch"]}
    ctx.coverage["bound"] = {"layers": 2 if q else 3, "layer_len": 2, "circuits": len(circs)}
