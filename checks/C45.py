"""C45 — Wires behave as an ordered set of labels (DESIGN §5.8).

E1, fully exhaustive: every label list of length <= 3 over {0,1,2,'a','ab',(0,1)} (duplicates => WireError),
every ordered pair of valid lists for the binary operators / equality / hashing / indices, every ordered
triple for all_wires / shared_wires / unique_wires, every label / index / wire-map argument in and out of
range for index / indices / map / subset.

Oracle: a plain Python list-without-duplicates model.  The set operators (| & - ^ and their named /
reflected forms) are compared as *sets* (the property says "agree with set semantics"; the implementation
builds them from Python sets, so no order is promised); `+`, all_wires, shared_wires, unique_wires are
compared *with* order (their docstrings promise first-seen order); index/indices/map/subset follow the
label order; == and hash are order-sensitive.

Labels are encoded in specs as indices into LABELS (JSON has no tuples)."""
import itertools

from mc.engine import ok, bad, skip

PROPERTY = "C45"
LEVEL = "exploration"
TECHNIQUE = "bounded exhaustive enumeration of label lists / pairs / triples vs. list-without-duplicates and set model"
LEVEL_TEXT = ("Every label list of length <=3 over 6 labels (ints, 1- and 2-character strings, a tuple), every ordered pair "
              "(set operators, +, ==, hash, indices), every ordered triple (all/shared/unique_wires; quick: third list of "
              "length <=2), and every in/out-of-range argument of index/indices/map/subset is compared with a Python "
              "list/set model.")
LEVEL_NOTE = ("Reference = Python list/set/dict. Set operators are compared as sets only (no order is documented). Out-of-range "
              "subset indices must be rejected (WireError or IndexError accepted). Labels outside the alphabet, jax/numpy "
              "array labels, select_random and the pytree hooks are not explored.")
DESIGN_REF = "5.8 C45"
PARALLEL = True
RULE = ("all label lists up to the length bound; all ordered pairs and triples of duplicate-free lists; all arguments of "
        "index/indices/map/subset over the declared ranges; non-trivial = operands overlap partially / result non-empty / "
        "an out-of-order or out-of-range argument is involved")

LABELS = [0, 1, 2, "a", "ab", (0, 1)]
MAP_TARGETS = [0, "a", (0, 1), 5]
SPECIAL = [
    # (constructor-argument code, expected labels or error name)
    ("int0", [0]), ("str_ab", ["ab"]), ("tuple01", [0, 1]), ("empty", []), ("none", "TypeError"),
    ("nested_list", "WireError"), ("int_float", "WireError"), ("int_bool", "WireError"), ("range3", [0, 1, 2]),
    ("wires_obj", [2, "a"]), ("dup_tuple_label", "WireError"), ("tuple_vs_parts", [(0, 1), 0, 1]),
]


def lab(code):
    return [LABELS[i] for i in code]


def valid_codes(maxlen):
    out = []
    for n in range(maxlen + 1):
        for w in itertools.product(range(len(LABELS)), repeat=n):
            if len(set(w)) == n:
                out.append(list(w))
    return out


def uniq(seq):
    return list(dict.fromkeys(seq))


def _same_wires(W, obs, model, what, ordered):
    """obs must be a Wires object without duplicates whose labels equal `model` (as list or as set)."""
    if not isinstance(obs, W):
        return bad(f"{what}:type", type(obs).__name__, "Wires")
    L = list(obs.labels)
    if len(set(L)) != len(L):
        return bad(f"{what}:duplicates", repr(L), repr(model))
    if ordered:
        if L != list(model):
            return bad(f"{what}:labels", repr(L), repr(list(model)))
    elif set(L) != set(model) or len(L) != len(set(model)):
        return bad(f"{what}:set", repr(L), repr(sorted(set(model), key=repr)))
    return None


# --------------------------------------------------------------------------------------------- construction
def check_ctor(spec):
    from pennylane.wires import Wires
    from pennylane.exceptions import WireError

    if "special" in spec:
        name = spec["special"]
        arg = {"int0": 0, "str_ab": "ab", "tuple01": (0, 1), "empty": [], "none": None, "nested_list": [[0], 1],
               "int_float": [0, 0.0], "int_bool": [1, True], "range3": range(3), "wires_obj": None, "gen": None,
               "dup_tuple_label": [(0, 1), (0, 1)], "tuple_vs_parts": [(0, 1), 0, 1]}[name]
        if name == "wires_obj":
            arg = Wires([2, "a"])
        if name == "gen":
            arg = (x for x in [1, 0])
        exp = dict(SPECIAL)[name]
        try:
            w = Wires(arg)
        except WireError:
            return ok("WireError") if exp == "WireError" else bad(f"ctor:{name}:raised", "WireError", repr(exp))
        except TypeError:
            return ok("TypeError") if exp == "TypeError" else bad(f"ctor:{name}:raised", "TypeError", repr(exp))
        if isinstance(exp, str):
            return bad(f"ctor:{name}:accepted", repr(w), exp)
        if list(w.labels) != exp:
            return bad(f"ctor:{name}:labels", repr(w.labels), repr(exp))
        return ok(repr(exp))

    L = lab(spec["a"])
    dup = len(set(L)) != len(L)
    forms = {"list": list(L), "tuple": tuple(L), "iter": iter(list(L))}
    for fname in [spec["form"]]:
        arg = forms[fname]
        try:
            w = Wires(arg)
        except WireError:
            if dup:
                continue
            return bad(f"ctor:{fname}:rejected-unique", "WireError", repr(L))
        if dup:
            return bad(f"ctor:{fname}:accepted-duplicates", repr(w), "WireError")
        if list(w.labels) != L or w.tolist() != L or list(w) != L or len(w) != len(L) or tuple(w.labels) != tuple(L):
            return bad(f"ctor:{fname}:labels", repr(w.labels), repr(L))
        if [w[i] for i in range(len(L))] != L or [w[-i - 1] for i in range(len(L))] != L[::-1]:
            return bad(f"ctor:{fname}:getitem", repr([w[i] for i in range(len(L))]), repr(L))
        if w.toset() != set(L):
            return bad(f"ctor:{fname}:toset", repr(w.toset()), repr(set(L)))
        for s in (slice(0, 2), slice(1, None), slice(None, None, -1), slice(0, 0)):
            v = _same_wires(Wires, w[s], L[s], f"ctor:{fname}:slice", True)
            if v:
                return v
        w2 = Wires(w)
        if not (w2 == w and hash(w2) == hash(w) and list(w2.labels) == L):
            return bad(f"ctor:{fname}:rewrap", repr(w2), repr(w))
        for x in LABELS:
            if (x in w) != (x in L):
                return bad(f"ctor:{fname}:contains", x in w, x in L)
    if dup:
        return ok("WireError", nontrivial=True)
    return ok(["ok", len(L)], nontrivial=len(L) > 1)


# --------------------------------------------------------------------------------------------- pairs
def _forms(Wires, B):
    """the three ways an operand may be passed: Wires, list, tuple."""
    return (("W", Wires(list(B))), ("list", list(B)), ("tuple", tuple(B)))


def check_pair(spec):
    from pennylane.wires import Wires

    A, B = lab(spec["a"]), lab(spec["b"])
    a, b = Wires(list(A)), Wires(list(B))
    sa, sb = set(A), set(B)
    model = {"union": sa | sb, "intersection": sa & sb, "difference": sa - sb, "symmetric_difference": sa ^ sb}
    for name, m in model.items():
        for fname, other in _forms(Wires, B):
            v = _same_wires(Wires, getattr(a, name)(other), m, f"{name}:{fname}", False)
            if v:
                return v
    import operator as op

    for sym, f, name in (("or", op.or_, "union"), ("and", op.and_, "intersection"), ("sub", op.sub, "difference"),
                         ("xor", op.xor, "symmetric_difference")):
        for fname, other in _forms(Wires, B):
            v = _same_wires(Wires, f(a, other), model[name], f"op:{sym}:{fname}", False)
            if v:
                return v
        # reflected: list/tuple on the left.  tuple - / ^ / | / & Wires all dispatch to Wires.__r*__
        for fname, left in (("list", list(A)), ("tuple", tuple(A))):
            v = _same_wires(Wires, f(left, b), model[name], f"rop:{sym}:{fname}", False)
            if v:
                return v
    # + keeps first-seen order (documented on __add__ / all_wires)
    for fname, other in _forms(Wires, B):
        v = _same_wires(Wires, a + other, uniq(A + B), f"add:{fname}", True)
        if v:
            return v
    for fname, left in (("list", list(A)), ("tuple", tuple(A))):
        v = _same_wires(Wires, left + b, uniq(A + B), f"radd:{fname}", True)
        if v:
            return v
    # operands untouched
    if list(a.labels) != A or list(b.labels) != B:
        return bad("pair:operand-mutated", [repr(a), repr(b)], [repr(A), repr(B)])
    # equality / hash respect order
    same = A == B
    if (a == b) != same or (b == a) != same or (a != b) == same:
        return bad("eq:mismatch", [a == b, b == a, a != b], same)
    if same and hash(a) != hash(b):
        return bad("hash:equal-wires-differ", [hash(a), hash(b)], "equal")
    if not same and sa == sb and hash(a) == hash(b):
        return bad("hash:order-insensitive", [repr(a), repr(b)], "different hashes for different orders")
    if (len({a, b}) == 1) != same:
        return bad("hash:set-membership", len({a, b}), 1 if same else 2)
    # contains_wires
    if a.contains_wires(b) != sb.issubset(sa):
        return bad("contains_wires", a.contains_wires(b), sb.issubset(sa))
    # indices(b) for every way of passing b
    from pennylane.exceptions import WireError

    exp = [A.index(x) for x in B] if sb <= sa else "WireError"
    for fname, other in _forms(Wires, B):
        try:
            got = a.indices(other)
        except WireError:
            got = "WireError"
        if got != exp:
            return bad(f"indices:{fname}", repr(got), repr(exp))
    kind = "eq" if same else "perm" if sa == sb else "disjoint" if not (sa & sb) else "sub" if (sa <= sb or sb <= sa) else "overlap"
    return ok([kind, len(sa | sb), len(sa & sb), exp if isinstance(exp, str) else len(exp)],
              nontrivial=bool(sa & sb) and not same)


# --------------------------------------------------------------------------------------------- triples
def _triple_models(Ls):
    allw = uniq([x for L in Ls for x in L])
    shared = [x for x in Ls[0] if all(x in L for L in Ls[1:])]
    cnt = {}
    for L in Ls:
        for x in L:
            cnt[x] = cnt.get(x, 0) + 1
    unique = [x for L in Ls for x in L if cnt[x] == 1]
    return allw, shared, unique


def check_triple(spec):
    """spec: a, b fixed; the third list ranges over ALL valid lists of length <= spec['cmax'] inside."""
    from pennylane.wires import Wires

    A, B = lab(spec["a"]), lab(spec["b"])
    fp = [0, 0, 0, 0]
    n = 0
    for c in valid_codes(spec["cmax"]):
        C = lab(c)
        Ls = [A, B, C]
        ws = [Wires(list(L)) for L in Ls]
        allw, shared, unique = _triple_models(Ls)
        for name, got, m in (("all_wires", Wires.all_wires(ws), allw), ("shared_wires", Wires.shared_wires(ws), shared),
                             ("unique_wires", Wires.unique_wires(ws), unique)):
            v = _same_wires(Wires, got, m, name, True)
            if v:
                v["x"] = dict(v.get("x") or {}, c=c, lists=repr(Ls))
                return v
        if not c:  # once per (a, b): the two-element and one-element lists, list (not Wires) entries, sort=True
            allw2, shared2, unique2 = _triple_models([A, B])
            for name, got, m in (("all_wires2", Wires.all_wires(ws[:2]), allw2), ("shared_wires2", Wires.shared_wires(ws[:2]), shared2),
                                 ("unique_wires2", Wires.unique_wires(ws[:2]), unique2),
                                 ("all_wires1", Wires.all_wires(ws[:1]), A), ("shared_wires1", Wires.shared_wires(ws[:1]), A),
                                 ("unique_wires1", Wires.unique_wires(ws[:1]), A),
                                 ("all_wires:list-entries", Wires.all_wires([list(A), tuple(B)]), allw2)):
                v = _same_wires(Wires, got, m, name, True)
                if v:
                    return v
            srt = Wires.all_wires(ws[:2], sort=True)
            exp = sorted(allw2) if all(isinstance(x, int) for x in allw2) else sorted(allw2, key=str)
            v = _same_wires(Wires, srt, exp, "all_wires:sort", True)
            if v:
                return v
        for L in zip(Ls, ws):
            if list(L[1].labels) != L[0]:
                return bad("triple:operand-mutated", repr(L[1]), repr(L[0]))
        n += 1
        fp[0] += len(allw)
        fp[1] += len(shared)
        fp[2] += len(unique)
        fp[3] += sum(1 for x in allw if sum(x in L for L in Ls) == 3)
    return ok(fp, nontrivial=fp[3] > 0 or fp[1] > 0, triples=n)


# --------------------------------------------------------------------------------------------- index / map / subset
def check_index(spec):
    from pennylane.wires import Wires
    from pennylane.exceptions import WireError

    A = lab(spec["a"])
    a = Wires(list(A))
    hits = 0
    for x in LABELS + [3, "b", (1, 0)]:
        exp = A.index(x) if x in A else "WireError"
        for fname, arg in (("label", x), ("wires1", Wires([x]))):
            try:
                got = a.index(arg)
            except WireError:
                got = "WireError"
            if got != exp:
                return bad(f"index:{fname}", repr(got), repr(exp), label=repr(x))
        # indices with a single (non-iterable or 1-character string) label: documented "Number, str"
        if not isinstance(x, tuple) and not (isinstance(x, str) and len(x) > 1):
            try:
                got = a.indices(x)
            except WireError:
                got = "WireError"
            exp1 = [exp] if exp != "WireError" else exp
            if got != exp1:
                return bad(f"indices:single:{type(x).__name__}", repr(got), repr(exp1), label=repr(x))
        hits += exp != "WireError"
    for other in ([], [0, 1], ["a", 0]):
        try:
            got = a.index(Wires(other))
        except WireError:
            got = "WireError"
        if got != "WireError":
            return bad("index:wires-len!=1", repr(got), "WireError")
    return ok([len(A), hits], nontrivial=len(A) > 1)


def check_indices_str(spec):
    """`indices` documents a bare `str` as a single wire label; here with a 2-character label (own spec kind so that a
    failure does not mask the other index checks)."""
    from pennylane.wires import Wires
    from pennylane.exceptions import WireError

    A = lab(spec["a"])
    a = Wires(list(A))
    x = spec["label"]
    exp = [A.index(x)] if x in A else "WireError"
    try:
        got = a.indices(x)
    except WireError:
        got = "WireError"
    if got != exp:
        return bad("indices:single:str-multichar", repr(got), repr(exp), label=repr(x), wires=repr(A))
    return ok([exp if isinstance(exp, str) else exp[0]], nontrivial=exp != "WireError")


def check_map(spec):
    """spec: a = label list; vals = target index per position (into MAP_TARGETS); drop = position whose key is
    missing from the map (or None); extra = add an unused key."""
    from pennylane.wires import Wires
    from pennylane.exceptions import WireError

    A = lab(spec["a"])
    a = Wires(list(A))
    vals = [MAP_TARGETS[i] for i in spec["vals"]]
    wm = {k: v for i, (k, v) in enumerate(zip(A, vals)) if i != spec["drop"]}
    if spec["extra"]:
        wm["zz"] = vals[0] if vals else 0
    keys_before = dict(wm)
    if spec["drop"] is not None or len(set(vals)) != len(vals):
        exp = "WireError"
    else:
        exp = vals
    try:
        got = a.map(wm)
    except WireError:
        got = "WireError"
    if exp == "WireError":
        if got != "WireError":
            return bad("map:accepted-" + ("missing-key" if spec["drop"] is not None else "non-injective"), repr(got), "WireError")
        return ok("WireError", nontrivial=True)
    if got == "WireError":
        return bad("map:rejected-valid", "WireError", repr(exp))
    v = _same_wires(Wires, got, exp, "map", True)
    if v:
        return v
    if wm != keys_before or list(a.labels) != A:
        return bad("map:mutated-input", repr(wm), repr(keys_before))
    return ok([len(A), len(set(vals) & set(A))], nontrivial=len(A) > 1)


def check_subset(spec):
    from pennylane.wires import Wires
    from pennylane.exceptions import WireError

    A = lab(spec["a"])
    a = Wires(list(A))
    n = len(A)
    idx, per = spec["idx"], spec["periodic"]
    arg = idx[0] if spec.get("as_int") else list(idx)
    if per:
        exp = [A[i % n] for i in idx] if (n or not idx) else "reject"
    else:
        exp = [A[i] for i in idx] if all(-n <= i < n for i in idx) else "reject"
    try:
        got = a.subset(arg, periodic_boundary=per)
    except (WireError, IndexError):
        got = "reject"
    except ZeroDivisionError:
        got = "reject" if (per and n == 0) else "ZeroDivisionError"
    if exp == "reject":
        if got != "reject":
            return bad("subset:accepted-out-of-range", repr(got), "WireError/IndexError", periodic=per)
        return ok("reject", nontrivial=True)
    if got == "reject":
        return bad("subset:rejected-in-range", "error", repr(exp), periodic=per)
    if not isinstance(got, Wires) or list(got.labels) != exp:
        return bad("subset:labels" + (":periodic" if per else ""), repr(got), repr(exp))
    if list(a.labels) != A:
        return bad("subset:mutated", repr(a), repr(A))
    wrapped = any(not (0 <= i < n) for i in idx)
    return ok([len(exp), wrapped, len(set(exp)) != len(exp)], nontrivial=len(idx) > 1 or wrapped)


# --------------------------------------------------------------------------------------------- driver
def run(ctx):
    nlab = len(LABELS)
    all_lists = [list(w) for n in range(4) for w in itertools.product(range(nlab), repeat=n)]
    valid = valid_codes(3)
    cmax = 2 if ctx.quick else 3
    ctx.enumerate([{"a": w, "form": f} for f in ("list", "tuple", "iter") for w in all_lists] + [{"special": s} for s, _ in SPECIAL],
                  fn="check_ctor", axis="ctor")
    ctx.enumerate([{"a": a, "b": b} for a in valid for b in valid], fn="check_pair", axis="pair")
    ctx.enumerate([{"a": a, "b": b, "cmax": cmax} for a in valid for b in valid], fn="check_triple", axis="triple(a,b;all c)")
    ctx.enumerate([{"a": a} for a in valid], fn="check_index", axis="index")
    ctx.enumerate([{"a": a, "label": x} for a in valid for x in ("ab", "a0", "ba")], fn="check_indices_str", axis="indices(str)")
    maps = []
    for a in valid:
        for vals in itertools.product(range(len(MAP_TARGETS)), repeat=len(a)):
            for drop in [None] + list(range(len(a))):
                for extra in (False, True):
                    maps.append({"a": a, "vals": list(vals), "drop": drop, "extra": extra})
    ctx.enumerate(maps, fn="check_map", axis="map")
    subs = []
    for a in valid:
        n = len(a)
        rng = list(range(-n - 2, 2 * n + 3))
        for per in (False, True):
            for i in rng:
                subs.append({"a": a, "idx": [i], "periodic": per, "as_int": True})
            subs.append({"a": a, "idx": [], "periodic": per})
            for k in (1, 2, 3) if n <= 2 or not ctx.quick else (1, 2):
                small = list(range(-n - 1, n + 2))
                for idx in itertools.product(small, repeat=k):
                    subs.append({"a": a, "idx": list(idx), "periodic": per})
    ctx.enumerate(subs, fn="check_subset", axis="subset")
    nvalid_c = len(valid_codes(cmax))
    ctx.coverage["alphabet"] = {"labels": [repr(x) for x in LABELS], "map_targets": [repr(x) for x in MAP_TARGETS],
                                "operand_forms": ["Wires", "list", "tuple"], "special_ctor": [s for s, _ in SPECIAL]}
    ctx.coverage["bound"] = {"max_len": 3, "third_list_max_len": cmax, "valid_lists": len(valid)}
    ctx.coverage["triples_checked"] = len(valid) ** 2 * nvalid_c
