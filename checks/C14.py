"""C14 — Unitary synthesis reproduces any unitary (DESIGN §5.3).

E1, structured exhaustive families instead of Haar sampling:
  1q  24 Cliffords x phases, RX/RY/RZ(ANG), Rot(ANG^3), diagonal / anti-diagonal, near-degenerate theta
      x rotations {rot, ZYZ, XYX, XZX, ZXZ} x {function, function+global phase, decomposition rule}
  2q  (A x B).G.(C x D) for a table of cores G (0/1/2/3-CNOT classes, parametrised gates over ANG, all 24 basis
      permutations, diagonals) x local dressings x phases, and the class-boundary family exp(i(aXX+bYY+cZZ)),
      (a,b,c) in {0, e, pi/4-e, pi/4, pi/4+e}^3, e in {1e-3, 1e-6, 1e-9}
  nq  multi_qubit_decomposition on structured 2-, 3- and 4-qubit unitaries (Toffoli, CSWAP, QFT, products,
      controlled two-qubit, block-diagonal, diagonal, permutation, fixed generic)
Oracle: the product of the returned operators, multiplied out with closed-form reference matrices
(mc.x_synth.product), equals the input matrix; two-qubit output contains <= 3 CNOTs; operator types are the
documented ones.
"""
import itertools
import math

from mc.engine import ok, bad, skip

PROPERTY = "C14"
LEVEL = "exploration"
TECHNIQUE = "bounded exhaustive enumeration of structured unitary families vs. closed-form product of the returned gates"
LEVEL_TEXT = ("Every member of finite structured families of 1-, 2-, 3- and 4-qubit unitaries (Cliffords, rotations over the "
              "angle alphabet, locally dressed 0/1/2/3-CNOT cores, the class-boundary grid exp(i(aXX+bYY+cZZ)) with "
              "eps in {1e-3,1e-6,1e-9}, Toffoli/QFT/controlled/block-diagonal n-qubit matrices) is synthesised by the real "
              "one_/two_/multi_qubit_decomposition functions and their QubitUnitary rules and multiplied back out; the two-qubit "
              "families also with the synthesis traced by jax.jit.")
LEVEL_NOTE = ("Reference = numpy product of closed-form gate matrices (mc.refgates / mc.x_synth); 'every unitary' is reduced "
              "to these families (dense at special points, sparse elsewhere); equality tolerance 1e-8 (the implementation's own "
              "np.allclose working precision); two-qubit synthesis is also run traced by jax.jit (axis 2q-jit); capture / qjit paths and differentiability are not explored.")
DESIGN_REF = "5.3 C14"
START = "fork"
PARALLEL = True
RULE = ("complete enumeration of the family tables x rotation conventions x entry points; non-trivial = the unitary is not a "
        "multiple of the identity")
ASSUMPTIONS = ["numerical equality means max-abs entry difference <= 1e-8 (float64 inputs, eigen-decomposition based synthesis)"]

TOL = 1e-8
PI = math.pi
ROTS = ["rot", "ZYZ", "XYX", "XZX", "ZXZ"]
RULE_OF = {"rot": "rot_decomp_rule", "ZYZ": "zyz_decomp_rule", "XYX": "xyx_decomp_rule", "XZX": "xzx_decomp_rule",
           "ZXZ": "zxz_decomp_rule"}
ALLOWED_1Q = {"rot": {"Rot", "RZ"}, "ZYZ": {"RZ", "RY"}, "XYX": {"RX", "RY"}, "XZX": {"RX", "RZ"}, "ZXZ": {"RZ", "RX"}}
EPSS = [1e-3, 1e-6, 1e-9]


def _np():
    import numpy as np

    return np


def _maxdiff(A, B):
    np = _np()
    return float(np.max(np.abs(np.asarray(A) - np.asarray(B))))


def _phase_diff(A, B):
    """max-abs difference after removing the best global phase (tr(A^dag B) phase)."""
    np = _np()
    t = np.trace(np.conj(A).T @ B)
    if abs(t) < 1e-12:
        return _maxdiff(A, B)
    return _maxdiff(A, B * (abs(t) / t))


def _queue(fn, *a, **k):
    import pennylane as qp

    with qp.queuing.AnnotatedQueue() as q:
        out = fn(*a, **k)
    return out, list(q.queue)


def _rule(name):
    from pennylane.ops.op_math.decompositions import unitary_decompositions as ud

    return getattr(ud, name)


# ------------------------------------------------------------------------------------------------ 1 qubit
def check_1q(spec):
    import pennylane as qp
    from pennylane.wires import Wires
    from mc import x_synth as XS

    np = _np()
    U = XS.build_1q(spec["u"])
    rot, mode, wire = spec["rot"], spec["mode"], spec.get("wire", 0)
    Uin = U.copy()
    if spec.get("sparse"):
        from scipy import sparse

        Uin = sparse.csr_matrix(U)
    if mode in ("fn", "fn+gp"):
        gp = mode == "fn+gp"
        ops = qp.ops.one_qubit_decomposition(Uin, wire, rotations=rot, return_global_phase=gp)
    elif mode == "rule":
        _, ops = _queue(_rule(RULE_OF[rot]), Uin, wires=Wires([wire]))
        gp = True
    elif mode == "op":  # QubitUnitary(...).decomposition(): documented = ZYZ with global phase
        ops = qp.QubitUnitary(Uin, wires=[wire]).decomposition()
        gp = True
    else:
        raise AssertionError(mode)
    names = [o.name for o in ops]
    allowed = set(ALLOWED_1Q[rot]) | ({"GlobalPhase"} if gp else set())
    if not set(names) <= allowed:
        return bad(f"1q:op-types:{rot}:{mode}", names, sorted(allowed))
    if mode == "fn+gp" and (not names or names[-1] != "GlobalPhase"):
        return bad(f"1q:global-phase-not-last:{rot}", names, "GlobalPhase last")
    if mode == "fn" and "GlobalPhase" in names:
        return bad(f"1q:unrequested-global-phase:{rot}", names, "no GlobalPhase")
    if any(list(o.wires) != [wire] for o in ops if o.name != "GlobalPhase"):
        return bad(f"1q:wires:{rot}:{mode}", [list(o.wires) for o in ops], [wire])
    if _maxdiff(Uin.toarray() if spec.get("sparse") else Uin, U) != 0.0:
        return bad("1q:input-mutated", None, None)
    M = XS.product(ops, [wire])
    err = _maxdiff(M, U) if gp else _phase_diff(U, M)
    if err > TOL:
        return bad(f"1q:matrix-mismatch:{rot}:{mode}:{spec['u'][0]}", {"err": err, "ops": [repr(o) for o in ops]}, "product == U")
    isid = _phase_diff(np.eye(2), U) < 1e-12
    return ok(outcome=[names, int(round(-math.log10(max(err, 1e-17))))], nontrivial=not isid)


# ------------------------------------------------------------------------------------------------ 2 qubits
_JIT = {}


def _jit_synth(route):
    """jax.jit-compiled `U -> matrix of the synthesised circuit` (compiled once per worker; under tracing the synthesis cannot branch on
    the CNOT class of the input, so every input goes through the generic three-CNOT template)."""
    if route not in _JIT:
        import jax
        import pennylane as qp

        jax.config.update("jax_enable_x64", True)
        names = []

        def f(U):
            if route == "jit-fn":
                ops = qp.ops.two_qubit_decomposition(U, wires=[0, 1])
            else:
                ops = qp.QubitUnitary.compute_decomposition(U, [0, 1])
            names[:] = [o.name for o in ops]
            return qp.matrix(qp.tape.QuantumScript(ops), wire_order=[0, 1])

        _JIT[route] = (jax.jit(f), names)
    return _JIT[route]


def check_2q_jit(spec):
    import jax.numpy as jnp
    from mc import x_synth as XS

    np = _np()
    U, cls = XS.build_2q(spec)
    via = spec["via"]
    fam = spec["core"][0]
    fn, names = _jit_synth(via)
    M = np.asarray(fn(jnp.asarray(U)))
    nc = names.count("CNOT")
    if nc > 3:
        return bad(f"2q:more-than-3-cnots:{via}:{fam}", nc, "<= 3")
    if not set(names) <= {"QubitUnitary", "CNOT", "RZ", "RY", "RX", "GlobalPhase"}:
        return bad(f"2q:op-types:{via}", sorted(set(names)), ["QubitUnitary", "CNOT", "RZ", "RY", "RX", "GlobalPhase"])
    err = _maxdiff(M, U) if np.all(np.isfinite(M)) else float("inf")
    if not err <= TOL:
        return bad(f"2q:matrix-mismatch:{via}:{fam}:class={cls}", {"err": err, "cnots": nc, "exact_class": cls}, f"error <= {TOL}")
    isid = _phase_diff(np.eye(4), U) < 1e-12
    return ok(outcome=[via, nc, cls, int(round(-math.log10(max(err, 1e-17))))], nontrivial=not isid)


def check_2q(spec):
    import pennylane as qp
    from pennylane.wires import Wires
    from mc import x_synth as XS

    if spec.get("via", "fn").startswith("jit"):
        return check_2q_jit(spec)
    np = _np()
    U, cls = XS.build_2q(spec)
    wires = spec.get("wires", [0, 1])
    via = spec.get("via", "fn")
    Uin = U.copy()
    if via == "fn":
        ops = qp.ops.two_qubit_decomposition(Uin, wires)
    elif via == "rule":
        _, ops = _queue(_rule("two_qubit_decomp_rule"), Uin, wires=Wires(wires))
    elif via == "op":
        ops = qp.QubitUnitary(Uin, wires=wires).decomposition()
    elif via == "multi":  # documented for n > 1: cosine-sine on two qubits
        ops = qp.ops.multi_qubit_decomposition(Uin, wires)
    else:
        raise AssertionError(via)
    if _maxdiff(Uin, U) != 0.0:
        return bad("2q:input-mutated", None, None)
    names = [o.name for o in ops]
    fam = spec["core"][0]
    if via == "multi":
        if not set(names) <= {"QubitUnitary", "SelectPauliRot"}:
            return bad("2q:multi:op-types", names, ["QubitUnitary", "SelectPauliRot"])
    else:
        if not set(names) <= {"QubitUnitary", "CNOT", "RZ", "RY", "RX", "GlobalPhase"}:
            return bad(f"2q:op-types:{via}", names, ["QubitUnitary", "CNOT", "RZ", "RY", "RX", "GlobalPhase"])
        if any(o.name == "QubitUnitary" and len(o.wires) != 1 for o in ops):
            return bad(f"2q:non-local-qubitunitary:{via}", names, "single-qubit QubitUnitary only")
    nc = names.count("CNOT")
    if nc > 3:
        return bad(f"2q:more-than-3-cnots:{fam}", nc, "<= 3")
    if any(not set(o.wires) <= set(wires) for o in ops):
        return bad(f"2q:wires:{via}", [list(o.wires) for o in ops], wires)
    try:
        M = XS.product(ops, wires)
    except KeyError as e:
        return bad(f"2q:undocumented-op:{via}", str(e), None)
    err = _maxdiff(M, U)
    if err > TOL:
        eps = spec.get("eps")
        core = spec["core"]
        if eps is None and len(core) == 2 and isinstance(core[1], float) and 0 < abs(core[1]) <= 1e-6:
            eps = abs(core[1])  # parametrised gate at a tiny angle: distance from the identity (0-CNOT) class
        if eps is not None and via != "multi" and (nc < cls if cls is not None else nc == 0) and err <= 8 * eps:
            # fewer CNOTs than the exact class needs and an error proportional to the distance from the lower class:
            # the numerical classification merged the input into the neighbouring class
            return bad(f"2q:class-merge:dist={eps:g}:cnots={nc}", {"err": err, "cnots": nc, "exact_class": cls}, f"error <= {TOL}")
        return bad(f"2q:matrix-mismatch:{via}:{fam}:cnots={nc}", {"err": err, "cnots": nc, "exact_class": cls,
                                                                 "ops": [repr(o)[:200] for o in ops]}, f"error <= {TOL}")
    isid = _phase_diff(np.eye(4), U) < 1e-12
    return ok(outcome=[nc if via != "multi" else names, cls, int(round(-math.log10(max(err, 1e-17))))], nontrivial=not isid)


# ------------------------------------------------------------------------------------------------ n qubits
def check_nq(spec):
    import pennylane as qp
    from pennylane.wires import Wires
    from mc import x_synth as XS

    np = _np()
    n, U = XS.build_nq(spec["u"])
    wires = spec.get("wires") or list(range(n))
    via = spec.get("via", "fn")
    Uin = U.copy()
    if via == "fn":
        ops = qp.ops.multi_qubit_decomposition(Uin, wires)
    elif via == "rule":
        _, ops = _queue(_rule("multi_qubit_decomp_rule"), Uin, wires=Wires(wires))
    elif via == "op":
        ops = qp.QubitUnitary(Uin, wires=wires).decomposition()
    else:
        raise AssertionError(via)
    if _maxdiff(Uin, U) != 0.0:
        return bad("nq:input-mutated", None, None)
    names = [o.name for o in ops]
    if names != ["QubitUnitary", "SelectPauliRot"] * 3 + ["QubitUnitary"]:
        return bad(f"nq:structure:{via}", names, "QubitUnitary/SelectPauliRot alternating, 7 ops")
    for o in ops:
        if o.name == "QubitUnitary" and list(o.wires) != list(wires[1:]):
            return bad("nq:qubitunitary-wires", list(o.wires), wires[1:])
        if o.name == "SelectPauliRot" and (list(o.target_wire) != [wires[0]] or list(o.control_wires) != list(wires[1:])):
            return bad("nq:multiplexer-wires", repr(o)[:200], wires)
        if o.name == "QubitUnitary":
            V = np.asarray(o.data[0])
            if _maxdiff(V.conj().T @ V, np.eye(V.shape[0])) > TOL:
                return bad(f"nq:factor-not-unitary:{spec['u'][0]}", _maxdiff(V.conj().T @ V, np.eye(V.shape[0])), "unitary factor")
    M = XS.product(ops, wires)
    err = _maxdiff(M, U)
    if err > TOL:
        return bad(f"nq:matrix-mismatch:{via}:n={n}:{spec['u'][0]}", {"err": err}, f"error <= {TOL}")
    if spec.get("deep"):
        # one more level: the (n-1)-qubit factors are decomposed by the documented QubitUnitary route and multiplied out
        flat = []
        for o in ops:
            flat += o.decomposition() if o.name == "QubitUnitary" else [o]
        try:
            M2 = XS.product(flat, wires)
        except KeyError as e:
            return bad("nq:deep:undocumented-op", str(e), None)
        err2 = _maxdiff(M2, U)
        if err2 > TOL:
            return bad(f"nq:deep-mismatch:n={n}:{spec['u'][0]}", {"err": err2}, f"error <= {TOL}")
        err = max(err, err2)
    isid = _phase_diff(np.eye(2 ** n), U) < 1e-12
    return ok(outcome=[n, spec["u"][0], int(round(-math.log10(max(err, 1e-17))))], nontrivial=not isid)


def check(spec):
    return {"1q": check_1q, "2q": check_2q, "nq": check_nq}[spec["k"]](spec)


# ------------------------------------------------------------------------------------------------ enumeration
def specs_1q(tier):
    from mc.x_alphabet import ANG

    A = ANG(tier)
    A3 = ANG("quick")
    us = []
    for i in range(24):
        for ph in ("1", "i", "g1"):
            us.append(["cliff", i, ph])
    for ax in "XYZ":
        for t in A:
            us.append(["R", ax, t])
    for a, b, c in itertools.product(A3 if tier == "quick" else A, A3, A3 if tier == "quick" else A):
        us.append(["rot", a, b, c])
    for a, b in itertools.product(A, A):
        us.append(["diag", a, b])
        us.append(["anti", a, b])
    # near-degenerate theta (the ZYZ branch point theta = 0 / pi and the `rot` RZ shortcut at theta ~ 0)
    for d in (1e-4, 1e-7, 1e-8, 3e-8, 1e-9, 1e-12):
        for base in (0.0, PI, 2 * PI):
            for sgn in (+1, -1):
                us.append(["rot", 0.3, base + sgn * d, -1.234])
                us.append(["u3", base + sgn * d, 0.3, 0.789, "g1"])
    for t, p, l in itertools.product([0.0, PI / 2, PI, 0.3], [0.0, PI, -1.234], [0.0, -PI / 2, 1.912]):
        us.append(["u3", t, p, l, "g2"])
    out = []
    for u in us:
        for rot in ROTS:
            for mode in ("fn", "fn+gp", "rule"):
                out.append({"k": "1q", "u": u, "rot": rot, "mode": mode})
    for u in us[:72] + us[-36:]:
        out.append({"k": "1q", "u": u, "rot": "ZYZ", "mode": "op", "wire": "a"})
    for u in us[:72:5]:
        for rot in ROTS:
            out.append({"k": "1q", "u": u, "rot": rot, "mode": "fn+gp", "sparse": True, "wire": 3})
    return out


def cores(tier):
    from mc.x_alphabet import ANG

    A = ANG(tier)
    cs = [["I"], ["CNOT"], ["CNOT10"], ["CZ"], ["CY"], ["CH"], ["ECR"], ["SWAP"], ["ISWAP"], ["SISWAP"], ["generic"]]
    for name in ("CRX", "CRY", "CRZ", "IsingXX", "IsingYY", "IsingZZ", "IsingXY", "ControlledPhaseShift", "PSWAP", "SingleExcitation"):
        for t in A:
            cs.append([name, t])
    for a, b in itertools.product(ANG("quick"), repeat=2):
        cs.append(["2cnot", a, b])
    for p in itertools.permutations(range(4)):
        cs.append(["perm", list(p)])
    for d in ([0, 0, 0, PI], [0.3, -1.234, 0.789, 0.111], [0, PI / 2, PI / 2, PI], [0.1, 0.1, -0.1, -0.1]):
        cs.append(["diag"] + d)
    return cs


DRESS_QUICK = [(None, None), (["g", "g2"], ["g3", "H"]), (["H", "I"], ["I", "S"])]
DRESS_MORE = [(["g", "g2"], None), (None, ["g3", "Ry"]), (["X", "T"], ["S", "g"]), (["Ry", "Ry"], ["Ry", "Ry"]), (["g3", "g3"], ["g", "g"])]


def boundary(tier):
    """class-boundary grid, de-duplicated (points without eps appear once, tagged with the smallest eps)."""
    out, seen = [], set()
    for eps in EPSS:
        grid = [0.0, eps, PI / 4 - eps, PI / 4, PI / 4 + eps]
        for a, b, c in itertools.product(grid, repeat=3):
            if (a, b, c) in seen:
                continue
            seen.add((a, b, c))
            out.append((eps, [a, b, c]))
    return out


def specs_2q(tier):
    out = []
    dress = DRESS_QUICK + (DRESS_MORE if tier != "quick" else [])
    for c in cores(tier):
        for L, R in dress:
            out.append({"k": "2q", "core": c, "L": L, "R": R})
    # A x B over the full 6-element local set (0-CNOT class), each phase
    loc = ["I", "H", "S", "X", "Ry", "g"]
    for a, b in itertools.product(loc, repeat=2):
        for ph in ("1", "i", "g1"):
            out.append({"k": "2q", "core": ["I"], "L": [a, b], "R": None, "ph": ph})
    # entry points / wire labels / phases on the parameter-free cores
    for c in cores("quick")[:11]:
        for via in ("rule", "op", "multi"):
            out.append({"k": "2q", "core": c, "L": ["g", "g2"], "R": ["g3", "H"], "via": via, "wires": ["b", 2], "ph": "g1"})
        out.append({"k": "2q", "core": c, "L": None, "R": None, "via": "rule"})
        out.append({"k": "2q", "core": c, "L": None, "R": None, "via": "multi"})
        out.append({"k": "2q", "core": c, "L": ["H", "I"], "R": ["g", "S"], "ph": "i", "wires": [1, 0]})
    # class-boundary family
    bd = boundary(tier)
    for eps, abc in bd:
        out.append({"k": "2q", "core": ["canon"] + abc, "L": None, "R": None, "eps": eps})
        out.append({"k": "2q", "core": ["canon"] + abc, "L": ["g", "g2"], "R": ["g3", "H"], "eps": eps, "ph": "g1"})
        if tier != "quick":
            out.append({"k": "2q", "core": ["canon"] + abc, "L": ["H", "S"], "R": ["Ry", "g"], "eps": eps, "via": "rule"})
    return out


def specs_nq(tier):
    us = [["named", "Toffoli"], ["named", "CSWAP"], ["named", "CCZ"], ["qft", 3], ["qft", 2], ["eye", 3], ["eye", 3, "g1"], ["eye", 2],
          ["kron", ["H", "g", "S"]], ["kron", ["g", "g2", "g3"]], ["kron", ["I", "I", "X"]], ["kron", ["X", "I", "I"]],
          ["kron", ["g", "g2"]], ["kron", ["H", "H", "H"]],
          ["ctrl2q", {"core": ["generic"]}], ["ctrl2q", {"core": ["SWAP"]}, 0], ["ctrl2q", {"core": ["ISWAP"], "L": ["g", "g2"], "R": ["g3", "H"]}],
          ["2q_on", {"core": ["generic"]}, [0, 2]], ["2q_on", {"core": ["CNOT"]}, [2, 0]], ["2q_on", {"core": ["generic"]}, [1, 2]],
          ["2q_on", {"core": ["SWAP"]}, [0, 1]],
          ["generic", 3], ["generic", 2], ["generic", 3, 1.7], ["diag", 3, 0.0], ["diag", 2, 0.4], ["block", 3], ["block", 2],
          ["perm", [1, 2, 3, 4, 5, 6, 7, 0]], ["perm", [7, 6, 5, 4, 3, 2, 1, 0]], ["perm", [0, 4, 2, 6, 1, 5, 3, 7]],
          ["2q", {"core": ["CNOT"]}], ["2q", {"core": ["SWAP"]}], ["2q", {"core": ["canon", 1e-6, 0.0, 0.0]}],
          ["mcx", 3], ["named", "DoubleExcitation", [0.3]]]
    for p in itertools.permutations(range(4)):
        us.append(["perm", list(p)])
    if tier != "quick":
        us += [["generic", 4], ["mcx", 4], ["qft", 4], ["eye", 4], ["named", "DoubleExcitation", [PI]], ["named", "OrbitalRotation", [0.3]],
               ["kron", ["g", "g2", "g3", "H"]], ["block", 4], ["diag", 4, 0.2], ["generic", 5], ["mcx", 5]]
    out = []
    for u in us:
        out.append({"k": "nq", "u": u})
        out.append({"k": "nq", "u": u, "via": "rule", "deep": True})
    labels = {2: ["b", 2], 3: [2, "q", 0], 4: [3, 1, 0, 2], 5: [4, 2, 0, 1, 3]}
    from mc import x_synth as XS

    for u in us:
        n, _ = XS.build_nq(u)
        if n >= 3:
            out.append({"k": "nq", "u": u, "via": "op", "wires": labels[n]})
        else:
            out.append({"k": "nq", "u": u, "via": "fn", "wires": labels[n]})
    return out


def run(ctx):
    import pennylane  # noqa: F401  (heavy import once in the parent; forked workers inherit it)
    from mc import x_synth as XS
    from mc import refgates as RG

    fails = XS.selftest() + RG.selftest()
    if fails:
        from mc.engine import HarnessError

        raise HarnessError("reference selftest failed: " + "; ".join(fails))
    tier = ctx.tier
    only = ctx.only
    s1, s2, sn = specs_1q(tier), specs_2q(tier), specs_nq(tier)
    if only in (None, "1q"):
        ctx.enumerate(s1, fn="check", axis="1q")
    if only in (None, "2q"):
        ctx.enumerate(s2, fn="check", axis="2q")
    if only in (None, "nq"):
        ctx.enumerate(sn, fn="check", axis="nq", chunk=4)
    if only in (None, "2q-jit"):
        # the same two-qubit inputs with the synthesis traced by jax.jit (spawned workers: jax must not be forked)
        sj = []
        for s in s2:
            if s.get("via", "fn") != "fn" or s.get("wires") or s.get("eps") is not None:
                continue
            if tier == "quick" and s["core"] != ["I"] and (s["L"], s["R"]) not in ((None, None), (DRESS_QUICK[-1][0], DRESS_QUICK[-1][1])):
                continue
            sj.append(dict(s, via="jit-fn"))
            if s["core"] == ["I"] or s["L"] is None:
                sj.append(dict(s, via="jit-op"))
        ctx.enumerate(sj, fn="check", axis="2q-jit", chunk=40, start="spawn")
    from mc.x_alphabet import ANG

    ctx.coverage["alphabet"] = {
        "angles": ANG(tier), "rotations": ROTS, "entry_points_1q": ["one_qubit_decomposition", "+return_global_phase", "decomposition rule", "QubitUnitary.decomposition", "sparse input"],
        "cores_2q": sorted({c[0] for c in cores(tier)}), "dressings": len(DRESS_QUICK) + (len(DRESS_MORE) if tier != "quick" else 0),
        "boundary_eps": EPSS, "boundary_grid": "{0, e, pi/4-e, pi/4, pi/4+e}^3",
        "entry_points_2q": ["two_qubit_decomposition", "two_qubit_decomp_rule", "QubitUnitary.decomposition", "multi_qubit_decomposition(n=2)"],
        "nq": sorted({s["u"][0] for s in sn}),
    }
    ctx.coverage["bound"] = {"1q_cases": len(s1), "2q_cases": len(s2), "nq_cases": len(sn), "max_qubits": 3 if tier == "quick" else 5,
                             "tolerance": TOL}
