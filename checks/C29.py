"""C29 — Finite-shot sampling follows the Born rule (DESIGN §5.5 C29), decided EXACTLY by owning the RNG.

E4 (full answer tree) over E2 circuits.  The device's random generator is replaced by a scripted one
(mc.seams.ScriptedGenerator for numpy, a scripted stand-in for `jax.random.choice` for JAX); every draw is a
question whose supplied distribution `p` is recorded.  All answer vectors with non-zero probability are
explored, each leaf weighted with the product of the supplied probabilities, which yields the EXACT output
distribution of the QNode.  It must equal the distribution of the same statistic under i.i.d. Born sampling
computed from the reference state vector (jointly over all shot-vector bins, per measurement).  This decides at
once: (i) supplied p x decoding = Born marginal, (ii) every answer decodes to a valid bitstring/eigenvalue,
(iii) counts total the bin's shots, (iv) bins receive disjoint draws of the documented sizes."""
import itertools

import numpy as np

from mc.engine import ok, bad, skip
from mc.explore import words

PROPERTY = "C29"
LEVEL = "exploration"
TECHNIQUE = "exhaustive answer-tree exploration of scripted RNG draws; exact output distribution vs. i.i.d. Born reference"
LEVEL_TEXT = ("For every circuit (words of length <=2 over {H,X,RY,CNOT} on 2-3 wires), measurement list (12 single measurements, "
              "ordered pairs), shot specification in {1,2,3,(1,2),(2,2),((1,2),3)}, device in {default.qubit, default.mixed} and RNG path "
              "(numpy Generator, jax PRNGKey, jax-interface parameters) whose full answer tree has <= 64 leaves (thorough 512), the exact "
              "output distribution of the QNode is computed by enumerating every scripted answer vector and compared (1e-9) with the "
              "distribution under i.i.d. Born sampling from the reference state.")
LEVEL_NOTE = ("Trusted: Generator.choice / jax.random.choice honour the supplied p and draw independently. Cases whose answer tree exceeds the "
              "leaf cap are recorded as not explored (nontrivial=False). For expval of a Sum only the mean of the estimator is compared "
              "(its distribution depends on the implementation's grouping). Joint distribution ACROSS different measurements of one "
              "execution is not compared (undefined for non-commuting observables).")
DESIGN_REF = "5.5 C29"
START = "fork"
PARALLEL = True
RULE = ("product of circuits x measurement lists x shot specs x devices x rng paths; each case explores its full answer tree; "
        "non-trivial = more than one leaf (the state is not a basis state in the measured basis)")
ASSUMPTIONS = ["numpy.random.Generator.choice and jax.random.choice sample i.i.d. from the p they are given",
               "reference state vector from mc.refsim (table matrices)"]

G1 = 0.7
HERM1 = [[1.0, 0.5], [0.5, -0.25]]
HERM2 = [[0.5, 0.1, 0.0, 0.3], [0.1, -1.0, 0.2, 0.0], [0.0, 0.2, 2.0, -0.4], [0.3, 0.0, -0.4, 0.25]]
SHOTS = [1, 2, 3, [1, 2], [2, 2], [[1, 2], 3]]
SINGLES = ["sample", "sample10", "counts", "countsT_last", "probs10", "expZ0", "expX0", "varY1", "sampleZ0X1", "countsX1",
           "sampleH0", "countsTHerm10", "expSum"]
PAIRS_QUICK = [["sample", "counts"], ["sample10", "expZ0"], ["expZ0", "expX0"], ["expX0", "varY1"], ["sampleZ0X1", "countsX1"],
               ["countsX1", "sampleH0"], ["probs10", "countsT_last"], ["expZ0", "sample"], ["countsTHerm10", "sampleZ0X1"],
               ["varY1", "sample10"], ["expSum", "countsX1"]]


# triples whose grouping (Pauli-word groups, then measurements without observable, then other observables) permutes the
# measurement list by a 3-cycle in some orders: the results must come back in the ORIGINAL order
import itertools as _it
TRIPLES = [list(p) for base in (["probs10", "expX0", "expZ0"], ["sampleH0", "expX0", "expZ0"], ["countsX1", "sample10", "varY1"])
           for p in _it.permutations(base)]


def letters(n):
    return ["H0", f"X{n - 1}", "RY1", "CNOT01"] + (["CNOT12"] if n == 3 else [])


def expand_shots(s):
    if isinstance(s, int):
        return [s]
    out = []
    for e in s:
        if isinstance(e, list):
            out += [e[0]] * e[1]
        else:
            out.append(e)
    return out


def shots_arg(s):
    if isinstance(s, int):
        return s
    return [tuple(e) if isinstance(e, list) else e for e in s]


# ------------------------------------------------------------------------------------------- live objects
def build_ops(names, jaxparam=False):
    import pennylane as qp

    ops = []
    for nm in names:
        if nm.startswith("H"):
            ops.append(qp.Hadamard(int(nm[1:])))
        elif nm.startswith("X"):
            ops.append(qp.PauliX(int(nm[1:])))
        elif nm.startswith("RY"):
            g = G1
            if jaxparam:
                import jax.numpy as jnp

                g = jnp.array(G1)
            ops.append(qp.RY(g, wires=int(nm[2:])))
        elif nm.startswith("CNOT"):
            ops.append(qp.CNOT([int(nm[4]), int(nm[5])]))
        else:
            raise AssertionError(nm)
    return ops


def build_meas(name, n):
    """-> (measurement process, descriptor for the reference)."""
    import pennylane as qp

    if name == "sample":
        return qp.sample(), ("bits", list(range(n)), "sample", False)
    if name == "sample10":
        return qp.sample(wires=[1, 0]), ("bits", [1, 0], "sample", False)
    if name == "counts":
        return qp.counts(), ("bits", list(range(n)), "counts", False)
    if name == "countsT_last":
        return qp.counts(wires=[n - 1], all_outcomes=True), ("bits", [n - 1], "counts", True)
    if name == "probs10":
        return qp.probs(wires=[1, 0]), ("bits", [1, 0], "probs", False)
    if name == "expZ0":
        o = qp.Z(0)
        return qp.expval(o), ("obs", o, "expval", False)
    if name == "expX0":
        o = qp.X(0)
        return qp.expval(o), ("obs", o, "expval", False)
    if name == "varY1":
        o = qp.Y(1)
        return qp.var(o), ("obs", o, "var", False)
    if name == "sampleZ0X1":
        o = qp.Z(0) @ qp.X(1)
        return qp.sample(o), ("obs", o, "sample", False)
    if name == "countsX1":
        o = qp.X(1)
        return qp.counts(o), ("obs", o, "counts", False)
    if name == "sampleH0":
        o = qp.Hermitian(np.array(HERM1), wires=0)
        return qp.sample(o), ("obs", o, "sample", False)
    if name == "countsTHerm10":
        o = qp.Hermitian(np.array(HERM2), wires=[1, 0])
        return qp.counts(o, all_outcomes=True), ("obs", o, "counts", True)
    if name == "expSum":
        o = qp.Z(0) + 0.5 * qp.X(1)
        return qp.expval(o), ("obs", o, "mean-only", False)
    raise AssertionError(name)


# ------------------------------------------------------------------------------------------- reference
def born(desc, state, n):
    """Outcome list, probabilities, and the complete outcome set (for all_outcomes) of one measurement."""
    from mc import refsim

    tag, what, kind, ao = desc
    if tag == "bits":
        p = refsim.probs_of(state, what)
        outs = [tuple(int(b) for b in np.binary_repr(k, len(what))) for k in range(len(p))]
        keep = [i for i in range(len(p)) if p[i] > 1e-12]
        return [outs[i] for i in keep], [float(p[i]) for i in keep], outs
    own = list(what.wires)
    M = refsim.obs_matrix(what, own)
    w, V = np.linalg.eigh(M)
    groups = []
    for lam, v in zip(w, V.T):
        for g in groups:
            if abs(g[0] - lam) < 1e-9:
                g[1].append(v)
                break
        else:
            groups.append([float(lam), [v]])
    outs, ps = [], []
    for lam, vs in groups:
        P = sum(np.outer(v, v.conj()) for v in vs)
        pr = refsim.expval(state, P, own).real
        if pr > 1e-12:
            outs.append(lam)
            ps.append(float(pr))
    return outs, ps, [g[0] for g in groups]


def statistic(desc, seq, allouts):
    tag, what, kind, ao = desc
    if kind == "sample":
        return [list(o) for o in seq] if tag == "bits" else [float(o) for o in seq]
    if kind == "counts":
        d = {}
        key = (lambda o: "".join(map(str, o))) if tag == "bits" else float
        if ao:
            for o in allouts:
                d[key(o)] = 0
        for o in seq:
            d[key(o)] = d.get(key(o), 0) + 1
        return d
    if kind == "probs":
        p = [0.0] * (2 ** len(what))
        for o in seq:
            p[int("".join(map(str, o)), 2)] += 1.0 / len(seq)
        return p
    x = np.array([float(o) for o in seq])
    if kind in ("expval", "mean-only"):
        return float(x.sum() / len(x))
    if kind == "var":
        m = x.sum() / len(x)
        return float(((x - m) ** 2).sum() / len(x))
    raise AssertionError(kind)


# ------------------------------------------------------------------------------------------- the check
def forget_autoray_default_rng():
    """qp.math.random.default_rng goes through autoray, which caches the resolved numpy function; without this the
    cache would keep the patched function of an earlier scripted generator (harness artefact, not PennyLane behaviour)."""
    import autoray.autoray as ar

    for k in [k for k in list(getattr(ar, "_FUNCS", {})) if isinstance(k, tuple) and k[-1] == "random.default_rng"]:
        ar._FUNCS.pop(k, None)


def _runner(spec, ops_names, meas_names, n):
    """Returns run(chooser) -> (result, log) executing the QNode once under scripted randomness."""
    import pennylane as qp
    from mc.seams import ScriptedGenerator, own_numpy_rng
    from mc.x_sampling import JaxChoiceScript, own_jax_choice

    path = spec.get("rng", "numpy")

    def run(ch):
        gen = ScriptedGenerator(ch)
        forget_autoray_default_rng()
        try:
            return _run(ch, gen)
        finally:
            forget_autoray_default_rng()

    def _run(ch, gen):
        with own_numpy_rng(gen):
            if path == "jaxkey":
                import jax

                seed = jax.random.PRNGKey(0)
            elif spec["dev"] == "default.mixed":
                seed = 7  # default.mixed routes the seed through autoray (dispatches on the seed's type): any int + patched default_rng
            else:
                seed = gen
            dev = qp.device(spec["dev"], wires=n, seed=seed)
            if path != "jaxkey" and dev._rng is not gen:
                raise OSError("harness: scripted generator was not installed in the device")

            @qp.set_shots(shots_arg(spec["shots"]))
            @qp.qnode(dev)
            def circuit():
                build_ops(ops_names, jaxparam=(path == "jaxiface"))  # queued on construction
                ms = [build_meas(m, n)[0] for m in meas_names]
                return ms[0] if len(ms) == 1 else tuple(ms)

            if path == "numpy":
                res = circuit()
                log = gen.log
            else:
                script = JaxChoiceScript(ch)
                with own_jax_choice(script):
                    res = circuit()
                log = script.log + [e for e in gen.log if e["fn"] != "integers"]
        return res, log

    return run


def check(spec):
    from mc import refsim
    from mc.x_sampling import canon, compare_dist, explore, iid_sequences, jsonable, predicted_leaves

    n = spec["n"]
    L = expand_shots(spec["shots"])
    meas_names = spec["meas"]
    run = _runner(spec, spec["ops"], meas_names, n)

    from mc.explore import Chooser

    res0, log0 = run(Chooser([]))
    res1, log1 = run(Chooser([]))
    if canon_res(res0, L, len(meas_names)) != canon_res(res1, L, len(meas_names)):
        return bad("nondeterministic-under-owned-rng", repr(res0)[:300], repr(res1)[:300])
    path = spec.get("rng", "numpy")
    draws = [e for e in log0 if e["fn"] in ("choice", "jax.choice")]
    # numpy seed -> Generator.choice; PRNGKey seed -> jax.random.choice (documented); jax-typed parameters with a numpy
    # seed may use either (default.qubit converts the parameters to numpy first)
    want = {"numpy": ("choice",), "jaxkey": ("jax.choice",), "jaxiface": ("choice", "jax.choice")}[path]
    if not draws or any(e["fn"] not in want for e in draws):
        return bad(f"wrong-sampler:{path}", [e["fn"] for e in draws], list(want))
    leaves = predicted_leaves(log0)
    if leaves > spec["cap"]:
        return ok(outcome=["not-explored:above-leaf-cap"], nontrivial=False)

    def keys(res):
        return canon_res(res, L, len(meas_names))

    dists, nleaves, total = explore(run, keys, max_execs=spec["cap"] + 1)
    if abs(total - 1.0) > 1e-9:
        return bad("supplied-probabilities-do-not-sum-to-1", total, 1.0)

    state = refsim.run_state(build_ops(spec["ops"]), list(range(n)))
    fp = []
    for mi, name in enumerate(meas_names):
        desc = build_meas(name, n)[1]
        outs, ps, allouts = born(desc, state, n)
        if len(outs) ** sum(L) > 200000:
            return ok(outcome=["not-explored:reference-enumeration-too-large"], nontrivial=False)
        exp = {}
        mean = 0.0
        for seq, w in iid_sequences(outs, ps, sum(L)):
            vals, lo = [], 0
            for s in L:
                vals.append(statistic(desc, seq[lo:lo + s], allouts))
                lo += s
            k = canon(vals)
            exp[k] = exp.get(k, 0.0) + w
        got = dists[mi]
        if desc[2] == "mean-only":
            for b in range(len(L)):
                m_impl = sum(p * k[b] for k, p in got.items())
                m_ref = sum(p * k[b] for k, p in exp.items())
                if abs(m_impl - m_ref) > 1e-9:
                    return bad(f"biased-estimator:{name}", m_impl, m_ref, bin=b)
            fp.append([name, len(got)])
            continue
        why = compare_dist(got, exp)
        if why:
            return bad(f"{why[0]}:{desc[2]}:{'bits' if desc[0] == 'bits' else 'obs'}:{'shot-vector' if len(L) > 1 else 'single-bin'}",
                       why[1], {"n_outcomes_ref": len(exp), "n_outcomes_impl": len(got)}, measurement=name, leaves=nleaves)
        fp.append([name, len(got), round(max(got.values()), 6)])
    return ok(outcome=[nleaves, fp, sorted({e["fn"] for e in draws})], nontrivial=nleaves > 1)


def canon_res(res, L, n_meas):
    """One key per measurement: the tuple of its per-bin results."""
    from mc.x_sampling import canon

    part = len(L) > 1
    out = []
    for mi in range(n_meas):
        vals = []
        for b in range(len(L)):
            rb = res[b] if part else res
            vals.append(rb[mi] if n_meas > 1 else rb)
        out.append(canon(vals))
    return out


def check_jax(spec):
    import jax

    jax.config.update("jax_enable_x64", True)  # PennyLane's documented requirement for jax simulation
    return check(spec)


# ------------------------------------------------------------------------------------------- enumeration
def run(ctx):
    cap = 64 if ctx.quick else 512
    specs, jspecs = [], []
    pairs = PAIRS_QUICK if ctx.quick else [[a, b] for a in SINGLES for b in SINGLES]
    for n in (2, 3):
        circuits = list(words(letters(n), 2))
        shots_single = SHOTS if (n == 2 or not ctx.quick) else [1, 2, [1, 2]]
        for ops in circuits:
            for dev in ("default.qubit", "default.mixed"):
                if ctx.quick and dev == "default.mixed" and n == 3:
                    continue
                for m in SINGLES:
                    for s in shots_single:
                        specs.append({"dev": dev, "n": n, "ops": ops, "meas": [m], "shots": s, "rng": "numpy", "cap": cap})
                if n == 2 and len(ops) <= (1 if ctx.quick else 2):
                    for tr in TRIPLES:
                        specs.append({"dev": dev, "n": n, "ops": ops, "meas": tr, "shots": 1, "rng": "numpy", "cap": max(cap, 128)})
                if n == 2 and not (ctx.quick and dev == "default.mixed"):
                    for pr in pairs:
                        for s in ([1, 2, [1, 1]] if ctx.quick else [1, 2]):
                            specs.append({"dev": dev, "n": n, "ops": ops, "meas": pr, "shots": s, "rng": "numpy", "cap": cap})
    # jax paths: PRNGKey seed (all draws through jax.random.choice) and jax-typed circuit parameters with a numpy seed
    jm = ["sample10", "countsT_last", "probs10", "expX0", "varY1", "sampleZ0X1", "countsTHerm10"] if ctx.quick else SINGLES
    for n in (2,) if ctx.quick else (2, 3):
        for ops in words(letters(n), 1 if ctx.quick else 2):
            for dev in ("default.qubit", "default.mixed"):
                for path in ("jaxkey", "jaxiface"):
                    if path == "jaxiface" and not any(o.startswith("RY") for o in ops):
                        continue
                    for m in jm:
                        for s in ([1, [1, 2]] if ctx.quick else [1, 2, [1, 2]]):
                            jspecs.append({"dev": dev, "n": n, "ops": ops, "meas": [m], "shots": s, "rng": path, "cap": cap})
                    for pr in PAIRS_QUICK[2:5]:
                        jspecs.append({"dev": dev, "n": n, "ops": ops, "meas": pr, "shots": 1 if ctx.quick else [1, 1], "rng": path, "cap": cap})
    ctx.enumerate(specs, fn="check", axis="numpy-generator", chunk=8)
    ctx.enumerate(jspecs, fn="check_jax", axis="jax-random", chunk=4, start="spawn")
    ctx.coverage["alphabet"] = {"gates": {"2": letters(2), "3": letters(3)}, "RY_angle": G1, "single_measurements": SINGLES,
                                "pairs": "quick: %d chosen ordered pairs; thorough: all ordered pairs (2 wires)" % len(PAIRS_QUICK), "shots": SHOTS,
                                "devices": ["default.qubit", "default.mixed"], "rng_paths": ["numpy", "jaxkey", "jaxiface"]}
    ctx.coverage["bound"] = {"max_word_length": 2, "wires": [2, 3], "leaf_cap": cap, "answer_tree": "full (deviation bound = infinity)"}
