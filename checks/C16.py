"""C16 — Exact ring arithmetic behind gridsynth is lawful (DESIGN §5.3).

E1 (fully exhaustive on small elements) + E4 (owned randomness of the norm-equation solver):

* Z[sqrt2]: every a + b sqrt2 with a, b in [-3, 3] (49 elements): all pairs and all triples; magnitude alphabet
  {+-1, +-2^31, +-(10^20+7)} (36 elements): all pairs and triples.
* Z[omega]: every element with entries in [-1, 1] (81 elements): all pairs and all triples; magnitude alphabet: all pairs.
* DyadicMatrix: words over 7 generators (H, S, T, X, omega*I, sqrt2*I, a non-unitary shear); SO3Matrix: words over the
  5 unitary generators.
* norm equations: every xi = a + b sqrt2 with |a|, |b| <= 15 (thorough 40); the solver's `randrange` (Pollard rho start
  values) is owned: the module attribute is replaced by a scripted source and EVERY answer sequence over a 4-value menu
  with at most 2 deviations from the default is explored (mc.explore.answer_tree).
* primality: every n <= 2*10^5 (thorough 2*10^6) against a sieve, plus certified strong pseudoprimes / Carmichael numbers /
  prime squares / semiprimes and large primes below 2^64.

Oracle: mc/x_rings.py -- polynomial arithmetic in w with w^4 = -1 on plain integer tuples, Galois automorphisms by
substitution, exact cross-multiplied comparison of dyadic matrices, trial division / sieve."""
import itertools

from mc.engine import ok, bad, skip

PROPERTY = "C16"
LEVEL = "exploration"
TECHNIQUE = ("exhaustive pairs/triples of small and huge ring elements vs. integer-tuple polynomial model; answer-tree exploration of the "
             "solver's scripted randrange; sieve for primality")
LEVEL_TEXT = ("All pairs and triples of the 49 smallest Z[sqrt2] and 81 smallest Z[omega] elements, all pairs over a magnitude alphabet "
              "up to 10^20, DyadicMatrix/SO3Matrix words up to length 3, every norm equation with |a|,|b|<=15 (thorough 40) under every "
              "scripted randrange answer sequence (4-value menu, <=2 deviations), and every integer up to 2*10^5 (thorough 2*10^6) plus "
              "certified hard composites below 2^64 are compared with an independent exact model.")
LEVEL_NOTE = ("Reference = mc/x_rings.py (plain Python integers). Only soundness of the solver is judged (a returned t must satisfy "
              "t^dagger t = xi); None answers are classified but never fail; xi that is not doubly non-negative is outside the "
              "call-site domain and an exception there is recorded, not failed. Randomness: norm_solver.randrange is the only source "
              "(used by _integer_factorize) and is fully owned; caches are cleared per case. Elements beyond the alphabets are not explored.")
DESIGN_REF = "5.3 C16"
PARALLEL = True
RULE = ("all pairs (x, y) with the third element looped inside the case; non-trivial = no operand is 0 or 1; solver cases non-trivial when a "
        "solution is returned or randomness is consumed; primality chunks always non-trivial")
ASSUMPTIONS = ["norm_solver.randrange is the only randomness consumed by _solve_diophantine/_prime_factorize (verified: the scripted "
               "source is the module attribute and random.randrange itself is not otherwise imported there)"]

MAG = [1, -1, 2 ** 31, -(2 ** 31), 10 ** 20 + 7, -(10 ** 20 + 7)]
MAG_Q = [1, -(2 ** 31), 10 ** 20 + 7]
MAG_T = [1, -1, 2 ** 31, -(10 ** 20 + 7)]
INT_SCALARS = [0, 1, -1, 2, -3, 2 ** 31, 10 ** 20 + 7]
DIVISORS = [1, -1, 2, 3, -5, 2 ** 31, 10 ** 20 + 7]


# ------------------------------------------------------------------------------------------------ helpers
def _rings():
    from pennylane.ops.op_math.decompositions import rings

    return rings


def zs_t(x):
    return (x.a, x.b)


def zw_t(x):
    return (x.a, x.b, x.c, x.d)


def _ints(t):
    return all(type(v) is int for v in t)


def zs_elements(name):
    if name == "small":
        return [(a, b) for a in range(-3, 4) for b in range(-3, 4)]
    return [(a, b) for a in MAG for b in MAG]


def zw_elements(name):
    if name == "small":
        return [t for t in itertools.product((-1, 0, 1), repeat=4)]
    if name == "mag_q":
        return [t for t in itertools.product(MAG_Q, repeat=4)]
    return [t for t in itertools.product(MAG_T, repeat=4)]


# ------------------------------------------------------------------------------------------------ Z[sqrt2]
def check_zs(spec):
    """spec: set name, x, y; third element z ranges over the whole set inside (unless 'pairs_only')."""
    from mc import x_rings as R

    Z = _rings().ZSqrtTwo
    x, y = tuple(spec["x"]), tuple(spec["y"])
    X, Y = Z(*x), Z(*y)
    tag = spec["set"]

    def same(obs, model, law):
        if not isinstance(obs, Z) or not _ints(zs_t(obs)) or zs_t(obs) != model:
            return bad(f"zs:{law}:{tag}", repr(obs), list(model))
        return None

    xy = R.zs_mul(x, y)
    for obs, model, law in (
        (X + Y, R.zs_add(x, y), "add"), (Y + X, R.zs_add(x, y), "add-commutes"),
        (X * Y, xy, "mul"), (Y * X, xy, "mul-commutes"),
        (X - Y, R.zs_add(x, R.zs_neg(y)), "sub"), (-X, R.zs_neg(x), "neg"),
        (X + Z(0, 0), x, "additive-identity"), (X * Z(1, 0), x, "multiplicative-identity"), (X * Z(0, 0), (0, 0), "zero-annihilates"),
        (X.conj(), x, "conj"), (X.adj2(), R.zs_adj2(x), "adj2"), (X.adj2().adj2(), x, "adj2-involutive"),
        ((X * Y).adj2(), R.zs_mul(R.zs_adj2(x), R.zs_adj2(y)), "adj2-multiplicative"),
        ((X + Y).adj2(), R.zs_add(R.zs_adj2(x), R.zs_adj2(y)), "adj2-additive"),
        ((X * Y).conj(), xy, "conj-multiplicative"),
    ):
        v = same(obs, model, law)
        if v:
            return v
    if abs(X * Y) != R.zs_norm(x) * R.zs_norm(y) or abs(X) != R.zs_norm(x) or abs(X) * abs(Y) != abs(X * Y):
        return bad(f"zs:norm-multiplicative:{tag}", [abs(X * Y), abs(X), abs(Y)], R.zs_norm(x) * R.zs_norm(y))
    if (X == Y) != (x == y) or not X == Z(*x):
        return bad(f"zs:eq:{tag}", X == Y, x == y)
    if X.flatten != list(x):
        return bad(f"zs:flatten:{tag}", X.flatten, list(x))
    # embedding into Z[omega] is a ring homomorphism with inverse to_sqrt_two
    W = _rings().ZOmega
    if zw_t(X.to_omega()) != R.zs_to_zw(x) or zw_t(X.to_omega() * Y.to_omega()) != R.zs_to_zw(xy) or zs_t(X.to_omega().to_sqrt_two()) != x:
        return bad(f"zs:to_omega-homomorphism:{tag}", repr(X.to_omega()), list(R.zs_to_zw(x)))
    # scalars
    for n in INT_SCALARS:
        for obs, model, law in ((X + n, (x[0] + n, x[1]), "add-int"), (n + X, (x[0] + n, x[1]), "radd-int"), (X * n, (x[0] * n, x[1] * n), "mul-int"),
                                (n * X, (x[0] * n, x[1] * n), "rmul-int"), (X - n, (x[0] - n, x[1]), "sub-int"), (n - X, (n - x[0], -x[1]), "rsub-int")):
            v = same(obs, model, law)
            if v:
                return v
    # exact division undoes multiplication; % is a remainder (x -+ r divisible by y)
    if y != (0, 0):
        v = same((X * Y) / Y, x, "div-undoes-mul")
        if v:
            return v
        r = zs_t(X % Y)
        if not (R.zs_divides(y, R.zs_add(x, R.zs_neg(r))) or R.zs_divides(y, R.zs_add(x, r))):
            return bad(f"zs:mod-not-congruent:{tag}", list(r), {"x": list(x), "y": list(y)})
    for n in DIVISORS:
        v = same((X * n) / n, x, "div-int-undoes-mul")
        if v:
            return v
    # powers and square roots
    p = (1, 0)
    for k in range(4):
        v = same(X ** k, p, "pow")
        if v:
            return v
        p = R.zs_mul(p, x)
    sq = R.zs_mul(x, x)
    s = Z(*sq).sqrt()
    if s is None or R.zs_mul(zs_t(s), zs_t(s)) != sq:
        return bad(f"zs:sqrt-of-square:{tag}", repr(s), list(x))
    doubly = _nonneg(x[0], x[1]) and _nonneg(x[0], -x[1])
    try:
        s2 = X.sqrt()
    except ValueError:
        # squares are doubly non-negative; for other elements no root exists and the implementation leaks math.isqrt's error
        if doubly:
            return bad(f"zs:sqrt-raised:{tag}", "ValueError", "a root or None")
        s2 = None
        sqrt_raised = True
    else:
        sqrt_raised = False
    if s2 is not None and R.zs_mul(zs_t(s2), zs_t(s2)) != x:
        return bad(f"zs:sqrt-unsound:{tag}", repr(s2), list(x))
    if tag == "small" and abs(float(X) - R.zs_float(x)) > 1e-12:
        return bad("zs:float", float(X), R.zs_float(x))
    n3 = 0
    if not spec.get("pairs_only"):
        for z in zs_elements(tag):
            Zz = Z(*z)
            yz = R.zs_mul(y, z)
            for obs, model, law in (
                ((X + Y) + Zz, R.zs_add(R.zs_add(x, y), z), "add-associative"), (X + (Y + Zz), R.zs_add(R.zs_add(x, y), z), "add-associative"),
                ((X * Y) * Zz, R.zs_mul(xy, z), "mul-associative"), (X * (Y * Zz), R.zs_mul(xy, z), "mul-associative"),
                (X * (Y + Zz), R.zs_add(xy, R.zs_mul(x, z)), "distributive"), ((Y + Zz) * X, R.zs_add(xy, R.zs_mul(x, z)), "distributive"),
                (X * Y + X * Zz, R.zs_add(xy, R.zs_mul(x, z)), "distributive"),
            ):
                v = same(obs, model, law)
                if v:
                    v["x"] = dict(v.get("x") or {}, z=list(z))
                    return v
            n3 += 1
    return ok([R.zs_norm(xy) % 1000003, "ValueError" if sqrt_raised else s2 is not None, n3], nontrivial=x not in ((0, 0), (1, 0)) and y not in ((0, 0), (1, 0)))


# ------------------------------------------------------------------------------------------------ Z[omega]
def check_zw(spec):
    from mc import x_rings as R

    W, Z = _rings().ZOmega, _rings().ZSqrtTwo
    x, y = tuple(spec["x"]), tuple(spec["y"])
    X, Y = W(*x), W(*y)
    tag = spec["set"]

    def same(obs, model, law):
        if not isinstance(obs, W) or not _ints(zw_t(obs)) or zw_t(obs) != tuple(model):
            return bad(f"zw:{law}:{tag}", repr(obs), list(model))
        return None

    xy = R.zw_mul(x, y)
    for obs, model, law in (
        (X + Y, R.zw_add(x, y), "add"), (Y + X, R.zw_add(x, y), "add-commutes"),
        (X * Y, xy, "mul"), (Y * X, xy, "mul-commutes"),
        (X - Y, R.zw_add(x, R.zw_neg(y)), "sub"), (-X, R.zw_neg(x), "neg"),
        (X + W(), x, "additive-identity"), (X * W(d=1), x, "multiplicative-identity"), (X * W(), R.ZW_ZERO, "zero-annihilates"),
        (X.conj(), R.zw_conj(x), "conj"), (X.adj2(), R.zw_adj2(x), "adj2"),
        (X.conj().conj(), x, "conj-involutive"), (X.adj2().adj2(), x, "adj2-involutive"),
        (X.conj().adj2(), zw_t(X.adj2().conj()), "conj-adj2-commute"),
        ((X * Y).conj(), R.zw_mul(R.zw_conj(x), R.zw_conj(y)), "conj-multiplicative"), ((X + Y).conj(), R.zw_add(R.zw_conj(x), R.zw_conj(y)), "conj-additive"),
        ((X * Y).adj2(), R.zw_mul(R.zw_adj2(x), R.zw_adj2(y)), "adj2-multiplicative"), ((X + Y).adj2(), R.zw_add(R.zw_adj2(x), R.zw_adj2(y)), "adj2-additive"),
        (X.norm(), R.zw_mul(x, R.zw_conj(x)), "norm"),
    ):
        v = same(obs, model, law)
        if v:
            return v
    nx, ny = R.zw_norm_int(x), R.zw_norm_int(y)
    if abs(X) != nx or abs(X * Y) != nx * ny or abs(X) * abs(Y) != abs(X * Y):
        return bad(f"zw:norm-multiplicative:{tag}", [abs(X), abs(Y), abs(X * Y)], [nx, ny, nx * ny])
    if zw_t(X.norm() * Y.norm()) != zw_t((X * Y).norm()):
        return bad(f"zw:norm2-multiplicative:{tag}", repr(X.norm() * Y.norm()), repr((X * Y).norm()))
    nz = R.zw_to_zs(R.zw_mul(x, R.zw_conj(x)))
    if nz is None or zs_t(X.norm().to_sqrt_two()) != nz:
        return bad(f"zw:norm-in-zsqrt2:{tag}", repr(X.norm()), nz)
    if (X == Y) != (x == y):
        return bad(f"zw:eq:{tag}", X == Y, x == y)
    zs = R.zw_to_zs(x)
    try:
        got = zs_t(X.to_sqrt_two())
    except ValueError:
        got = None
    if got != zs:
        return bad(f"zw:to_sqrt_two:{tag}", got, zs)
    for n in INT_SCALARS:
        for obs, model, law in ((X + n, R.zw_add(x, (0, 0, 0, n)), "add-int"), (n + X, R.zw_add(x, (0, 0, 0, n)), "radd-int"),
                                (X * n, R.zw_scale(x, n), "mul-int"), (n * X, R.zw_scale(x, n), "rmul-int"),
                                (X - n, R.zw_add(x, (0, 0, 0, -n)), "sub-int"), (n - X, R.zw_add(R.zw_neg(x), (0, 0, 0, n)), "rsub-int")):
            v = same(obs, model, law)
            if v:
                return v
    if y != R.ZW_ZERO:
        r = zw_t(X % Y)
        if not (R.zw_divides(y, R.zw_add(x, R.zw_neg(r))) or R.zw_divides(y, R.zw_add(x, r))):
            return bad(f"zw:mod-not-congruent:{tag}", list(r), {"x": list(x), "y": list(y)})
    p = R.ZW_ONE
    for k in range(4):
        v = same(X ** k, p, "pow")
        if v:
            return v
        p = R.zw_mul(p, x)
    # normalize(): x = res * sqrt2^ix and res is not divisible by sqrt2 any more
    if x != R.ZW_ZERO:
        res, ix = X.normalize()
        rt = zw_t(res)
        if R.zw_times_sqrt2_pow(rt, ix) != x or R.zw_divides(R.ZW_SQRT2, rt):
            return bad(f"zw:normalize:{tag}", [list(rt), ix], list(x))
    if tag == "small":
        if abs(complex(X) - R.zw_complex(x)) > 1e-12:
            return bad("zw:complex", complex(X), R.zw_complex(x))
        # from_sqrt_pair(alpha, beta, shift) = alpha + i beta + shift
        al, be = (x[0], x[1]), (x[2], x[3])
        fp = W.from_sqrt_pair(Z(*al), Z(*be), Y)
        model = R.zw_add(R.zw_add(R.zs_to_zw(al), R.zw_mul((0, 1, 0, 0), R.zs_to_zw(be))), y)
        v = same(fp, model, "from_sqrt_pair")
        if v:
            return v
    n3 = 0
    if not spec.get("pairs_only"):
        for z in zw_elements(tag):
            Zz = W(*z)
            for obs, model, law in (
                ((X + Y) + Zz, R.zw_add(R.zw_add(x, y), z), "add-associative"), (X + (Y + Zz), R.zw_add(R.zw_add(x, y), z), "add-associative"),
                ((X * Y) * Zz, R.zw_mul(xy, z), "mul-associative"), (X * (Y * Zz), R.zw_mul(xy, z), "mul-associative"),
                (X * (Y + Zz), R.zw_add(xy, R.zw_mul(x, z)), "distributive"), ((Y + Zz) * X, R.zw_add(xy, R.zw_mul(x, z)), "distributive"),
            ):
                v = same(obs, model, law)
                if v:
                    v["x"] = dict(v.get("x") or {}, z=list(z))
                    return v
            n3 += 1
    return ok([(nx * ny) % 1000003, zs is not None, n3], nontrivial=x not in (R.ZW_ZERO, R.ZW_ONE) and y not in (R.ZW_ZERO, R.ZW_ONE))


def check_zw_div(spec):
    """(x * n) / n == x  exactly (own case kind: a failure must not mask the other laws)."""
    W = _rings().ZOmega
    x, n = tuple(spec["x"]), spec["n"]
    X = W(*x)
    q = (X * n) / n
    size = "large" if max(abs(v) for v in x) * abs(n) >= 2 ** 53 else "small"
    if not isinstance(q, W) or not _ints(zw_t(q)) or zw_t(q) != x:
        return bad(f"zw:div-int-undoes-mul:{size}-coefficients", repr(q), list(x), n=n)
    try:
        (X * n + W(d=1)) / (n if abs(n) > 1 else 2)
        inexact_rejected = False
    except TypeError:
        inexact_rejected = True
    if not inexact_rejected and abs(n) > 1:
        return bad("zw:div-int-accepts-inexact", "returned", "TypeError")
    return ok([size, inexact_rejected], nontrivial=abs(n) > 1)


# ------------------------------------------------------------------------------------------------ matrices
def _gens():
    """generator table: name -> ((a, b, c, d) entries as Z[omega] tuples, k).  Exact matrix forms (not from PennyLane's tables)."""
    one, zero, i_, w = (0, 0, 0, 1), (0, 0, 0, 0), (0, 1, 0, 0), (0, 0, 1, 0)
    return [
        ("H", ((one, one, one, (0, 0, 0, -1)), 1)), ("S", ((one, zero, zero, i_), 0)), ("T", ((one, zero, zero, w), 0)),
        ("X", ((zero, one, one, zero), 0)), ("wI", ((w, zero, zero, w), 0)),
        ("sqrt2I", ((one, zero, zero, one), -1)), ("shear", ((one, (1, 0, -1, 1), zero, (0, 0, 0, -1)), 2)),
    ]


N_UNITARY = 5


def _dm(M):
    r = _rings()
    e, k = M
    return r.DyadicMatrix(*[r.ZOmega(*t) for t in e], k=k)


def _dm_t(D):
    return (tuple(zw_t(s) for s in D.flatten), D.k)


def _word(idx):
    """-> (implementation product (left fold), model product)"""
    from mc import x_rings as R

    G = _gens()
    D, M = None, None
    for i in idx:
        g = G[i][1]
        D = _dm(g) if D is None else D @ _dm(g)
        M = g if M is None else R.dm_matmul(M, g)
    return D, M


def check_dm(spec):
    """spec['w'] = list of 1..3 words (lists of generator indices)."""
    import numpy as np
    from mc import x_rings as R

    words = spec["w"]
    pairs = [_word(w) for w in words]
    for (D, M), w in zip(pairs, words):
        if not R.dm_same_value(_dm_t(D), M):
            return bad("dm:word-product", repr(D), [list(map(list, M[0])), M[1]], word=w)
        if not np.allclose(D.ndarray, np.array(R.dm_complex(M)), atol=1e-9, rtol=0):
            return bad("dm:ndarray", D.ndarray, R.dm_complex(M), word=w)
        again = _dm(_dm_t(D))
        if not again == D:
            return bad("dm:normalize-not-idempotent", repr(again), repr(D), word=w)
        e2 = tuple(R.zw_conj(t) for t in M[0])  # sqrt2^k is real
        if not R.dm_same_value(_dm_t(D.conj()), (e2, M[1])) or not D.conj().conj() == D:
            return bad("dm:conj", repr(D.conj()), [list(map(list, e2)), M[1]], word=w)
        if not R.dm_same_value(_dm_t(-D), (tuple(R.zw_neg(t) for t in M[0]), M[1])):
            return bad("dm:neg", repr(-D), "negated entries", word=w)
        for sc in (3, -2, (1, 0, -1, 2)):
            S = sc if isinstance(sc, int) else _rings().ZOmega(*sc)
            st = (0, 0, 0, sc) if isinstance(sc, int) else sc
            if not R.dm_same_value(_dm_t(D * S), (tuple(R.zw_mul(t, st) for t in M[0]), M[1])):
                return bad("dm:scalar-mul", repr(D * S), "scaled entries", word=w, scalar=sc)
    if len(words) >= 2:
        (A, a), (B, b) = pairs[0], pairs[1]
        AB = A @ B
        if not R.dm_same_value(_dm_t(AB), R.dm_matmul(a, b)):
            return bad("dm:matmul", repr(AB), "model product", words=words)
        if not np.allclose(AB.ndarray, A.ndarray @ B.ndarray, atol=1e-9, rtol=0):
            return bad("dm:matmul-vs-ndarray", AB.ndarray, A.ndarray @ B.ndarray, words=words)
        s1, s2 = A + B, B + A
        if not R.dm_same_value(_dm_t(s1), R.dm_add(a, b)):
            return bad("dm:add" + (":odd-k-difference" if (a[1] - b[1]) % 2 else ""), repr(s1), "model sum", words=words, ks=[A.k, B.k])
        if not s1 == s2:
            return bad("dm:add-commutes", repr(s1), repr(s2), words=words)
    if len(words) == 3:
        (A, a), (B, b), (C, c) = pairs
        laws = (("matmul-associative", (A @ B) @ C, A @ (B @ C), R.dm_matmul(R.dm_matmul(a, b), c)),
                ("distributive", A @ (B + C), (A @ B) + (A @ C), R.dm_add(R.dm_matmul(a, b), R.dm_matmul(a, c))),
                ("add-associative", (A + B) + C, A + (B + C), R.dm_add(R.dm_add(a, b), c)))
        # first the exact values of both sides, then the implementation's own == (which compares normalised representations)
        for law, l, r, m in laws:
            if not (R.dm_same_value(_dm_t(l), m) and R.dm_same_value(_dm_t(r), m)):
                return bad(f"dm:{law}:value", [repr(l), repr(r)], "model", words=words)
        for law, l, r, m in laws:
            if not l == r:
                # normalize() pulls sqrt2 out of the entries only while k > 0: representations with k <= 0 are not unique
                nonpos = min(l.k, r.k) <= 0
                return bad("dm:eq-representation-not-canonical" + (":nonpositive-k" if nonpos else ""), repr(l), repr(r), law=law, words=words,
                           ks=[l.k, r.k])
    D = pairs[-1][0]
    return ok([len(words), [len(w) for w in words], D.k, sum(abs(v) for s in D.flatten for v in zw_t(s)) % 97], nontrivial=sum(len(w) for w in words) > 1)


def check_dm_adj2(spec):
    """root-2 conjugation of a dyadic matrix: entries / sqrt2^k  ->  adj2(entries) / (-sqrt2)^k; it must be additive and
    multiplicative (own case kind: a failure must not mask the other matrix laws)."""
    from mc import x_rings as R

    words = spec["w"]
    pairs = [_word(w) for w in words]
    cls = []
    for (D, M), w in zip(pairs, words):
        e2 = tuple(R.zw_adj2(t) for t in M[0])
        if M[1] % 2:
            e2 = tuple(R.zw_neg(t) for t in e2)
        cls.append(D.k % 2)
        if not R.dm_same_value(_dm_t(D.adj2()), (e2, M[1])):
            return bad("dm:adj2:value" + (":odd-k" if D.k % 2 else ":even-k"), repr(D.adj2()), [list(map(list, e2)), M[1]], word=w, k=D.k)
    if len(words) == 2:
        (A, _), (B, _) = pairs
        tag = ":odd-k-operand" if (A.k % 2 or B.k % 2 or (A @ B).k % 2 or (A + B).k % 2) else ":even-k"
        if not (A @ B).adj2() == A.adj2() @ B.adj2():
            return bad("dm:adj2:not-multiplicative" + tag, repr((A @ B).adj2()), repr(A.adj2() @ B.adj2()), words=words)
        if not (A + B).adj2() == A.adj2() + B.adj2():
            return bad("dm:adj2:not-additive" + tag, repr((A + B).adj2()), repr(A.adj2() + B.adj2()), words=words)
    return ok([cls], nontrivial=any(cls))


def _rotation(U):
    import numpy as np

    P = [np.array([[0, 1], [1, 0]], dtype=complex), np.array([[0, -1j], [1j, 0]]), np.array([[1, 0], [0, -1]], dtype=complex)]
    return np.array([[0.5 * np.trace(P[i] @ U @ P[j] @ U.conj().T).real for j in range(3)] for i in range(3)])


def check_so3(spec):
    """words over the unitary generators: SO3Matrix(U) is the Bloch rotation of U; @ is a homomorphism and associative."""
    import numpy as np
    from mc import x_rings as R

    SO3 = _rings().SO3Matrix
    words = spec["w"]
    pairs = [_word(w) for w in words]
    sos = []
    for (D, M), w in zip(pairs, words):
        so = SO3(D)
        U = np.array(R.dm_complex(M))
        if not np.allclose(so.ndarray, _rotation(U), atol=1e-9, rtol=0):
            return bad("so3:from-matrix", so.ndarray, _rotation(U), word=w)
        if not all(type(v) is int for s in so.flatten for v in (s.a, s.b)):
            return bad("so3:non-integer-entries", repr(so), "ZSqrtTwo entries with int coefficients", word=w)
        if not np.allclose(so.ndarray @ so.ndarray.T, np.eye(3), atol=1e-9):
            return bad("so3:not-orthogonal", so.ndarray, "orthogonal", word=w)
        sos.append(so)
    if len(words) >= 2:
        (A, _), (B, _) = pairs[0], pairs[1]
        prod, direct = sos[0] @ sos[1], SO3(A @ B)
        if not prod == direct:
            return bad("so3:matmul-homomorphism", repr(prod), repr(direct), words=words)
        if not np.allclose(prod.ndarray, sos[0].ndarray @ sos[1].ndarray, atol=1e-9, rtol=0):
            return bad("so3:matmul-vs-ndarray", prod.ndarray, sos[0].ndarray @ sos[1].ndarray, words=words)
        if not np.allclose(prod.matrix.ndarray, (A @ B).ndarray, atol=1e-9, rtol=0):
            return bad("so3:matmul-su2-part", prod.matrix.ndarray, (A @ B).ndarray, words=words)
    if len(words) == 3:
        l, r = (sos[0] @ sos[1]) @ sos[2], sos[0] @ (sos[1] @ sos[2])
        if not l == r:
            return bad("so3:matmul-associative", repr(l), repr(r), words=words)
    so = sos[-1]
    return ok([so.k, [int(v) for v in so.parity_vec]], nontrivial=sum(len(w) for w in words) > 1)


# ------------------------------------------------------------------------------------------------ norm equations (E4)
def _clear_solver_caches(ns):
    for name in ("_prime_factorize", "_integer_factorize", "_primality_test", "_legendre_symbol"):
        f = getattr(ns, name, None)
        if hasattr(f, "cache_clear"):
            f.cache_clear()


def _menu(lo, hi):
    """finite answer menu for randrange(lo, hi): default first."""
    out = []
    for v in (lo, lo + 1, (lo + hi) // 2, hi - 1):
        if lo <= v < hi and v not in out:
            out.append(v)
    return out


class _Owned:
    """context manager: norm_solver.randrange := scripted source asking the chooser."""

    def __init__(self, ns, chooser):
        self.ns, self.ch, self.calls = ns, chooser, 0

    def __enter__(self):
        self.real = self.ns.randrange

        def scripted(lo, hi=None):
            if hi is None:
                lo, hi = 0, lo
            m = _menu(lo, hi)
            self.calls += 1
            return m[self.ch.choose(len(m), f"randrange({lo},{hi})")]

        self.ns.randrange = scripted
        return self

    def __exit__(self, *a):
        self.ns.randrange = self.real


class _Watchdog:
    """A case of the solver family that does not return within `seconds` of CPU time (ITIMER_VIRTUAL: independent of machine
    load; unmutated cases need well under 1 s) is reported as a violation (a broken ring operation
    can make the Euclidean gcd loop forever); never used to truncate the exploration."""

    tripped = False  # after one genuine timeout in this process the remaining cases get a short fuse

    def __init__(self, seconds=60):
        self.seconds = 5 if _Watchdog.tripped else seconds

    def __enter__(self):
        import signal
        import threading

        self.active = threading.current_thread() is threading.main_thread()
        if self.active:
            def fire(*_):
                _Watchdog.tripped = True
                raise TimeoutError(f"no result within {self.seconds}s of CPU time")

            self.old = signal.signal(signal.SIGVTALRM, fire)
            signal.setitimer(signal.ITIMER_VIRTUAL, self.seconds)
        return self

    def __exit__(self, *a):
        import signal

        if self.active:
            signal.setitimer(signal.ITIMER_VIRTUAL, 0)
            signal.signal(signal.SIGVTALRM, self.old)
        return False


def _guard(fn):
    """run a solver-family check under the watchdog; TimeoutError (an OSError subclass, i.e. 'harness error' for the engine) is
    converted into a proper violation here."""
    import functools

    @functools.wraps(fn)
    def wrapped(spec):
        try:
            with _Watchdog():
                return fn(spec)
        except TimeoutError as e:
            return bad(f"{fn.__name__}:does-not-terminate", str(e), "a result")

    return wrapped


def _nonneg(a, b):
    """a + b sqrt2 >= 0, decided in integers."""
    if a >= 0 and b >= 0:
        return True
    if a < 0 and b < 0:
        return False
    return a * a >= 2 * b * b if a >= 0 else 2 * b * b >= a * a


@_guard
def check_solve(spec):
    from mc import x_rings as R
    from mc.explore import answer_tree
    from pennylane.ops.op_math.decompositions import norm_solver as ns

    a, b = spec["a"], spec["b"]
    Zs, W = _rings().ZSqrtTwo, _rings().ZOmega
    target = R.zs_to_zw((a, b))
    doubly = _nonneg(a, b) and _nonneg(a, -b)

    def run(ch):
        _clear_solver_caches(ns)
        with _Owned(ns, ch) as own:
            try:
                t = ns._solve_diophantine(Zs(a, b), max_trials=spec["max_trials"])
            except TimeoutError:
                raise
            except Exception as e:  # judged below
                return ("exc", f"{type(e).__name__}: {e}", own.calls)
        if t is None:
            return ("none", None, own.calls)
        if not isinstance(t, W) or not _ints(zw_t(t)):
            return ("malformed", repr(t), own.calls)
        tt = zw_t(t)
        return ("solved" if R.zw_mul(R.zw_conj(tt), tt) == target else "unsound", list(tt), own.calls)

    leaves = solved = none = exc = 0
    max_draws = 0
    first = None
    for choices, obs, ch in answer_tree(run, bound=spec["bound"], max_execs=200000):
        kind, val, draws = obs
        leaves += 1
        max_draws = max(max_draws, draws)
        if kind == "unsound" or kind == "malformed":
            return bad("solve:returned-t-does-not-satisfy-equation", val, {"xi": [a, b]}, answers=choices)
        if kind == "exc":
            if doubly:
                return bad("solve:raised:doubly-nonnegative-xi", val, "None or a solution", answers=choices)
            exc += 1
        elif kind == "solved":
            solved += 1
            if first is None:
                first = val
            if not doubly:
                return bad("solve:solution-for-non-doubly-positive-xi", val, "impossible", answers=choices)
        else:
            none += 1
    return ok([doubly, leaves, solved, none, exc, max_draws], nontrivial=solved > 0 or max_draws > 0)


@_guard
def check_factorize(spec):
    """_prime_factorize on every n in [lo, hi) under the scripted randrange (bound 1): a returned list is THE prime factorisation;
    None only if a prime factor = 7 (mod 8) exists (z_sqrt_two=True) or the trial budget was exhausted."""
    from mc import x_rings as R
    from mc.explore import answer_tree
    from pennylane.ops.op_math.decompositions import norm_solver as ns

    lo, hi, mt = spec["lo"], spec["hi"], spec["max_trials"]
    stats = [0, 0, 0]
    for n in range(lo, hi):
        ref = R.trial_factor(n) if n > 1 else []
        for zflag in (True, False):

            def run(ch):
                _clear_solver_caches(ns)
                with _Owned(ns, ch) as own:
                    return ns._prime_factorize(n, mt, zflag), own.calls

            for choices, (res, draws), ch in answer_tree(run, bound=spec["bound"], max_execs=100000):
                stats[0] += 1
                if res is None:
                    excused = (zflag and any(p % 8 == 7 for p in ref)) or draws >= 3 * mt
                    if not excused:
                        return bad("factorize:none-without-reason", None, ref, n=n, z_sqrt_two=zflag, answers=choices)
                    stats[1] += 1
                else:
                    if list(res) != ref:
                        return bad("factorize:wrong-factors", list(res), ref, n=n, z_sqrt_two=zflag, answers=choices)
                    if zflag and any(p % 8 == 7 for p in ref):
                        return bad("factorize:7mod8-not-rejected", list(res), None, n=n)
                stats[2] = max(stats[2], draws)
    return ok(stats, nontrivial=True)


@_guard
def check_sqrt_mod(spec):
    """_sqrt_modulo_p(n, p) for every n in [-p, 2p] : r*r = n (mod p) or None iff n is a non-residue."""
    from pennylane.ops.op_math.decompositions import norm_solver as ns

    p = spec["p"]
    squares = {(x * x) % p for x in range(p)}
    cnt = 0
    for n in range(-p, 2 * p + 1):
        _clear_solver_caches(ns)
        r = ns._sqrt_modulo_p(n, p)
        if (n % p) in squares:
            if r is None or type(r) is not int or not 0 <= r < p or (r * r - n) % p != 0:
                return bad("sqrt_mod:wrong-root" + (":p=1mod8" if p % 8 == 1 else ""), r, f"a root of {n} mod {p}")
            cnt += 1
        elif r is not None:
            return bad("sqrt_mod:root-of-non-residue", r, None, n=n, p=p)
    return ok([p % 8, cnt], nontrivial=p > 2)


@_guard
def check_prime_split(spec):
    """_factorize_prime_zsqrt_two(p): the factors are elements of Z[sqrt2] whose product is +-p (p = 2, 1, 7 mod 8) or p itself;
    _gcd on ring elements returns a common divisor."""
    from mc import x_rings as R
    from pennylane.ops.op_math.decompositions import norm_solver as ns

    p = spec["p"]
    _clear_solver_caches(ns)
    fs = ns._factorize_prime_zsqrt_two(p)
    if fs is None:
        return bad("prime_split:none", None, "factors", p=p)
    prod = (1, 0)
    for f in fs:
        prod = R.zs_mul(prod, zs_t(f))
    if prod not in ((p, 0), (-p, 0)):
        return bad("prime_split:product", [list(zs_t(f)) for f in fs], p)
    want = 1 if p % 8 in (3, 5) else 2
    if len(fs) != want:
        return bad("prime_split:count", len(fs), want, p=p)
    Zs = _rings().ZSqrtTwo
    for (a, b), (c, d) in (((p, 0), (3, 1)), ((p, 2), (p, -2)), ((2 * p, p), (p, p))):
        g = zs_t(ns._gcd(Zs(a, b), Zs(c, d)))
        if g == (0, 0) or not (R.zs_divides(g, (a, b)) and R.zs_divides(g, (c, d))):
            return bad("gcd:zsqrt2-not-a-common-divisor", list(g), [[a, b], [c, d]])
    return ok([p % 8, len(fs)], nontrivial=want == 2)


# ------------------------------------------------------------------------------------------------ primality
HARD_COMPOSITES = [  # (n, a non-trivial factorisation = certificate)
    [3215031751, [151, 751, 28351]], [2152302898747, [6763, 10627, 29947]], [3474749660383, [1303, 16927, 157543]],
    [341550071728321, [10670053, 32010157]], [3825123056546413051, [149491, 747451, 34233211]],
    [294409, [37, 73, 109]], [56052361, [211, 421, 631]], [118901521, [271, 541, 811]], [172947529, [307, 613, 919]],
    [(6 * 241920 + 1) * (12 * 241920 + 1) * (18 * 241920 + 1), [6 * 241920 + 1, 12 * 241920 + 1, 18 * 241920 + 1]],
    [(6 * 242160 + 1) * (12 * 242160 + 1) * (18 * 242160 + 1), [6 * 242160 + 1, 12 * 242160 + 1, 18 * 242160 + 1]],
    [(6 * 1025 + 1) * (12 * 1025 + 1) * (18 * 1025 + 1), [6 * 1025 + 1, 12 * 1025 + 1, 18 * 1025 + 1]],
    [4294967291 * 4294967279, [4294967291, 4294967279]], [4294967291 ** 2, [4294967291, 4294967291]],
    [(2 ** 31 - 1) * (2 ** 31 + 11), [2 ** 31 - 1, 2 ** 31 + 11]], [65521 ** 2, [65521, 65521]], [(10 ** 9 + 7) ** 2, [10 ** 9 + 7, 10 ** 9 + 7]],
    [101 * 103, [101, 103]], [193 * 241, [193, 241]], [2 ** 61 - 1 + 2, [3, (2 ** 61 + 1) // 3]],
    # least strong pseudoprimes of the base sets commonly used for deterministic Miller-Rabin (the exclusive upper bounds of
    # their validity): {2}, {2,3}, {2,3,5}, {2,7,61}, {31,73}, {2,13,23,1662803} — a bound read as inclusive fails exactly here
    [2047, [23, 89]], [1373653, [829, 1657]], [25326001, [2251, 11251]], [4759123141, [48781, 97561]], [9080191, [2131, 4261]],
    [1122004669633, [611557, 1834669]],
]
LARGE_PRIMES = [2 ** 31 - 1, 2 ** 31 + 11, 4294967291, 4294967279, 2 ** 61 - 1, 2 ** 64 - 59, 2 ** 64 - 83, 10 ** 18 + 9, 10 ** 9 + 7, 65521,
                193, 241, 101, 9377, 28183, 450787, 9780517, 1795265047, 2 ** 89 - 1, 10 ** 20 + 39]


def check_primes_range(spec):
    from mc import x_rings as R
    from pennylane.ops.op_math.decompositions import norm_solver as ns

    lo, hi = spec["lo"], spec["hi"]
    sieve = R.small_primes(max(hi, 2))
    nprimes = 0
    for n in range(lo, hi):
        exp = bool(sieve[n]) if n >= 0 else False
        got = ns._primality_test(n)
        if got is not exp and bool(got) != exp:
            return bad("primality:" + ("prime-called-composite" if exp else "composite-called-prime"), bool(got), exp, n=n)
        nprimes += exp
    return ok([lo, nprimes], nontrivial=True)


def check_primes_special(spec):
    from pennylane.ops.op_math.decompositions import norm_solver as ns

    n = spec["n"]
    if spec["prime"]:
        # dev-time certified with sympy.isprime (deterministic below 2^64; BPSW + proven above for the listed Mersenne prime)
        if not ns._primality_test(n):
            return bad("primality:prime-called-composite", False, True, n=n)
        return ok(["prime", n.bit_length()])
    fs = spec["factors"]
    prod = 1
    for f in fs:
        prod *= f
    if prod != n or any(f in (1, n) for f in fs):
        raise OSError(f"harness: bad certificate for {n}")
    if ns._primality_test(n):
        return bad("primality:composite-called-prime", True, False, n=n, factors=fs)
    return ok(["composite", n.bit_length()])


# ------------------------------------------------------------------------------------------------ driver
def run(ctx):
    q = ctx.quick
    if ctx.only:  # development aid: ./run C16 --only dyadic  (restrict to axes containing the substring)
        real = ctx.enumerate

        def filtered(specs, **kw):
            if ctx.only in (kw.get("axis") or ""):
                real(specs, **kw)

        ctx.enumerate = filtered
    # Z[sqrt2]
    for name in ("small", "mag"):
        els = zs_elements(name)
        ctx.enumerate([{"t": "zs", "set": name, "x": list(x), "y": list(y)} for x in els for y in els], fn="check_zs", axis=f"zsqrt2:{name}:pairs(x,y; all z)")
    # Z[omega]
    els = zw_elements("small")
    ctx.enumerate([{"t": "zw", "set": "small", "x": list(x), "y": list(y)} for x in els for y in els], fn="check_zw", axis="zomega:small:pairs(x,y; all z)")
    mname = "mag_q" if q else "mag_t"
    els = zw_elements(mname)
    ctx.enumerate([{"t": "zw", "set": mname, "x": list(x), "y": list(y), "pairs_only": True} for x in els for y in els], fn="check_zw", axis="zomega:magnitude:pairs")
    divx = [list(x) for x in zw_elements("small")[::5] if x not in zw_elements("mag_q")] + [list(x) for x in zw_elements("mag_q")]
    ctx.enumerate([{"t": "zw_div", "x": x, "n": n} for x in divx for n in DIVISORS], fn="check_zw_div", axis="zomega:div")
    # matrices
    ng = len(_gens())
    w1 = [[i] for i in range(ng)]
    w2 = [[i, j] for i in range(ng) for j in range(ng)]
    w3 = [[i, j, k] for i in range(ng) for j in range(ng) for k in range(ng)]
    ctx.enumerate([{"t": "dm", "w": [w]} for w in w1 + w2 + w3], fn="check_dm", axis="dyadic:words")
    el2 = w1 + w2
    ctx.enumerate([{"t": "dm", "w": [a, b]} for a in el2 for b in el2], fn="check_dm", axis="dyadic:pairs")
    ctx.enumerate([{"t": "dm_adj2", "w": [w]} for w in w1 + w2 + w3] + [{"t": "dm_adj2", "w": [a, b]} for a in el2 for b in el2], fn="check_dm_adj2", axis="dyadic:adj2")
    tri = w1 if q else el2
    ctx.enumerate([{"t": "dm", "w": [a, b, c]} for a in tri for b in tri for c in tri], fn="check_dm", axis="dyadic:triples")
    u1 = [[i] for i in range(N_UNITARY)]
    u2 = [[i, j] for i in range(N_UNITARY) for j in range(N_UNITARY)]
    u3 = [[i, j, k] for i in range(N_UNITARY) for j in range(N_UNITARY) for k in range(N_UNITARY)]
    ctx.enumerate([{"t": "so3", "w": [w]} for w in u1 + u2 + u3], fn="check_so3", axis="so3:words")
    ue = u1 + u2
    ctx.enumerate([{"t": "so3", "w": [a, b]} for a in ue for b in ue], fn="check_so3", axis="so3:pairs")
    ut = u1 if q else ue
    ctx.enumerate([{"t": "so3", "w": [a, b, c]} for a in ut for b in ut for c in ut], fn="check_so3", axis="so3:triples")
    # norm equations
    B = 15 if q else 40
    xis = sorted(((a, b) for a in range(-B, B + 1) for b in range(-B, B + 1)), key=lambda t: (max(abs(t[0]), abs(t[1])), t))
    ctx.enumerate([{"t": "solve", "a": a, "b": b, "max_trials": 3, "bound": 2} for a, b in xis], fn="check_solve", axis="norm-equation")
    N = 600 if q else 3000
    ctx.enumerate([{"t": "factorize", "lo": lo, "hi": min(lo + 25, N), "max_trials": 2, "bound": 1} for lo in range(0, N, 25)], fn="check_factorize", axis="prime-factorize")
    from mc import x_rings as R

    pmax = 200 if q else 1000
    sv = R.small_primes(pmax)
    primes = [p for p in range(2, pmax + 1) if sv[p]]
    ctx.enumerate([{"t": "sqrt_mod", "p": p} for p in primes], fn="check_sqrt_mod", axis="sqrt-mod-p")
    ctx.enumerate([{"t": "split", "p": p} for p in primes], fn="check_prime_split", axis="prime-split")
    # primality
    top = 200000 if q else 2000000
    step = 5000
    ctx.enumerate([{"t": "primes", "lo": lo, "hi": lo + step} for lo in range(-step, top, step)], fn="check_primes_range", axis="primality:range", chunk=1)
    ctx.enumerate([{"n": n, "prime": False, "factors": f} for n, f in HARD_COMPOSITES] + [{"n": n, "prime": True} for n in LARGE_PRIMES],
                  fn="check_primes_special", axis="primality:special")
    ctx.coverage["alphabet"] = {
        "zsqrt2": {"small": "a,b in [-3,3]", "mag": [str(m) for m in MAG]}, "zomega": {"small": "entries in [-1,1]", "magnitude": [str(m) for m in (MAG_Q if q else MAG_T)]},
        "int_scalars": [str(s) for s in INT_SCALARS], "divisors": [str(s) for s in DIVISORS], "matrix_generators": [g[0] for g in _gens()],
        "randrange_menu": "lo, lo+1, (lo+hi)//2, hi-1", "hard_composites": [str(n) for n, _ in HARD_COMPOSITES], "large_primes": [str(n) for n in LARGE_PRIMES]}
    ctx.coverage["bound"] = {"triples": "third operand looped inside each (x, y) case", "matrix_word_length": 3, "xi_box": B, "solver_max_trials": 3,
                             "answer_tree_deviation_bound": 2, "factorize_n_max": N, "sqrt_mod_p_max": pmax, "primality_n_max": top}
