"""C21 — Mid-circuit measurement methods agree with the exact semantics (DESIGN §5.4).

E2 (dynamic-program grammar, all statement words up to the bound) x E4 (scripted RNG, full answer tree).

analytic  every program x measurement list x mcm_method in {deferred, tree-traversal} is executed through a QNode
          and compared with the branch-averaged value computed by mc.refsim.run_branches on a plain-Python reading
          of the same spec (mc/x_mcm.py: conditions and statistics are hand-written lambdas over outcome tuples).
shots     shots in {1, 2, [1,1]}: the RNG is a ScriptedGenerator; mc.explore.answer_tree enumerates EVERY answer
          sequence (binomial / choice draws).  A leaf's probability is the product of the probabilities the code
          handed to the generator; the distribution of the decoded result of every terminal measurement (sum of
          leaf probabilities per canonical result) must equal the reference distribution of that statistic of
          `shots` i.i.d. shots drawn from the exact history distribution, with invalid shots discarded (hw-like)
          or the shot distribution conditioned on validity (fill-shots).  Not statistical: exact to 1e-9.
"""
import itertools
import json
import math

from mc.engine import ok, bad, skip

PROPERTY = "C21"
LEVEL = "exploration"
TECHNIQUE = "exhaustive dynamic-program words x full scripted-RNG answer trees vs. branch-enumerating reference"
LEVEL_TEXT = ("All dynamic programs of <=3 statements (quick; <=4 over a reduced alphabet in thorough) over gates, 12 "
              "measure variants (wire x reset x postselect) and conditionals on 9 measurement-value expressions are run "
              "with deferred and tree-traversal (analytic) and compared with a branch-enumerating reference; with "
              "shots in {1,2,[1,1]} every RNG answer sequence of one-shot, tree-traversal and deferred (hw-like and "
              "fill-shots) is enumerated and the induced output distribution is compared exactly with the reference.")
LEVEL_NOTE = ("Reference = mc.refsim.run_branches / own history walker on 2 qubits with refgates matrices. Samples are "
              "compared as multisets (order of samples is not part of the property); joint distributions across "
              "different terminal measurements are not compared (only per-measurement marginals); >2 shots, >3 MCMs, "
              "broadcasting, jax/torch interfaces and gradients are not explored. Results when no shot survives "
              "postselection are documented as invalid (nan/empty/error) and only their probability is checked.")
DESIGN_REF = "5.4 C21"
START = "fork"
PARALLEL = True
RULE = ("all statement words over the declared alphabet up to the length bound that contain >=1 mid-circuit measurement "
        "and whose conditions refer to existing measurements, x preps x measurement lists x methods (x answer trees); "
        "non-trivial = more than one reachable outcome history or postselection with probability strictly between 0 and 1")
ASSUMPTIONS = ["refgates matrices (C02) for H, X, S, RX, RY, CNOT", "numpy.random.Generator.choice/binomial sample from the p they are given"]

TOL = 1e-9

MEASURES = [f"M{w}{r}{p}" for w in "01" for r in "01" for p in "n01"]
GATES_Q = ["H0", "RX0", "RY1", "CN01"]
GATES_T = GATES_Q + ["X1", "CN10", "H1"]
CONDS_Q = ["?a:X1", "?a:CN01", "?na:RX1", "?a:X1/RY0", "?a:HX", "?or:RX1", "?x1:X0", "?eq:CN10", "?and:RX1/X0"]
CONDS_T = CONDS_Q + ["?a:X0", "?and:X1", "?a0:RY0", "?lin:X1", "?nb:X0", "?na:CN10", "?x1:HX/RX1", "?or:X0/X1"]

# measurement lists (analytic); *_1 need one MCM, *_2 need two
BIG_1 = ["eZ0", "ea", "p01", "vX1", "pa", "va"]
BIG_2 = ["eZ0", "e2", "p10", "vX1", "pab", "v2", "ea"]
SMALL_1 = [["ea"], ["eZ0"], ["p01"], ["va"], ["pa"], ["vX1", "ea"], ["vZ0"], ["p01", "ea"], ["eZ0", "ea"], ["ea", "p1"], ["ena", "eZZ", "eX1"]]
SMALL_2 = [["e2"], ["pba"], ["v2", "vX1"], ["eb", "p0", "pab"], ["pab", "eZ0"]]


def _has_binary(body):
    return any(s[0] == "?" and s[1:].split(":")[0] in ("and", "or", "x1", "eq", "lin", "nb") for s in body)


def bodies(alphabet, maxlen, max_mcm=3):
    from mc.x_mcm import valid_word

    out = []
    for n in range(1, maxlen + 1):
        for w in itertools.product(alphabet, repeat=n):
            k = sum(1 for s in w if s[0] == "M")
            if k == 0 or k > max_mcm:
                continue
            if not valid_word(w):
                continue
            out.append(list(w))
    return out


# ------------------------------------------------------------------------------------------------- analytic
def _insert_mcms_shape(spec):
    """Structural class of the tree-traversal `insert_mcms` defect: exactly one non-MCM terminal measurement
    (after the variance transform, which turns var(obs) into two) together with >= 1 MCM statistic."""
    from mc.x_mcm import ATOMS

    n_obs = sum((2 if a[0] == "v" else 1) for a in spec["meas"] if ATOMS[a][0] == "obs")
    n_mv = sum(1 for a in spec["meas"] if ATOMS[a][0] == "mv")
    return n_obs == 1 and n_mv >= 1


def _late_postselect(spec):
    """A postselected MCM that is preceded by another MCM (where the tree-traversal defect can show)."""
    k = 0
    for s in spec["body"]:
        if s[0] == "M":
            if k >= 1 and s[3] != "n":
                return True
            k += 1
    return False


def _classify_tt(spec, res, exc):
    """Known-defect classification for analytic tree-traversal with late postselection: returns a signature if
    the observation is explained by per-subtree renormalisation (mc.x_mcm.per_subtree_model), else None."""
    import numpy as np
    from mc import x_mcm as X

    if spec["method"] != "tree-traversal" or not _late_postselect(spec):
        return None
    model = X.per_subtree_model(spec)
    if model is None:
        if exc is None or isinstance(exc, (ZeroDivisionError, ValueError)):
            return "analytic:tree-traversal:postselect-per-subtree:empty-subtree"
        return None
    if exc is not None:
        return None
    for r, m in zip(res, model):
        r = np.real(np.asarray(r)).astype(float).reshape(-1)
        m = np.asarray(m, dtype=float).reshape(-1)
        if r.shape != m.shape:
            if _insert_mcms_shape(spec) and r.size == 1:
                continue  # entry already hit by the insert_mcms defect (reported under its own signature)
            return None
        if not np.all(np.abs(r - m) <= TOL):
            return None
    return "analytic:tree-traversal:postselect-per-subtree:value"


def check(spec):
    if spec.get("shots") is not None:
        return check_shots(spec)
    import numpy as np
    import pennylane as qp
    from mc import x_mcm as X

    method = spec["method"]
    feat = X.features(spec)
    ref, tot, nbr = X.analytic_reference(spec)
    dev = qp.device("default.qubit")
    q = qp.QNode(X.qfunc(spec), dev, mcm_method=method)
    special = method == "tree-traversal" and _insert_mcms_shape(spec)
    try:
        res = q()
    except Exception as e:  # noqa: BLE001
        if ref is None:
            return ok(outcome=["zero-prob-postselect", type(e).__name__], nontrivial=False)
        if special and isinstance(e, TypeError) and "not iterable" in str(e):
            return bad("analytic:tree-traversal:one-obs-plus-mcm-stat:TypeError-not-iterable", repr(e)[:200], "results")
        sig = _classify_tt(spec, None, e)
        if sig:
            return bad(sig, repr(e)[:200], "results")
        return bad(f"analytic:{method}:exception:{type(e).__name__}:{feat}", repr(e)[:300], "results")
    if len(spec["meas"]) == 1:
        res = (res,)
    if ref is None:
        # documented: postselecting a probability-zero outcome gives invalid (nan/inf) results
        return ok(outcome="zero-prob-postselect", nontrivial=False)
    if len(res) != len(ref):
        return bad(f"analytic:{method}:result-count", len(res), len(ref))
    late = None
    fp = []
    for atom, r, e in zip(spec["meas"], res, ref):
        r = np.asarray(r)
        e = np.asarray(e, dtype=float)
        if np.iscomplexobj(r):
            if np.max(np.abs(r.imag)) > TOL:
                return bad(f"analytic:{method}:{atom}:complex", repr(r), e)
            r = r.real
        r = r.astype(float)
        if r.shape != e.shape and r.size == e.size:
            r = r.reshape(e.shape)  # result *structure* is C32's business; tree-traversal returns (1,)/(1,2^k) for MCM statistics
        if r.shape != e.shape:
            if special and X.ATOMS[atom][0] == "obs" and r.shape == () and e.ndim == 1 and abs(float(r) - e[0]) <= TOL:
                late = late or bad("analytic:tree-traversal:one-obs-plus-mcm-stat:probs-first-entry-only", r.tolist(), e.tolist())
                continue
            return bad(f"analytic:{method}:{atom}:shape:{feat}", list(r.shape), list(e.shape))
        if not np.all(np.abs(r - e) <= TOL):
            sig = _classify_tt(spec, res, None)
            return bad(sig or f"analytic:{method}:{atom}:{feat}", r.tolist(), e.tolist(), p_kept=tot, atom=atom)
        fp.append(np.round(e, 6).tolist())
    if late:
        return late
    nontrivial = nbr > 1 or (1e-9 < tot < 1 - 1e-9)
    return ok(outcome=[fp, round(tot, 6)], nontrivial=nontrivial)


# ------------------------------------------------------------------------------------------------- shots
_EMPTY_EXC = (ValueError, ZeroDivisionError, IndexError, FloatingPointError)


def _leaf_probability(log):
    p = 1.0
    for e in log:
        if e["fn"] == "choice":
            if e["p"] is None:
                p *= (1.0 / e["n"]) ** len(e["answers"])
            else:
                for a in e["answers"]:
                    p *= float(e["p"][a])
        elif e["fn"] == "binomial":
            import numpy as np

            ns = np.asarray(e["n"]).reshape(-1)
            ps = np.asarray(e["p"], dtype=float).reshape(-1)
            for i, k in enumerate(e["answers"]):
                n = int(ns[i if ns.size > 1 else 0])
                pp = float(ps[i if ps.size > 1 else 0])
                p *= math.comb(n, k) * pp ** k * (1 - pp) ** (n - k)
    return p


def check_shots(spec):
    import numpy as np
    import pennylane as qp
    from mc import x_mcm as X
    from mc.explore import answer_tree
    from mc.seams import ScriptedGenerator, own_numpy_rng

    method, mode, shots = spec["method"], spec["mode"], spec["shots"]
    feat = X.features(spec)
    atoms = spec["meas"]
    copies = shots if isinstance(shots, list) else [shots]
    _, pv = X.shot_distribution(spec, atoms[0], "hw-like")

    gen = ScriptedGenerator(None)
    dev = qp.device("default.qubit", seed=gen)
    q = qp.set_shots(qp.QNode(X.qfunc(spec), dev, mcm_method=method, postselect_mode=mode), shots)

    def run(ch):
        gen._ch = ch
        gen.log = []
        try:
            r = q()
        except _EMPTY_EXC + (RuntimeError, qp.exceptions.DeviceError) as e:
            r = e
        return r, gen.log

    if mode == "fill-shots" and method != "deferred":
        # documented: fill-shots is only supported with deferred measurements
        with own_numpy_rng(gen):
            r, _ = run(__import__("mc.explore", fromlist=["Chooser"]).Chooser([]))
        if isinstance(r, qp.exceptions.DeviceError):
            return skip("fill-shots needs deferred (DeviceError)")
        return bad(f"shots:{method}:fill-shots-accepted", repr(r)[:200], "DeviceError")

    # implementation: distribution of canonical results per copy and atom
    impl = [[{} for _ in atoms] for _ in copies]
    total = 0.0
    leaves = 0
    runtime_err = 0.0
    zde = 0.0
    cat = 0.0
    with own_numpy_rng(gen):
        for choices, (r, log), ch in answer_tree(run, max_execs=spec.get("max_leaves", 400000)):
            leaves += 1
            w = _leaf_probability(log)
            total += w
            if isinstance(r, RuntimeError) and not isinstance(r, qp.exceptions.DeviceError):
                runtime_err += w
                continue
            if isinstance(r, qp.exceptions.DeviceError):
                return bad(f"shots:{method}:{mode}:DeviceError", repr(r)[:200], "results")
            if isinstance(r, Exception):
                if isinstance(r, ZeroDivisionError):
                    zde += w
                elif isinstance(r, ValueError) and "need at least one array to concatenate" in str(r):
                    cat += w
                per_copy = [["EMPTY"] * len(atoms) for _ in copies]
            else:
                rr = r if isinstance(shots, list) else (r,)
                per_copy = []
                for rc in rr:
                    rc = (rc,) if len(atoms) == 1 else rc
                    try:
                        per_copy.append([X.canon_result(a, x) for a, x in zip(atoms, rc)])
                    except Exception as e:  # noqa: BLE001
                        return bad(f"shots:{method}:{mode}:undecodable-result:{feat}", repr(r)[:300], repr(e)[:200], choices=choices)
            for ci, cr in enumerate(per_copy):
                for ai, c in enumerate(cr):
                    k = json.dumps(c)
                    impl[ci][ai][k] = impl[ci][ai].get(k, 0.0) + w
    if abs(total - 1.0) > 1e-9:
        return bad(f"shots:{method}:{mode}:rng-probabilities-not-normalised:{feat}", total, 1.0, leaves=leaves)
    if mode == "fill-shots" and pv <= 1e-12:
        # documented RuntimeError: probability of the postselected outcome is 0
        if abs(runtime_err - 1.0) <= 1e-9:
            return skip("fill-shots on probability-zero postselection (RuntimeError)")
        return bad("shots:deferred:fill-shots:zero-prob-not-rejected", runtime_err, 1.0)
    if runtime_err > 1e-12:
        return bad(f"shots:{method}:{mode}:RuntimeError:{feat}", runtime_err, 0.0)
    ndist = 0
    for ci, s in enumerate(copies):
        for ai, atom in enumerate(atoms):
            exp = X.result_distribution(spec, atom, mode, s)
            got = impl[ci][ai]
            keys = set(exp) | set(got)
            ndist = max(ndist, len(keys))
            for k in sorted(keys):
                if abs(exp.get(k, 0.0) - got.get(k, 0.0)) > 1e-9:
                    sig = f"shots:{method}:{mode}:{atom}:distribution:{feat}"
                    if method == "tree-traversal" and (zde > 1e-12 or cat > 1e-12) and all(
                            got.get(kk, 0.0) <= exp.get(kk, 0.0) + 1e-9 for kk in keys if kk != '"EMPTY"'):
                        # known defect class: error although other subtrees / shot-vector copies hold valid
                        # shots; probability mass only moves from valid results to the error
                        sig = ("shots:tree-traversal:ZeroDivisionError-empty-subtree-or-copy" if zde > 1e-12
                               else "shots:tree-traversal:sample-concatenate-ValueError-empty-subtree")
                    return bad(sig,
                               {kk: round(v, 10) for kk, v in sorted(got.items())},
                               {kk: round(v, 10) for kk, v in sorted(exp.items())}, leaves=leaves, copy=ci)
    fp = [sorted((k, round(v, 6)) for k, v in impl[0][ai].items()) for ai in range(len(atoms))]
    return ok(outcome=[fp, leaves], nontrivial=ndist > 1)


# ------------------------------------------------------------------------------------------------- driver
def _specs_analytic(ctx):
    quick = ctx.quick
    sigma = MEASURES + (GATES_Q if quick else GATES_T) + (CONDS_Q if quick else CONDS_T)
    specs = []
    methods = ["deferred", "tree-traversal"]

    def add(prep, body, meas, uid="asc", lab="A"):
        for m in methods:
            specs.append({"prep": prep, "body": body, "meas": meas, "method": m, "uid": uid, "lab": lab})

    short = bodies(sigma, 2)
    for prep in ["ent", "bell", "prod", "none"]:
        for b in short:
            k = sum(1 for s in b if s[0] == "M")
            add(prep, b, BIG_1 if k == 1 else BIG_2)
            if quick and prep != "ent":
                continue
            lists = SMALL_1 if k == 1 else SMALL_1[:4] + SMALL_2
            for meas in lists:
                add(prep, b, meas)
            if k >= 2:
                add(prep, b, BIG_2, uid="desc")
            for lab in (["B"] if quick else ["B", "C", "D"]):
                add(prep, b, BIG_1 if k == 1 else BIG_2, lab=lab)
    long3 = [b for b in bodies(sigma, 3) if len(b) == 3]
    for prep in (["ent"] if quick else ["ent", "bell", "prod"]):
        for b in long3:
            k = sum(1 for s in b if s[0] == "M")
            add(prep, b, BIG_1 if k == 1 else BIG_2)
            if k >= 2 and (not quick or _has_binary(b)):
                add(prep, b, BIG_2, uid="desc")
            if not quick and prep == "ent":
                add(prep, b, BIG_1 if k == 1 else BIG_2, lab="B")
    if not quick:
        sigma4 = ["M00n", "M011", "M10n", "M101", "M110", "H0", "CN01", "?a:X1", "?na:RX1", "?and:X0", "?x1:CN01/RY0", "?a:HX"]
        for b in bodies(sigma4, 4):
            if len(b) == 4:
                k = sum(1 for s in b if s[0] == "M")
                add("ent", b, BIG_1 if k == 1 else BIG_2)
                if k >= 2:
                    add("ent", b, BIG_2, uid="desc")
    return specs, sigma


SHOT_CONFIGS = [("one-shot", "hw-like"), ("tree-traversal", "hw-like"), ("deferred", "hw-like"), ("deferred", "fill-shots")]
SHOT_LISTS_1 = [["sa", "eZ0"], ["ca", "s01"], ["ea", "sZ0", "pa"], ["va", "vX1"], ["p01"], ["c01", "sX1"]]
SHOT_LISTS_2 = [["sab", "eZ0"], ["cab", "s2"], ["e2", "pab", "sZ0"], ["c2", "sb", "s1"]]


def _has_ps(body):
    return any(s[0] == "M" and s[3] != "n" for s in body)


def _specs_shots(ctx):
    quick = ctx.quick
    sigma = MEASURES + ["H0", "CN01", "RY1"] + ["?a:X1", "?na:RX1", "?a:X0/RY0", "?and:X1", "?x1:X0", "?a:HX"]
    specs = []
    words1 = bodies(sigma, 1)
    words2 = [b for b in bodies(sigma, 2) if len(b) == 2]
    sigma3 = ["M00n", "M011", "M10n", "M101", "M110", "M000", "?a:X1", "?and:X0", "?x1:CN01/RY0", "H0"]
    words3 = [b for b in bodies(sigma3, 3, max_mcm=2) if len(b) == 3]
    native = SHOT_CONFIGS[:2]
    deferred = SHOT_CONFIGS[2:]

    def add(prep, b, meas, shots, cfgs=SHOT_CONFIGS, uid="asc", lab="A"):
        for method, mode in cfgs:
            if mode == "fill-shots" and not _has_ps(b):
                continue  # without postselection fill-shots and hw-like are the same code path
            specs.append({"prep": prep, "body": b, "meas": meas, "method": method, "mode": mode, "shots": shots, "uid": uid, "lab": lab})

    for b in words1:
        for prep in ["ent", "bell"]:
            for meas in SHOT_LISTS_1:
                for shots in (1, 2):
                    add(prep, b, meas, shots)
            add(prep, b, SHOT_LISTS_1[0], [1, 1])
    d2_first = ["M000", "M001", "M010", "M011", "M101"]
    d2_second = ["?a:X1", "?na:RX1", "?a:X0/RY0", "?a:HX", "M10n", "M00n", "M011", "M110"]
    for b in words2:
        k = sum(1 for s in b if s[0] == "M")
        lists = (SHOT_LISTS_1[:2] if quick else SHOT_LISTS_1[:3]) if k == 1 else SHOT_LISTS_2[:2]
        for li, meas in enumerate(lists):
            add("ent", b, meas, 1)
            if li == 0:
                add("ent", b, meas, 2, cfgs=native)
                if b[0] in d2_first and b[1] in d2_second:
                    add("ent", b, meas, 2, cfgs=deferred)
                elif not quick:
                    # two measurement groups square the deferred answer tree: one group at a time
                    add("ent", b, meas[:1], 2, cfgs=deferred)
                    add("ent", b, meas[1:], 2, cfgs=deferred)
        if k == 2:
            add("ent", b, SHOT_LISTS_2[0], 1, uid="desc", lab="B")
        if not quick:
            for meas in (SHOT_LISTS_1[3:] if k == 1 else SHOT_LISTS_2[2:]):
                add("ent", b, meas, 1)
                add("bell", b, meas, 2, cfgs=native)
            add("prod", b, (SHOT_LISTS_1 if k == 1 else SHOT_LISTS_2)[0], [1, 1], cfgs=native + deferred[:1])
    if not quick:
        for b in words3:
            k = sum(1 for s in b if s[0] == "M")
            meas = SHOT_LISTS_1[0] if k == 1 else SHOT_LISTS_2[0]
            add("ent", b, meas, 1)
            add("ent", b, meas, 2, cfgs=native)
    # fill-shots with a native method must be rejected
    specs.append({"prep": "ent", "body": ["M001"], "meas": ["ea"], "method": "one-shot", "mode": "fill-shots", "shots": 2, "uid": "asc", "lab": "A"})
    specs.append({"prep": "ent", "body": ["M001"], "meas": ["ea"], "method": "tree-traversal", "mode": "fill-shots", "shots": 2, "uid": "asc", "lab": "A"})
    return specs, sigma


def run(ctx):
    import pennylane  # noqa: F401  (imported in the driver so that forked workers inherit it)
    from mc import x_mcm, refsim, seams  # noqa: F401

    only = ctx.only
    if only in (None, "analytic"):
        specs, sigma = _specs_analytic(ctx)
        ctx.enumerate(specs, fn="check", axis="analytic")
        ctx.coverage["alphabet"] = {"statements": sigma, "preps": ["bell", "prod", "ent", "none"],
                                    "measurement_lists": [BIG_1, BIG_2] + SMALL_1 + SMALL_2,
                                    "methods": ["deferred", "tree-traversal"], "uid_order": ["asc", "desc"],
                                    "wire_labels": ["A", "B"] if ctx.quick else ["A", "B", "C", "D"]}
        ctx.coverage["bound"] = {"analytic_max_statements": 3 if ctx.quick else 4, "max_mcm": 3}
    if only in (None, "shots"):
        specs, sigma = _specs_shots(ctx)
        # heavy trees first so that the pool stays busy (order only; every spec is evaluated)
        def cost(sp):
            two = sp["shots"] != 1
            c = (6 if sp["method"] == "deferred" else 2 if sp["method"] == "tree-traversal" else 1)
            c *= (1 + sum(1 for x in sp["body"] if x[0] == "M")) * len(sp["meas"])
            return -(c ** 2 if two else c)
        specs.sort(key=cost)
        ctx.enumerate(specs, fn="check", axis="shots", chunk=2)
        ctx.coverage.setdefault("alphabet", {})["shots_statements"] = sigma
        ctx.coverage["alphabet"]["shots_configs"] = SHOT_CONFIGS
        ctx.coverage["alphabet"]["shots_lists"] = SHOT_LISTS_1 + SHOT_LISTS_2
        ctx.coverage.setdefault("bound", {}).update({"shots": [1, 2, [1, 1]], "shots_max_statements": 2 if ctx.quick else 3,
                                                      "answer_tree": "full (no deviation bound)"})
