"""C63 — Pulse evolution matches the Schrodinger equation (DESIGN §5.10).

E1: Hamiltonians (sums of <= 3 terms over {X0, Z0, Z0Z1, Y1, X0+X1} with constant / sin / linear / pwc / pwc_from_function /
rect coefficient functions, Rydberg interaction + drives incl. two pulses sharing a wire) x parameter grid x time
windows (float duration, [t0, t1], intermediate times with return_intermediate / complementary) x entry points
(qp.evolve(H)(p, t).matrix, ParametrizedEvolution(...), circuits on default.qubit: matrix path, state path, 3-wire
embedding with permuted wires, broadcast intermediate states).
Oracle: scipy — expm on constant pieces, DOP853 (rtol 1e-11) between the break points of the coefficient functions,
with the coefficient functions re-implemented in numpy from their documentation (mc/x_pulse.py).
Gradients: jax.grad (backprop) and the pulse_odegen transform vs 8th-order finite differences of the reference;
stoch_pulse_grad only where its integrand is independent of the sampled split time (single-word constant envelope).
"""
import math

from mc.engine import ok, bad, skip

PROPERTY = "C63"
LEVEL = "exploration"
TECHNIQUE = "bounded exhaustive enumeration of parametrized Hamiltonians x parameters x time windows x entry points vs. independent scipy integration (expm / DOP853)"
LEVEL_TEXT = ("11 Hamiltonian families (constant, sin, linear, pwc, pwc_from_function, rect coefficients; Rydberg interaction with one drive and two drives "
              "sharing a wire) x 3 parameter points (quick 1) x 4 time windows (quick 2) x up to 7 entry points are evolved with atol=rtol=1e-10 and compared "
              "at 1e-6 with a scipy reference that integrates the Schrodinger equation piecewise (expm on constant pieces, DOP853 rtol 1e-11 otherwise).")
LEVEL_NOTE = ("Coefficient functions are re-implemented in numpy from their documentation except pwc_from_function (callable taken as given). Transmon "
              "Hamiltonians are not explored. stoch_pulse_grad is a Monte-Carlo estimator over a continuous split time: decided only where every sampled time "
              "gives the exact value (single Pauli-word generator with constant envelope), for 3 seeds x 2 sample counts; otherwise not decided. "
              "Gradients compared at 1e-5 with finite differences of the reference.")
DESIGN_REF = "5.10 C63"
START = "spawn"
PARALLEL = True
RULE = ("one case = (Hamiltonian family, parameter point, time window, entry point); complete product of the declared menus; non-trivial = the reference "
        "propagator differs from the identity and (for parametrized families) depends on the parameters")

HAMS = {
    "const": {"kind": "generic", "terms": [{"op": "X0", "f": ["constant"]}, {"op": "Z0Z1", "f": ["fixed", 0.4]}]},
    "const2": {"kind": "generic", "terms": [{"op": "Z0", "f": ["constant"]}, {"op": "X0+X1", "f": ["constant"]}]},
    "const_comm": {"kind": "generic", "terms": [{"op": "X0", "f": ["constant"]}, {"op": "X0+X1", "f": ["fixed", 0.4]}]},  # all terms commute
    "sin": {"kind": "generic", "terms": [{"op": "X0", "f": ["sin"]}, {"op": "Z0", "f": ["fixed", 0.3]}]},
    "lin_sin": {"kind": "generic", "terms": [{"op": "Z0Z1", "f": ["lin"]}, {"op": "Y1", "f": ["sin"]}, {"op": "X0+X1", "f": ["fixed", 0.4]}]},
    "pwc3": {"kind": "generic", "terms": [{"op": "X0", "f": ["pwc", [0.2, 1.5]]}, {"op": "Z0", "f": ["fixed", 0.5]}]},
    "pwc_sin": {"kind": "generic", "terms": [{"op": "X0", "f": ["pwc", [0.0, 2.0]]}, {"op": "Y1", "f": ["sin"]}, {"op": "Z0Z1", "f": ["fixed", 0.3]}]},
    "pwcf": {"kind": "generic", "terms": [{"op": "Y1", "f": ["pwcf", [0.0, 2.0], 4]}, {"op": "Z0Z1", "f": ["fixed", 1.0]}]},
    "rect": {"kind": "generic", "terms": [{"op": "X0", "f": ["rect_sin", [[0.3, 0.8], [1.2, 1.6]]]}, {"op": "Z0", "f": ["fixed", 1.0]}]},
    "ryd": {"kind": "rydberg", "register": [[0.0, 0.0], [0.0, 1.5]], "c6": 5.0,
            "drives": [{"amp": ["sin"], "phase": 0.4, "det": ["lin"], "wires": [0, 1]}]},
    "ryd2": {"kind": "rydberg", "register": None, "c6": 0.0,
             "drives": [{"amp": ["sin"], "phase": ["constant"], "det": 0.0, "wires": [0, 1]},
                        {"amp": 0.6, "phase": ["lin"], "det": ["constant"], "wires": [0]}]},
}
PARAMS = {
    "const": [[0.7], [-1.3], [2.1]],
    "const2": [[0.5, 0.8], [-1.1, 0.3], [0.2, -0.9]],
    "const_comm": [[0.7], [-1.3], [2.1]],
    "sin": [[1.5], [0.4], [3.0]],
    "lin_sin": [[[0.3, -0.5], 1.2], [[-0.8, 0.6], 0.5], [[1.0, 0.1], 2.5]],
    "pwc3": [[[0.5, -1.0, 2.0]], [[1.5, 0.25]], [[0.3, 0.6, -0.9, 1.2]]],
    "pwc_sin": [[[0.5, -1.0, 2.0, 0.7], 1.2], [[1.0, 0.2], 0.6], [[-0.4, 0.9, 0.1], 2.0]],
    "pwcf": [[[0.8, -0.5]], [[-0.3, 1.0]], [[1.5, 0.2]]],
    "rect": [[2.0], [0.7], [4.0]],
    "ryd": [[0.35, [0.2, -0.3]], [0.8, [-0.1, 0.15]], [0.15, [0.05, 0.4]]],
    "ryd2": [[0.35, 0.5, [0.3, 0.2], -0.4], [0.8, -0.7, [0.1, 0.9], 0.25], [0.2, 1.4, [-0.5, 0.3], 0.1]],
}
WINDOWS = {"t1": 1.0, "w": [0.5, 2.0], "inter": [0.0, 0.7, 1.3, 2.0], "comp": [0.0, 0.7, 1.3, 2.0]}
TIGHT = {"atol": 1e-10, "rtol": 1e-10}


def _times(win):
    w = WINDOWS[win]
    return [0.0, float(w)] if not isinstance(w, list) else [float(x) for x in w]


def _prep(wires):
    import pennylane as qp

    qp.RY(0.4, wires=wires[0])
    qp.RX(0.9, wires=wires[1])
    qp.CNOT(wires=[wires[0], wires[1]])


def _prep_state():
    import numpy as np

    from mc import x_pulse as XP

    ry = np.array([[math.cos(0.2), -math.sin(0.2)], [math.sin(0.2), math.cos(0.2)]], dtype=complex)
    rx = np.array([[math.cos(0.45), -1j * math.sin(0.45)], [-1j * math.sin(0.45), math.cos(0.45)]])
    cnot = np.array([[1, 0, 0, 0], [0, 1, 0, 0], [0, 0, 0, 1], [0, 0, 1, 0]], dtype=complex)
    psi = np.zeros(4, dtype=complex)
    psi[0] = 1
    return cnot @ np.kron(ry, rx) @ psi


def check_evolve(spec):
    import jax
    import numpy as np
    import pennylane as qp

    from mc import x_pulse as XP

    jax.config.update("jax_enable_x64", True)
    ham, pi, win, mode = spec["ham"], spec["p"], spec["win"], spec["mode"]
    hspec, params = HAMS[ham], PARAMS[ham][pi]
    times = _times(win)
    tight = mode != "matrix_default"
    tol = 1e-6 if tight else 5e-5
    kw = dict(TIGHT) if tight else {}
    if win in ("inter", "comp"):
        kw["return_intermediate"] = True
        if win == "comp":
            kw["complementary"] = True
    wires = (2, 0) if mode == "dev3" else (0, 1)
    H, live_coeffs = XP.live_hamiltonian(hspec, wires)
    lp = XP.live_params(params)
    t_arg = WINDOWS[win]
    # ---- reference
    Us = XP.propagators(XP.ref_terms(hspec, [np.asarray(p, dtype=float) for p in params], live_coeffs), times)
    if win == "inter":
        ref = np.stack(Us)
    elif win == "comp":
        ref = np.stack([Us[-1] @ U.conj().T for U in Us])
    else:
        ref = Us[-1]
    sig = f"{ham}:{mode}:{win}"
    if mode in ("matrix", "matrix_default", "class"):
        if mode == "class":
            op = qp.pulse.ParametrizedEvolution(H, lp, t_arg, **kw)
        else:
            op = qp.evolve(H)(lp, t_arg, **kw)
        got = np.asarray(qp.matrix(op, wire_order=[0, 1]))
        if got.shape != ref.shape:
            return bad(f"shape:{sig}", list(got.shape), list(ref.shape))
        err = float(np.max(np.abs(got - ref)))
        if not err <= tol:
            return bad(f"propagator-mismatch:{sig}", {"max_abs_err": err, "got": got}, ref, params=params)
    else:
        n = 3 if mode == "dev3" else 2
        dev = qp.device("default.qubit", wires=n)

        @qp.qnode(dev, interface="jax")
        def circuit(p):
            _prep(wires)
            if n == 3:
                qp.Hadamard(1)
            qp.evolve(H)(p, t_arg, **kw)
            return qp.state()

        got = np.asarray(circuit(lp))
        psi0 = _prep_state()
        if n == 3:
            # logical qubits (0, 1) sit on device wires (2, 0); device wire 1 carries |+>
            full0 = np.zeros((2, 2, 2), dtype=complex)
            p4 = psi0.reshape(2, 2)
            for a in (0, 1):
                for b in (0, 1):
                    for c in (0, 1):
                        idx = [0, 0, 0]
                        idx[wires[0]], idx[wires[1]], idx[1] = a, b, c
                        full0[tuple(idx)] = p4[a, b] / math.sqrt(2)
            full0 = full0.reshape(8)
            emb = (lambda U: XP.embed3(U, list(wires)))
        else:
            full0, emb = psi0, (lambda U: U)
        if win in ("inter", "comp"):
            exp_state = np.stack([emb(U) @ full0 for U in ref])
        else:
            exp_state = emb(ref) @ full0
        if got.shape != exp_state.shape:
            return bad(f"shape:{sig}", list(got.shape), list(exp_state.shape))
        err = float(np.max(np.abs(got - exp_state)))
        if not err <= tol:
            return bad(f"state-mismatch:{sig}", {"max_abs_err": err, "got": got}, exp_state, params=params)
    last = Us[-1]
    nontrivial = float(np.max(np.abs(last - np.eye(4)))) > 1e-3
    return ok(outcome=[ham, pi, win, np.round(last[0], 5).real.tolist(), np.round(last[0], 5).imag.tolist()], nontrivial=nontrivial, err=err)


def _ref_expval(hspec, params, t1, live_coeffs=None):
    import numpy as np

    from mc import x_pulse as XP

    U = XP.propagators(XP.ref_terms(hspec, [np.asarray(p, dtype=float) for p in params], live_coeffs), [0.0, t1])[-1]
    psi = U @ _prep_state()
    return float(np.real(np.vdot(psi, XP.OPS["Z0"] @ psi)))


def _flatten(params):
    out = []
    for p in params:
        out += [float(x) for x in (p if isinstance(p, list) else [p])]
    return out


def _unflatten(flat, like):
    out, k = [], 0
    for p in like:
        if isinstance(p, list):
            out.append([flat[k + i] for i in range(len(p))])
            k += len(p)
        else:
            out.append(flat[k])
            k += 1
    return out


def check_grad(spec):
    import jax
    import numpy as np
    import pennylane as qp

    from mc import refsim
    from mc import x_pulse as XP

    jax.config.update("jax_enable_x64", True)
    ham, pi, method = spec["ham"], spec["p"], spec["method"]
    hspec, params = HAMS[ham], PARAMS[ham][pi]
    t1 = 1.0
    H, live_coeffs = XP.live_hamiltonian(hspec, (0, 1))
    lp = XP.live_params(params)
    dev = qp.device("default.qubit", wires=2)
    if method == "backprop":
        dm, dkw = "backprop", {}
    elif method == "odegen":
        dm, dkw = qp.gradients.pulse_odegen, {}
    else:
        dm, dkw = qp.gradients.stoch_pulse_grad, {"num_split_times": spec["splits"], "sampler_seed": spec["seed"], "use_broadcasting": spec["bc"]}

    @qp.qnode(dev, interface="jax", diff_method=dm, gradient_kwargs=dkw)
    def circuit(p):
        _prep((0, 1))
        qp.evolve(H)(p, t1, **TIGHT)
        return qp.expval(qp.Z(0))

    g = jax.grad(circuit)(lp)
    got = np.array(_flatten([np.asarray(x).tolist() for x in g]))
    flat0 = np.array(_flatten(params))
    ref = refsim.fd_jacobian(lambda x: _ref_expval(hspec, _unflatten(list(x), params), t1, live_coeffs), flat0, h=2e-2)
    ref = np.asarray(ref, dtype=float).reshape(-1)
    if got.shape != ref.shape:
        return bad(f"grad-shape:{method}:{ham}", list(got.shape), list(ref.shape))
    err = float(np.max(np.abs(got - ref)))
    if not err <= 1e-5:
        return bad(f"grad-mismatch:{method}:{ham}", {"max_abs_err": err, "got": got}, ref, params=params)
    return ok(outcome=[ham, pi, method, np.round(ref, 5).tolist()], nontrivial=float(np.max(np.abs(ref))) > 1e-3, err=err)


CHECKS = {"evolve": check_evolve, "grad": check_grad}


def check(spec):
    return CHECKS[spec["fam"]](spec)


def run(ctx):
    quick = ctx.quick
    only = ctx.only
    specs = []
    pts = [0] if quick else [0, 1, 2]
    wins = ["t1", "w"] if quick else ["t1", "w", "inter", "comp"]
    for ham in HAMS:
        if only and only not in (ham, "evolve"):
            continue
        for p in pts:
            for win in wins:
                specs.append({"fam": "evolve", "ham": ham, "p": p, "win": win, "mode": "matrix"})
    extra = []
    for ham, win in (("lin_sin", "inter"), ("pwc_sin", "comp"), ("ryd", "inter")):
        extra.append({"fam": "evolve", "ham": ham, "p": 0, "win": win, "mode": "matrix"})
    for ham in ("sin", "ryd2") if quick else list(HAMS):
        extra.append({"fam": "evolve", "ham": ham, "p": 1, "win": "w", "mode": "matrix_default"})
        extra.append({"fam": "evolve", "ham": ham, "p": 1, "win": "t1", "mode": "class"})
    for ham in ("sin", "lin_sin", "pwc3", "ryd2") if quick else list(HAMS):
        extra.append({"fam": "evolve", "ham": ham, "p": 2, "win": "w", "mode": "dev2"})
    for ham in ("lin_sin", "ryd") if quick else list(HAMS):
        extra.append({"fam": "evolve", "ham": ham, "p": 2, "win": "t1", "mode": "dev3"})
    for ham in ("lin_sin",) if quick else ("sin", "lin_sin", "pwc_sin", "ryd2"):
        extra.append({"fam": "evolve", "ham": ham, "p": 1, "win": "inter", "mode": "dev2"})
    if not only or only == "evolve":
        seen = {str(s) for s in specs}
        specs += [s for s in extra if str(s) not in seen]
    ctx.enumerate(specs, axis="evolve", chunk=1)
    gspecs = []
    if not only or only == "grad":
        for ham in ("lin_sin",) if quick else ("const2", "sin", "lin_sin", "pwc3", "ryd", "ryd2"):
            for method in ("backprop", "odegen"):
                gspecs.append({"fam": "grad", "ham": ham, "p": 0, "method": method})
        for seed in (1,) if quick else (1, 7, 42):
            for splits in (1,) if quick else (1, 2):
                for bc in (False,) if quick else (False, True):
                    gspecs.append({"fam": "grad", "ham": "const_comm", "p": 0, "method": "stoch", "seed": seed, "splits": splits, "bc": bc})
        ctx.enumerate(gspecs, fn="check", axis="gradients", chunk=1)
    ctx.coverage["alphabet"] = {"hamiltonians": {k: v for k, v in HAMS.items()}, "parameters": PARAMS, "windows": WINDOWS,
                                "entry_points": ["matrix", "matrix_default", "class", "dev2", "dev3"], "gradient_methods": ["backprop", "odegen", "stoch"]}
    ctx.coverage["bound"] = {"parameter_points": len(pts), "windows": wins, "tolerance": {"tight": 1e-6, "default_odeint": 5e-5, "gradients": 1e-5}}
