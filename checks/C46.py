"""C46 — Resource counts report what the circuit contains (DESIGN §5.8 C46).

Three exhaustive families:
  tape   every word (<=3 quick / <=4 thorough) over a 10-letter gate alphabet on 3 wires (template, Adjoint, MCM+Conditional,
         2-controlled generic Controlled, wire-less GlobalPhase, Barrier ...) x 4 measurement sets: ``tape.specs`` /
         ``resources_from_tape`` vs a plain-Python summary (Counter of names, wire set, longest-path depth by wire levels).
  qnode  every circuit word x every transform pipeline word over {cancel_inverses, merge_rotations, decompose} (markers between
         all transforms) x EVERY level {top,user,gradient,device,None, 0..k+2, marker labels, slices}: ``qp.specs(qnode, level)()``
         vs the same summary of the circuit at that level.  For levels inside the user pipeline the circuit is obtained
         independently (transforms applied by hand to the qfunc's tape); for gradient/device levels from construct_batch.
  arith  estimator ``Resources`` add_series/add_parallel/multiply_series/multiply_parallel for all pairs of a 6-element set and
         scalars {0,1,3}; ``resource.Expression`` + and * for all pairs of a 14-element set (evaluation homomorphism on a grid);
         symbolic SpecsResources totals / subs.
"""
import itertools
import re
from collections import Counter

from mc.engine import ok, bad, skip
from mc.explore import words

PROPERTY = "C46"
LEVEL = "exploration"
TECHNIQUE = "bounded exhaustive enumeration of tapes / (circuit, pipeline, level) triples / resource-object pairs vs. plain-Python summaries"
LEVEL_TEXT = ("All gate words of length <=3 (thorough 4) over 10 letters x 4 measurement sets for tape.specs; all circuits (<=3, thorough 4 "
              "letters of 4) x pipelines (<=2, thorough 3 transforms of 3) x every accepted level for qp.specs; all pairs/scalars of the "
              "declared resource-object sets.  Counts, wires, depth, totals, shots, device data and level are compared exactly. Derived-tape "
              "histories: every sequence of <=2 of 16 derive events (copy variants, copy(measurements/operations/shots/trainable_params), split_non_commuting, "
              "map_to_standard_wires) x every subset of objects whose .specs is read on the way; every object's specs must describe that object.")
LEVEL_NOTE = ("Reference = Counter / set / wire-level longest path written from the documentation.  Gradient- and device-level circuits are "
              "taken from construct_batch (declared dependence; C23 checks level slicing).  A trainable-parameter count is not exposed by "
              "SpecsResources/CircuitSpecs at this commit, so that clause is undecided.  qjit / MLIR specs not explored.")
DESIGN_REF = "5.8 C46"
START = "fork"
PARALLEL = True
RULE = ("complete product of the declared alphabets up to the length bounds; non-trivial = circuit has >=2 operations (tape/qnode) or both "
        "operands non-zero (arith)")
ASSUMPTIONS = [
    "Gate key = op.name; for generic controlled operators with n>1 controls the spelling f'{n}{name}' used by the source for the legacy "
    "Controlled classes is accepted as well (undocumented); the total per op.name must be exact.",
    "Depth = longest chain of operations that share a wire (wire-less operations act on all wires of the tape; a Conditional also depends on "
    "its mid-circuit measurements); every operation, including Barrier, counts as one layer.",
]

# --------------------------------------------------------------------------------------------- alphabets
GATES = ["H0", "CX01", "RX2", "AdjS1", "BEL12", "MCM0c2", "C2S", "C2BEL", "GP", "BAR02"]
MEAS = ["Z0", "probs_all", "probs01", "sumZX"]
CIRC = ["H0", "RX0", "CX01", "TOF"]
TRANS = ["ci", "mr", "dc"]
DC_GATESET = ["H", "CNOT", "T", "Adjoint(T)", "RX", "RZ", "RY", "GlobalPhase"]


def build_ops(qp, letters):
    """Queue the operations of a word (inside a recording context)."""
    for l in letters:
        if l == "H0":
            qp.Hadamard(0)
        elif l == "CX01":
            qp.CNOT([0, 1])
        elif l == "RX2":
            qp.RX(0.1, 2)
        elif l == "RX0":
            qp.RX(0.1, 0)
        elif l == "AdjS1":
            qp.adjoint(qp.S(1))
        elif l == "BEL12":
            qp.BasicEntanglerLayers([[0.1, 0.2]], wires=[1, 2])
        elif l == "MCM0c2":
            m = qp.measure(0)
            qp.cond(m, qp.X)(2)
        elif l == "C2S":
            qp.ctrl(qp.S(2), control=[0, 1])
        elif l == "C2BEL":
            qp.ctrl(qp.BasicEntanglerLayers([[0.3]], wires=[2]), control=[0, 1])
        elif l == "GP":
            qp.GlobalPhase(0.3)
        elif l == "BAR02":
            qp.Barrier(wires=[0, 2])
        elif l == "TOF":
            qp.Toffoli([0, 1, 2])
        else:
            raise AssertionError(l)


def build_meas(qp, name):
    if name == "Z0":
        return [qp.expval(qp.Z(0))]
    if name == "probs_all":
        return [qp.probs()]
    if name == "probs01":
        return [qp.probs(wires=[0, 1])]
    if name == "sumZX":
        return [qp.expval(qp.Z(0) + qp.X(1)), qp.expval(qp.Z(0) @ qp.X(1))]
    if name == "XZ":
        return [qp.expval(qp.X(0)), qp.expval(qp.Z(0))]
    raise AssertionError(name)


def make_tape(qp, letters, meas, shots=None):
    with qp.queuing.AnnotatedQueue() as q:
        build_ops(qp, letters)
        build_meas(qp, meas)
    return qp.tape.QuantumScript.from_queue(q, shots=shots)


# --------------------------------------------------------------------------------------------- reference summary
def ref_summary(tape):
    """Plain-Python resource summary of a circuit (list of operations + measurements)."""
    ops = list(tape.operations)
    wires = []
    for o in ops + list(tape.measurements):
        for w in o.wires:
            if w not in wires:
                wires.append(w)
    counts = Counter(o.name for o in ops)
    # the source refines the name of a generic multi-controlled operator to f"{n}{name}" (undocumented, and applied to the
    # legacy Controlled classes only); both spellings are accepted, the count per op.name must be exact
    allowed = set(counts)
    for o in ops:
        if o.name.startswith("C(") and len(getattr(o, "control_wires", ())) > 1:
            allowed.add(f"{len(o.control_wires)}{o.name}")
    level = {w: 0 for w in wires}
    mcm_level = {}
    depth = 0
    for o in ops:
        on = list(o.wires) if len(o.wires) else list(wires)
        deps = [level[w] for w in on]
        mv = getattr(o, "meas_val", None)
        if mv is not None:
            deps += [mcm_level[m] for m in mv.measurements]  # keyed by the MidMeasure itself (value hash): copies of a tape shallow-copy it
        lv = 1 + max(deps, default=0)
        for w in on:
            level[w] = lv
        if type(o).__name__ in ("MidMeasure", "MidMeasureMP", "PauliMeasure"):
            mcm_level[o] = lv
        depth = max(depth, lv)
    return {"counts": dict(counts), "allowed": allowed, "num_wires": len(wires), "depth": depth, "n_ops": len(ops), "n_meas": len(tape.measurements)}


DOCUMENTED_MEAS = {"Z0": {"expval(PauliZ)": 1}, "probs_all": {"probs(all wires)": 1},
                   "sumZX": {"expval(Sum(num_wires=2, num_terms=2))": 1, "expval(Prod(num_wires=2, num_terms=2))": 1},
                   "XZ": None, "probs01": None}


def compare_resources(r, ref, what, meas_name=None, depth_expected=True):
    """SpecsResources `r` vs reference summary; returns a bad(...) or None."""
    grouped = Counter()
    for k, v in r.counts.items():
        if k not in ref["allowed"]:
            return bad(f"{what}:counts:unknown-gate-key", dict(r.counts), ref["counts"])
        m = re.match(r"^\d+(C\(.*)$", k)
        grouped[m.group(1) if m else k] += v
    if dict(grouped) != ref["counts"]:
        return bad(f"{what}:counts", dict(r.counts), ref["counts"])
    if r.total_quantum_operations != ref["n_ops"]:
        return bad(f"{what}:total_quantum_operations", r.total_quantum_operations, ref["n_ops"])
    if r.num_wires != ref["num_wires"]:
        return bad(f"{what}:num_wires", r.num_wires, ref["num_wires"])
    if depth_expected:
        if r.circuit_depth != ref["depth"]:
            if ref["num_wires"] == 0 and ref["n_ops"] > 0:
                return bad(f"{what}:depth:wire-less-circuit", r.circuit_depth, ref["depth"])
            return bad(f"{what}:depth", r.circuit_depth, ref["depth"])
    elif r.circuit_depth is not None:
        return bad(f"{what}:depth-not-none", r.circuit_depth, None)
    if r.depth != r.circuit_depth or r["depth"] != r.circuit_depth or r.quantum_operations != r.counts or r["num_wires"] != r.num_wires:
        return bad(f"{what}:aliases", [r.depth, r["depth"]], r.circuit_depth)
    mp = dict(r.measurement_processes)
    if sum(mp.values()) != ref["n_meas"]:
        return bad(f"{what}:measurement-total", mp, ref["n_meas"])
    doc = DOCUMENTED_MEAS.get(meas_name)
    if doc is not None and mp != doc:
        return bad(f"{what}:measurement-names", mp, doc)
    if meas_name == "probs01":
        want = {"probs(all wires)": 1} if ref["num_wires"] == 2 else {"probs(2 wires)": 1}
        if mp != want:
            return bad(f"{what}:measurement-names", mp, want)
    d = r.to_dict()
    if d.get("num_wires") != r.num_wires or d.get("circuit_depth", r.circuit_depth) != r.circuit_depth:
        return bad(f"{what}:to_dict", d, "consistent with fields")
    return None


# --------------------------------------------------------------------------------------------- tape family
def check_tape(spec):
    import pennylane as qp
    from pennylane.measurements import Shots
    from pennylane.resource import resources_from_tape

    tape = make_tape(qp, spec["ops"], spec["meas"], spec.get("shots"))
    ref = ref_summary(tape)
    s = tape.specs
    if set(s) != {"resources", "shots"}:
        return bad("tape:specs-keys", sorted(s), ["resources", "shots"])
    if s["shots"] != Shots(spec.get("shots")):
        return bad("tape:shots", repr(s["shots"]), spec.get("shots"))
    v = compare_resources(s["resources"], ref, "tape", spec["meas"])
    if v:
        return v
    r2 = resources_from_tape(tape)
    if r2 != s["resources"]:
        return bad("tape:resources_from_tape-differs", repr(r2), repr(s["resources"]))
    r3 = resources_from_tape(tape, compute_depth=False)
    v = compare_resources(r3, ref, "tape-nodepth", spec["meas"], depth_expected=False)
    if v:
        return v
    # a second tape object with the same content must give the same summary (no caching across objects)
    t2 = qp.tape.QuantumScript(list(tape.operations), list(tape.measurements), shots=spec.get("shots"))
    if t2.specs["resources"] != s["resources"]:
        return bad("tape:rebuilt-differs", repr(t2.specs["resources"]), repr(s["resources"]))
    return ok(outcome=[sorted(ref["counts"].items()), ref["num_wires"], ref["depth"]], nontrivial=ref["n_ops"] >= 2)



# --------------------------------------------------------------------------------------------- derived-tape histories
DERIVE = ["copy", "pycopy", "copyops", "shots7", "tp0", "meas:Z0", "meas:probs_all", "meas:probs0123", "meas:sumZX", "meas:XZ",
          "ops:H0", "ops:CX01,RX2", "ops:", "snc0", "snc1", "stdw"]


def derive(qp, tape, ev):
    import copy as _copy

    if ev == "copy":
        return tape.copy()
    if ev == "pycopy":
        return _copy.copy(tape)
    if ev == "copyops":
        return tape.copy(copy_operations=True)
    if ev == "shots7":
        return tape.copy(shots=7)
    if ev == "tp0":
        return tape.copy(trainable_params=[])
    if ev.startswith("meas:"):
        name = ev[5:]
        ms = [qp.probs(wires=[0, 1, 2, 3])] if name == "probs0123" else build_meas(qp, name)
        return tape.copy(measurements=ms)
    if ev.startswith("ops:"):
        with qp.queuing.AnnotatedQueue() as q:
            build_ops(qp, [l for l in ev[4:].split(",") if l])
        return tape.copy(operations=list(q.queue))
    if ev.startswith("snc"):
        batch, _ = qp.transforms.split_non_commuting(tape)
        i = int(ev[3:])
        return batch[i] if i < len(batch) else None
    if ev == "stdw":
        return tape.map_to_standard_wires()
    raise AssertionError(ev)


def check_derived(spec):
    """History: build a tape, (optionally) read its .specs, derive new tapes by copy/update/transform events, reading .specs of the
    objects named in `read` on the way; the specs of EVERY object of the history must describe that object (no stale summary)."""
    import pennylane as qp

    tape = make_tape(qp, spec["ops"], spec["meas"], spec.get("shots"))
    objs = [tape]
    if 0 in spec["read"]:
        tape.specs  # pylint: disable=pointless-statement
    for k, ev in enumerate(spec["events"], start=1):
        try:
            nxt = derive(qp, objs[-1], ev)
        except (ValueError, qp.exceptions.QuantumFunctionError) as e:
            return skip(f"derive-rejected:{ev}:{type(e).__name__}")
        if nxt is None:
            return skip("no-such-batch-entry")
        objs.append(nxt)
        if k in spec["read"]:
            nxt.specs  # pylint: disable=pointless-statement
    for k, t in enumerate(objs):
        ref = ref_summary(t)
        s = t.specs
        if s["shots"] != t.shots:
            return bad(f"derived:shots:after-{'+'.join(e.split(':')[0] for e in spec['events'][:k]) or 'root'}", repr(s["shots"]), repr(t.shots))
        v = compare_resources(s["resources"], ref, "derived", None)
        if v:
            v["sig"] = v["sig"] + ":after-" + ("+".join(e.split(":")[0] for e in spec["events"][:k]) or "root")
            v["o"] = "bad:" + v["sig"]
            return v
        fresh = qp.tape.QuantumScript(list(t.operations), list(t.measurements), shots=t.shots)
        if fresh.specs["resources"] != s["resources"]:
            return bad(f"derived:differs-from-fresh-tape:after-{'+'.join(e.split(':')[0] for e in spec['events'][:k]) or 'root'}",
                       repr(s["resources"]), repr(fresh.specs["resources"]))
    return ok(outcome=[spec["events"], sorted(spec["read"])], nontrivial=len(spec["read"]) > 0)

# --------------------------------------------------------------------------------------------- qnode family
def enc_level(l):
    if l is None:
        return None
    if isinstance(l, slice):
        return {"sl": [l.start, l.stop]}
    if isinstance(l, int):
        return {"i": l}
    return {"s": l}


def dec_level(e):
    if e is None:
        return None
    if "sl" in e:
        return slice(e["sl"][0], e["sl"][1])
    if "i" in e:
        return e["i"]
    return e["s"]


def levels_for(k):
    """Every level specification accepted for a pipeline of k user transforms."""
    out = ["top", "user", "gradient", "device", None]
    out += list(range(0, k + 3))
    out += [f"m{j}" for j in range(0, k + 1)]
    out += [slice(0, j) for j in range(1, k + 1)]
    out += [slice(a, b) for a in range(1, k) for b in range(a + 1, k + 1)]
    out += [slice(0, None), slice(1, None)]
    return [enc_level(l) for l in out]


def transform(qp, name):
    if name == "ci":
        return qp.transforms.cancel_inverses, {}
    if name == "mr":
        return qp.transforms.merge_rotations, {}
    if name == "dc":
        return qp.transforms.decompose, {"gate_set": set(DC_GATESET)}
    if name == "snc":
        return qp.transforms.split_non_commuting, {}
    raise AssertionError(name)


def make_qnode(qp, spec):
    dev = qp.device("default.qubit", wires=spec.get("dev_wires", 3))

    def qfunc():
        build_ops(qp, spec["circ"])
        ms = build_meas(qp, spec.get("meas", "Z0"))
        return ms[0] if len(ms) == 1 else tuple(ms)

    kw = {}
    if spec.get("diff"):
        kw["diff_method"] = spec["diff"]
    qn = qp.QNode(qfunc, dev, **kw)
    if spec.get("shots"):
        qn = qp.set_shots(qn, shots=spec["shots"])
    qn = qp.marker(qn, "m0")
    for j, t in enumerate(spec["pipe"]):
        f, k = transform(qp, t)
        qn = f(qn, **k)
        qn = qp.marker(qn, f"m{j + 1}")
    return qn, qfunc


def manual_level(qp, spec, lo, hi):
    """The circuit after applying user transforms lo..hi-1 by hand to the qfunc's own tape."""
    with qp.queuing.AnnotatedQueue() as q:
        build_ops(qp, spec["circ"])
        build_meas(qp, spec.get("meas", "Z0"))
    tapes = [qp.tape.QuantumScript.from_queue(q, shots=spec.get("shots"))]
    for t in spec["pipe"][lo:hi]:
        f, k = transform(qp, t)
        nxt = []
        for tp in tapes:
            new, _ = f(tp, **k)
            nxt.extend(new)
        tapes = nxt
    return tapes


def check_qnode(spec):
    import pennylane as qp
    from pennylane.measurements import Shots

    level = dec_level(spec["level"])
    k = len(spec["pipe"])
    qn, _ = make_qnode(qp, spec)
    cs = qp.specs(qn, level=level)()
    # ---- which circuit is "the circuit at that level"
    inside = None
    if level == "top":
        inside = (0, 0)
    elif level == "user":
        inside = (0, k)
    elif isinstance(level, int) and level <= k:
        inside = (0, level)
    elif isinstance(level, str) and level.startswith("m"):
        inside = (0, int(level[1:]))
    elif isinstance(level, slice) and level.stop is not None and level.stop <= k:
        inside = (level.start or 0, level.stop)
    if inside is not None:
        tapes = manual_level(qp, spec, *inside)
        source = "manual"
    else:
        eff = "gradient" if level is None else level
        tapes, _ = qp.workflow.construct_batch(qn, level=eff)()
        tapes = list(tapes)
        source = "construct_batch"
    # ---- header fields
    want_level = "gradient" if level is None else level
    if cs.level != want_level:
        return bad("qnode:level-field", repr(cs.level), repr(want_level))
    if cs.device_name != "default.qubit":
        return bad("qnode:device_name", cs.device_name, "default.qubit")
    if cs.num_device_wires != spec.get("dev_wires", 3):
        return bad("qnode:num_device_wires", cs.num_device_wires, spec.get("dev_wires", 3))
    if cs.shots != Shots(spec.get("shots")):
        return bad("qnode:shots", repr(cs.shots), spec.get("shots"))
    if cs["resources"] is not cs.resources:
        return bad("qnode:getitem", "different object", "same")
    res = cs.resources
    if len(tapes) == 1:
        if isinstance(res, (list, dict)):
            return bad("qnode:resources-shape", type(res).__name__, "single SpecsResources")
        res = [res]
    else:
        if not isinstance(res, list) or len(res) != len(tapes):
            return bad("qnode:resources-shape", repr(res)[:300], f"list of {len(tapes)}")
    fp = []
    for i, (r, tp) in enumerate(zip(res, tapes)):
        ref = ref_summary(tp)
        v = compare_resources(r, ref, f"qnode:{source}", spec.get("meas", "Z0") if len(tapes) == 1 and source == "manual" else None)
        if v:
            return v
        fp.append([sorted(ref["counts"].items()), ref["num_wires"], ref["depth"]])
    if spec.get("nodepth"):
        cs2 = qp.specs(qn, level=level, compute_depth=False)()
        r2 = cs2.resources if isinstance(cs2.resources, list) else [cs2.resources]
        for r, tp in zip(r2, tapes):
            v = compare_resources(r, ref_summary(tp), f"qnode-nodepth:{source}", None, depth_expected=False)
            if v:
                return v
    nontriv = len(spec["circ"]) >= 2
    return ok(outcome=[source, fp], nontrivial=nontriv)


# --------------------------------------------------------------------------------------------- arithmetic family
RES = [  # zeroed, any_state, algo, gate counts
    [0, 0, 0, {}],
    [1, 0, 2, {"X": 1}],
    [2, 1, 1, {"X": 2, "CNOT": 1}],
    [0, 3, 3, {"T": 5}],
    [1, 1, 1, {"CNOT": 1, "T": 1}],
    [3, 0, 0, {"X": 1, "T": 0}],
]
SCALARS = [0, 1, 3]


def _mkres(qre, e):
    reps = {"X": qre.X.resource_rep(), "CNOT": qre.CNOT.resource_rep(), "T": qre.T.resource_rep()}
    return qre.Resources(zeroed_wires=e[0], any_state_wires=e[1], algo_wires=e[2], gate_types={reps[g]: n for g, n in e[3].items()})


def _gates(r):
    return {k.name: v for k, v in r.gate_types.items() if v != 0}


def _res_tuple(r):
    return [r.zeroed_wires, r.any_state_wires, r.algo_wires, dict(sorted(_gates(r).items()))]


def check_arith(spec):
    kind = spec["kind"]
    if kind in ("res_add", "res_mul"):
        import pennylane.estimator as qre

        a = _mkres(qre, RES[spec["a"]])
        ea = RES[spec["a"]]
        mode = spec["mode"]
        before = _res_tuple(a)
        if kind == "res_add":
            b = _mkres(qre, RES[spec["b"]])
            eb = RES[spec["b"]]
            r = a.add_series(b) if mode == "series" else a.add_parallel(b)
            r_sw = b.add_series(a) if mode == "series" else b.add_parallel(a)
            g = Counter({x: n for x, n in ea[3].items() if n}) + Counter({x: n for x, n in eb[3].items() if n})
            want = [max(ea[0], eb[0]), ea[1] + eb[1], max(ea[2], eb[2]) if mode == "series" else ea[2] + eb[2], dict(sorted(g.items()))]
            if _res_tuple(r) != want:
                return bad(f"arith:add_{mode}", _res_tuple(r), want)
            if _res_tuple(r_sw) != want:
                return bad(f"arith:add_{mode}:not-commutative", _res_tuple(r_sw), want)
            if _res_tuple(a) != before:
                return bad(f"arith:add_{mode}:mutated-operand", _res_tuple(a), before)
            # scaling distributes over addition
            for s in SCALARS[1:]:
                lhs = r.multiply_series(s) if mode == "series" else r.multiply_parallel(s)
                if mode == "series":
                    rhs = a.multiply_series(s).add_series(b.multiply_series(s))
                else:
                    rhs = a.multiply_parallel(s).add_parallel(b.multiply_parallel(s))
                if _res_tuple(lhs) != _res_tuple(rhs):
                    return bad(f"arith:scale-distributes:{mode}", _res_tuple(lhs), _res_tuple(rhs))
            return ok(outcome=want, nontrivial=spec["a"] > 0 and spec["b"] > 0)
        s = spec["k"]
        r = a.multiply_series(s) if mode == "series" else a.multiply_parallel(s)
        g = {x: n * s for x, n in ea[3].items() if n * s}
        want = [ea[0], ea[1] * s, ea[2] if mode == "series" else ea[2] * s, dict(sorted(g.items()))]
        if _res_tuple(r) != want:
            return bad(f"arith:multiply_{mode}", _res_tuple(r), want)
        if s >= 1:  # k-fold sum of itself
            acc = a
            for _ in range(s - 1):
                acc = acc.add_series(a) if mode == "series" else acc.add_parallel(a)
            if _res_tuple(acc) != want:
                return bad(f"arith:multiply_{mode}:vs-repeated-add", want, _res_tuple(acc))
        if _res_tuple(a) != before:
            return bad(f"arith:multiply_{mode}:mutated-operand", _res_tuple(a), before)
        for wrong in (1.5, "2"):
            try:
                a.multiply_series(wrong) if mode == "series" else a.multiply_parallel(wrong)
            except TypeError:
                continue
            return bad(f"arith:multiply_{mode}:accepted-non-int", repr(wrong), "TypeError")
        return ok(outcome=want, nontrivial=spec["a"] > 0 and s > 0)
    if kind == "expr":
        return check_expr(spec)
    if kind == "specsres":
        return check_specsres(spec)
    raise AssertionError(kind)


# polynomials as {sorted-monomial-tuple: coeff}
EXPRS = [
    {}, {"": 1}, {"": 3}, {"": -2},
    {"a": 1}, {"a": 2}, {"a": 1, "": 1}, {"a": -1},
    {"ab": 1}, {"ab": 1, "b": -1}, {"a": 1, "b": 1}, {"aa": 1, "b": 2, "": -1}, {"ba": 2, "a": 1}, {"a": 1, "b": -1},
]
GRID = [-1, 0, 1, 2]


def _poly(d):
    out = Counter()
    for mono, c in d.items():
        out[tuple(sorted(mono))] += c
    return {m: c for m, c in out.items() if c != 0}


def _poly_add(p, q):
    out = Counter(p)
    for m, c in q.items():
        out[m] += c
    return {m: c for m, c in out.items() if c != 0}


def _poly_mul(p, q):
    out = Counter()
    for m1, c1 in p.items():
        for m2, c2 in q.items():
            out[tuple(sorted(m1 + m2))] += c1 * c2
    return {m: c for m, c in out.items() if c != 0}


def _poly_eval(p, env):
    tot = 0
    for m, c in p.items():
        t = c
        for v in m:
            t *= env[v]
        tot += t
    return tot


def _mkexpr(Expression, d):
    """Build the operand as the library would hold it: an int when constant, else an Expression."""
    p = _poly(d)
    if not p:
        return 0
    if set(p) == {()}:
        return p[()]
    return Expression({tuple(k): v for k, v in d.items()})


def _eval(x, env):
    if isinstance(x, int):
        return x
    sub = {v: env[v] for v in x.vars}
    r = x.subs(sub)
    return int(r)


def check_expr(spec):
    from pennylane.resource import Expression

    pa, pb = _poly(EXPRS[spec["a"]]), _poly(EXPRS[spec["b"]])
    fp = []
    for opname, pref in (("add", _poly_add(pa, pb)), ("mul", _poly_mul(pa, pb))):
        a, b = _mkexpr(Expression, EXPRS[spec["a"]]), _mkexpr(Expression, EXPRS[spec["b"]])
        if isinstance(a, int) and isinstance(b, int):
            # int op int is plain Python; wrap the left operand so the library code is exercised
            a = Expression(a)
        r = a + b if opname == "add" else a * b
        if not isinstance(r, (int, Expression)):
            return bad(f"expr:{opname}:type", type(r).__name__, "int or Expression")
        for xa, xb in itertools.product(GRID, GRID):
            env = {"a": xa, "b": xb}
            got, want = _eval(r, env), _poly_eval(pref, env)
            if got != want:
                return bad(f"expr:{opname}:value", {"env": env, "got": got, "result": repr(r)}, want)
        # canonical form: equal (and hash-equal) to the expression built directly from the reference polynomial
        direct = Expression(dict(pref)) if pref else Expression(0)
        if not (r == direct and direct == r):
            return bad(f"expr:{opname}:not-equal-to-direct", repr(r), repr(direct))
        if hash(r) != hash(direct):
            return bad(f"expr:{opname}:hash", [hash(r), hash(direct)], "equal")
        if not pref and r != 0:
            return bad(f"expr:{opname}:zero", repr(r), 0)
        if set(pref) <= {()} and not isinstance(r, int):
            return bad(f"expr:{opname}:constant-not-int", repr(r), pref.get((), 0))
        # commutativity through the reflected operators
        r2 = b + a if opname == "add" else b * a
        if not r2 == r:
            return bad(f"expr:{opname}:not-commutative", repr(r2), repr(r))
        # partial substitution commutes with the operation
        if not isinstance(r, int) and "a" in r.vars:
            part = r.subs(a=2)
            for xb in GRID:
                env = {"a": 2, "b": xb}
                if _eval(part, env) != _poly_eval(pref, env):
                    return bad(f"expr:{opname}:partial-subs", repr(part), _poly_eval(pref, env))
        fp.append(sorted((("".join(m)), c) for m, c in pref.items()))
    return ok(outcome=fp, nontrivial=bool(pa) and bool(pb))


def check_specsres(spec):
    """SpecsResources with symbolic counts: total = sum of counts, subs acts field-wise."""
    from pennylane.resource import Expression, SpecsResources

    ea, eb = EXPRS[spec["a"]], EXPRS[spec["b"]]
    a, b = _mkexpr(Expression, ea), _mkexpr(Expression, eb)
    r = SpecsResources(counts={"G1": a, "G2": b, "G3": 2}, measurement_processes={"expval(PauliZ)": 1}, num_wires=2, circuit_depth=None)
    pref = _poly_add(_poly_add(_poly(ea), _poly(eb)), {(): 2})
    for xa, xb in itertools.product(GRID, GRID):
        env = {"a": xa, "b": xb}
        if _eval(r.total_quantum_operations, env) != _poly_eval(pref, env):
            return bad("specsres:total", repr(r.total_quantum_operations), _poly_eval(pref, env))
    want_vars = set()
    for x in (a, b):
        if not isinstance(x, int):
            want_vars |= set(x.vars)
    if set(r.vars) != want_vars or r.is_symbolic != bool(want_vars):
        return bad("specsres:vars", sorted(r.vars), sorted(want_vars))
    if want_vars:
        env = {v: 3 for v in want_vars}
        s = r.subs(env)
        full = {"a": 3, "b": 3}
        wantc = {"G1": _poly_eval(_poly(ea), full), "G2": _poly_eval(_poly(eb), full), "G3": 2}
        gotc = {k: int(v) for k, v in s.counts.items()}
        if gotc != wantc or int(s.total_quantum_operations) != sum(wantc.values()):
            return bad("specsres:subs", [gotc, repr(s.total_quantum_operations)], wantc)
        if s.is_symbolic:
            return bad("specsres:subs-still-symbolic", sorted(s.vars), [])
        try:
            r.subs({"zz": 1})
        except ValueError:
            pass
        else:
            return bad("specsres:subs-accepted-unknown-variable", "zz", "ValueError")
    return ok(outcome=sorted(("".join(m), c) for m, c in pref.items()), nontrivial=bool(want_vars))


def check(spec):
    k = spec["kind"]
    if k == "tape":
        return check_tape(spec)
    if k == "qnode":
        return check_qnode(spec)
    if k == "derived":
        return check_derived(spec)
    return check_arith(spec)


def run(ctx):
    import pennylane  # noqa: F401  pylint: disable=unused-import  (before the fork)

    q = ctx.quick
    # ---- tape family
    nt = 3 if q else 4
    tape_specs = [{"kind": "tape", "ops": w, "meas": m} for w in words(GATES, nt) for m in MEAS]
    tape_specs += [{"kind": "tape", "ops": w, "meas": "Z0", "shots": 10} for w in words(GATES, 1)]
    ctx.enumerate(tape_specs, axis="tape", chunk=100)
    # ---- derived-tape histories: every event sequence of length <=2 x every subset of objects whose specs are read on the way
    dspecs = []
    starts = [(["H0", "CX01"], "XZ"), (["RX2", "AdjS1", "CX01"], "sumZX")] if q else [(["H0", "CX01"], "XZ"), (["RX2", "AdjS1", "CX01"], "sumZX"), (["MCM0c2", "GP"], "probs01"), (["BEL12"], "Z0")]
    for ops_, meas_ in starts:
        for n in (1, 2):
            for evs in itertools.product(DERIVE, repeat=n):
                for rmask in range(2 ** (n + 1)):
                    read = [k for k in range(n + 1) if rmask >> k & 1]
                    dspecs.append({"kind": "derived", "ops": ops_, "meas": meas_, "events": list(evs), "read": read})
    ctx.enumerate(dspecs, axis="derived", chunk=200)
    # ---- qnode family
    nc, npipe = (3, 2) if q else (4, 2)
    qs = []
    for c in words(CIRC, nc):
        for p in words(TRANS, npipe):
            for l in levels_for(len(p)):
                qs.append({"kind": "qnode", "circ": c, "pipe": p, "level": l})
    if not q:
        for c in words(CIRC, 3):
            for p in words(TRANS, 3, 3):
                for l in levels_for(3):
                    qs.append({"kind": "qnode", "circ": c, "pipe": p, "level": l})
    ctx.enumerate(qs, axis="qnode", chunk=50)
    # device / gradient / shots / batch variants on the small circuits
    var = []
    for c in words(CIRC, 2):
        for p in words(TRANS, 1):
            for l in ["top", "user", "gradient", "device", None]:
                for diff in ["parameter-shift", "backprop"]:
                    for dw in [3, None]:
                        for sh in [None, 10]:
                            if diff == "backprop" and sh:
                                continue
                            if dw is None and not c:
                                continue
                            var.append({"kind": "qnode", "circ": c, "pipe": p, "level": enc_level(l), "diff": diff, "dev_wires": dw,
                                        "shots": sh, "nodepth": True})
    for c in words(CIRC, 2):
        for p in (["snc"], ["ci", "snc"], ["snc", "mr"]):
            for l in levels_for(len(p)):
                var.append({"kind": "qnode", "circ": c, "pipe": p, "level": l, "meas": "XZ"})
    ctx.enumerate(var, axis="qnode-variants", chunk=25)
    # ---- arithmetic family
    ar = []
    for mode in ("series", "parallel"):
        ar += [{"kind": "res_add", "a": i, "b": j, "mode": mode} for i in range(len(RES)) for j in range(len(RES))]
        ar += [{"kind": "res_mul", "a": i, "k": s, "mode": mode} for i in range(len(RES)) for s in SCALARS]
    ar += [{"kind": "expr", "a": i, "b": j} for i in range(len(EXPRS)) for j in range(len(EXPRS))]
    ar += [{"kind": "specsres", "a": i, "b": j} for i in range(len(EXPRS)) for j in range(len(EXPRS))]
    ctx.enumerate(ar, axis="arith", chunk=20)
    ctx.coverage["alphabet"] = {"tape_gates": GATES, "tape_meas": MEAS, "qnode_circuit": CIRC, "qnode_transforms": TRANS + ["snc (variants)"],
                                "levels": "top,user,gradient,device,None,0..k+2,m0..mk,slices(0,j),(a,b),(0,None),(1,None)",
                                "resources": RES, "scalars": SCALARS, "expressions": [repr(e) for e in EXPRS], "grid": GRID}
    ctx.coverage["bound"] = {"tape_word_len": nt, "circuit_len": nc, "pipeline_len": npipe if q else 3}
