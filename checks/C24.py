"""C24 — Circuit cutting reconstructs the uncut result (DESIGN §5.4 C24).

E2 + E4.  cut_circuit: every word of length <= 3 over an 8-gate alphabet on 3 wires with a WireCut inserted at every
position/wire where the wire carries a gate before and after the cut (and every pair of such cuts for the two-cut
family), 4 observables (Pauli words and a sum), plus auto_cutter=True (kahypar) with 2 device wires on 4-wire circuits:
fragment tapes executed analytically on default.qubit + post-processing vs a numpy state-vector reference of the uncut
circuit.  cut_circuit_mc: the numpy RNG is owned (mc/seams.py); for shots = 1 EVERY setting draw and EVERY fragment
outcome is enumerated and the exact expectation of the estimator (sum of value x probability over the whole answer tree,
probabilities = those the code handed to the RNG) must equal the uncut expectation.
"""
import itertools
import math

from mc.engine import ok, bad, skip

PROPERTY = "C24"
LEVEL = "exploration"
TECHNIQUE = "bounded exhaustive enumeration of cut placements vs state-vector reference; owned-RNG answer tree for the Monte-Carlo estimator"
LEVEL_TEXT = ("cut_circuit on all words <=3 over 8 gates x every manual single cut (thorough: every pair of cuts on words of length 3) x 4 "
              "observables, and kahypar auto-cutting of 4-wire circuits onto 2 device wires, compared to 1e-8 with the uncut expectation; "
              "cut_circuit_mc with shots=1: full answer tree (8 settings per cut x all fragment outcomes), exact estimator expectation.")
LEVEL_NOTE = ("Reference = mc.refgates + tensordot. The Monte-Carlo clause is decided exactly (unbiasedness of the documented estimator) for "
              "<= 2 cuts and shots = 1, assuming numpy's Generator.choice honours the p it is given; the raw-sample path "
              "(classical_processing_fn=None) returns fragment samples whose distribution the documentation does not define, so it is only "
              "checked for shape. opt_einsum contraction path and QNode-level use are not explored.")
DESIGN_REF = "5.4 C24"
START = "fork"
PARALLEL = True
RULE = "one case = (word, cut placement(s), observable) or (word, cut, processing fn) with its whole answer tree; non-trivial = >= 2 fragment tapes"
ASSUMPTIONS = ["numpy Generator.choice samples the p it is given", "kahypar is deterministic for a fixed seed"]

G1, G2 = 0.3731, 1.2345
ALPH = [["RX", [0], [G1]], ["RY", [1], [G2]], ["Hadamard", [2], []], ["RX", [2], [G2]], ["CNOT", [0, 1], []], ["CNOT", [1, 2], []], ["CZ", [0, 1], []], ["CZ", [2, 1], []]]
OBS = {"Z0": [(1.0, "Z", [0])], "Z0Z2": [(1.0, "ZZ", [0, 2])], "X1Z2": [(1.0, "XZ", [1, 2])], "sum": [(0.5, "Z", [0]), (1.0, "ZZ", [1, 2])], "Y1": [(1.0, "Y", [1])]}


def live(qp, o):
    if o[0] == "WireCut":
        return qp.WireCut(wires=o[1])
    return getattr(qp, o[0])(*o[2], wires=o[1])


def live_obs(qp, terms):
    def word(w, ws):
        ops = [getattr(qp, c)(x) for c, x in zip(w, ws)]
        return ops[0] if len(ops) == 1 else qp.prod(*ops)

    if len(terms) == 1 and terms[0][0] == 1.0:
        return word(terms[0][1], terms[0][2])
    return qp.sum(*[qp.s_prod(c, word(w, ws)) for c, w, ws in terms])


def ref_state(ops, n):
    from mc import refgates as RG
    from mc import refsim as RS

    st = RS.zero_state(n)
    for o in ops:
        if o[0] == "WireCut":
            continue
        st = RS.apply_matrix(st, RG.matrix(o[0], o[2]), list(o[1]), n)
    return st


def ref_expval(ops, terms, n):
    from mc import refgates as RG
    from mc import refsim as RS

    st = ref_state(ops, n)
    return sum(c * RS.expval(st, RG.pauli_word_matrix(w), list(ws)).real for c, w, ws in terms)


def cut_positions(word):
    """(position, wire): insert WireCut(wire) before word[position]; the wire must carry a gate before and after."""
    out = []
    for pos in range(1, len(word)):
        for w in range(3):
            if any(w in o[1] for o in word[:pos]) and any(w in o[1] for o in word[pos:]):
                out.append((pos, w))
    return out


def with_cuts(word, cuts):
    ops = list(word)
    for pos, w in sorted(cuts, reverse=True):
        ops.insert(pos, ["WireCut", [w], []])
    return ops


def check_cut(spec):
    import numpy as np
    import pennylane as qp

    ops = spec["ops"]
    n = spec.get("n", 3)
    terms = OBS[spec["obs"]] if isinstance(spec["obs"], str) else spec["obs"]
    tape = qp.tape.QuantumScript([live(qp, o) for o in ops], [qp.expval(live_obs(qp, terms))])
    kw = {}
    if spec.get("auto"):
        kw = {"auto_cutter": True, "seed": 7} if spec.get("kseed", True) else {"auto_cutter": True}
    dw = spec.get("dw", n)
    try:
        tapes, fn = qp.cut_circuit(tape, device_wires=qp.wires.Wires(list(range(dw))), **kw)
    except ValueError as e:
        if spec.get("auto") and "cut" in str(e).lower():
            return skip("auto cutter found no valid cut: " + str(e)[:60])
        raise
    sizes = [len(t.wires) for t in tapes]
    if spec.get("auto") and max(sizes) > dw:
        return bad("cut:auto:fragment-exceeds-device", max(sizes), dw)
    res = qp.execute(list(tapes), qp.device("default.qubit"), diff_method=None)
    got = float(fn(res))
    want = ref_expval(ops, terms, n)
    if abs(got - want) > 1e-8:
        return bad("cut:expectation", got, want, ops=ops, obs=spec["obs"], n_tapes=len(tapes))
    return ok(outcome=[len(tapes), max(sizes), round(want, 6)], nontrivial=len(tapes) >= 2)


FUNCS = {
    "parity": lambda bits: (-1) ** int(sum(int(b) for b in bits)),
    "all-zero": lambda bits: 1.0 if not any(int(b) for b in bits) else 0.0,
    "weight": lambda bits: 1.0 - 2.0 * sum(int(b) for b in bits) / len(bits),
    "pair": lambda bits: 1.0 if sum(int(b) for b in bits) == 2 else -0.5,
}


def check_mc(spec):
    """shots = 1: enumerate the whole answer tree of (settings draw, fragment sample draws)."""
    import numpy as np
    import pennylane as qp
    from mc.explore import answer_tree
    from mc.seams import ScriptedGenerator, own_numpy_rng

    ops = spec["ops"]
    swires = spec["sample_wires"]
    f = FUNCS[spec["f"]]
    plops = [live(qp, o) for o in ops]

    def run(ch):
        gen = ScriptedGenerator(ch)
        import autoray.autoray as ar

        for key in [key for key in list(getattr(ar, "_FUNCS", {})) if isinstance(key, tuple) and key[-1] == "random.default_rng"]:
            ar._FUNCS.pop(key, None)
        try:
            with own_numpy_rng(gen):
                tape = qp.tape.QuantumScript(plops, [qp.sample(wires=swires)], shots=1)
                tapes, fn = qp.cut_circuit_mc(tape, classical_processing_fn=f, device_wires=qp.wires.Wires([0, 1, 2]))
                dev = qp.device("default.qubit", seed=gen)
                res = qp.execute(list(tapes), dev, diff_method=None)
                val = float(fn(res))
        finally:
            for key in [key for key in list(getattr(ar, "_FUNCS", {})) if isinstance(key, tuple) and key[-1] == "random.default_rng"]:
                ar._FUNCS.pop(key, None)
        # probability of this leaf = product over the draws of the probability the CODE assigned to the chosen answer
        prob = 1.0
        ndraws = 0
        for e in gen.log:
            if e["fn"] == "choice":
                for a in e["answers"]:
                    prob *= (1.0 / e["n"]) if e["p"] is None else float(e["p"][a])
                    ndraws += 1
            elif e["fn"] == "binomial":
                raise OSError("harness: binomial draw not expected in the cut_circuit_mc workflow")
        return val, len(tapes), prob, ndraws

    total, mass, leaves, ntapes = 0.0, 0.0, 0, 0
    for choices, (val, ntapes, prob, ndraws), ch in answer_tree(run, bound=None, max_execs=spec.get("max_leaves", 40000)):
        if ndraws != len(choices):
            raise OSError(f"harness: {ndraws} logged draws but {len(choices)} questions")
        leaves += 1
        total += prob * val
        mass += prob
    if abs(mass - 1) > 1e-9:
        return bad("mc:probabilities-do-not-sum-to-one", mass, 1.0)
    st = ref_state(ops, 3)
    from mc import refsim as RS

    pr = RS.probs_of(st, list(swires))
    want = sum(pr[j] * f([int(b) for b in np.binary_repr(j, len(swires))]) for j in range(2 ** len(swires)))
    if abs(total - want) > 1e-8:
        # Name one known defect exactly (a model, never the oracle): default.qubit draws a separate sample for every
        # measurement of a fragment tape (Projector / Pauli observables land in different sampling groups), so the
        # terminal bits and the cut-wire outcomes of one shot are statistically independent.
        model = _independent_model(qp, np, plops, swires, f)
        sig = "mc:estimator-biased:measurements-of-a-shot-sampled-independently" if model is not None and abs(total - model) <= 1e-8 else "mc:estimator-biased"
        return bad(sig, total, want, ops=ops, f=spec["f"], leaves=leaves, independent_model=model)
    return ok(outcome=[leaves, ntapes, round(want, 6)], nontrivial=leaves >= 32, leaves=leaves)


def _independent_model(qp, np, plops, swires, f):
    """Exact expectation of the documented estimator 8^K c_s f(bits) prod(sigma) if every measurement of every fragment
    is sampled independently from its own marginal.  Fragments come from the public graph functions (tape_to_graph /
    fragment_graph / graph_to_tape); the eight (measurement, preparation) settings are written here from Peng et al.:
    s = 0..7 -> measure I,I,X,X,Y,Y,Z,Z and prepare |0>,|1>,|+>,|->,|+i>,|-i>,|0>,|1> with weights +,+,+,-,+,-,+,- 1/2."""
    from mc import refsim as RS
    from mc import refgates as RG

    evals = (0.5, 0.5, 0.5, -0.5, 0.5, -0.5, 0.5, -0.5)
    prep_u = [RG.I2, RG.X, RG.H, RG.H @ RG.X, RG.S @ RG.H, RG.S @ RG.H @ RG.X, RG.I2, RG.X]
    meas_m = [RG.I2, RG.I2, RG.X, RG.X, RG.Y, RG.Y, RG.Z, RG.Z]
    tape0 = qp.tape.QuantumScript(plops, [qp.sample(wires=swires)], shots=1)
    g = qp.qcut.tape_to_graph(tape0)
    qp.qcut.replace_wire_cut_nodes(g)
    frags, cg = qp.qcut.fragment_graph(g)
    ftapes = [qp.qcut.graph_to_tape(fr) for fr in frags]
    pairs = [e[-1] for e in cg.edges.data("pair")]
    uid_to_pair = {}
    for k_, pr in enumerate(pairs):
        uid_to_pair[pr[0].obj.node_uid] = k_
        uid_to_pair[pr[1].obj.node_uid] = k_
    K = len(pairs)
    out_deg = [d for _, d in cg.out_degree]
    total = 0.0
    for setting in itertools.product(range(8), repeat=K):
        bit_p1, mids = [], []
        for t in ftapes:
            order = list(t.wires)
            n = len(order)
            st = RS.zero_state(n)
            mnodes = []
            for op in t.operations:
                if op.name == "PrepareNode":
                    st = RS.apply_matrix(st, prep_u[setting[uid_to_pair[op.node_uid]]], [order.index(op.wires[0])], n)
                elif op.name == "MeasureNode":
                    mnodes.append((order.index(op.wires[0]), meas_m[setting[uid_to_pair[op.node_uid]]]))
                else:
                    st = RS.apply_matrix(st, RS.op_matrix(op), [order.index(w) for w in op.wires], n)
            for m in t.measurements:
                for w in m.wires:
                    bit_p1.append(float(RS.probs_of(st, [order.index(w)])[1]))
            for ax, M in mnodes:
                mids.append(RS.expval(st, M, [ax]).real)
        ef = 0.0
        for bits in itertools.product((0, 1), repeat=len(bit_p1)):
            pr = 1.0
            for b, p1 in zip(bits, bit_p1):
                pr *= p1 if b else 1 - p1
            ef += pr * f(list(bits))
        c = 1.0
        for s_ in setting:
            c *= evals[s_]
        total += c * ef * float(np.prod(mids)) if mids else c * ef
    return total


def check_mc_misc(spec):
    import numpy as np
    import pennylane as qp

    what = spec["what"]
    ops = [qp.Hadamard(0), qp.CNOT([0, 1]), qp.WireCut(1), qp.CNOT([1, 2])]
    try:
        if what == "no-shots":
            qp.cut_circuit_mc(qp.tape.QuantumScript(ops, [qp.sample(wires=[0, 1, 2])]), device_wires=qp.wires.Wires([0, 1]))
        elif what == "expval":
            qp.cut_circuit_mc(qp.tape.QuantumScript(ops, [qp.expval(qp.Z(0))], shots=5), device_wires=qp.wires.Wires([0, 1]))
        elif what == "sample-obs":
            qp.cut_circuit_mc(qp.tape.QuantumScript(ops, [qp.sample(qp.Z(0))], shots=5), device_wires=qp.wires.Wires([0, 1]))
        elif what == "two-meas":
            qp.cut_circuit(qp.tape.QuantumScript(ops, [qp.expval(qp.Z(0)), qp.expval(qp.Z(1))]), device_wires=qp.wires.Wires([0, 1]))
        elif what == "probs":
            qp.cut_circuit(qp.tape.QuantumScript(ops, [qp.probs(wires=[0])]), device_wires=qp.wires.Wires([0, 1]))
        elif what == "no-cut":
            qp.cut_circuit(qp.tape.QuantumScript([qp.Hadamard(0), qp.CNOT([0, 1])], [qp.expval(qp.Z(0))]), device_wires=qp.wires.Wires([0, 1]))
        elif what == "raw-samples":
            tape = qp.tape.QuantumScript(ops, [qp.sample(wires=[0, 1, 2])], shots=6)
            tapes, fn = qp.cut_circuit_mc(tape, device_wires=qp.wires.Wires([0, 1]), seed=3)
            res = np.asarray(fn(qp.execute(list(tapes), qp.device("default.qubit", seed=5), diff_method=None)))
            if res.shape != (6, 3) or not set(np.unique(res).tolist()) <= {0, 1}:
                return bad("mc:raw-samples:shape", list(res.shape), [6, 3])
            return ok(outcome=["raw", list(res.shape)], nontrivial=True)
    except ValueError as e:
        return ok(outcome=[what, "ValueError"], nontrivial=True)
    return bad(f"cut:invalid-accepted:{what}", "no error", "ValueError (documented)")


# ---------------------------------------------------------------------------------------------- driver
def words(maxlen, alph=ALPH):
    return [list(w) for n in range(2, maxlen + 1) for w in itertools.product(alph, repeat=n)]


def run(ctx):
    only = ctx.only

    def want(f):
        return only is None or only == f

    ctx.coverage["alphabet"] = {"gates": ALPH, "observables": sorted(OBS), "mc_functions": sorted(FUNCS)}
    ctx.coverage["bound"] = {"word_len": 3, "cuts": 1 if ctx.quick else 2, "mc_shots": 1, "mc_cuts": 1 if ctx.quick else 2, "auto_wires": 4}
    W = words(3)
    if want("manual"):
        specs = []
        for w in W:
            for pos, wire in cut_positions(w):
                for o in (("Z0", "Z0Z2", "X1Z2", "sum") if len(w) < 3 or not ctx.quick else ("Z0Z2", "sum")):
                    specs.append({"k": "cut", "ops": with_cuts(w, [(pos, wire)]), "obs": o})
        ctx.enumerate(specs, fn="check_cut", axis="manual:1cut")
    if want("two"):
        specs = []
        src = W if not ctx.quick else [w for w in W if len(w) == 3][::7]
        for w in src:
            cp = cut_positions(w)
            for c1, c2 in itertools.combinations(cp, 2):
                specs.append({"k": "cut", "ops": with_cuts(w, [c1, c2]), "obs": "sum" if (c1[0] + c2[1]) % 2 else "X1Z2"})
        # same wire cut twice in a row, cut directly after another cut's gate, 4-gate chains
        chain = [["RX", [0], [G1]], ["CNOT", [0, 1], []], ["RY", [1], [G2]], ["CNOT", [1, 2], []], ["RX", [2], [G2]]]
        for cuts in ([(2, 1), (3, 1)], [(1, 0), (4, 2)], [(2, 0), (3, 1)], [(2, 1), (4, 1)]):
            for o in ("Z0Z2", "Y1", "sum"):
                specs.append({"k": "cut", "ops": with_cuts(chain, cuts), "obs": o})
        ctx.enumerate(specs, fn="check_cut", axis="manual:2cuts")
    if want("auto"):
        A4 = [["RX", [0], [G1]], ["RY", [3], [G2]], ["CNOT", [0, 1], []], ["CNOT", [1, 2], []], ["CZ", [2, 3], []], ["Hadamard", [2], []], ["RY", [1], [G1]]]
        ws = [list(w) for w in itertools.product(A4, repeat=3) if len({x for o in w for x in o[1]}) >= 3 and sum(len(o[1]) == 2 for o in w) >= 2]
        ws = ws if not ctx.quick else ws[::3]
        obs4 = [[(1.0, "Z", [0])], [(1.0, "ZZ", [0, 3])], [(0.5, "Z", [1]), (1.0, "XZ", [2, 3])]]
        ctx.enumerate([{"k": "cut", "ops": w, "obs": o, "n": 4, "auto": True, "dw": 2} for w in ws for o in obs4], fn="check_cut", axis="auto:kahypar")
    if want("mc"):
        specs = []
        base = [w for w in W if len(w) <= (2 if ctx.quick else 3)]
        for w in base:
            for pos, wire in cut_positions(w):
                c = with_cuts(w, [(pos, wire)])
                specs.append({"k": "mc", "ops": c, "sample_wires": [0, 1, 2], "f": "parity"})
                specs.append({"k": "mc", "ops": c, "sample_wires": [2, 0], "f": "all-zero"})
        three = [[["RX", [0], [G1]], ["CNOT", [0, 1], []], ["WireCut", [1], []], ["RY", [1], [G2]], ["CNOT", [1, 2], []]],
                 [["Hadamard", [2], []], ["CZ", [2, 1], []], ["WireCut", [1], []], ["CNOT", [0, 1], []], ["RX", [0], [G1]]]]
        for c in three:
            for fname in FUNCS:
                specs.append({"k": "mc", "ops": c, "sample_wires": [0, 1, 2], "f": fname})
        if not ctx.quick:
            two = [["RX", [0], [G1]], ["CNOT", [0, 1], []], ["WireCut", [1], []], ["RY", [1], [G2]], ["CNOT", [1, 2], []], ["WireCut", [1], []], ["CZ", [0, 1], []]]
            specs.append({"k": "mc", "ops": two, "sample_wires": [0, 1, 2], "f": "parity", "max_leaves": 400000})
        ctx.enumerate(specs, fn="check_mc", axis="mc:answer-tree", chunk=1)
    if want("misc"):
        ctx.enumerate([{"k": "misc", "what": w} for w in ("no-shots", "expval", "sample-obs", "two-meas", "probs", "no-cut", "raw-samples")], fn="check_mc_misc", axis="misc")
