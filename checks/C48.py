"""C48 — qp.math functions are interface-agnostic (DESIGN §5.9).

E1: every public callable of qp.math (enumerated at run time; names without an argument recipe are reported as
uncovered) plus the autoray-dispatched names PennyLane registers, x argument recipes (scalars, vectors of
length 1-4, 2x2 / 2x3 / 4x4 / batched 3x2x2 arrays; real, complex, integer, boolean; Hermitian, rank-deficient,
density matrices) x interface {autograd, jax, torch} x precision {64, 32 bit} x interface mixing {all, first
argument only, all but the first}.  Oracle: the plain-numpy evaluation of the same qp.math call is the hub;
derivatives (64 bit, where the recipe marks the function differentiable) are compared with 8th-order central
differences of the numpy evaluation, hence with each other."""
import math

from mc.engine import ok, bad, skip

PROPERTY = "C48"
LEVEL = "exploration"
TECHNIQUE = "exhaustive product of function recipes x interface x precision x interface-mixing, numpy evaluation as hub, finite-difference reference for derivatives"
LEVEL_TEXT = ("Every public qp.math callable with a recipe (and every autoray name PennyLane registers that has one) is evaluated on the full "
              "product recipe x {autograd, jax, torch} x {64, 32 bit} x {all / first / rest mixed with numpy}; values are compared with the numpy "
              "hub within dtype precision, gradients of the marked recipes with 8th-order finite differences. Callables without a recipe are "
              "listed under `uncovered` in the evidence.")
LEVEL_NOTE = ("Hub = the same qp.math function on numpy inputs (so a defect common to all four interfaces is invisible here; C49 checks the "
              "definitions). Argument values are the fixed recipe tensors, not all inputs; tensorflow, GPU devices, jit/traced (abstract) "
              "inputs and derivatives at non-smooth points (round, where/sign boundaries, sort ties) are not decided.")
DESIGN_REF = "5.9 C48"
START = "spawn"
RULE = ("all recipes of mc/x_mathrecipes.py x 3 interfaces x allowed precisions x mixing modes (+ one gradient case per marked argument); "
        "non-trivial = the function returns tensor data (not a shape / bool / name)")
ASSUMPTIONS = ["JAX_ENABLE_X64=1 (set by ./run)", "CPU only", "numpy evaluation of each function is the reference value"]

IFACES = ["autograd", "jax", "torch"]
_TOL = {64: (1e-9, 1e-10), 32: (3e-4, 3e-5)}


# ------------------------------------------------------------------------------------------------ tensors
def _np():
    import numpy as np

    return np


def tensor_value(name):
    from mc.x_mathrecipes import TENSORS

    np = _np()
    if name == "@u44":
        return np.kron(np.array(TENSORS["u22"]), np.array(TENSORS["u22b"]))
    return np.array(TENSORS[name])


def np_dtype(val, prec):
    np = _np()
    k = val.dtype.kind
    if k == "b":
        return np.bool_
    if k in "iu":
        return np.int64 if prec == 64 else np.int32
    if k == "f":
        return np.float64 if prec == 64 else np.float32
    return np.complex128 if prec == 64 else np.complex64


def make(name, iface, prec, requires_grad=False):
    np = _np()
    val = tensor_value(name)
    val = val.astype(np_dtype(val, prec))
    if iface == "numpy":
        return val.copy()
    if iface == "autograd":
        from pennylane import numpy as pnp

        return pnp.array(val, requires_grad=requires_grad)
    if iface == "jax":
        import jax.numpy as jnp

        return jnp.array(val)
    if iface == "torch":
        import torch

        t = torch.tensor(val)
        if requires_grad:
            t.requires_grad_(True)
        return t
    raise AssertionError(iface)


def iface_of(x):
    np = _np()
    mod = type(x).__module__ or ""
    if mod.startswith("torch"):
        return "torch"
    if mod.startswith("jax") or mod.startswith("jaxlib"):
        return "jax"
    if mod.startswith("pennylane.numpy") or mod.startswith("autograd"):
        return "autograd"
    if isinstance(x, (np.ndarray, np.generic)):
        return "numpy"
    return "builtins"


def to_np(x):
    """Independent conversion of any framework value to numpy (not through qp.math)."""
    np = _np()
    it = iface_of(x)
    if it == "torch":
        x = x.detach()
        if x.is_complex():
            x = x.resolve_conj()
        return x.cpu().numpy()
    if it == "autograd" and hasattr(x, "_value"):
        return to_np(x._value)
    if hasattr(x, "toarray"):
        return np.asarray(x.toarray())
    return np.asarray(x)


def to_py(x):
    np = _np()
    if isinstance(x, (list, tuple)):
        return [to_py(v) for v in x]
    if isinstance(x, (set, frozenset)):
        return sorted(to_py(v) for v in x)
    if isinstance(x, dict):
        return {str(k): to_py(v) for k, v in x.items()}
    if x is None or isinstance(x, (bool, int, float, complex, str)):
        return x
    a = to_np(x)
    return a.tolist()


def dtype_name(x):
    return str(to_np(x).dtype)


def close(a, b, prec):
    np = _np()
    a, b = np.asarray(a), np.asarray(b)
    if a.shape != b.shape:
        return False
    if a.dtype.kind in "OUS" or b.dtype.kind in "OUS":
        return bool(np.all(a == b))
    rtol, atol = _TOL[prec]
    with np.errstate(all="ignore"):
        return bool(np.all(np.isclose(a, b, rtol=rtol, atol=atol * max(1.0, float(np.max(np.abs(b))) if b.size else 1.0), equal_nan=True)))


def py_close(a, b, prec):
    if isinstance(a, list) and isinstance(b, list):
        return len(a) == len(b) and all(py_close(x, y, prec) for x, y in zip(a, b))
    if isinstance(a, bool) or isinstance(b, bool) or isinstance(a, str) or isinstance(b, str) or a is None or b is None:
        return a == b
    if isinstance(a, (int, float, complex)) and isinstance(b, (int, float, complex)):
        return abs(a - b) <= _TOL[prec][0] * max(1.0, abs(b))
    return a == b


# ------------------------------------------------------------------------------------------------ argument building
class Builder:
    """Turns a recipe argument list into live arguments for one interface / mixing mode."""

    def __init__(self, iface, prec, mode, grad_ord=None, subst=None):
        self.iface, self.prec, self.mode, self.grad_ord = iface, prec, mode, grad_ord
        self.count = 0
        self.grad_tensor = None
        self.grad_name = None
        self.subst = subst  # live value to put in place of the grad_ord-th tensor

    def tensor(self, name, top_pos):
        k = self.count
        self.count += 1
        if self.iface == "numpy" or self.mode == "all":
            it = self.iface
        elif self.mode == "first":
            it = self.iface if k == 0 else "numpy"
        else:  # rest
            it = "numpy" if k == 0 else self.iface
        rg = self.grad_ord is not None and k == self.grad_ord
        if rg:
            self.grad_name = name
            if self.subst is not None:
                return self.subst
        # in gradient mode every autograd tensor is trainable (the pennylane.numpy default); only one is differentiated
        t = make(name, it, self.prec, requires_grad=(rg or (self.grad_ord is not None and it == "autograd")) and it != "numpy")
        if rg:
            self.grad_tensor = t
        return t

    def conv(self, a, top_pos):
        import pennylane as qp

        np = _np()
        if isinstance(a, str):
            if a.startswith("$"):
                return self.tensor(a[1:], top_pos)
            if a == "@iface":
                return self.iface
            if a.startswith("@dtype:"):
                return a.split(":", 1)[1]
            if a.startswith("@npdtype:"):
                return getattr(np, a.split(":", 1)[1])
            if a.startswith("@iface-dtype:"):
                nm = a.split(":", 1)[1]
                if self.iface == "torch":
                    import torch

                    return getattr(torch, nm)
                if self.iface == "jax":
                    import jax.numpy as jnp

                    return getattr(jnp, nm)
                return getattr(np, nm)
            if a == "@obs:ZZ":
                return [qp.Z(0), qp.Z(1)]
            if a == "@obs:Z0Z2":
                return [qp.Z(0), qp.Z(2)]
            if a.startswith("@wires:"):
                return qp.wires.Wires(range(int(a.split(":")[1])))
            if a == "@fn:dot":
                return qp.math.dot
            if a == "@matswires":
                return [(self.tensor("m22", top_pos), [0]), (self.tensor("m22b", top_pos), [1]), (self.tensor("sym22", top_pos), [0])]
            return a
        if isinstance(a, list) and a and a[0] == "L":
            return [self.conv(x, top_pos) for x in a[1:]]
        if isinstance(a, list) and a and a[0] == "T":
            return tuple(self.conv(x, top_pos) for x in a[1:])
        if isinstance(a, list):
            return [self.conv(x, top_pos) for x in a]
        return a

    def build(self, recipe):
        args = [self.conv(a, i) for i, a in enumerate(recipe["args"])]
        kw = {k: self.conv(v, -1) for k, v in recipe["kw"].items()}
        return args, kw


def resolve(name):
    import pennylane as qp

    obj = qp.math
    for part in name.split("."):
        obj = getattr(obj, part)
    return obj


def n_tensors(recipe):
    def cnt(a):
        if isinstance(a, str):
            return 1 if a.startswith("$") else (3 if a == "@matswires" else 0)
        if isinstance(a, list):
            return sum(cnt(x) for x in a)
        return 0

    return sum(cnt(a) for a in recipe["args"]) + sum(cnt(v) for v in recipe["kw"].values())


# ------------------------------------------------------------------------------------------------ special recipes
def special(spec, recipe):
    import pennylane as qp

    np = _np()
    fn, iface, cmp = spec["fn"], spec["iface"], recipe["cmp"]
    if cmp == "gradfn":
        x = make("v3", iface, 64, requires_grad=True)
        xv = tensor_value("v3")
        if recipe["args"][0] == "@fn:sumsin":
            f = lambda t: qp.math.sum(qp.math.sin(t) * t)
            exp = np.cos(xv) * xv + np.sin(xv)
        else:
            f = lambda t: qp.math.stack([t[0] * t[1], qp.math.sin(t[2]), t[0] ** 2])
            exp = np.array([[xv[1], xv[0], 0], [0, 0, np.cos(xv[2])], [2 * xv[0], 0, 0]])
        got = to_np(resolve(fn)(f)(x))
        if not close(got, exp, 64):
            return bad(f"{fn}:{iface}:value", got, exp)
        return ok(outcome=[fn, iface, "gradfn"], nontrivial=True)
    if cmp == "independent":
        x = make("v3", iface, 64, requires_grad=(iface == "autograd"))
        const = recipe["args"][0] == "@fn:const"
        f = (lambda t: 2.0 * np.ones(3)) if const else (lambda t: t ** 2)
        got = bool(qp.math.is_independent(f, iface, (x,)))
        if got != const:
            return bad(f"is_independent:{iface}", got, const)
        return ok(outcome=[fn, iface, got], nontrivial=True)
    raise AssertionError(cmp)


# ------------------------------------------------------------------------------------------------ the check
def check(spec):
    from mc.x_mathrecipes import RECIPES

    np = _np()
    fn, iface, prec, mode = spec["fn"], spec["iface"], spec["prec"], spec["mode"]
    recipe = RECIPES[fn][spec["r"]]
    cmp = recipe["cmp"]
    if cmp == "skip":
        return skip(recipe["note"])
    try:
        f = resolve(fn)
    except AttributeError as e:
        return bad(f"missing-function:{fn}", str(e), "callable qp.math." + fn)
    if cmp in ("gradfn", "independent"):
        return special(spec, recipe)
    if spec["what"] == "grad":
        return check_grad(spec, recipe, f)
    # hub
    hb = Builder("numpy", prec, "all")
    hargs, hkw = hb.build(recipe)
    try:
        with np.errstate(all="ignore"):
            hub = f(*hargs, **hkw)
    except Exception as e:  # a recipe the numpy path rejects is a harness bug, not a finding
        return bad(f"recipe-error:hub-raised:{fn}:{spec['r']}", f"{type(e).__name__}: {e}", "numpy evaluation succeeds")
    b = Builder(iface, prec, mode)
    args, kw = b.build(recipe)
    try:
        got = f(*args, **kw)
    except Exception as e:
        return bad(f"raised:{fn}:{iface}:{mode}:{type(e).__name__}", f"{type(e).__name__}: {str(e)[:300]}", "same value as with numpy inputs",
                   recipe=spec["r"], prec=prec)
    sig = f"{fn}:{iface}:{mode}"
    if cmp == "py":
        g, h = to_py(got), to_py(hub)
        if not py_close(g, h, prec):
            return bad(f"value:{sig}", g, h, recipe=spec["r"], prec=prec)
        return ok(outcome=[fn, spec["r"], repr(h)[:40]], nontrivial=False)
    if cmp == "iface":
        if got != iface:
            return bad(f"interface:{sig}", got, iface, recipe=spec["r"])
        return ok(outcome=[fn, spec["r"], got], nontrivial=True)
    if cmp == "tuple":
        if not isinstance(got, (tuple, list)) or len(got) != len(hub) or any(not close(to_np(g), to_np(h), prec) for g, h in zip(got, hub)):
            return bad(f"value:{sig}", to_py(got), to_py(hub), recipe=spec["r"], prec=prec)
        return ok(outcome=[fn, spec["r"], len(hub)], nontrivial=True)
    if cmp == "matswires":
        if list(got[1]) != list(hub[1]) or not close(to_np(got[0]), to_np(hub[0]), prec):
            return bad(f"value:{sig}", to_py(got[0]), to_py(hub[0]), recipe=spec["r"])
        return ok(outcome=[fn, list(hub[1])], nontrivial=True)
    if cmp == "svd":
        A = to_np(hargs[0])
        U, S_, Vh = (to_np(t) for t in got)
        Sh = to_np(hub[1])
        k = S_.shape[0]
        rec = (U[:, :k] * S_) @ Vh[:k, :]
        if not close(S_, Sh, prec) or not close(rec, A, prec):
            return bad(f"value:{sig}", [S_, rec], [Sh, A], recipe=spec["r"], prec=prec)
        return ok(outcome=[fn, spec["r"], [round(float(s), 4) for s in Sh]], nontrivial=True)
    if cmp == "eigh":
        A = to_np(hargs[0])
        w, V = (to_np(t) for t in got)
        wh = to_np(hub[0])
        rec = (V * w) @ V.conj().T
        if not close(w, wh, prec) or not close(rec, A, prec):
            return bad(f"value:{sig}", [w, rec], [wh, A], recipe=spec["r"], prec=prec)
        return ok(outcome=[fn, spec["r"], [round(float(s), 4) for s in wh]], nontrivial=True)
    g, h = to_np(got), to_np(hub)
    if prec == 64 and str(g.dtype) in ("float32", "complex64") and "like" in recipe["kw"]:
        prec = 32  # creation functions follow the framework's default dtype (torch: float32)
    if not close(g, h, prec):
        return bad(f"value:{sig}", g, h, recipe=spec["r"], prec=prec)
    if cmp == "value+dtype" and str(g.dtype) != str(h.dtype):
        return bad(f"dtype:{sig}", str(g.dtype), str(h.dtype), recipe=spec["r"], prec=prec)
    if cmp == "value+numpy" and iface_of(got) not in ("numpy",):
        return bad(f"not-numpy:{sig}", iface_of(got), "numpy", recipe=spec["r"])
    if cmp == "value+iface-of-second":
        want = iface if mode in ("all", "rest") else "numpy"
        if iface_of(got) != want:
            return bad(f"interface:{sig}", iface_of(got), want, recipe=spec["r"])
    fpv = [round(float(v), 5) for v in np.abs(h).ravel()[:3]] if h.dtype.kind in "fciub" else []
    return ok(outcome=[fn, spec["r"], list(h.shape), str(h.dtype), fpv], nontrivial=True)


# ------------------------------------------------------------------------------------------------ derivatives
def weights(n):
    np = _np()
    k = np.arange(n)
    return np.cos(0.7 + 1.3 * k), np.sin(0.4 + 0.9 * k)


def check_grad(spec, recipe, f):
    np = _np()
    fn, iface, k = spec["fn"], spec["iface"], spec["argpos"]
    symm = recipe.get("note") == "sym"
    probe = Builder("numpy", 64, "all", grad_ord=k)
    probe.build(recipe)
    x0 = tensor_value(probe.grad_name).astype(float)

    def sym(a, lib):
        return (a + lib.swapaxes(a, -1, -2)) / 2 if symm else a

    def hub_out(x):
        hargs, hkw = Builder("numpy", 64, "all", grad_ord=k, subst=sym(x, np)).build(recipe)
        with np.errstate(all="ignore"):
            return np.asarray(to_np(f(*hargs, **hkw)))

    n_out = hub_out(x0).size
    wr, wi = weights(n_out)

    def hub_L(x):
        out = hub_out(x)
        return np.array(float(np.sum(wr * out.real.ravel()) + np.sum(wi * out.imag.ravel())))

    from mc.refsim import fd_jacobian

    small = fn in ("sqrt", "log", "arcsin", "arccos", "entr", "power", "vn_entropy", "mutual_info", "relative_entropy", "fidelity",
                   "trace_distance", "eigvalsh", "linalg.inv", "linalg.solve", "linalg.det")
    try:
        exp = np.asarray(fd_jacobian(hub_L, x0, h=1e-3 if small else 1e-2)).reshape(x0.shape)
    except Exception as e:
        return bad(f"recipe-error:hub-grad-raised:{fn}:{spec['r']}", f"{type(e).__name__}: {e}", "finite differences of the numpy evaluation")
    x = make(probe.grad_name, iface, 64, requires_grad=True)

    def call(t, lib):
        args, kw = Builder(iface, 64, "all", grad_ord=k, subst=sym(t, lib)).build(recipe)
        return f(*args, **kw)

    try:
        if iface == "autograd":
            import autograd
            import autograd.numpy as anp

            def L(t):
                out = call(t, anp)
                return anp.sum(wr * anp.ravel(anp.real(out))) + anp.sum(wi * anp.ravel(anp.imag(out)))

            got = to_np(autograd.grad(L)(x))
        elif iface == "jax":
            import jax
            import jax.numpy as jnp

            def L(t):
                out = call(t, jnp)
                return jnp.sum(wr * jnp.ravel(jnp.real(out))) + jnp.sum(wi * jnp.ravel(jnp.imag(out)))

            got = to_np(jax.grad(L)(x))
        else:
            import torch

            out = call(x, torch)
            twr, twi = torch.tensor(wr), torch.tensor(wi)
            Lv = (twr * torch.real(out).reshape(-1)).sum()
            if torch.is_complex(out):
                Lv = Lv + (twi * torch.imag(out).reshape(-1)).sum()
            Lv.backward()
            got = to_np(x.grad)
    except Exception as e:
        return bad(f"grad-raised:{fn}:{iface}:{type(e).__name__}", f"{type(e).__name__}: {str(e)[:300]}", "a gradient", recipe=spec["r"], argpos=k)
    got = np.real(got)
    tol = 2e-6 * max(1.0, float(np.max(np.abs(exp))))
    if got.shape != exp.shape or not np.all(np.abs(got - exp) <= tol):
        return bad(f"grad:{fn}:{iface}", got, exp, recipe=spec["r"], argpos=k)
    return ok(outcome=[fn, spec["r"], k, [round(float(v), 5) for v in exp.ravel()[:3]]], nontrivial=True)


# ------------------------------------------------------------------------------------------------ enumeration
def public_callables():
    import types

    import pennylane as qp

    out = []
    for n in sorted(dir(qp.math)):
        if n.startswith("_"):
            continue
        o = getattr(qp.math, n)
        if isinstance(o, types.ModuleType) or not callable(o):
            continue
        out.append(n)
    return out


def registered_names():
    import autoray as ar
    import pennylane  # noqa: F401  (registrations happen at import)

    names = set()
    for key in getattr(ar.autoray, "_FUNCS", {}):
        if isinstance(key, tuple) and len(key) == 2 and key[0] in ("numpy", "autograd", "jax", "torch"):
            names.add(key[1])
    return sorted(names)


def run(ctx):
    from mc.x_mathrecipes import EXCLUDED, RECIPES

    pub = public_callables()
    reg = registered_names()
    uncovered = [n for n in pub if n not in RECIPES and n not in EXCLUDED]
    specs, gspecs = [], []
    for fn in sorted(RECIPES):
        for r, rec in enumerate(RECIPES[fn]):
            if rec["cmp"] == "skip":
                continue
            for iface in rec["ifaces"]:
                for prec in rec["prec"]:
                    modes = ["all"]
                    if rec["mix"] and n_tensors(rec) >= 2:
                        modes += ["first", "rest"]
                    for mode in modes:
                        specs.append({"fn": fn, "r": r, "iface": iface, "prec": prec, "mode": mode, "what": "value"})
                if rec["grad"] and rec["cmp"] not in ("gradfn", "independent") and iface in rec["gi"]:
                    for pos in rec["grad"]:
                        gspecs.append({"fn": fn, "r": r, "iface": iface, "prec": 64, "mode": "all", "what": "grad", "argpos": pos})
    ctx.enumerate(specs, axis="value", chunk=24)
    ctx.enumerate(gspecs, axis="gradient", chunk=12)
    ctx.coverage["alphabet"] = {"interfaces": ["numpy (hub)"] + IFACES, "precision_bits": [64, 32], "mixing": ["all", "first", "rest"],
                                "tensors": sorted(__import__("mc.x_mathrecipes", fromlist=["TENSORS"]).TENSORS)}
    ctx.coverage["bound"] = {"functions_with_recipe": len(RECIPES), "recipes": sum(len(v) for v in RECIPES.values())}
    ctx.coverage["public_callables"] = len(pub)
    ctx.coverage["public_covered"] = len([n for n in pub if n in RECIPES])
    ctx.coverage["uncovered"] = uncovered
    ctx.coverage["excluded_with_reason"] = {n: EXCLUDED[n] for n in pub if n in EXCLUDED}
    ctx.coverage["dynamic_names_covered"] = sorted(n for n in RECIPES if n not in pub)
    ctx.coverage["registered_names_without_recipe"] = [n for n in reg if n not in RECIPES]
    if uncovered:
        ctx.note(f"{len(uncovered)} public qp.math callables have no recipe: {uncovered}")
