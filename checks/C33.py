"""C33 — Device preprocessing yields executable, equivalent circuits (DESIGN §5.5).

E2: circuits = all words of length <= 2 over 13 letters (templates, symbolic ops, mid-circuit StatePrep, Snapshot,
Barrier, MCM + cond, dynamic allocation, an unsupported custom operator, plain gates) x measurement lists x
devices x device wires {None, exact, superset, too few} x shots {None, 10} x gradient method {None, adjoint,
backprop}.  Oracle: dev.preprocess_transforms(config)(tape) either raises (= rejection; any error type), or the
produced batch executes on the device with NO further transforms and the post-processed results equal the
reference simulation (R-sv / R-branch) of the INPUT circuit; a circuit containing the unsupported custom
operator must never come back successfully.
"""
import itertools

from mc.engine import ok, bad, skip
from mc.explore import words

PROPERTY = "C33"
LEVEL = "exploration"
TECHNIQUE = "exhaustive enumeration of circuit words x measurement lists x device configurations; preprocess-then-execute compared with an independent reference simulation"
LEVEL_TEXT = ("All circuits of <=2 letters over a 13-letter alphabet x 6 measurement lists x 6 devices x 4 device-wire settings x shots {None,10} x 3 gradient "
              "configurations (quick: a covering subset of the configuration axes) are preprocessed; accepted circuits must execute unchanged on the device "
              "and reproduce the reference results, rejected ones must raise a documented error.")
LEVEL_NOTE = ("Reference = mc.refsim state-vector / branch simulation of the input circuit; templates' matrices via qp.matrix (tied to documented operators "
              "by C01/C58). Finite-shot results are checked for executability and shape only. default.tensor only for expval measurements.")
DESIGN_REF = "5.5 C33"
RULE = "case = (circuit word, measurements, device, wires, shots, gradient method); non-trivial = accepted circuit whose preprocessing changed the tape"

LETTERS = ["RX", "CNOT", "QFT3", "adjS", "powX", "ctrlRY", "SPmid", "Snap", "Barrier", "MCM", "Alloc", "AllocDirty", "Custom", "H1"]
MEAS = ["Z0", "X0Z0", "Ham", "probs", "counts", "state"]
DEVICES = ["default.qubit", "default.mixed", "reference.qubit", "default.clifford", "null.qubit", "default.tensor"]
WIRES = ["none", "exact", "superset", "toofew"]
_CUSTOM = {}


def _custom():
    if not _CUSTOM:
        import pennylane as qp

        class VerifUnsupportedOp(qp.operation.Operation):
            num_wires = 1
            num_params = 0

        _CUSTOM["cls"] = VerifUnsupportedOp
    return _CUSTOM["cls"]


def _ops(word):
    """Build the operation list (and the reference operation list) for a word."""
    import numpy as np
    import pennylane as qp

    ops = []
    with qp.queuing.AnnotatedQueue() as q:
        for i, l in enumerate(word):
            if l == "RX":
                qp.RX(0.3 + 0.4 * i, 0)
            elif l == "CNOT":
                qp.CNOT([0, 1])
            elif l == "H1":
                qp.H(1)
            elif l == "QFT3":
                qp.QFT(wires=[0, 1, 2])
            elif l == "adjS":
                qp.adjoint(qp.S(0))
            elif l == "powX":
                qp.pow(qp.X(1), 0.5)
            elif l == "ctrlRY":
                qp.ctrl(qp.RY(0.3, 1), control=0)
            elif l == "SPmid":
                qp.StatePrep(np.array([0.6, 0.8j]), wires=[3])  # own wire: a mid-circuit preparation is only defined on |0>
            elif l == "Snap":
                qp.Snapshot("s%d" % i)
            elif l == "Barrier":
                qp.Barrier(wires=[0, 1])
            elif l == "MCM":
                m = qp.measure(0)
                qp.cond(m, qp.X)(1)
            elif l == "Alloc":
                with qp.allocation.allocate(1, state="zero", restored=True) as w:
                    qp.CNOT([0, w[0]])
                    qp.CNOT([w[0], 1])
                    qp.CNOT([0, w[0]])
            elif l == "AllocDirty":  # scratch qubit handed back dirty: it must never be a wire the circuit still reads
                with qp.allocation.allocate(1, state="zero", restored=False) as w:
                    qp.CNOT([0, w[0]])
            elif l == "Custom":
                _custom()(wires=1)
    return list(q.queue)


def _measurements(name, shots):
    import pennylane as qp

    if name == "Z0":
        return [qp.expval(qp.Z(0))]
    if name == "X0Z0":
        return [qp.expval(qp.X(0)), qp.expval(qp.Z(0))]
    if name == "Ham":
        return [qp.expval(qp.Hamiltonian([0.5, -1.5, 2.0], [qp.X(0), qp.Z(0) @ qp.Z(1), qp.Identity(0)]))]
    if name == "probs":
        return [qp.probs(wires=[1, 0])]
    if name == "counts":
        return [qp.counts(wires=[0])]
    if name == "state":
        return [qp.state()]
    raise AssertionError(name)


def _reference(ops, ms, wire_order):
    """Reference analytic results of the input circuit, or None when no reference applies."""
    import numpy as np
    import pennylane as qp
    from mc import refsim as R

    ref_ops, fmap = [], {}
    for op in ops:
        if op.name == "Allocate":
            for w in op.wires:
                fmap[w] = f"fresh{len(fmap)}"
        elif op.name == "Deallocate":
            continue
        elif op.name == "Snapshot":
            continue
        else:
            ref_ops.append(op.map_wires(fmap) if any(w in fmap for w in op.wires) else op)  # keep MCM object identity
    order = list(wire_order) + list(fmap.values())
    n = len(order)
    branches = R.run_branches(ref_ops, order)
    out = []
    for mp in ms:
        if type(mp).__name__ == "StateMP":
            if len(branches) != 1 or fmap:
                return None
            out.append(np.asarray(R.measure(mp, branches[0][1], order)))
            continue
        acc = 0
        for h, st in branches:
            w = float(np.vdot(st, st).real)
            if w < 1e-14:
                continue
            acc = acc + w * np.asarray(R.measure(mp, st / np.sqrt(w), order))
        out.append(acc)
    return out


def check(spec):
    import numpy as np
    import pennylane as qp
    from pennylane.devices import ExecutionConfig
    from pennylane import exceptions as X

    word, mname, devname, wsel, shots, gm = spec["word"], spec["meas"], spec["dev"], spec["wires"], spec["shots"], spec["grad"]
    ops = _ops(word)
    ms = _measurements(mname, shots)
    tape = qp.tape.QuantumScript(ops, ms, shots=shots)
    static = sorted({w for w in tape.wires if isinstance(w, int)})
    if not static:
        static = [0]
    full = list(range(max(static) + 1)) if static else [0]
    if "SPmid" in word and word.count("SPmid") > 1:
        return skip("harness: two preparations on the same wire are not a defined circuit")
    dev_wires = {"none": None, "exact": full, "superset": full + ["aux1", "aux2"], "toofew": full[:-1] or None}[wsel]
    if devname == "default.tensor":
        if dev_wires is None:
            dev_wires = full + ["aux1"]
    # The property only promises that an unsupported circuit is *rejected with an error*, never silently altered:
    # any exception (at preprocessing, execution or post-processing time) therefore counts as a rejection.
    try:
        dev = qp.device(devname, wires=dev_wires) if dev_wires is not None else qp.device(devname)
        cfg0 = ExecutionConfig(gradient_method=gm) if gm else ExecutionConfig()
        cfg = dev.setup_execution_config(cfg0, tape)
        prog = dev.preprocess_transforms(cfg)
        batch, post = prog((tape,))
    except (ImportError, MemoryError, OSError):
        raise
    except Exception as e:  # noqa
        return skip("preprocess:" + type(e).__name__)
    custom_survived = "Custom" in word and devname != "null.qubit"  # null.qubit computes nothing and supports every operator
    if wsel == "toofew" and len(full) > 1 and any(w not in (dev_wires or []) for t in batch for w in t.wires):
        return bad("wires-outside-device-accepted", [list(t.wires) for t in batch], dev_wires, device=devname)
    # the produced batch must execute on the device as it is
    try:
        raw = dev.execute(batch, cfg)
        res = post(raw)
        res = res[0]
    except (ImportError, MemoryError, OSError):
        raise
    except Exception as e:  # noqa
        return skip("late:" + devname + ":" + type(e).__name__)
    if custom_survived:
        return bad("unsupported-operator-accepted-and-executed", [o.name for t in batch for o in t.operations][:20], "an error", device=devname)
    changed = len(batch) != 1 or [o.name for o in batch[0].operations] != [o.name for o in tape.operations]
    if shots is not None or devname == "null.qubit":
        return ok(outcome=["executed", devname, len(batch)], nontrivial=changed)
    order = dev_wires if dev_wires is not None else [w for w in tape.wires if isinstance(w, int)]
    ref = _reference(ops, ms, order if mname == "state" else full)
    if ref is None:
        return ok(outcome=["no-reference", devname], nontrivial=changed)
    got = list(res) if len(ms) > 1 else [res]
    for g, r, mp in zip(got, ref, ms):
        g = np.asarray(g)
        if type(mp).__name__ == "StateMP":
            if g.shape != np.asarray(r).shape or dev_wires is None:
                continue  # without device wires the qubit order of the returned state is device-defined  # state on a different wire set (dynamic wires / device wires): not comparable here
            from mc import refsim as R

            if not R.close(g, r, 1e-8):
                return bad(f"result-mismatch:{devname}:state", g, r, word=word)
            continue
        if g.shape != np.asarray(r).shape or not np.allclose(g, r, atol=1e-7):
            return bad(f"result-mismatch:{devname}:{mname}", g, r, word=word, wires=wsel, grad=gm)
    return ok(outcome=[devname, len(batch), [round(float(np.real(np.ravel(x)[0])), 6) for x in got if np.size(x)]], nontrivial=changed)


def run(ctx):
    W = list(words(LETTERS, 2, 1))
    specs = []
    for w in W:
        for mname in MEAS:
            for dev in DEVICES:
                if dev == "default.clifford" and any(l in ("RX", "QFT3", "powX", "ctrlRY", "SPmid") for l in w):
                    continue  # non-Clifford letters: covered by C70
                if dev == "default.tensor" and (mname not in ("Z0", "Ham") or any(l in ("MCM", "Alloc", "AllocDirty", "Snap") for l in w)):
                    continue
                if ctx.quick:
                    k = (LETTERS.index(w[0]) + 3 * LETTERS.index(w[-1]) + 5 * MEAS.index(mname) + 7 * DEVICES.index(dev))
                    combos = [(WIRES[k % 4], [None, 10][(k // 4) % 2], [None, "adjoint", "backprop"][(k // 8) % 3]), ("none", None, None)]
                    if len(w) == 1:
                        combos = [(ws, sh, gm) for ws in WIRES for sh in (None, 10) for gm in (None, "adjoint", "backprop")]
                else:
                    combos = [(ws, sh, gm) for ws in WIRES for sh in (None, 10) for gm in (None, "adjoint", "backprop")]
                for ws, sh, gm in dict.fromkeys(combos):
                    if gm in ("adjoint", "backprop") and dev not in ("default.qubit", "null.qubit"):
                        continue
                    specs.append({"word": w, "meas": mname, "dev": dev, "wires": ws, "shots": sh, "grad": gm})
    ctx.enumerate(specs, axis="cases")
    ctx.coverage["alphabet"] = {"letters": LETTERS, "measurements": MEAS, "devices": DEVICES, "wires": WIRES, "shots": [None, 10], "grad": [None, "adjoint", "backprop"]}
    ctx.coverage["bound"] = {"word_len": 2, "quick_config_axes": "full for 1-letter words; one rotating + the default configuration for 2-letter words"}
