"""C18 — Transforms never modify their input circuit (DESIGN §5.3).

E2 x transform registry: every `Transform` instance reachable as a module attribute of the loaded `pennylane`
package (enumerated at run time; recipes below give the ones that need arguments their arguments, unknown new
transforms are called with defaults and reported) x a catalogue of input tapes (all words up to a length bound over
6 gates x 3 measurement lists, plus special tapes: mid-circuit measurements, broadcasting, Hamiltonian / sum
observables, snapshots, trainable subsets, shot vectors, sampling, wire cuts, templates, pass-specific patterns)
x the history  transform ; transform again ; execute the produced batch and run its post-processing ; transform.

Oracle: a deep fingerprint of the INPUT tape taken before anything happens -- identity and order of the objects in
`tape.operations` / `tape.measurements`, per-operator (type, name, wires, parameter dtype/shape/bytes,
hyper-parameters), per-measurement (type, observable fingerprint, wires, eigvals), parameters, trainable_params,
shots, batch_size, wires, the cached `hash` and a hash recomputed from the contents -- must be identical after every
step, and executing the input tape on default.qubit (seeded) must give the same result before and after.
A transform that raises is counted (outcome "raised"), the fingerprint comparison still applies.
"""
import math

from mc.engine import ok, bad, skip
from mc.explore import words

PROPERTY = "C18"
LEVEL = "exploration"
TECHNIQUE = "bounded exhaustive enumeration of (transform, input tape) pairs with a deep before/after fingerprint and re-execution"
LEVEL_TEXT = ("Every Transform instance found in the loaded package (about 90) is applied, with recipe arguments, to every tape of a "
              "catalogue (quick: 7 words x 3 measurement lists + 35 special tapes; thorough: 43 words x 3 + specials) following the history "
              "transform / transform again / execute + post-process / transform; the input tape's deep fingerprint and its execution result "
              "are compared exactly (results to 1e-12) after each step.")
LEVEL_NOTE = ("Fingerprint covers public state only (operations, measurements, parameters, trainable_params, shots, batch_size, wires, hash); "
              "private lazily filled caches are deliberately ignored. Not decided: QNode / qfunc application paths, transforms that need "
              "objects not constructible here (legacy devices, pulse programs: applied anyway, they reject the tape), program-capture.")
DESIGN_REF = "5.3 C18"
START = "fork"
PARALLEL = True
RULE = ("registry (run-time scan of pennylane modules for Transform instances + ZX wrappers) x tape catalogue, one case = one full history; "
        "non-trivial = the transform returned a batch (did not reject the tape)")

G, G2 = 0.3, -1.234

GATES = [["RX", [0], [G]], ["RY", [1], [G2]], ["Hadamard", [0]], ["CNOT", [0, 1]], ["S", [0]], ["RZ", [1], [G]]]
MEAS = ["Z0", "probs01", "X0varZ1"]

SPECIAL = ["mcm-analytic", "mcm-shots", "broadcast", "hamiltonian", "sum-obs", "noncommuting", "snapshot", "trainable-subset",
           "shot-vector", "sample-counts", "cancel", "merge", "commute", "fusion", "swaps", "gp-barrier", "qubit-unitary", "ae",
           "clifford-t", "cnots", "rz-cnot", "wirecut", "wirecut-mc", "toffoli-pattern", "template", "stateprep", "state", "dm",
           "symbolic", "string-wires", "rot-params", "empty", "prod-obs", "zz-hamiltonian", "rpt-pattern",
           "wireless-probs", "wireless-sample", "wireless-counts"]

EXTRA_TRANSFORMS = ["pennylane.transforms.zx.optimize_t_count", "pennylane.transforms.zx.push_hadamards",
                    "pennylane.transforms.zx.reduce_non_clifford", "pennylane.transforms.zx.todd"]


# ------------------------------------------------------------------------------------------------ registry
def registry():
    """Sorted list of (qualified name, object) for every Transform instance reachable as a module attribute."""
    import importlib
    import sys

    import pennylane as qp
    from pennylane.transforms.core import Transform

    for m in ("pennylane.transforms.zx", "pennylane.gradients", "pennylane.devices.preprocess", "pennylane.noise", "pennylane.qcut",
              "pennylane.shadows", "pennylane.fourier", "pennylane.optimize", "pennylane.debugging", "pennylane.devices.default_mixed",
              "pennylane.devices.default_clifford", "pennylane.devices.legacy_facade", "pennylane.io.to_openqasm"):
        try:
            importlib.import_module(m)
        except Exception:  # pragma: no cover
            pass
    seen = {}
    for mn in sorted(sys.modules):
        if not (mn == "pennylane" or mn.startswith("pennylane.")):
            continue
        m = sys.modules[mn]
        if m is None:
            continue
        for an, a in sorted(vars(m).items(), key=lambda kv: kv[0]):
            if isinstance(a, Transform):
                seen.setdefault(id(a), []).append((mn, an, a))
    out = {}
    for v in seen.values():
        mn, an, a = min(v, key=lambda t: (len(t[0]), t[0], t[1]))
        out[f"{mn}.{an}"] = a
    for q in EXTRA_TRANSFORMS:
        mn, an = q.rsplit(".", 1)
        out[q] = getattr(importlib.import_module(mn), an)
    return dict(sorted(out.items()))


def resolve(qname):
    import importlib

    mn, an = qname.rsplit(".", 1)
    return getattr(importlib.import_module(mn), an)


def recipe(short, qp):
    """Arguments for transforms that need them (everything else is called with defaults)."""
    import numpy as np

    if short == "add_noise":
        return {"noise_model": qp.NoiseModel({qp.noise.op_eq(qp.RX): qp.noise.partial_wires(qp.PhaseDamping, 0.1)})}
    if short == "algebra_commutator":
        return {"lie_algebra_basis_names": ["XI", "ZI", "ZZ"], "nqubits": 2}
    if short == "append_gate":
        return {"params": [0.1], "gates": [qp.RX(0.0, 0)]}
    if short == "append_time_evolution":
        return {"riemannian_gradient": qp.Hamiltonian([0.5], [qp.X(0)]), "t": 0.1, "n": 1}
    if short == "apply_controlled_Q":
        return {"wires": [0, 1], "target_wire": 1, "control_wire": 2, "work_wires": []}
    if short == "batch_input":
        return {"argnum": 1}
    if short in ("cut_circuit", "cut_circuit_mc"):
        return {"device_wires": qp.wires.Wires([0, 1, 2])}
    if short == "_cache_transform":
        return {"cache": {}}
    if short == "decompose":
        return {"gate_set": {"RX", "RY", "RZ", "CNOT", "GlobalPhase"}} if True else {}
    if short == "device_resolve_dynamic_wires":
        return {"wires": None}
    if short == "fold_global":
        return {"scale_factor": 3}
    if short == "insert":
        return {"op": qp.PhaseDamping, "op_args": 0.1, "position": "all"}
    if short == "map_wires":
        return {"wire_map": {0: "m0", 1: "m1", 2: "m2", 3: "m3", "a": "ma", "b": "mb"}}
    if short == "mitigate_with_zne":
        return {"scale_factors": [1, 2, 3], "folding": qp.noise.fold_global, "extrapolate": qp.noise.richardson_extrapolate}
    if short == "pattern_matching_optimization":
        return {"pattern_tapes": [qp.tape.QuantumScript([qp.S(0), qp.S(0), qp.Z(0)])]}
    if short == "quantum_fisher":
        return {"device": qp.device("default.qubit")}
    if short == "quantum_monte_carlo":
        return {"wires": [0, 1], "target_wire": 1, "estimation_wires": [2, 3]}
    if short == "rz_phase_gradient":
        return {"angle_wires": ["a0", "a1"], "phase_grad_wires": ["p0", "p1"], "work_wires": ["w0"]}
    if short == "shadow_state":
        return {"wires": [0]}
    if short == "_replace_obs":
        return {"obs": qp.probs, "wires": [0]}
    if short == "transpile":
        return {"coupling_map": [(0, 1), (1, 2), (2, 3)]}
    if short == "validate_device_wires":
        return {"wires": qp.wires.Wires([0, 1, 2, 3, "a", "b"])}
    if short == "validate_multiprocessing_workers":
        return {"max_workers": None, "device": qp.device("default.qubit")}
    if short == "validate_observables":
        return {"stopping_condition": lambda o: True}
    if short == "clifford_t_decomposition":
        return {"epsilon": 0.05}
    if short in ("legacy_device_batch_transform", "legacy_device_expand_fn"):
        return {"device": qp.device("default.qubit")}
    if short == "match_controlled_iX_gate":
        return {"num_controls": 1}
    return {}


# decompose is registered twice (qp.decompose and devices.preprocess.decompose re-exported by io.to_openqasm)
VARIANTS = {"transpile": 2, "decompose": 2, "split_non_commuting": 2, "insert": 2}


def recipe_for(qname, qp, variant=0):
    short = qname.rsplit(".", 1)[1]
    if variant == 1:  # second argument set for transforms whose optional arguments open another code path
        if short == "transpile":
            return {"coupling_map": [(0, 1), (1, 2), (2, 3)], "device": qp.device("default.qubit", wires=4)}
        if short == "decompose" and not (qname.endswith("to_openqasm.decompose") or qname.endswith("preprocess.decompose")):
            return {"gate_set": {"RX", "RY", "RZ", "CNOT", "Hadamard", "S", "GlobalPhase"}, "max_expansion": 1}
        if short == "split_non_commuting":
            return {"grouping_strategy": "wires"}
        if short == "insert":
            return {"op": qp.PhaseDamping, "op_args": 0.1, "position": "start", "before": True}
    if qname.endswith("to_openqasm.decompose") or qname.endswith("preprocess.decompose"):
        return {"stopping_condition": lambda op: op.name in ("RX", "RY", "RZ", "CNOT", "Hadamard", "S", "PauliX", "MidMeasureMP")}
    return recipe(short, qp)


# ------------------------------------------------------------------------------------------------ tapes
def build_tape(tspec):
    import numpy as np
    import pennylane as qp

    from mc import x_passes as XP

    QS = qp.tape.QuantumScript
    if "word" in tspec:
        ops = XP.build_ops(tspec["word"])
        mk = tspec["meas"]
        meas = {"Z0": [qp.expval(qp.Z(0))], "probs01": [qp.probs(wires=[0, 1])], "X0varZ1": [qp.expval(qp.X(0)), qp.var(qp.Z(1))]}[mk]
        return QS(ops, meas)
    name = tspec["special"]
    Z0 = [qp.expval(qp.Z(0))]
    if name in ("mcm-analytic", "mcm-shots"):
        with qp.queuing.AnnotatedQueue() as q:
            qp.Hadamard(0)
            m = qp.measure(0)
            qp.cond(m, qp.PauliX)(1)
            qp.RX(G, 1)
            qp.expval(qp.Z(1))
        t = QS.from_queue(q, shots=(None if name == "mcm-analytic" else 20))
        return t
    if name == "broadcast":
        return QS([qp.RX(np.array([0.1, 0.2, 0.3]), 0), qp.CNOT([0, 1])], Z0)
    if name.startswith("wireless-"):  # measurements written without wires; only gates no pass needs to decompose
        ops_ = [qp.RX(G, 0), qp.CNOT([0, 1]), qp.CNOT([0, 2]), qp.RX(G2, 2)]
        if name == "wireless-probs":
            return QS(ops_, [qp.probs()])
        if name == "wireless-sample":
            return QS(ops_, [qp.sample()], shots=5)
        return QS(ops_, [qp.counts()], shots=5)
    if name == "hamiltonian":
        return QS([qp.RX(G, 0), qp.CNOT([0, 1])], [qp.expval(qp.Hamiltonian([0.5, 2.0], [qp.X(0), qp.Z(0) @ qp.Z(1)]))])
    if name == "sum-obs":
        return QS([qp.RX(G, 0), qp.CNOT([0, 1])], [qp.expval(qp.sum(qp.X(0), qp.s_prod(2.0, qp.Y(1)))), qp.expval(qp.Z(1))])
    if name == "prod-obs":
        return QS([qp.RX(G, 0), qp.RY(G2, 1)], [qp.expval(qp.X(0) @ qp.Y(1)), qp.var(qp.Z(0) @ qp.Z(1))])
    if name == "noncommuting":
        return QS([qp.RX(G, 0), qp.RY(G2, 1)], [qp.expval(qp.X(0)), qp.expval(qp.Z(0)), qp.expval(qp.Y(1))])
    if name == "snapshot":
        return QS([qp.Hadamard(0), qp.Snapshot(), qp.CNOT([0, 1]), qp.Snapshot("tag", measurement=qp.expval(qp.Z(0)))], Z0)
    if name == "trainable-subset":
        t = QS([qp.RX(0.1, 0), qp.RY(0.2, 1), qp.RZ(0.3, 0), qp.CNOT([0, 1])], [qp.expval(qp.Z(0) @ qp.Z(1))])
        t.trainable_params = [0, 2]
        return t
    if name == "rot-params":
        t = QS([qp.Rot(0.1, 0.2, 0.3, 0), qp.CRX(0.4, [0, 1]), qp.IsingXX(0.5, [0, 1])], [qp.expval(qp.Z(1)), qp.probs(wires=[0])])
        t.trainable_params = [1, 3]
        return t
    if name == "shot-vector":
        return QS([qp.RX(G, 0), qp.CNOT([0, 1])], [qp.expval(qp.Z(0)), qp.probs(wires=[1])], shots=(5, 10, 5))
    if name == "sample-counts":
        return QS([qp.Hadamard(0), qp.CNOT([0, 1])], [qp.sample(wires=[0]), qp.counts(wires=[0, 1])], shots=20)
    if name == "cancel":
        return QS([qp.Hadamard(0), qp.Hadamard(0), qp.S(0), qp.adjoint(qp.S(0)), qp.CNOT([0, 1]), qp.CNOT([0, 1])], Z0)
    if name == "merge":
        return QS([qp.RX(G, 0), qp.RX(G, 0), qp.Rot(0.1, 0.2, 0.3, 1), qp.Rot(0.3, 0.2, 0.1, 1), qp.CRX(G, [0, 1]), qp.CRX(-G, [0, 1])], Z0)
    if name == "commute":
        return QS([qp.S(0), qp.CNOT([0, 1]), qp.X(1), qp.Z(0), qp.CNOT([0, 1]), qp.RZ(G, 0), qp.Toffoli([0, 2, 1]), qp.X(1)], Z0)
    if name == "fusion":
        return QS([qp.Hadamard(0), qp.S(0), qp.T(0), qp.RX(G, 1), qp.RY(G, 1), qp.CNOT([0, 1]), qp.Hadamard(1)], Z0)
    if name == "swaps":
        return QS([qp.Hadamard(0), qp.SWAP([0, 1]), qp.X(1), qp.SWAP([1, 2]), qp.RX(G, 0)], [qp.expval(qp.Z(2))])
    if name == "gp-barrier":
        return QS([qp.GlobalPhase(0.1), qp.Hadamard(0), qp.Barrier([0, 1]), qp.GlobalPhase(0.2), qp.CNOT([0, 1])], Z0)
    if name == "qubit-unitary":
        return QS([qp.QubitUnitary(XP.MATS["haar2"].copy(), 0), qp.QubitUnitary(XP.MATS["haar4"].copy(), [0, 1])], Z0)
    if name == "ae":
        return QS([qp.AmplitudeEmbedding(np.array([0.6, 0.8]), wires=0), qp.AmplitudeEmbedding(np.array([0.0, 1.0]), wires=1),
                   qp.CNOT([0, 1])], Z0)
    if name == "clifford-t":
        return QS([qp.Hadamard(0), qp.T(0), qp.CNOT([0, 1]), qp.S(1), qp.T(1), qp.Hadamard(1)], Z0)
    if name == "cnots":
        return QS([qp.CNOT([0, 1]), qp.CNOT([1, 2]), qp.CNOT([0, 2]), qp.CNOT([2, 0])], Z0)
    if name == "rz-cnot":
        return QS([qp.CNOT([0, 1]), qp.RZ(G, 1), qp.CNOT([0, 1]), qp.RZ(G2, 0)], Z0)
    if name == "wirecut":
        return QS([qp.RX(G, 0), qp.CNOT([0, 1]), qp.WireCut(wires=1), qp.CNOT([1, 2]), qp.RY(G2, 2)], [qp.expval(qp.Z(0) @ qp.Z(2))])
    if name == "wirecut-mc":
        return QS([qp.RX(G, 0), qp.CNOT([0, 1]), qp.WireCut(wires=1), qp.CNOT([1, 2]), qp.RY(G2, 2)], [qp.sample(wires=[0, 2])], shots=10)
    if name == "toffoli-pattern":
        return QS([qp.Hadamard(0), qp.ctrl(qp.S(1), control=[0]), qp.Toffoli([0, 1, 2]), qp.Hadamard(1)], Z0)
    if name == "template":
        return QS([qp.QFT(wires=[0, 1]), qp.AngleEmbedding(np.array([0.1, 0.2]), wires=[0, 1])], Z0)
    if name == "stateprep":
        return QS([qp.StatePrep(np.array([1, 0, 0, 1]) / math.sqrt(2), wires=[0, 1]), qp.RX(G, 0)], Z0)
    if name == "state":
        return QS([qp.Hadamard(0), qp.CNOT([0, 1])], [qp.state()])
    if name == "dm":
        return QS([qp.Hadamard(0), qp.CNOT([0, 1])], [qp.density_matrix(wires=[0]), qp.purity(wires=[1])])
    if name == "symbolic":
        return QS([qp.pow(qp.RX(G, 0), 2), qp.adjoint(qp.S(1)), qp.ctrl(qp.RY(G, 1), control=0, control_values=[0]),
                   qp.exp(qp.Z(0), 0.3j)], Z0)
    if name == "string-wires":
        return QS([qp.RX(G, "a"), qp.CNOT(["a", "b"]), qp.RY(G2, "b")], [qp.expval(qp.Z("a")), qp.probs(wires=["b"])])
    if name == "zz-hamiltonian":
        return QS([qp.RX(G, 0), qp.CNOT([0, 1])], [qp.expval(qp.Hamiltonian([0.5, 2.0], [qp.Z(0), qp.Z(0) @ qp.Z(1)]))])
    if name == "rpt-pattern":
        return QS([qp.CCZ([0, 1, 3]), qp.ctrl(qp.S(1), control=[0]), qp.ctrl(qp.S(2), control=[0, 1]), qp.MultiControlledX([0, 1, 2, 3]),
                   qp.Hadamard(1)], Z0)
    if name == "empty":
        return QS([], Z0)
    raise AssertionError(name)


# ------------------------------------------------------------------------------------------------ fingerprint
def _mp_fp(m, XP):
    import numpy as np

    obs = getattr(m, "obs", None)
    ev = getattr(m, "_eigvals", None)
    mv = getattr(m, "mv", None)
    return (type(m).__name__, None if obs is None else XP.op_fingerprint(obs), tuple(repr(w) for w in m.wires),
            None if ev is None else np.asarray(ev).tobytes().hex(), None if mv is None else repr(mv))


def _op_fp(op, XP):
    tn = type(op).__name__
    if tn in ("MidMeasureMP", "MidMeasure"):
        return (tn, tuple(repr(w) for w in op.wires), repr(getattr(op, "reset", None)), repr(getattr(op, "postselect", None)),
                repr(getattr(op, "id", None)))
    try:
        return XP.op_fingerprint(op)
    except Exception as e:  # operators without data/hyperparameters protocol
        return (tn, repr(op), type(e).__name__)


def fingerprint(tape, qp, XP):
    import numpy as np

    ops = tape.operations
    ms = tape.measurements
    f = {}
    f["operations-identity"] = tuple(id(o) for o in ops)
    f["operations-contents"] = tuple(_op_fp(o, XP) for o in ops)
    f["measurements-identity"] = tuple(id(m) for m in ms)
    f["measurements-contents"] = tuple(_mp_fp(m, XP) for m in ms)
    pars = []
    for p in tape.get_parameters(trainable_only=False):
        a = np.asarray(qp.math.toarray(p)) if not isinstance(p, (int, float, complex)) else np.asarray(p)
        pars.append((str(a.dtype), tuple(a.shape), a.tobytes().hex(), bool(qp.math.requires_grad(p))))
    f["parameters"] = tuple(pars)
    f["trainable_params"] = tuple(tape.trainable_params)
    f["shots"] = repr(tape.shots)
    f["batch_size"] = tape.batch_size
    f["wires"] = tuple(repr(w) for w in tape.wires)
    f["hash"] = tape.hash
    f["hash-recomputed"] = qp.tape.QuantumScript(list(ops), list(ms), shots=tape.shots).hash
    f["circuit-list"] = tuple(id(o) for o in tape.circuit)
    return f


def diff(f0, f1):
    out = []
    for k in f0:
        if f0[k] != f1[k]:
            if k == "operations-identity":
                a, b = f0[k], f1[k]
                if len(a) != len(b):
                    out.append("operations-count")
                elif sorted(a) == sorted(b):
                    out.append("operations-reordered")
                else:
                    out.append("operations-replaced")
            else:
                out.append(k)
    return out


def _execute(tape, qp):
    import numpy as np

    dev = qp.device("default.qubit", seed=1234)
    try:
        res = qp.execute([tape], dev, diff_method=None)[0]
    except Exception as e:
        return ("raised", type(e).__name__)
    return ("ok", res)


def _same(a, b):
    import numpy as np

    if isinstance(a, (tuple, list)) and isinstance(b, (tuple, list)):
        return len(a) == len(b) and all(_same(x, y) for x, y in zip(a, b))
    if isinstance(a, dict) and isinstance(b, dict):
        return a.keys() == b.keys() and all(_same(a[k], b[k]) for k in a)
    if isinstance(a, str) or isinstance(b, str):
        return a == b
    try:
        a, b = np.asarray(a), np.asarray(b)
        return a.shape == b.shape and bool(np.allclose(a, b, atol=1e-12, rtol=0, equal_nan=True))
    except Exception:
        return repr(a) == repr(b)


def check(spec):
    import warnings

    import pennylane as qp

    from mc import x_passes as XP

    warnings.simplefilter("ignore")
    qname = spec["transform"]
    short = qname.rsplit(".", 1)[1]
    tr = resolve(qname)
    tape = build_tape(spec["tape"])
    f0 = fingerprint(tape, qp, XP)
    r0 = _execute(tape, qp)
    f_exec = fingerprint(tape, qp, XP)
    d = diff(f0, f_exec)
    if d:
        return bad(f"input-mutated:execute:{d[0]}", d, "unchanged")

    def apply():
        kw = recipe_for(qname, qp, spec.get("variant", 0))
        try:
            out = tr(tape, **kw)
            if not (isinstance(out, tuple) and len(out) == 2 and callable(out[1])):
                return ("odd-return", type(out).__name__, None)
            return ("ok", out[0], out[1])
        except Exception as e:
            return ("raised", type(e).__name__, None)

    steps = []
    first = apply()
    steps.append(("once", first))
    d = diff(f0, fingerprint(tape, qp, XP))
    if d:
        return bad(f"input-mutated:{short}:{d[0]}", {"changed": d, "step": "once", "ops_now": [repr(o) for o in tape.operations][:12]},
                   "input tape unchanged", tape=spec["tape"])
    second = apply()
    d = diff(f0, fingerprint(tape, qp, XP))
    if d:
        return bad(f"input-mutated:{short}:{d[0]}:second-application", {"changed": d, "step": "twice"}, "input tape unchanged")
    post_state = "n/a"
    if first[0] == "ok":
        batch, post = first[1], first[2]
        try:
            dev = qp.device("default.qubit", seed=99)
            res = qp.execute(list(batch), dev, diff_method=None) if len(batch) else ()
            post(res)
            post_state = "post-ok"
        except Exception as e:
            post_state = "post-raised:" + type(e).__name__
        d = diff(f0, fingerprint(tape, qp, XP))
        if d:
            return bad(f"input-mutated:{short}:{d[0]}:after-postprocessing", {"changed": d, "step": "post"}, "input tape unchanged")
        third = apply()
        d = diff(f0, fingerprint(tape, qp, XP))
        if d:
            return bad(f"input-mutated:{short}:{d[0]}:third-application", {"changed": d, "step": "thrice"}, "input tape unchanged")
    r1 = _execute(tape, qp)
    if not (r0[0] == r1[0] and _same(r0[1], r1[1])):
        return bad(f"result-changed:{short}", repr(r1)[:400], repr(r0)[:400])
    nb = len(first[1]) if first[0] == "ok" else None
    return ok(outcome=[short, first[0], first[1] if first[0] != "ok" else nb, post_state], nontrivial=first[0] in ("ok", "odd-return"))


# ------------------------------------------------------------------------------------------------ driver
def tape_specs(quick):
    out = []
    for w in words(GATES, 1 if quick else 2, 0):
        for m in MEAS:
            out.append({"word": w, "meas": m})
    out += [{"special": s} for s in SPECIAL]
    return out


def run(ctx):
    reg = registry()
    names = list(reg)
    if ctx.only:
        names = [n for n in names if n.rsplit(".", 1)[1] in ctx.only.split(",")]
    tapes = tape_specs(ctx.quick)
    specs = [{"transform": n, "tape": t} for n in names for t in tapes]
    specs += [{"transform": n, "tape": t, "variant": v} for n in names for v in range(1, VARIANTS.get(n.rsplit(".", 1)[1], 1)) for t in tapes]
    ctx.enumerate(specs, fn="check", axis="transform x tape", chunk=8)
    import pennylane as qp

    with_recipe = sorted(n for n in names if recipe_for(n, qp))
    ctx.coverage["alphabet"] = {"transforms": names, "transforms_with_recipe_arguments": [n.rsplit(".", 1)[1] for n in with_recipe],
                                "gates": GATES, "measurement_lists": MEAS, "special_tapes": SPECIAL}
    ctx.coverage["bound"] = {"word_len": 1 if ctx.quick else 2, "tapes": len(tapes), "transforms": len(names),
                             "history": ["transform", "transform", "execute+postprocess", "transform", "re-execute input"]}
