"""C04 — qp.equal is an equivalence compatible with hashing and matrices (DESIGN §5.1 C04).

E1 over pairs.  Objects = catalogue instances (one generic + one boundary instance per variant) + C03 depth<=2 expressions +
MEAS(2) measurement processes + mid-circuit-measurement based processes.  For every object a: (a,a), (a,rebuild(a)),
(a,copy(a)), (a,deepcopy(a)) and (a,m(a)) for every single-field mutation m of its spec; plus all cross pairs of one instance
per catalogue name.  Oracle: reflexive; identical data => equal and equal hashes; both argument orders agree for structural
mutations; equal => same linear map (matrices on the joint wires, 1e-4).
"""
import copy
import itertools

import numpy as np

from mc import x_catalog as cat
from mc import x_objs as O
from mc.engine import bad, ok, skip

PROPERTY = "C04"
LEVEL = "exploration"
TECHNIQUE = "bounded exhaustive enumeration of object pairs (identity, reconstruction, copies, single-field mutations, cross pairs) for qp.equal / hash / matrix consistency"
LEVEL_TEXT = ("Every catalogue instance of the 'few' tier (all ~345 operator names; generic and all-pi parameters; quick: first 3 variants per "
              "name), ~2.5k nested arithmetic expressions (depth <= 2), 70 measurement processes (MEAS(2) + mid-circuit-measurement based) are "
              "paired with themselves, a reconstruction, copy and deepcopy (must be equal with equal hashes) and with every single-field "
              "mutation of their spec (parameter +0.5 / +1e-12, two wires swapped, one wire renamed, control value flipped, every "
              "hyper-parameter / array entry / coefficient / exponent / operand changed): qp.equal must answer the same in both orders for "
              "structural mutations and a True answer must come with equal matrices; all pairs of one instance per name (quick: ~110 gate/"
              "matrix/observable/symbolic names + wrappers of 12 bases; thorough: all ~345 names) are checked for order-independence too.")
LEVEL_NOTE = ("The clause 'equal => same linear map' is decided only where both objects have a matrix on <= 7 wires (observable matrix for "
              "measurement processes; eigenvalues for measurement-value based processes). Interfaces other than numpy, trainability flags and "
              "tapes are not explored; transitivity is not part of the statement and not checked. Unequal objects are NOT required to have "
              "different hashes.")
DESIGN_REF = "5.1 C04"
START = "fork"
PARALLEL = True
RULE = ("objects x {self, rebuild, copy, deepcopy} + objects x all single-field spec mutations + ordered cross pairs of one instance per "
        "catalogue name; non-trivial = the pair was answered and at least one clause beyond reflexivity was decided")
ASSUMPTIONS = ["mutated specs that PennyLane refuses to construct are counted as rejected", "numpy dense linear algebra for the matrix clause"]

MTOL = 1e-4
MAXW = 7


def _equal(a, b):
    import pennylane as qp

    try:
        return bool(qp.equal(a, b)), None
    except Exception as e:  # noqa: BLE001
        return None, f"{type(e).__name__}: {e}"[:200]


def _map_of(obj, W):
    """Dense representation of the linear map an object denotes on wire order W (None: not available)."""
    import pennylane as qp
    from pennylane.measurements import MeasurementProcess

    try:
        if isinstance(obj, MeasurementProcess):
            if obj.obs is not None:
                return np.asarray(qp.matrix(obj.obs, wire_order=W), dtype=complex)
            if obj.mv is not None:
                ev = obj.eigvals()
                return None if ev is None else np.asarray(ev, dtype=complex)
            return None
        if len(obj.wires) == 0:
            return np.asarray(qp.matrix(obj), dtype=complex).ravel()[:1] * np.eye(2 ** len(W))
        return np.asarray(qp.matrix(obj, wire_order=W), dtype=complex)
    except Exception:  # noqa: BLE001 - no matrix: the clause is not decided for this pair
        return None


def _wires(obj):
    from pennylane.measurements import MeasurementProcess

    if isinstance(obj, MeasurementProcess) and obj.obs is not None:
        return list(obj.obs.wires)
    return list(obj.wires)


def _on_branch_cut(op, depth=0):
    """A fractional power whose base has an eigenphase at +-pi (1e-6): the principal power is discontinuous there, which PennyLane
    documents as branch-cut ambiguity (outside C01's domain) - the matrix clause is not decided for such operators."""
    import pennylane as qp

    z = getattr(op, "z", None)
    if z is not None and hasattr(op, "base") and not isinstance(z, int):
        try:
            ph = np.angle(np.linalg.eigvals(np.asarray(qp.matrix(op.base), dtype=complex)))
            if np.any(np.abs(ph) >= np.pi - 1e-6):
                return True
        except Exception:  # noqa: BLE001
            return True
    if depth < 5:
        for sub in ([op.base] if hasattr(op, "base") else []) + list(getattr(op, "operands", ()) or ()):
            if _on_branch_cut(sub, depth + 1):
                return True
    return False


def _same_map(a, b):
    """True / False / None (not decidable)."""
    from pennylane.measurements import MeasurementProcess

    if not isinstance(a, MeasurementProcess) and (_on_branch_cut(a) or _on_branch_cut(b)):
        return None
    W = _wires(a) + [w for w in _wires(b) if w not in _wires(a)]
    if len(W) > MAXW:
        return None
    Ma, Mb = _map_of(a, W), _map_of(b, W)
    if Ma is None or Mb is None:
        return None
    if not (np.all(np.isfinite(Ma)) and np.all(np.isfinite(Mb))):
        return None  # e.g. a negative fractional power of a singular matrix: no finite matrix to compare
    if Ma.shape != Mb.shape:
        return False
    return bool(np.max(np.abs(Ma - Mb)) <= MTOL * max(1.0, float(np.max(np.abs(Ma))))) if Ma.size else True


def _hash(x):
    try:
        return hash(x), None
    except Exception as e:  # noqa: BLE001
        return None, f"{type(e).__name__}: {e}"[:200]


def _label(o):
    if o["k"] == "mp" and o.get("mv") and o["mv"].get("fn", "id") not in ("id", "list"):
        return f"mp:{o['m']}(measurement-value-arithmetic)"
    return O.label(o)


def check_self(spec):
    o = O.canon(spec["o"])
    lab = _label(o)
    try:
        a = O.build(o)
    except Exception as e:  # noqa: BLE001 - PennyLane refuses this combination (e.g. probs of a Hamiltonian)
        return skip(f"object-not-constructible:{type(e).__name__}")
    eq, err = _equal(a, a)
    if eq is not True:
        return bad(f"not-reflexive:{lab}", err or eq, True)
    ha, herr = _hash(a)
    if herr:
        return bad(f"hash-raises:{lab}", herr, "a hash")
    decided = []
    for how, fn in (("rebuild", lambda: O.build(o)), ("copy", lambda: copy.copy(a)), ("deepcopy", lambda: copy.deepcopy(a))):
        try:
            b = fn()
        except Exception as e:  # noqa: BLE001 - copying is C06's subject; here the pair simply does not exist
            decided.append(f"{how}:raises-{type(e).__name__}")
            continue
        for x, y, order in ((a, b, "ab"), (b, a, "ba")):
            eq, err = _equal(x, y)
            if eq is not True:
                return bad(f"identical-data-not-equal:{how}:{lab}", err or eq, True, order=order)
        hb, herr = _hash(b)
        if herr or hb != ha:
            cls = "mp(measurement-value-arithmetic)" if "measurement-value-arithmetic" in lab else lab
            return bad(f"identical-data-different-hash:{how}:{cls}", [ha, hb, herr], "equal hashes")
        sm = _same_map(a, b)
        if sm is False:
            return bad(f"equal-but-different-map:{how}:{lab}", "matrices differ", "same matrix")
        decided.append(how + (":map" if sm else ""))
    return ok(outcome=[lab, decided], nontrivial=True)


def _mut_class(lab):
    """Mutation label without indices (failure class)."""
    import re

    return re.sub(r"\[\d+\]", "", re.sub(r"param\d+", "param", lab))


def judge_pair(a, b, la, lb, mut, structural):
    e1, r1 = _equal(a, b)
    e2, r2 = _equal(b, a)
    tag = f"{la}|{mut}" if mut else f"{la}×{lb}"
    if r1 or r2:
        if bool(r1) != bool(r2):
            return bad(f"equal-raises-in-one-order:{tag}", [r1, r2], "an answer in both orders")
        return bad(f"equal-raises:{tag}", [r1, r2], "True or False")
    if structural and e1 != e2:
        return bad(f"asymmetric:{tag}", [e1, e2], "the same answer in both argument orders")
    sm = None
    if e1 or e2:
        sm = _same_map(a, b)
        if sm is False:
            if mut and mut.startswith("mp:mv-processing"):
                tag = "measurement-process|measurement-value-processing-ignored"
            return bad(f"equal-but-different-map:{tag}", [e1, e2], "objects reported equal denote the same linear map")
    return ok(outcome=[la, mut or lb, e1, e2, sm], nontrivial=True)


def check_mut(spec):
    o = O.canon(spec["o"])
    muts = O.mutations(o)
    lab, structural, mo = muts[spec["i"]]
    if lab != spec["lab"]:
        raise AssertionError(f"mutation table changed: {lab} != {spec['lab']}")
    try:
        a = O.build(o)
    except Exception as e:  # noqa: BLE001
        return skip(f"object-not-constructible:{type(e).__name__}")
    try:
        b = O.build(mo)
    except Exception as e:  # noqa: BLE001 - the mutated data is not a valid object
        return skip(f"mutation-not-constructible:{type(e).__name__}")
    return judge_pair(a, b, _label(o), _label(mo), _mut_class(lab), structural)


def _one(name):
    return {"k": "cat", "g": cat.instances(name, "one")[0]}


def check_cross(spec):
    a, b = O.build(_one(spec["a"])), O.build(_one(spec["b"]))
    return judge_pair(a, b, spec["a"], spec["b"], None, True)


def run(ctx):
    tier = ctx.tier
    only = ctx.only.split(",") if ctx.only else None
    objs = O.catalogue_objects(tier, only)
    if not only or "expr" in only:
        objs += O.expression_objects(tier)
    if not only or "mp" in only:
        objs += O.measurements(tier)
    objs = [O.canon(o) for o in objs]
    ctx.enumerate([{"o": o} for o in objs], fn="check_self", axis="self/rebuild/copy/deepcopy")
    mspecs = []
    for o in objs:
        for i, (lab, st, _) in enumerate(O.mutations(o)):
            mspecs.append({"o": o, "i": i, "lab": lab})
    ctx.enumerate(mspecs, fn="check_mut", axis="single-field mutations")
    wrap_bases = ("PauliX", "S", "RX", "CNOT", "CRX", "SWAP", "Toffoli", "QubitUnitary", "MultiControlledX", "PauliRot", "ChangeOpBasis", "Prod")
    names = [n for n in cat.names() if cat.instances(n, "one") and (
        tier == "thorough" or cat.category(n) not in ("template", "wrapper") or (cat.category(n) == "wrapper" and n[n.index("(") + 1:-1] in wrap_bases))]
    if only:
        names = [n for n in names if any(t in n for t in only)]
    ctx.enumerate([{"a": a, "b": b} for a, b in itertools.combinations(names, 2)], fn="check_cross", axis="cross pairs (one instance per name)")
    ctx.coverage["alphabet"] = {"objects": len(objs), "catalogue_names": len(cat.names()), "mutation_kinds": sorted({_mut_class(s["lab"]).split(">")[-1] for s in mspecs})[:80]}
    ctx.coverage["bound"] = {"catalogue_tier": "few", "variants_per_name": 3 if ctx.quick else "all", "expression_depth": 2, "matrix_clause_max_wires": MAXW}
