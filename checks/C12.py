"""C12 — the decompose transform reaches the target gate set without changing the circuit (DESIGN §5.2).

E2: circuits = all words up to a length bound over a 25-letter operator alphabet (plain gates, templates, adjoint, integer and
fractional powers, controlled operators with 1-3 controls and 0/1 control values, QubitUnitary, MultiControlledX with and without
work wires) x gate sets (predefined sets, hand-picked sets, every 3-subset of {RX,RY,RZ,CNOT,CZ,H,GlobalPhase}) x graph off/on x
work-wire budget x alternative decomposition x stopping-condition variant.
Oracle: DecompositionError, or (every output operator in the gate set / accepted by the stopping condition, unless the documented
warning was issued) and R-sv(output) == R-sv(input) up to one global phase with work wires returned as promised.  With the graph on,
the resource estimate of an operator equals the gate counts of its actual expansion whenever every rule used is exact."""
import itertools
import warnings
from collections import Counter

from mc.engine import ok, bad, skip

PROPERTY = "C12"
LEVEL = "exploration"
TECHNIQUE = "bounded exhaustive enumeration of circuits x gate sets x decompose options vs. reference simulation and gate-set membership"
LEVEL_TEXT = ("Every word of length <=2 (quick: length 1 fully, length 2 over a 12-letter sub-alphabet; thorough: length 2 over all 25 "
              "letters, length 3 over 12 letters) is decomposed under the listed gate sets and option combinations with the real "
              "qp.transforms.decompose; the result is checked for gate-set membership (or the documented warning) and multiplied out "
              "with the independent numpy simulator against the input circuit up to global phase, work wires included.")
LEVEL_NOTE = ("Trusted: mc.refsim/refgates, qp.matrix of non-table operators (C01/C02). Program capture / qjit paths, max_expansion and "
              "weighted gate sets other than CLIFFORD_T_PLUS_RZ are not explored. The estimate clause is checked for single-operator "
              "circuits only, by re-walking the solution with the graph's own rule choice.")
DESIGN_REF = "5.2 C12"
PARALLEL = True
RULE = ("one case per (word, gate set, graph, work-wire budget, alt rule, stopping variant); non-trivial = the transform changed the "
        "circuit or raised")

LETTERS = [
    "qp.Hadamard(0)", "qp.T(1)", "qp.RX(A[0], 0)", "qp.Rot(A[0], A[1], A[2], 1)", "qp.CNOT([0, 1])", "qp.CRX(A[1], [1, 0])",
    "qp.SWAP([0, 2])", "qp.Toffoli([0, 1, 2])", "qp.IsingXX(A[2], [1, 2])", "qp.QFT([0, 1, 2])",
    "qp.BasisEmbedding(np.array([1, 0]), [0, 1])", "qp.StronglyEntanglingLayers(WT((1, 2, 3), 0), [0, 1])",
    "qp.adjoint(qp.S(0))", "qp.adjoint(qp.CRY(A[0], [0, 2]))", "qp.pow(qp.SX(1), 2)", "qp.pow(qp.RZ(A[1], 0), 0.5)",
    "qp.pow(qp.CNOT([0, 1]), 3)", "qp.ctrl(qp.RY(A[2], 2), control=[0], control_values=[0])",
    "qp.ctrl(qp.PhaseShift(A[0], 2), control=[0, 1], control_values=[1, 0])", "qp.ctrl(qp.S(3), control=[0, 1, 2])",
    "qp.QubitUnitary(UN(1, 0), 0)", "qp.QubitUnitary(UN(2, 1), [1, 2])",
    "qp.MultiControlledX([0, 1, 2, 3], control_values=[1, 0, 1])",
    "qp.MultiControlledX([0, 1, 2, 3], work_wires=['w'], work_wire_type='zeroed')",
    "qp.ctrl(qp.IsingXX(A[3], [2, 3]), control=[0, 1], work_wires=['w'], work_wire_type='borrowed')",
]
SINGLE_ONLY = ["qp.pow(qp.Identity(0), 0)", "qp.pow(qp.PhaseShift(A[3], 0), 0.5)", "qp.Incrementer([0, 1, 2])", "qp.GlobalPhase(A[0])",
               "qp.pow(qp.T(0), 7)", "qp.adjoint(qp.adjoint(qp.RX(A[0], 1)))", "qp.ctrl(qp.adjoint(qp.T(2)), control=[0, 1])",
               # nested work-wire allocation: Lemma 7.11 takes one wire, the inner MultiControlledX must then respect the rest of the budget
               "qp.ctrl(qp.IsingXX(A[2], [3, 4]), control=[0, 1, 2])"]
NESTED = ["qp.adjoint(qp.pow(qp.Hadamard(0), 5))", "qp.adjoint(qp.pow(qp.X(1), 3))", "qp.adjoint(qp.pow(qp.S(0), 3))",
          "qp.adjoint(qp.pow(qp.SX(1), 7))", "qp.adjoint(qp.pow(qp.T(1), 6))", "qp.pow(qp.adjoint(qp.S(0)), 3)"]
SUB12 = [0, 2, 4, 5, 7, 9, 12, 15, 17, 18, 20, 23]
SUB8 = [0, 2, 4, 7, 12, 15, 17, 23]

BASE7 = ["RX", "RY", "RZ", "CNOT", "CZ", "Hadamard", "GlobalPhase"]
NAMED = {
    "ROTATIONS_PLUS_CNOT": "named", "CLIFFORD_T_PLUS_RZ": "named",
    "RX,RY,CZ,GlobalPhase": ["RX", "RY", "CZ", "GlobalPhase"], "Rot,CNOT": ["Rot", "CNOT"], "Rot,CNOT,GlobalPhase": ["Rot", "CNOT", "GlobalPhase"],
    "H,T,CNOT": ["Hadamard", "T", "CNOT"], "RZ,RY,CNOT,GlobalPhase,Toffoli": ["RZ", "RY", "CNOT", "GlobalPhase", "Toffoli"],
}
SUBSETS3 = [",".join(c) for c in itertools.combinations(BASE7, 3)]
QUICK_SUBSETS = ["RX,RZ,CNOT", "RY,RZ,CZ", "RX,RY,GlobalPhase", "RZ,CNOT,Hadamard", "CNOT,CZ,Hadamard"]


def gate_set(name):
    import pennylane as qp
    from pennylane.decomposition.gate_set import GateSet

    if NAMED.get(name) == "named":
        return getattr(qp.decomposition.gate_sets, name)
    names = NAMED.get(name) or name.split(",")
    return GateSet(set(names))


def _alt_rules():
    import pennylane as qp

    @qp.register_resources({qp.Hadamard: 2, qp.CZ: 1})
    def cnot_via_cz(wires, **_):
        qp.Hadamard(wires[1])
        qp.CZ(wires)
        qp.Hadamard(wires[1])

    @qp.register_resources({qp.RZ: 2, qp.RX: 1, qp.GlobalPhase: 1})
    def h_via_rz_rx(wires, **_):
        import numpy as np

        qp.RZ(np.pi / 2, wires=wires)
        qp.RX(np.pi / 2, wires=wires)
        qp.RZ(np.pi / 2, wires=wires)
        qp.GlobalPhase(-np.pi / 2)

    return {"alt": {qp.CNOT: [cnot_via_cz]}, "fixed": {qp.Hadamard: h_via_rz_rx}}


def _stop(op):
    return op.name in ("Toffoli", "S")


def _member(op, gs, stop):
    return (op in gs) or (stop is not None and stop(op))


def check(spec):
    import pennylane as qp
    from mc import x_decomp as X
    from pennylane.allocation import Allocate, Deallocate
    from pennylane.decomposition.utils import toggle_graph_ctx
    from pennylane.exceptions import DecompositionError

    ops = [X.build(e) for e in spec["ops"]]
    names = "+".join(X.op_name(o) for o in ops)
    gs = gate_set(spec["gs"])
    graph = bool(spec["graph"])
    stop = _stop if spec.get("stop") else None
    kw = {"gate_set": gs}
    if stop:
        kw["stopping_condition"] = stop
    if graph:
        kw["num_work_wires"] = None if spec["nww"] == "none" else int(spec["nww"])
        if spec.get("alt") == "alt":
            kw["alt_decomps"] = _alt_rules()["alt"]
        elif spec.get("alt") == "fixed":
            kw["fixed_decomps"] = _alt_rules()["fixed"]
    tape = qp.tape.QuantumScript(ops)
    cfg = f"graph={'on' if graph else 'off'}"
    import sys

    limit = sys.getrecursionlimit()
    with toggle_graph_ctx(graph), warnings.catch_warnings(record=True) as wlist:
        warnings.simplefilter("always")
        try:
            sys.setrecursionlimit(min(limit, 400))  # only shortens the transform's own "infinite loop" error path
            try:
                (new,), _ = qp.transforms.decompose(tape, **kw)
            finally:
                sys.setrecursionlimit(limit)
        except DecompositionError as e:
            return ok(outcome=["DecompositionError", str(e)[:40]], nontrivial=True)
        except RecursionError as e:
            if "Reached recursion limit trying to decompose operations" in str(e):
                # the transform's own, explicitly raised error for gate sets that cannot express the circuit
                return ok(outcome=["RecursionError(decomposition loop)", graph], nontrivial=True)
            return bad(f"decompose-raised:RecursionError:{cfg}:{names}", str(e)[:300], "DecompositionError or a circuit", gate_set=spec["gs"])
        except Exception as e:  # noqa: BLE001 - anything else escaping the transform violates "either raises a decomposition error or returns"
            if isinstance(e, (ImportError, MemoryError, OSError)):
                raise
            if isinstance(e, RuntimeError) and "Maximum recursion depth reached" in str(e):
                # the same non-terminating decomposition loop, caught and re-raised by the composite-operator code
                return ok(outcome=["RecursionError(decomposition loop, via composite operator)", graph], nontrivial=True)
            return bad(f"decompose-raised:{type(e).__name__}:{cfg}:{names}", f"{type(e).__name__}: {e}"[:300], "DecompositionError or a circuit",
                       gate_set=spec["gs"])
        warned = [w for w in wlist if issubclass(w.category, UserWarning) or w.category.__name__ == "DecompositionWarning"]
        out = list(new.operations)
        left = []
        for o in out:
            if isinstance(o, (Allocate, Deallocate)):
                continue
            b = o.base if type(o).__name__ == "Conditional" else o
            if not _member(b, gs, stop):
                left.append(b.name)
        if left and not warned:
            return bad(f"outside-gate-set-without-warning:{cfg}:{names}", sorted(set(left)), spec["gs"], gate_set=spec["gs"])
        budget = kw.get("num_work_wires", 0) if graph else None
        if budget is not None:
            alive = peak = 0
            for o in out:
                if isinstance(o, Allocate):
                    alive += len(o.wires)
                    peak = max(peak, alive)
                elif isinstance(o, Deallocate):
                    alive -= len(o.wires)
            if peak > budget:
                return bad(f"work-wire-budget-exceeded:{cfg}:{names}", peak, budget, gate_set=spec["gs"])
        if X.has_measurement([o.base if type(o).__name__ == "Conditional" else o for o in out]):
            return skip("output contains mid-circuit measurements (branch semantics are C13's subject)")
        try:
            v, info = X.verify_circuit(ops, out)
        except X.TooBig as e:
            return skip(f"too-big:{e}")
        except X.Unsimulable as e:
            return skip(f"unsimulable:{e}")
        if v is not None:
            tag, obs, exp = v
            return bad(f"{tag}:{cfg}:{names}", obs, exp, gate_set=spec["gs"], options={k: str(x)[:60] for k, x in kw.items() if k != "gate_set"},
                       out=[str(o)[:60] for o in out][:30])
        est = "n/a"
        if graph and spec.get("est") and len(ops) == 1 and not left:
            r = _estimate_check(ops[0], gs, stop, kw, out)
            if isinstance(r, dict):
                return bad(f"estimate-mismatch:{names}", r["actual"], r["estimate"], gate_set=spec["gs"], rules=r["rules"])
            est = r
    changed = [str(o) for o in out] != [str(o) for o in ops]
    return ok(outcome=[names, spec["gs"], graph, len(out), sorted(set(left)), bool(warned), est], nontrivial=changed)


def _estimate_check(op, gs, stop, kw, out):
    """Re-walk the solution exactly like the transform does; if every rule on the way is exact, the multiset of leaf gate
    types must equal solution.resource_estimate(op).gate_counts."""
    import pennylane as qp
    from mc import x_decomp as X
    from pennylane.allocation import Allocate, Deallocate
    from pennylane.core.operator import abstractify
    from pennylane.transforms.decompose import _construct_and_solve_decomp_graph

    if _member(op, gs, stop):
        return "in-gate-set"
    sol = _construct_and_solve_decomp_graph([op], gs, num_work_wires=kw.get("num_work_wires", 0), minimize_work_wires=False,
                                            fixed_decomps=kw.get("fixed_decomps"), alt_decomps=kw.get("alt_decomps"), strict=True)
    nww = sol.num_work_wires
    if not sol.is_solved_for(op, nww):
        return "unsolved"
    estimate = Counter({k: v for k, v in sol.resource_estimate(op, nww).gate_counts.items() if v})
    rules, exact = [], [True]
    leaves = Counter()

    def walk(o, budget):
        if isinstance(o, (Allocate, Deallocate)):
            return
        if type(o).__name__ == "Conditional":
            o = o.base
        if _member(o, gs, stop):
            leaves[abstractify(o)] += 1
            return
        if not sol.is_solved_for(o, budget):
            exact[0] = False
            leaves[abstractify(o)] += 1
            return
        rule = sol.decomposition(o, budget)
        rules.append(rule.name)
        if not rule.exact_resources:
            exact[0] = False
        params = X.decomp_args(o)[0]
        if budget is not None:
            budget = budget - rule.get_work_wire_spec(**params).total
        for sub in X.emit(o, rule):
            walk(sub, budget)

    walk(op, nww)
    if not exact[0]:
        return "inexact-rules"
    actual = Counter()
    for o in out:
        if isinstance(o, (Allocate, Deallocate)):
            continue
        actual[abstractify(o.base if type(o).__name__ == "Conditional" else o)] += 1
    if actual != leaves:
        return "walk-differs-from-transform"
    if leaves != estimate:
        return {"actual": {str(k): v for k, v in leaves.items()}, "estimate": {str(k): v for k, v in estimate.items()}, "rules": rules}
    return "estimate-exact-match"


def cases(tier):
    quick = tier == "quick"
    out = []
    singles = LETTERS + SINGLE_ONLY
    five = [(0, ""), (1, ""), ("none", ""), (1, "alt"), (0, "fixed")]
    nine = [(n, a) for n in (0, 1, "none") for a in ("", "alt", "fixed")]
    # axis A: single operators x named gate sets x option product; 3-subsets with a reduced option set
    for e in singles:
        for g in NAMED:
            for stop in (0, 1):
                out.append({"ops": [e], "gs": g, "graph": 0, "nww": 0, "alt": "", "stop": stop})
                for nww, alt in (five if quick else nine):
                    out.append({"ops": [e], "gs": g, "graph": 1, "nww": nww, "alt": alt, "stop": stop, "est": 1})
        for g in (QUICK_SUBSETS[:2] if quick else SUBSETS3):
            out.append({"ops": [e], "gs": g, "graph": 0, "nww": 0, "alt": "", "stop": 0})
            for nww, alt in ([(1, "")] if quick else five):
                out.append({"ops": [e], "gs": g, "graph": 1, "nww": nww, "alt": alt, "stop": 0, "est": 1})
    # axis B: words of length 2
    sub = [LETTERS[i] for i in SUB12] if quick else LETTERS
    g2 = ["ROTATIONS_PLUS_CNOT", "RX,RY,CZ,GlobalPhase"] if quick else ["ROTATIONS_PLUS_CNOT", "CLIFFORD_T_PLUS_RZ", "RX,RY,CZ,GlobalPhase", "H,T,CNOT"]
    for a in sub:
        for b in sub:
            for g in g2:
                out.append({"ops": [a, b], "gs": g, "graph": 0, "nww": 0, "alt": "", "stop": 0})
                out.append({"ops": [a, b], "gs": g, "graph": 1, "nww": 1, "alt": "", "stop": 0})
    # axis D: nested symbolic operators of gates with DIFFERENT power periods in one word (period 2: X, H; 4: S, SX; 8: T),
    # so that anything keyed or cached per rule name / per wrapper kind instead of per operator is exposed by the second letter
    for a in NESTED:
        for b in NESTED:
            for g in ["ROTATIONS_PLUS_CNOT", "CLIFFORD_T_PLUS_RZ"]:
                out.append({"ops": [a, b], "gs": g, "graph": 0, "nww": 0, "alt": "", "stop": 0})
                out.append({"ops": [a, b], "gs": g, "graph": 1, "nww": 0, "alt": "", "stop": 0})
    # axis C: words of length 3 (thorough)
    if not quick:
        s8 = [LETTERS[i] for i in SUB12]
        for a in s8:
            for b in s8:
                for c in s8:
                    out.append({"ops": [a, b, c], "gs": "ROTATIONS_PLUS_CNOT", "graph": 1, "nww": 1, "alt": "alt", "stop": 0})
                    out.append({"ops": [a, b, c], "gs": "RX,RY,CZ,GlobalPhase", "graph": 0, "nww": 0, "alt": "", "stop": 1})
    return out


def run(ctx):
    cs = cases(ctx.tier)
    if getattr(ctx, "only", None):  # development aid: --only <substring of an operator expression>[,...]
        toks = [t for t in str(ctx.only).split(",") if t]
        cs = [c for c in cs if any(t in e for t in toks for e in c["ops"])]
        ctx.coverage["restricted_by_only"] = toks
    ctx.enumerate([c for c in cs if len(c["ops"]) == 1], axis="single operator x full option product")
    ctx.enumerate([c for c in cs if len(c["ops"]) == 2], axis="words of length 2")
    ctx.enumerate([c for c in cs if len(c["ops"]) == 3], axis="words of length 3")
    quick = ctx.quick
    ctx.coverage["alphabet"] = {"letters": LETTERS, "single_only_letters": SINGLE_ONLY,
                                "gate_sets": list(NAMED) + (QUICK_SUBSETS[:2] if quick else SUBSETS3),
                                "graph": [False, True], "num_work_wires": [0, 1, None], "alt": ["", "alt_decomps{CNOT}", "fixed_decomps{Hadamard}"],
                                "stopping_condition": [None, "name in (Toffoli, S)"]}
    ctx.coverage["bound"] = {"word_length": 2 if quick else 3, "length2_letters": 12 if quick else 25, "length3_letters": 0 if quick else 12}
