"""C09 — Declared parameter frequencies cover the true spectrum (DESIGN §5.1).

E1 over the operator catalogue: every parametrised operator that declares `parameter_frequencies` x each scalar
parameter x catalogue variants/parameter rows x 2 contexts (generic entangled input states) x 2 observables.
f(x) = <psi| U(x)^dag O U(x) |psi> is evaluated on a fixed deterministic grid and must lie in the span of
{1, cos(w x), sin(w x) : w declared} (exact least squares, residual <= 1e-9); then the shift rule generated from
the declared frequencies must reproduce the 8th-order finite-difference derivative.
"""
import math

from mc.engine import ok, bad, skip

PROPERTY = "C09"
LEVEL = "exploration"
TECHNIQUE = "exhaustive enumeration of catalogue instances x parameters x contexts; expectation value projected on the declared trigonometric basis on a full deterministic grid"
LEVEL_TEXT = ("For every catalogue operator that declares parameter frequencies (gates, controlled/adjoint/pow wrappers, templates with scalar parameters), "
              "every scalar parameter, the catalogue's variants and 2 values of the other parameters, 2 input states and 2 observables, the expectation "
              "value as a function of that parameter must be a trigonometric polynomial with only declared frequencies, and the generated shift rule exact.")
LEVEL_NOTE = ("U(x) comes from op.matrix() (tied to the documented formulas by C02/C01). Operators on more than 5 wires and array-valued parameters are "
              "skipped (counted). A frequency whose coefficient vanishes for both contexts and both observables would not be seen.")
DESIGN_REF = "5.1 C09"
RULE = "case = (catalogue instance, parameter index); non-trivial = the function is not constant in the parameter"
MAXW = 5


def _contexts(n):
    """Two fixed generic states and two fixed Hermitian observables on n wires (deterministic)."""
    import numpy as np

    d = 2 ** n
    out_states, out_obs = [], []
    for k in (1, 2):
        j = np.arange(1, d + 1)
        v = np.cos(0.7 * k * j + 0.3) + 1j * np.sin(1.3 * j * k + 0.1 * k) + 0.2
        out_states.append(v / np.linalg.norm(v))
        a = np.add.outer(np.sin(0.37 * k * j), np.cos(0.91 * j + k)) + 1j * np.subtract.outer(np.cos(0.53 * j * k), np.sin(0.29 * j))
        out_obs.append((a + a.conj().T) / 2)
    return out_states, out_obs


def check(spec):
    import numpy as np
    import pennylane as qp
    from mc import x_catalog as cat
    from mc import refsim as R

    inst, idx = spec["inst"], spec["param"]
    op = cat.build(inst)
    n = len(op.wires)
    if n > MAXW or n == 0:
        return skip("too many wires" if n else "no wires")
    z = (inst.get("kw") or {}).get("z")
    if inst["op"].startswith("Pow(") and isinstance(z, float) and z != int(z):
        return skip("fractional power: documented branch-cut ambiguity (see C01), not an analytic function of the angle")
    try:
        freqs_all = qp.gradients.parameter_frequencies(op)
    except qp.operation.ParameterFrequenciesUndefinedError:
        return skip("ParameterFrequenciesUndefinedError")
    except TypeError as e:
        return bad(f"parameter_frequencies-raises-TypeError:{inst['op']}", repr(e)[:200], "frequencies or ParameterFrequenciesUndefinedError")
    flat = cat.params(inst)
    if len(freqs_all) != len([d for d in op.data]) or len(op.data) != len(flat):
        # catalogue scalar parameters do not map 1:1 onto op.data (array-valued data, nested operators)
        return skip("parameters not scalar / not 1:1 with op.data")
    freqs = [float(f) for f in freqs_all[idx]]
    if any(f <= 0 for f in freqs):
        return bad(f"nonpositive-declared-frequency:{inst['op']}", freqs, "> 0")
    wires = list(op.wires)

    def U(x):
        p = list(flat)
        p[idx] = float(x)
        o = cat.build(cat.with_params(inst, p))
        return np.asarray(qp.matrix(o, wire_order=wires), dtype=complex)

    states, obs = _contexts(n)
    m = 4 * len(freqs) + 9
    xs = np.array([0.37 + 0.618 * j for j in range(m)])
    basis = [np.ones(m)] + [fn(w * xs) for w in freqs for fn in (np.cos, np.sin)]
    B = np.stack(basis, axis=1)
    Us = [U(x) for x in xs]
    nonconst = False
    for si, psi in enumerate(states):
        for oi, O in enumerate(obs):
            f = np.array([np.real(np.vdot(Ux @ psi, O @ (Ux @ psi))) for Ux in Us])
            coef, *_ = np.linalg.lstsq(B, f, rcond=None)
            resid = float(np.max(np.abs(B @ coef - f)))
            if resid > 1e-8 * max(1.0, float(np.max(np.abs(f)))):
                return bad(f"undeclared-frequency:{inst['op']}:param{idx}", {"residual": resid, "declared": freqs}, "residual <= 1e-8",
                           variant=inst.get("v"), context=[si, oi])
            if float(np.max(f) - np.min(f)) > 1e-9:
                nonconst = True
            # shift rule from the declared frequencies
            if si == 0 and oi == 0:
                try:
                    # no declared frequency = the parameter does not affect the expectation value: the exact rule is the empty one
                    rule = qp.gradients.generate_shift_rule(tuple(freqs)) if len(freqs) else []
                except Exception as e:  # noqa
                    return bad(f"shift-rule-generation-failed:{inst['op']}", repr(e), "a rule")
                x0 = float(flat[idx])

                def fx(x):
                    Ux = U(x)
                    return float(np.real(np.vdot(Ux @ psi, O @ (Ux @ psi))))

                g_rule = sum(float(c) * fx(x0 + float(s)) for c, s in rule)
                g_ref = float(R.fd_derivative(fx, x0, h=1e-2 / max(1.0, max(freqs, default=1.0))))
                if abs(g_rule - g_ref) > 1e-6 * max(1.0, abs(g_ref)):
                    return bad(f"shift-rule-inexact:{inst['op']}:param{idx}", g_rule, g_ref, declared=freqs, variant=inst.get("v"))
    return ok(outcome=[inst["op"], idx, freqs], nontrivial=nonconst)


def run(ctx):
    from mc import x_catalog as cat

    tier = "few" if ctx.quick else "quick"
    specs, names = [], 0
    for name in cat.names():
        if cat.category(name) in ("channel", "observable", "stateprep", "meta"):
            continue
        got = False
        for inst in cat.instances(name, tier):
            flat = cat.params(inst)
            if not flat or any(isinstance(p, list) for p in flat):
                continue
            if inst.get("pk") == "prob":
                continue
            for i in range(len(flat)):
                specs.append({"inst": inst, "param": i})
            got = True
        names += got
    ctx.enumerate(specs, axis="instances-x-parameters")
    ctx.coverage["alphabet"] = {"catalogue_tier": tier, "names_with_scalar_parameters": names, "contexts": "2 states x 2 Hermitian observables", "max_wires": MAXW}
    ctx.coverage["bound"] = {"grid_points": "4*|frequencies|+9", "tolerance": 1e-8}
