"""C40 — Circuit parameter bookkeeping is consistent (DESIGN §5.6).

Explicit-state BFS over histories of real QuantumScript / QuantumTape objects.  A history starts from a start tape
(word over an operator alphabet with 0/1/2/3-parameter, array-valued, complex-valued, symbolic, composite and
template operators x measurement list x wire labels x trainable subset) and applies events
    copy / copy(copy_operations=True) / copy.copy / copy(trainable_params=S) / copy(measurements=..) / copy(shots=..)
    bind_new_parameters(values, I) (sorted and unsorted I) / bind with mismatching lengths / set trainable_params = S
    (on the newest or on the root object) / re-record (QuantumTape) / expand (param_shift, finite_diff, metric_tensor
    expand transforms, qp.transforms.decompose) / map_to_standard_wires / qp.map_wires.
After EVERY event EVERY object of the history (the root and all objects produced so far) is compared with a plain
Python model (list of values, list of flags, list of trainable indices), so an event that disturbs an earlier object
is seen; the newest object additionally has to survive "bind the current parameters -> qp.equal circuit".
"""
import copy
import itertools

import numpy as np

from mc.engine import ok, bad, skip
from mc.explore import words
from mc import x_tapes as XT

PROPERTY = "C40"
LEVEL = "model_checking"
TECHNIQUE = "explicit-state BFS over copy/bind/set-trainable/expand/wire-map histories of real tapes vs a list model"
LEVEL_TEXT = ("Part A: every start tape (18 single operator letters x 2 (thorough 5) measurement lists, all pairs over 8 (thorough 18) "
              "letters, thorough: all triples over 6 letters; EVERY trainable subset for <=4 parameters, 6 patterns beyond) x every single "
              "event of the full menu (all index subsets for bind / copy(trainable_params) / setter, all reversed pairs, 4 expansion "
              "routes). Part B: BFS over a 20-event menu from 8 curated starts, depth 3 for 1 (thorough 4) of them and depth 2 for the "
              "rest; every object of a history is compared with the model after every event.")
LEVEL_NOTE = ("Model = Python lists (values, requires_grad flags, trainable indices). Expansion oracle: a decomposed parameter is trainable "
              "iff its value moves when a trainable original parameter is perturbed (value dependence, not requires_grad). Plain "
              "qp.transforms.decompose documents that trainable_params is recomputed, so there trainability is read from the values "
              "(math.get_trainable_indices). bind indices are read as indices into get_parameters(trainable_only=False) (what the "
              "implementation and all callers use); operators are immutable in this version, so op-level aliasing of copies is unobservable.")
DESIGN_REF = "5.6 C40"
START = "fork"
PARALLEL = True
RULE = ("one case = one BFS from one start tape; states = distinct (object list) models, transitions = implementation steps; "
        "non-trivial = start has >=2 parameters and a proper trainable subset")

OPS_A = ["H", "CNOT", "RX", "Rot", "CRot", "U3", "adjRY", "ctrlRot", "powRX", "exp", "prod", "adjprod", "angle", "bel", "sel",
         "MultiRZ", "PauliRot", "cond"]
OPS_QUICK2 = ["H", "RX", "Rot", "adjRY", "exp", "prod", "angle", "cond"]  # quick tier: length-2 words over these only
OPS_THOROUGH3 = ["RX", "Rot", "adjRY", "prod", "angle", "cond"]
X_KINDS = ["ps", "fd", "mt", "dec"]
DEC_SET = ["RX", "RY", "RZ", "CNOT", "PhaseShift", "GlobalPhase", "Hadamard", "PauliX"]


# ------------------------------------------------------------------------------------------------ invariants
def inv(tape, model, who):
    """Mutual consistency of the bookkeeping API of one live tape + agreement with its model."""
    obs = XT.observe(tape)
    p = len(model["P"])
    if obs["struct"] != model["struct"] or obs["meas"] != model["meas"]:
        return bad(f"{who}:structure-changed", [obs["struct"], obs["meas"]], [model["struct"], model["meas"]])
    if len(obs["P"]) != p or not all(XT.same_val(a, b) for a, b in zip(obs["P"], model["P"])):
        return bad(f"{who}:parameter-values", obs["P"], model["P"])
    allp = tape.get_parameters(trainable_only=False)
    if len(allp) != p or not all(XT.same_val(a, b) for a, b in zip(allp, model["P"])):
        return bad(f"{who}:get_parameters-all", allp, model["P"])
    if not all(XT.same_val(a, b) for a, b in zip(tape.data, model["P"])) or len(tape.data) != p:
        return bad(f"{who}:data-alias", tape.data, model["P"])
    T = tape.trainable_params
    if list(T) != list(model["T"]):
        return bad(f"{who}:trainable_params", list(T), model["T"])
    if tape.num_params != len(model["T"]):
        return bad(f"{who}:num_params", tape.num_params, len(model["T"]))
    tr = tape.get_parameters()
    if len(tr) != len(T) or not all(XT.same_val(a, model["P"][i]) for a, i in zip(tr, T)):
        return bad(f"{who}:get_parameters-trainable", tr, [model["P"][i] for i in T])
    n_op = obs["n_op_params"]
    tro = tape.get_parameters(operations_only=True)
    exp = [model["P"][i] for i in T if i < n_op]
    if len(tro) != len(exp) or not all(XT.same_val(a, b) for a, b in zip(tro, exp)):
        return bad(f"{who}:get_parameters-operations_only", tro, exp)
    ao = tape.get_parameters(trainable_only=False, operations_only=True)
    if len(ao) != n_op or not all(XT.same_val(a, b) for a, b in zip(ao, model["P"][:n_op])):
        return bad(f"{who}:get_parameters-all-operations_only", ao, model["P"][:n_op])
    slots = XT.walk(tape)
    pi = tape.par_info
    if len(pi) != p:
        return bad(f"{who}:par_info-length", len(pi), p)
    for k, (holder, ci, j) in enumerate(slots):
        e = pi[k]
        if e["op"] is not holder or e["op_idx"] != ci or e["p_idx"] != j:
            return bad(f"{who}:par_info-entry", [repr(e["op"]), e["op_idx"], e["p_idx"]], [repr(holder), ci, j], k=k)
        item = tape[ci]
        target = item if ci < len(tape.operations) else item.obs
        if target is not holder:
            return bad(f"{who}:par_info-op_idx-not-circuit-index", repr(item), repr(holder), k=k)
        if not XT.same_val(e["op"].data[e["p_idx"]], model["P"][k]):
            return bad(f"{who}:par_info-value", e["op"].data[e["p_idx"]], model["P"][k], k=k)
    for t_i, k in enumerate(T):
        op, oi, pj = tape.get_operation(t_i)
        if op is not slots[k][0] or oi != slots[k][1] or pj != slots[k][2]:
            return bad(f"{who}:get_operation", [repr(op), oi, pj], [repr(slots[k][0]), slots[k][1], slots[k][2]], t=t_i)
    return None


def rebind_equal(tape, model):
    import pennylane as qp

    p = len(model["P"])
    new = tape.bind_new_parameters(tape.get_parameters(trainable_only=False), list(range(p)))
    if not qp.equal(new, tape):
        return bad("bind-current:all-not-equal", repr(new.circuit), repr(tape.circuit))
    if list(new.trainable_params) != list(model["T"]):
        return bad("bind-current:trainable_params", list(new.trainable_params), model["T"])
    new2 = tape.bind_new_parameters(tape.get_parameters(), list(tape.trainable_params))
    if not qp.equal(new2, tape):
        return bad("bind-current:trainable-not-equal", repr(new2.circuit), repr(tape.circuit))
    v = inv(new, dict(model), "bind-current")
    return v


# ------------------------------------------------------------------------------------------------ events
def fresh(old, pos, i):
    v = 5.0 + 0.5 * pos + 0.01 * i
    old = np.asarray(old)
    bump = 0.001 * np.arange(old.size).reshape(old.shape)
    if np.iscomplexobj(old):
        return old * 0 + 1j * (v + bump)
    if old.shape == (2, 2):  # Hermitian matrix parameter
        return np.asarray([[v, 0.25], [0.25, -v]])
    return old * 0 + v + bump


def expand_route(kind, tape):
    import pennylane as qp

    if kind == "ps":
        return qp.gradients.param_shift.expand_transform(tape)[0]
    if kind == "fd":
        return qp.gradients.finite_diff.expand_transform(tape)[0]
    if kind == "mt":
        return qp.metric_tensor.expand_transform(tape)[0]
    if kind == "dec":
        return qp.transforms.decompose(tape, gate_set=set(DEC_SET))[0]
    raise KeyError(kind)


def expected_trainable_after(kind, model, n_new, P0):
    """Value-dependence oracle: new parameter j is trainable iff perturbing some trainable original parameter moves it."""
    prov = model["prov"]
    P, F = model["P"], model["F"]
    dep = set()
    for i in range(len(P)):
        if not F[i]:
            continue
        Pi = list(P)
        Pi[i] = np.asarray(P[i]) * 1.37 + (0.0713j if np.iscomplexobj(P[i]) else 0.0713) * (i + 1)
        if np.asarray(P[i]).shape == (2, 2):
            Pi[i] = np.asarray([[P[i][0][0] * 1.37 + 0.07, 0.5], [0.5, -(P[i][0][0] * 1.37 + 0.07)]])
        t = XT.build(prov["w"], prov["m"], prov["labs"], Pi, F, cls="qs", tp="flags")
        batch = expand_route(kind, t)
        if len(batch) != 1:
            return None
        newP = [np.asarray(x) for x in XT.observe(batch[0])["P"]]
        if len(newP) != n_new:
            return None
        for j in range(n_new):
            if not XT.same_val(newP[j], P0[j], 1e-9):
                dep.add(j)
    return sorted(dep)


def apply(objs, ev, pos):
    """Apply one event to the history's objects (list of [tape, model]); returns a violation or None.
    New objects are appended; in-place events mutate the addressed object and its model."""
    import pennylane as qp
    from pennylane import numpy as pnp

    kind = ev[0]
    tape, model = objs[-1]
    p = len(model["P"])

    def derived(**kw):
        m = dict(model)
        m.update(kw)
        return m

    if kind in ("copy", "copy_ops", "pycopy"):
        new = tape.copy() if kind == "copy" else tape.copy(copy_operations=True) if kind == "copy_ops" else copy.copy(tape)
        if new is tape:
            return bad(f"{kind}:same-object")
        if type(new) is not type(tape):
            return bad(f"{kind}:class-changed", type(new).__name__, type(tape).__name__)
        objs.append([new, derived()])
        return None
    if kind == "copy_tp":
        new = tape.copy(trainable_params=list(ev[1]))
        objs.append([new, derived(T=sorted(set(ev[1])))])
        return None
    if kind == "copy_shots":
        new = tape.copy(shots=10)
        objs.append([new, derived(shots=10)])
        return None
    if kind == "copy_meas":
        l0 = model["prov"]["labs"][0] if model["prov"] else tape.wires[0] if len(tape.wires) else 0
        new = tape.copy(measurements=[qp.expval(qp.Z(l0))])
        n_op = XT.observe(tape)["n_op_params"]
        m = derived(P=model["P"][:n_op], F=model["F"][:n_op], T=list(range(n_op)),
                    meas=XT.observe(new)["meas"])
        if model["prov"]:
            m["prov"] = dict(model["prov"], m="Z")
        objs.append([new, m])
        return None
    if kind in ("bind", "bind_u"):
        I = list(ev[1])
        vals = [pnp.array(fresh(model["P"][i], pos, i), requires_grad=(i in model["T"])) for i in I]
        try:
            new = tape.bind_new_parameters(vals, I)
        except Exception as e:  # noqa: BLE001 - values reach the wrong operator
            if kind == "bind_u":
                return bad("bind-unsorted-indices:raised", f"{type(e).__name__}: {e}"[:300], "values[k] bound at indices[k]")
            raise
        P, F = list(model["P"]), list(model["F"])
        for i, v in zip(I, vals):
            P[i], F[i] = np.asarray(v), (i in model["T"])
        m = derived(P=P, F=F)
        objs.append([new, m])
        if kind == "bind_u":
            v = inv(new, m, "bind-unsorted-indices")
            if v:
                return v
        return None
    if kind == "bind_bad":
        try:
            tape.bind_new_parameters([0.1] * (p + 1), list(range(p)))
        except ValueError:
            return None
        return bad("bind:length-mismatch-accepted", "no error", "ValueError")
    if kind == "set_tp":
        tgt = objs[ev[1]]
        tgt[0].trainable_params = list(ev[2])
        tgt[1]["T"] = sorted(set(ev[2]))
        return None
    if kind == "rerec":
        tgt = objs[ev[1]]
        w0 = tgt[0].wires[0] if len(tgt[0].wires) else 0
        with tgt[0]:
            qp.RY(pnp.array(0.9, requires_grad=True), w0)
        ob = XT.observe(tgt[0])  # the queue accumulates: one more RY per re-recording, the constructor circuit is dropped
        if [s[0] for s in ob["struct"]] != ["RY:RY"] * len(ob["struct"]) or ob["meas"]:
            return bad("rerec:unexpected-circuit", [ob["struct"], ob["meas"]], "only the re-recorded RY gates")
        tgt[1].update(ob)
        tgt[1].update(T=list(range(len(ob["P"]))), prov=None)
        return None
    if kind in ("std_wires", "map_wires"):
        if kind == "std_wires":
            new = tape.map_to_standard_wires()
        else:
            wm = {w: f"q{i}" for i, w in enumerate(tape.wires)}
            new = qp.map_wires(tape, wm)[0][0]
        if new is tape:
            return None
        ob = XT.observe(new)
        m = derived(struct=ob["struct"], meas=ob["meas"])
        if model["prov"]:
            # recover the new labels from the mapping of the old ones
            if kind == "map_wires":
                labs = [wm.get(l, l) for l in model["prov"]["labs"]]
            else:
                wmap = tape._get_standard_wire_map() or {}
                free = [i for i in range(len(wmap) + 3) if i not in wmap.values()]
                labs = [wmap[l] if l in wmap else free.pop(0) for l in model["prov"]["labs"]]
            m["prov"] = dict(model["prov"], labs=labs)
        # the relabelled circuit must be the original one up to the relabelling: names, order, values
        if [s[0] for s in ob["struct"]] != [s[0] for s in model["struct"]]:
            return bad(f"{kind}:operations-changed", ob["struct"], model["struct"])
        objs.append([new, m])
        v = inv(new, m, kind)
        if v and v["sig"].endswith(":trainable_params"):
            return bad(f"{kind}:trainable-reset", list(new.trainable_params), model["T"])
        return v
    if kind == "x":
        route = ev[1]
        try:
            batch = expand_route(route, tape)
        except Exception as e:  # noqa: BLE001 - the route rejects / cannot handle this circuit: not a bookkeeping statement
            objs[0][1].setdefault("raised", []).append(f"x:{route}:{type(e).__name__}")
            return None
        if len(batch) != 1:
            return None
        new = batch[0]
        if new is tape:
            return None
        ob = XT.observe(new)
        exp = expected_trainable_after(route, model, len(ob["P"]), ob["P"])
        if exp is None:
            return bad(f"expand:{route}:structure-depends-on-values", None, None)
        by_value = sorted(int(i) for i in qp.math.get_trainable_indices(new.get_parameters(trainable_only=False)))
        if by_value != exp:
            return bad(f"expand:{route}:trainable-flags-lost", by_value, exp, ops=[s[0] for s in ob["struct"]])
        if route == "dec":
            T_new = list(range(len(ob["P"])))  # documented: copy(operations=...) recalculates trainable_params
        else:
            T_new = exp
            if list(new.trainable_params) != exp:
                return bad(f"expand:{route}:trainable_params", list(new.trainable_params), exp, ops=[s[0] for s in ob["struct"]])
        m = {"struct": ob["struct"], "meas": ob["meas"], "P": ob["P"], "F": ob["F"], "T": T_new, "prov": None,
             "cls": model["cls"], "shots": ob["shots"]}
        objs.append([new, m])
        return None
    raise AssertionError(ev)


def consistent(model):
    return model["prov"] is not None and [i for i, f in enumerate(model["F"]) if f] == list(model["T"])


def subsets_for(p, full):
    if p <= 4 and full:
        return [list(c) for n in range(p + 1) for c in itertools.combinations(range(p), n)]
    fam = [[], list(range(p))]
    if p:
        fam += [[0], [p - 1], list(range(0, p, 2)), list(range(1, p, 2))]
    out = []
    for s in fam:
        if s not in out:
            out.append(s)
    return out


def menu(objs, level):
    tape, model = objs[-1]
    p = len(model["P"])
    evs = [["copy"], ["copy_ops"]]
    if level == "full":
        evs += [["pycopy"], ["copy_shots"], ["bind_bad"]]
        subs = subsets_for(p, True)
        evs += [["copy_tp", s] for s in subs]
        evs += [["bind", s] for s in subs if s]
        if p >= 2:
            pairs = [[j, i] for i in range(p) for j in range(i + 1, p)] if p <= 4 else [[p - 1, 0]]
            evs += [["bind_u", s] for s in pairs]
            if p >= 3:
                evs.append(["bind_u", list(range(p))[::-1]])
                evs.append(["bind_u", [1, 2, 0] if p == 3 else [1, p - 1, 0]])
        evs += [["set_tp", -1, s] for s in subs]
        if p >= 2:
            evs.append(["set_tp", -1, [p - 1, 0, 0]])
        evs.append(["copy_meas"])
        if model["cls"] == "qt":
            evs.append(["rerec", -1])
        if consistent(model):
            evs += [["x", k] for k in X_KINDS]
        evs += [["std_wires"], ["map_wires"]]
        return evs
    # small menu for deep histories
    evs.append(["copy_tp", []])
    if p:
        evs += [["copy_tp", [0]], ["bind", [0]], ["bind", list(range(p))], ["set_tp", -1, [p - 1]], ["set_tp", 0, [0]]]
        if p >= 2:
            evs += [["bind", [p - 1]], ["bind_u", [p - 1, 0]]]
    evs += [["set_tp", -1, []], ["copy_meas"]]
    if model["cls"] == "qt":
        evs += [["rerec", -1], ["rerec", 0]]
    if consistent(model):
        evs += [["x", "ps"], ["x", "mt"], ["x", "dec"]]
    evs += [["std_wires"], ["map_wires"]]
    return evs


def valid(ev, objs):
    """An event recorded in a history stays enabled only if its indices exist (root-targeted events after rerec)."""
    if ev[0] == "set_tp":
        p = len(objs[ev[1]][1]["P"])
        return all(i < p for i in ev[2])
    return True


# ------------------------------------------------------------------------------------------------ replay
def replay_history(start, hist, final_menu=None):
    """Replay `hist` on fresh real objects.  Returns (objs, violation)."""
    t, m = XT.build_start(start)
    objs = [[t, m]]
    if not hist:
        v = inv(t, m, "start") or rebind_equal(t, m)
        if v:
            return objs, v
    for pos, ev in enumerate(hist):
        n_before = len(objs)
        v = apply(objs, ev, pos)
        if v:
            return objs, v
        last = pos == len(hist) - 1
        # every object of the history against its model (earlier objects must be untouched)
        for k, (tp, md) in enumerate(objs):
            if not last and k < n_before and ev[0] not in ("set_tp", "rerec"):
                continue  # checked when this prefix was the full history
            who = "new-object" if k >= n_before else ("mutated-object" if ev[0] in ("set_tp", "rerec") and objs[ev[1]][0] is tp
                                                      else "earlier-object-disturbed")
            v = inv(tp, md, f"{ev[0]}:{who}")
            if v:
                return objs, v
        if last and len(objs) > n_before:
            v = rebind_equal(*objs[-1])
            if v:
                return objs, v
    return objs, None


def canon(objs):
    return tuple(XT.canon_model(m) for _, m in objs)


def check_hist(spec):
    """Replay artefact: {"start": {...}, "hist": [...]} -> verdict."""
    _, v = replay_history(spec["start"], spec["hist"])
    return v or ok(outcome=len(spec["hist"]))


def explore(job):
    """BFS from one start.  Returns dict(states, transitions, depth, violations=[(hist, bad)], outcome)."""
    start, depth, level = job["start"], job["depth"], job["menu"]
    objs, v = replay_history(start, [])
    if v:
        return {"states": 1, "transitions": 0, "depth": 0, "violations": [([], v)], "events": {}}
    seen = {canon(objs)}
    frontier = [[]]
    transitions, d, viol, evcount = 0, 0, {}, {}
    while frontier and d < depth:
        nxt = []
        for h in frontier:
            objs, _ = replay_history(start, h)
            for ev in menu(objs, level):
                if not valid(ev, objs):
                    continue
                h2 = h + [ev]
                o2, v2 = replay_history(start, h2)
                transitions += 1
                evcount[ev[0]] = evcount.get(ev[0], 0) + 1
                if ev[0] == "x" and o2[0][1].get("raised"):
                    r = o2[0][1]["raised"][-1]
                    evcount[r] = evcount.get(r, 0) + 1
                if v2:
                    sig = v2["sig"]
                    if sig not in viol or len(h2) < len(viol[sig][0]):
                        viol[sig] = (h2, v2)
                    continue
                k = canon(o2)
                if k not in seen:
                    seen.add(k)
                    nxt.append(h2)
        d += 1
        frontier = nxt
    return {"states": len(seen), "transitions": transitions, "depth": d, "violations": list(viol.values()), "events": evcount}


def _job(job):
    try:
        return job, explore(job), None
    except (ImportError, MemoryError, OSError):
        raise
    except Exception as e:  # an exception escaping the implementation inside a history
        import traceback

        return job, None, f"{type(e).__name__}: {e}\n{traceback.format_exc()[-2500:]}"


# ------------------------------------------------------------------------------------------------ driver
def all_tp(p):
    return [list(c) for n in range(p + 1) for c in itertools.combinations(range(p), n)]


def run(ctx):
    jobs = []
    # ---- Part A: every start x every trainable subset, depth 1, full menu
    maxlen = 2 if ctx.quick else 3
    meas_a = ["Z", "ham", "pham"] if ctx.quick else ["Z", "ham", "pham", "sum", "herm", "zham"]
    n_a = 0
    for w in words(OPS_A, maxlen, 1):
        small = set(w) <= set(OPS_QUICK2)
        if ctx.quick and len(w) == 2 and not small:
            continue  # quick: length-2 words over OPS_QUICK2 only
        if len(w) == 3 and not set(w) <= set(OPS_THOROUGH3):
            continue  # thorough: length-3 words over OPS_THOROUGH3 only
        for mi, m in enumerate(meas_a):
            if len(w) == 2 and (mi >= 3 or (mi == 2 and not small) or (mi == 1 and (ctx.quick or not small))):
                continue  # pairs: Z always, ham for the small alphabet (thorough)
            if len(w) == 3 and mi >= 1:
                continue
            kinds, _ = XT.kinds_of(w, m)
            p = len(kinds)
            tps = all_tp(p) if p <= 4 else XT_family(p)
            lab = ["std", "mix", "off"][(len(w) + mi + p) % 3]
            cls = "qt" if (p + len(w)) % 2 else "qs"
            for tp in tps:
                jobs.append({"start": {"w": w, "m": m, "lab": lab, "cls": cls, "tp": tp}, "depth": 1, "menu": "full", "part": "A"})
                n_a += 1
    # ---- Part B: deep histories from curated starts
    curated = [(["Rot"], "Z", "mix", "qt", [1]), (["RX", "prod"], "ham", "mix", "qs", [1, 3]), (["angle", "U3"], "Z", "off", "qt", [0, 2]),
               (["adjprod", "RX"], "sum", "mix", "qt", [1, 2]), (["sel"], "Z", "std", "qs", [0]), (["CRot", "H", "exp"], "zham", "mix", "qt", [0, 2, 3, 5]),
               (["cond", "Rot"], "Z", "mix", "qs", [0, 2]), (["ctrlRot", "bel"], "herm", "off", "qt", [1, 3])]
    deep = 1 if ctx.quick else 4
    for i, (w, m, lab, cls, tp) in enumerate(curated):
        jobs.append({"start": {"w": w, "m": m, "lab": lab, "cls": cls, "tp": tp}, "depth": 3 if i < deep else 2, "menu": "small", "part": "B"})
    ctx.per_axis["partA_starts"] = n_a
    ctx.per_axis["partB_starts"] = len(curated)

    # heavy jobs first
    jobs.sort(key=lambda j: -j["depth"])
    if ctx.workers > 1:
        it = ctx.pool().imap_unordered(_job, jobs, chunksize=1)
    else:
        it = map(_job, jobs)
    states = transitions = 0
    evtot = {}
    maxdepth = 0
    for job, res, err in it:
        spec = {"start": job["start"], "hist": [], "depth": job["depth"], "menu": job["menu"]}
        if err is not None:
            ctx.record(spec, {"s": "bad", "sig": "unexpected-exception:" + err.split(":")[0], "obs": err[:600], "exp": "no exception",
                              "x": {}, "o": "bad:exc", "n": True, "fn": "check_job"})
            continue
        states += res["states"]
        transitions += res["transitions"]
        maxdepth = max(maxdepth, res["depth"])
        for k, n in res["events"].items():
            evtot[k] = evtot.get(k, 0) + n
        p = len(XT.kinds_of(job["start"]["w"], job["start"]["m"])[0])
        ctx.record(spec, ok(outcome=[res["states"], res["transitions"], sorted(res["events"].items())],
                            nontrivial=p >= 2 and 0 < len(job["start"]["tp"]) < p))
        for h, v in res["violations"]:
            v = dict(v)
            v["fn"] = "check_hist"
            ctx.record({"start": job["start"], "hist": h}, v)
    ctx.coverage.update({
        "states": states, "transitions": transitions, "traces_validated_against_impl": transitions, "max_depth": maxdepth,
        "alphabet": {"operator_letters": OPS_A, "measurement_lists": meas_a, "labels": XT.LABS, "classes": ["QuantumScript", "QuantumTape"],
                     "events_full": "copy, copy_ops, pycopy, copy_shots, copy_meas, copy_tp(S), bind(I), bind_u(unsorted I), bind_bad, "
                                    "set_tp(target,S), rerec, x(ps|fd|mt|dec), std_wires, map_wires",
                     "events_per_kind": evtot},
        "bound": {"partA": {"word_len": maxlen, "history_depth": 1, "trainable_subsets": "all"},
                  "partB": {"starts": len(curated), "history_depth": "3 for %d starts, 2 for the rest" % deep}},
    })


def XT_family(p):
    return subsets_for(p, False)


def check_job(spec):
    """Replay artefact for a crash inside a BFS job."""
    res = explore({"start": spec["start"], "depth": spec["depth"], "menu": spec["menu"]})
    for h, v in res["violations"]:
        return v
    return ok(outcome=[res["states"], res["transitions"]])
