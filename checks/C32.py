"""C32 — Result structure depends only on the request (DESIGN §5.5 C32).

E1.  A *request* = (#tapes, shot specification, measurement list, broadcast size).  `expected_structure(request)`
is a small pure function written from pennylane/workflow/return_types_spec.rst (tape axis > shot-vector axis >
measurement axis > broadcast dimension > fundamental shape; tuple and list interchangeable).  Every accepted
(device, interface, diff_method) configuration must return exactly that nesting and those leaf shapes, both from
`qp.execute` and from a QNode; Jacobians (jax.jacobian, torch.autograd.functional.jacobian, qp.jacobian) must
have the same nesting with the argument shape appended to every leaf (a tuple over arguments if several)."""
import itertools

import numpy as np

from mc.engine import ok, bad, skip

PROPERTY = "C32"
LEVEL = "exploration"
TECHNIQUE = "exhaustive enumeration of requests x configurations vs. a pure expected_structure(request) function"
LEVEL_TEXT = ("All measurement lists of length <=3 (quick: <=2; 3 on default.qubit without broadcasting only) over {expval,var,probs(1),probs(2),sample,counts,state,"
              "density_matrix(1)} x shots in {None,7,(7,7),(3,7)} x broadcast in {None,1,3} x #tapes in {1,2} x 4 devices through qp.execute and QNode, "
              "and lists of length <=2 over {expval,var,probs(1),probs(2)} x interfaces {numpy,autograd,jax,jax-jit,torch} x diff methods x 1-2 trainable "
              "arguments of shape ()/(2,) for results and Jacobians (plus broadcast sizes 1 and 3 over a trainable angle with backprop and over a non-trainable "
              "angle with parameter-shift), are compared with the structure function. Gradient-transform level: param_shift / finite_diff / spsa_grad / "
              "hadamard_grad applied to a tape x 8 shot settings (incl. shot vectors with repeated entries) x 1-3 parameters x 8 measurement lists.")
LEVEL_NOTE = ("Only nesting and shapes are compared (not dtypes/values). Documented device deviation encoded: qp.state() on default.mixed is the density "
              "matrix. For counts with broadcasting any sequence of B dictionaries is accepted (spec: non-tensorlike results may handle broadcasting "
              "differently). Jacobian structure is checked for the three autodiff entry points (jax.jacobian eager and jitted, torch functional jacobian, qp.jacobian), "
              "not for raw gradient-transform output; the forward result is compared before differentiating, an exception raised by the Jacobian call is a violation. "
              "Quick runs jax-jit only on default.qubit (analytic, and the shot vector with parameter-shift, the only path that uses the jvp rule).")
DESIGN_REF = "5.5 C32"
START = "fork"
PARALLEL = True
RULE = ("product of requests x accepted configurations; configurations rejected with the documented errors are skipped; non-trivial = more than one "
        "measurement, a shot vector, broadcasting, several tapes or a Jacobian")

ALPHA = ["expval", "var", "probs1", "probs2", "sample", "counts", "state", "dm1"]
NEEDS_SHOTS = {"sample", "counts"}
ANALYTIC_ONLY = {"state", "dm1"}
SHOTS = [None, 7, [7, 7], [3, 7]]
DEVICES = ["default.qubit", "default.mixed", "reference.qubit", "lightning.qubit"]
NW = 2


# ------------------------------------------------------------------------------------------- the structure function
def expand_shots(s):
    if s is None:
        return None
    return [s] if isinstance(s, int) else list(s)


def leaf(m, shots, B, dev):
    if m == "counts":
        return "dict" if B is None else ["T", ["dict"] * B]  # any sequence of B dictionaries
    shape = {"expval": (), "var": (), "probs1": (2,), "probs2": (4,), "sample": (shots, NW), "state": (2 ** NW,), "dm1": (2, 2)}[m]
    if m == "state" and dev == "default.mixed":
        shape = (2 ** NW, 2 ** NW)  # documented: mixed-state devices return the density matrix
    return ["A", list(((B,) if B is not None else ()) + tuple(shape))]


def tape_structure(meas, shots, B, dev):
    L = expand_shots(shots)

    def per_bin(s):
        leaves = [leaf(m, s, B, dev) for m in meas]
        return leaves[0] if len(meas) == 1 else ["T", leaves]

    if L is None or len(L) == 1:
        return per_bin(None if L is None else L[0])
    return ["T", [per_bin(s) for s in L]]


def expected_structure(req, dev):
    t = [tape_structure(ms, req["shots"], req["B"], dev) for ms in req["tapes"]]
    return ["T", t]


def jac_structure(res_struct, arg_shapes, multi):
    """Result structure with the argument shape appended to every array leaf (tuple over args if `multi`)."""
    if res_struct[0] == "T":
        return ["T", [jac_structure(c, arg_shapes, multi) for c in res_struct[1]]]
    if res_struct[0] == "A":
        ls = [["A", list(res_struct[1]) + list(a)] for a in arg_shapes]
        return ["T", ls] if multi else ls[0]
    raise AssertionError(res_struct)


def observe(x):
    """Nesting + shapes of an actual result."""
    if isinstance(x, dict):
        return "dict"
    if isinstance(x, (tuple, list)):
        return ["T", [observe(y) for y in x]]
    if isinstance(x, np.ndarray) and x.dtype == object:
        return ["T", [observe(y) for y in x]]
    shp = getattr(x, "shape", None)
    if shp is None:
        if isinstance(x, (int, float, complex, np.number)):
            return ["A", []]
        return ["?", type(x).__name__]
    return ["A", [int(s) for s in shp]]


# ------------------------------------------------------------------------------------------- live objects
def build_meas(m):
    import pennylane as qp

    return {"expval": lambda: qp.expval(qp.Z(0)), "var": lambda: qp.var(qp.X(1)), "probs1": lambda: qp.probs(wires=[1]),
            "probs2": lambda: qp.probs(wires=[0, 1]), "sample": lambda: qp.sample(), "counts": lambda: qp.counts(),
            "state": lambda: qp.state(), "dm1": lambda: qp.density_matrix(wires=[0])}[m]()


def shots_arg(s):
    return s if (s is None or isinstance(s, int)) else list(s)


def first_diff(a, b, path="result"):
    if a == b:
        return None
    if isinstance(a, list) and isinstance(b, list) and a and b and a[0] == "T" and b[0] == "T" and len(a[1]) == len(b[1]):
        for i, (x, y) in enumerate(zip(a[1], b[1])):
            d = first_diff(x, y, f"{path}[{i}]")
            if d:
                return d
    return path, a, b


def classify(req, obs, exp):
    """Narrow signature: which axis of the request is involved + what differs."""
    path, a, b = first_diff(obs, exp)
    what = "nesting"
    if isinstance(a, list) and isinstance(b, list) and a[0] == "A" and b[0] == "A":
        what = "leaf-shape"
        if req["B"] is not None and list(a[1]) == list(b[1])[1:] and b[1][0] == req["B"]:
            what = f"missing-broadcast-axis:B={req['B']}"
    feats = []
    if req["B"] is not None:
        feats.append("broadcast")
    if req["shots"] is not None:
        feats.append("finite-shots")
    return what, "+".join(feats) or "plain", (path, a, b)


def check(spec):
    """Device level: qp.execute on a batch and (single tape) a QNode, interface numpy, no differentiation."""
    import pennylane as qp

    dev_name = spec["dev"]
    req = spec["req"]
    B = req["B"]
    x = 0.4 if B is None else np.linspace(0.1, 0.9, B)
    dev = qp.device(dev_name, wires=NW)
    tapes = []
    for ms in req["tapes"]:
        with qp.queuing.AnnotatedQueue() as q:
            qp.RX(x, wires=0)
            qp.RY(0.3, wires=1)
            qp.CNOT([0, 1])
            for m in ms:
                build_meas(m)
        tapes.append(qp.tape.QuantumScript.from_queue(q, shots=shots_arg(req["shots"])))
    exp = expected_structure(req, dev_name)
    try:
        res = qp.execute(tapes, dev, diff_method=None)
    except (qp.exceptions.DeviceError, qp.exceptions.QuantumFunctionError, NotImplementedError) as e:
        return skip(f"{dev_name}: {type(e).__name__}")
    obs = observe(res)
    if obs != exp:
        what, feats, (path, a, b) = classify(req, obs, exp)
        kinds = sorted({m for ms in req["tapes"] for m in ms})
        return bad(f"{what}:{dev_name}:{feats}:{'+'.join(k for k in kinds if k in _culprit(path, req))}", obs, exp, at=path, got=a, want=b, via="qp.execute")
    if len(req["tapes"]) == 1:
        ms = req["tapes"][0]

        @qp.set_shots(shots_arg(req["shots"]))
        @qp.qnode(dev, diff_method=None)
        def circuit(x):
            qp.RX(x, wires=0)
            qp.RY(0.3, wires=1)
            qp.CNOT([0, 1])
            out = [build_meas(m) for m in ms]
            return out[0] if len(out) == 1 else tuple(out)

        r2 = circuit(x)
        o2 = observe(r2)
        if o2 != exp[1][0]:
            what, feats, (path, a, b) = classify(req, ["T", [o2]], exp)
            return bad(f"{what}:{dev_name}:{feats}:{'+'.join(k for k in sorted(set(ms)) if k in _culprit(path, req))}", o2, exp[1][0], at=path, got=a, want=b, via="QNode")
    nontriv = len(req["tapes"]) > 1 or any(len(t) > 1 for t in req["tapes"]) or B is not None or isinstance(req["shots"], list)
    return ok(outcome=exp, nontrivial=nontriv)


def _culprit(path, req):
    """Measurement kinds located at `path` (result[t][bin][m] ...) - used to keep signatures narrow."""
    import re

    idx = [int(i) for i in re.findall(r"\[(\d+)\]", path)]
    if not idx:
        return set(m for ms in req["tapes"] for m in ms)
    ms = req["tapes"][idx[0]] if idx[0] < len(req["tapes"]) else []
    rest = idx[1:]
    L = expand_shots(req["shots"])
    if L is not None and len(L) > 1 and rest:
        rest = rest[1:]
    if len(ms) > 1 and rest and rest[0] < len(ms):
        return {ms[rest[0]]}
    return set(ms)


# ------------------------------------------------------------------------------------------- interface level
def check_iface(spec):
    """QNode with an ML interface and a differentiation method: result structure and Jacobian structure."""
    import pennylane as qp

    iface, diff, dev_name = spec["iface"], spec["diff"], spec["dev"]
    ms, shots, nargs = spec["meas"], spec["shots"], spec["nargs"]
    B = spec.get("B")
    req = {"tapes": [ms], "shots": shots, "B": B}
    exp = expected_structure(req, dev_name)[1][0]
    Bc = spec.get("Bconst")  # broadcast over a NON-trainable angle: the batch axis crosses the interface boundary with device derivatives
    if Bc is not None:
        req = {"tapes": [ms], "shots": shots, "B": Bc}
        exp = expected_structure(req, dev_name)[1][0]
    a0 = 0.4 if B is None else [0.4 + 0.1 * i for i in range(B)]
    const = 0.3 if Bc is None else np.linspace(0.2, 0.6, Bc)
    dev = qp.device(dev_name, wires=NW)

    def qfunc(a, b=None):
        qp.RX(a, wires=0)
        if b is not None:
            qp.RY(b[0], wires=1)
            qp.RZ(b[1], wires=1)
        else:
            qp.RY(const, wires=1)
        qp.CNOT([0, 1])
        out = [build_meas(m) for m in ms]
        return out[0] if len(out) == 1 else tuple(out)

    arg_shapes = [() if B is None else (B,)] + ([(2,)] if nargs == 2 else [])
    rejected = (qp.exceptions.DeviceError, qp.exceptions.QuantumFunctionError, NotImplementedError)
    depth = (1 if len(ms) > 1 else 0) + (1 if isinstance(shots, list) else 0)
    feats = ("shotvector" if isinstance(shots, list) else ("shots" if shots else "analytic")) + ("" if B is None else f"+broadcast{B}") + ("" if Bc is None else f"+const-broadcast{Bc}")

    def rejected_skip(e):
        if isinstance(e, rejected):
            return skip(f"{dev_name}/{iface}/{diff}: {type(e).__name__}")
        if isinstance(e, ValueError) and ("adjoint" in str(e).lower() or "does not support" in str(e).lower()):
            return skip(f"{dev_name}/{iface}/{diff}: ValueError(unsupported)")
        return None

    # 1. forward result: compared BEFORE any differentiation, so that a wrong result structure is reported as such
    jac_fn = None
    try:
        circuit = qp.set_shots(qp.QNode(qfunc, dev, interface=("jax" if iface == "jax-jit" else iface), diff_method=diff), shots_arg(shots))
        if iface in ("jax", "jax-jit"):
            import jax
            import jax.numpy as jnp

            args = [jnp.array(a0)] + ([jnp.array([0.2, -0.5])] if nargs == 2 else [])
            f = jax.jit(circuit) if iface == "jax-jit" else circuit
            res = f(*args)
            if diff is not None:
                jf = jax.jacobian(circuit, argnums=list(range(nargs)) if nargs > 1 else 0)
                jf = jax.jit(jf) if iface == "jax-jit" else jf
                jac_fn = lambda: jf(*args)
        elif iface == "torch":
            import torch

            args = [torch.tensor(a0, requires_grad=True, dtype=torch.float64)] + ([torch.tensor([0.2, -0.5], requires_grad=True, dtype=torch.float64)] if nargs == 2 else [])
            res = circuit(*args)
            if diff is not None and depth <= 1:  # torch's functional jacobian accepts a Tensor or a flat tuple of Tensors only
                jac_fn = lambda: torch.autograd.functional.jacobian(circuit, tuple(args) if nargs > 1 else args[0])
        elif iface == "autograd":
            from pennylane import numpy as pnp

            args = [pnp.array(a0, requires_grad=True)] + ([pnp.array([0.2, -0.5], requires_grad=True)] if nargs == 2 else [])
            res = circuit(*args)
            if diff is not None and depth == 0:  # qp.jacobian is documented for a single array-valued output
                jac_fn = lambda: qp.jacobian(circuit)(*args)
        else:
            args = [np.array(a0)] + ([np.array([0.2, -0.5])] if nargs == 2 else [])
            res = circuit(*args)
    except Exception as e:  # noqa: BLE001 - documented rejections become skips, anything else propagates as a violation
        sk = rejected_skip(e)
        if sk is not None:
            return sk
        raise
    obs = observe(res)
    if obs != exp:
        path, a, b = first_diff(obs, exp)
        return bad(f"iface-result:{iface}:{diff}:{dev_name}:{feats}", obs, exp, at=path, got=a, want=b)
    # 2. Jacobian
    if jac_fn is not None:
        try:
            jac = jac_fn()
        except (ImportError, MemoryError, OSError):
            raise  # harness-level problems must not be reported as a PennyLane violation
        except Exception as e:  # noqa: BLE001
            sk = rejected_skip(e)
            if sk is not None:
                return sk
            argtag = 'multi-arg' if nargs > 1 else 'single-arg'
            return bad(f"jacobian-raised:{iface}:{diff}:{dev_name}:{feats}:{argtag}:{type(e).__name__}",
                       f"{type(e).__name__}: {e}"[:300], "a Jacobian with the result's nesting")
        multi = nargs > 1
        jexp = jac_structure(exp, arg_shapes[:nargs], multi)
        jobs = observe(jac)
        if jobs != jexp:
            path, a, b = first_diff(jobs, jexp)
            return bad(f"jacobian:{iface}:{diff}:{dev_name}:{feats}:{'multi-arg' if multi else 'single-arg'}", jobs, jexp, at=path, got=a, want=b)
        return ok(outcome=[exp, jexp], nontrivial=True)
    return ok(outcome=[exp, None], nontrivial=len(ms) > 1 or isinstance(shots, list))



# ------------------------------------------------------------------------------------------- gradient-transform level
TSHOTS = [None, 7, [7, 3], [7, 7], [7, 7, 3], [3, 7, 7], [7, 3, 7], [7, 7, 7]]  # repeated entries: num_copies != len(shot_vector)
TRANSFORMS = ["param_shift", "finite_diff", "spsa_grad", "hadamard_grad"]


def check_transform(spec):
    """Tape level: a gradient transform applied to one tape, its tapes executed on the device, the post-processing applied. The Jacobian nesting
    must be the request's (shot copies -> measurements -> trainable parameters -> measurement shape), whichever transform produced it."""
    import pennylane as qp

    ms, shots, npar, tname = spec["meas"], spec["shots"], spec["npar"], spec["transform"]
    ops = [qp.RX(0.4, 0), qp.RY(-0.7, 1), qp.CNOT([0, 1]), qp.RZ(0.3, 1)][: (3 if npar < 3 else 4)]
    with qp.queuing.AnnotatedQueue() as q:
        mps = [build_meas(m) for m in ms]
    tape = qp.tape.QuantumScript(ops, mps, shots=shots_arg(shots), trainable_params=list(range(npar)))
    dev = qp.device("default.qubit", seed=11)
    tr = getattr(qp.gradients, tname)
    kw = {"sampler_rng": np.random.default_rng(5)} if tname == "spsa_grad" else {"aux_wire": 2} if tname == "hadamard_grad" else {}
    try:
        tapes, fn = tr(tape, **kw)
        jac = fn(dev.execute(tapes))
    except (qp.exceptions.DeviceError, qp.exceptions.QuantumFunctionError, NotImplementedError) as e:
        return skip(f"{tname}: {type(e).__name__}: {str(e)[:60]}")
    except ValueError as e:
        if "gradient of variances" in str(e):  # documented: the Hadamard test gradient does not differentiate variances
            return skip(f"{tname}: ValueError(variances)")
        raise
    res = tape_structure(ms, shots, None, "default.qubit")
    exp = jac_structure(res, [()] * npar, npar > 1)
    obs = observe(jac)
    feats = ("analytic" if shots is None else "shots" if isinstance(shots, int) else
             "shotvector-repeated" if len(set(shots)) < len(shots) else "shotvector")
    if obs != exp:
        path, a, b = first_diff(obs, exp)
        return bad(f"transform-jacobian:{tname}:{feats}:{'multi' if len(ms) > 1 else 'single'}-meas:{min(npar, 2)}par", obs, exp, at=path, got=a, want=b)
    return ok(outcome=exp, nontrivial=npar > 1 or len(ms) > 1 or isinstance(shots, list))

# ------------------------------------------------------------------------------------------- enumeration
def meas_lists(maxlen, shots):
    letters = [m for m in ALPHA if not (shots is None and m in NEEDS_SHOTS) and not (shots is not None and m in ANALYTIC_ONLY)]
    for n in range(1, maxlen + 1):
        for w in itertools.product(letters, repeat=n):
            yield list(w)


def run(ctx):
    specs = []
    for dev in DEVICES:
        maxlen = 3 if (dev == "default.qubit" or not ctx.quick) else 2
        for shots in SHOTS:
            lists = list(meas_lists(maxlen, shots))
            for B in (None, 1, 3):
                for ms in lists:
                    if ctx.quick and len(ms) == 3 and B is not None:
                        continue  # quick: length-3 lists without broadcasting only
                    specs.append({"dev": dev, "req": {"tapes": [ms], "shots": shots, "B": B}})
                # batches of two tapes: every ordered pair of lists of length <= 1 (quick) / <= 2, second tape distinct structure
                short = [l for l in lists if len(l) <= (1 if (ctx.quick or B is not None) else 2)]
                for a in short:
                    for b in short:
                        specs.append({"dev": dev, "req": {"tapes": [a, b], "shots": shots, "B": B}})
    ctx.enumerate(specs, fn="check", axis="device-level", chunk=64)

    ispecs = []
    ilists = [["expval"], ["probs1"], ["probs2"], ["var"], ["expval", "probs2"], ["probs1", "expval"], ["expval", "var"], ["probs2", "probs1"]]
    if ctx.quick:
        ilists = [["expval"], ["probs2"], ["expval", "probs2"], ["probs1", "var"]]
    combos = []
    for dev in DEVICES:
        for iface in ("numpy", "autograd", "jax", "torch", "jax-jit"):
            for diff in (None, "backprop", "parameter-shift", "adjoint", "finite-diff"):
                if iface == "numpy" and diff is not None:
                    continue
                if ctx.quick and diff == "finite-diff" and dev != "default.qubit":
                    continue
                combos.append((dev, iface, diff))
    for dev, iface, diff in combos:
        for shots in (None, 7, [3, 7]):
            if shots is not None and diff in ("backprop", "adjoint"):
                continue  # analytic-only methods (documented)
            for nargs in (1, 2):
                lists = ilists
                if iface == "jax-jit":
                    if ctx.quick and (shots == 7 or (shots is not None and diff != "parameter-shift")):
                        continue  # quick keeps jit + shot VECTOR with parameter-shift: only jit uses the jvp rule (jacobian_products._compute_jvps)
                    lists = [["expval"], ["expval", "probs2"]] if ctx.quick else ilists
                    if ctx.quick and (dev != "default.qubit" or nargs == 2):
                        continue
                if diff == "adjoint":
                    lists = [l for l in lists if all(m == "expval" for m in l)]
                if ctx.quick and dev in ("reference.qubit", "default.mixed") and nargs == 2:
                    continue
                for ms in lists:
                    ispecs.append({"dev": dev, "iface": iface, "diff": diff, "shots": shots, "meas": ms, "nargs": nargs})
    # broadcast dimension through the interfaces (analytic): results (B,...) and Jacobians (B,...,B)
    for dev in ("default.qubit", "default.mixed"):
        for iface in ("autograd", "jax", "torch"):
            for diff in ("backprop",):  # gradient transforms reject broadcasted tapes with trainable batched parameters (documented)
                for ms in (["expval"], ["expval", "probs2"]):
                    for Bv in (1, 3):
                        ispecs.append({"dev": dev, "iface": iface, "diff": diff, "shots": None, "meas": ms, "nargs": 1, "B": Bv})
    for dev in ("default.qubit", "default.mixed", "lightning.qubit"):
        for iface in ("torch", "jax", "autograd"):
            for ms in (["expval"], ["expval", "probs2"]):
                for Bv in (1, 3):
                    ispecs.append({"dev": dev, "iface": iface, "diff": "parameter-shift", "shots": None, "meas": ms, "nargs": 1, "Bconst": Bv})
    ctx.enumerate(ispecs, fn="check_iface", axis="interface-level", chunk=6, start="spawn")
    tspecs = []
    tl = [["expval"], ["var"], ["probs1"], ["probs2"], ["expval", "probs2"], ["probs1", "expval"], ["expval", "var"], ["expval", "expval", "probs1"]]
    for tname in TRANSFORMS:
        for shots in TSHOTS:
            for npar in (1, 2, 3):
                for ms in tl:
                    tspecs.append({"transform": tname, "shots": shots, "npar": npar, "meas": ms})
    ctx.enumerate(tspecs, fn="check_transform", axis="gradient-transform-level", chunk=24)
    ctx.coverage["alphabet"] = {"gradient_transforms": TRANSFORMS, "transform_level_shots": TSHOTS, "measurements": ALPHA, "shots": SHOTS, "broadcast": [None, 1, 3], "tapes": [1, 2], "devices": DEVICES,
                                "interfaces": ["numpy", "autograd", "jax", "jax-jit", "torch"],
                                "diff_methods": [None, "backprop", "parameter-shift", "adjoint", "finite-diff"], "trainable_arg_shapes": [[], [2]]}
    ctx.coverage["bound"] = {"max_list_length_device_level": 3, "max_list_length_interface_level": 2, "wires": NW}
