"""C70 — default.clifford simulates stabilizer circuits exactly (DESIGN §5.11 C70).

E2: every word of length <= 2 (thorough: <= 3 over a 29-letter sub-alphabet) over the device's own translation table
(read at run time: every Clifford gate x every wire placement on 3 wires), executed through qp.execute on
default.clifford and compared, measurement group by measurement group, with a plain numpy state-vector reference
built from the spec alone (mc/x_clifford.py).  Further families: each gate once on 8 / 10 wires, stabilizer-state
preparations, exotic observables, wire labels, Pauli channels with shots, non-Clifford input policy.
"""
import itertools
import math

from mc.engine import ok, bad, skip

PROPERTY = "C70"
LEVEL = "exploration"
TECHNIQUE = "bounded exhaustive enumeration of Clifford words through default.clifford vs numpy state-vector reference"
LEVEL_TEXT = ("All words of length <=2 over every gate of the device's stim translation table on every placement of 3 wires "
              "(thorough: <=3 over a 29-letter sub-alphabet), each with expval/var of all Pauli words on <=2 wires, probs, state "
              "(vector and Aaronson-Gottesman tableau), density matrix, purity, entropies, finite-shot samples; each gate once on "
              "8 and 10 wires; stabilizer StatePrep/BasisState; Pauli channels with p in {0,1/2,1}; non-Clifford policy.")
LEVEL_NOTE = ("Reference = mc.refgates matrices applied by tensordot. States are compared up to global phase and to 1e-6 (stim "
              "returns complex64). Sampling clause: stim's RNG cannot be owned; decided as support equality for a fixed seed "
              "(the computational-basis distribution of a stabilizer state is uniform on its support) plus exactness of "
              "deterministic outcomes; frequencies themselves are not tested. Snapshots are C71's; mid-circuit measurements not explored.")
DESIGN_REF = "5.11 C70"
START = "fork"
PARALLEL = True
RULE = ("one case = (word over the translation-table alphabet, measurement group, device wires option); complete enumeration "
        "shortest-first; non-trivial = the circuit contains a non-Pauli/non-identity gate or a preparation")
ASSUMPTIONS = ["stim's sampler draws from the circuit it is given (its RNG is not owned)",
               "mc.refgates matrices (self-tested against textbook identities)"]

G1 = 0.3731
TOL32 = 2e-6  # stim state vectors are complex64


# ---------------------------------------------------------------------------------------------- alphabet
def table():
    from pennylane.devices import default_clifford as dc

    return dict(dc._OPERATIONS_MAP)


def gate_names():
    """Clifford gate names of the translation table (stim target not None, not a channel), with arity."""
    from mc import refgates as RG

    out = []
    for name, tgt in table().items():
        if tgt is None or name in ("PauliError", "BitFlip", "PhaseFlip", "DepolarizingChannel"):
            continue
        base = name[8:-1] if name.startswith("Adjoint(") else name
        if base not in RG.TABLE:
            raise KeyError(f"translation table has gate {name!r} unknown to the reference table")
        out.append((name, RG.TABLE[base][0]))
    return out


def full_alphabet(n=3):
    letters = []
    for name, k in gate_names():
        for ws in itertools.permutations(range(n), k):
            letters.append([name, list(ws)])
    return letters


def sub_alphabet():
    """29 letters for the length-3 tier: every gate name at least once, every wire, both orientations of CNOT."""
    L = []
    for g in ("Hadamard", "S", "PauliX", "PauliY", "Adjoint(S)"):
        L += [[g, [w]] for w in range(3)]
    L += [["CNOT", list(p)] for p in itertools.permutations(range(3), 2)]
    L += [["CY", [0, 1]], ["CY", [2, 1]], ["CZ", [0, 2]], ["SWAP", [1, 2]], ["ISWAP", [0, 1]], ["ISWAP", [2, 0]],
          ["Adjoint(ISWAP)", [1, 2]], ["Adjoint(ISWAP)", [1, 0]]]
    return L


def tiny_alphabet():
    return [["Hadamard", [0]], ["S", [0]], ["Hadamard", [1]], ["CNOT", [0, 1]], ["CNOT", [2, 0]], ["ISWAP", [1, 2]],
            ["CY", [1, 2]], ["PauliY", [1]], ["Adjoint(S)", [2]]]


# ---------------------------------------------------------------------------------------------- builders
def build_op(qp, o):
    import numpy as np

    name, wires = o[0], o[1]
    if name.startswith("Adjoint("):
        return qp.adjoint(getattr(qp, name[8:-1])(wires=wires))
    if name == "GlobalPhase":
        return qp.GlobalPhase(o[2])
    if name == "Barrier":
        return qp.Barrier(wires=wires)
    if name == "BasisState":
        return qp.BasisState(np.array(o[2]), wires=wires)
    if name == "StatePrep":
        return qp.StatePrep(np.array([complex(a, b) for a, b in o[2]]), wires=wires)
    return getattr(qp, name)(wires=wires)


def device(qp, dw, tableau, shots_seed=None, check=True):
    kw = {"tableau": tableau, "check_clifford": check}
    if dw is not None:
        kw["wires"] = dw if isinstance(dw, int) else list(dw)
    kw["seed"] = 1234 if shots_seed is None else shots_seed
    return qp.device("default.clifford", **kw)


def execute(qp, dev, ops, mps, shots=None):
    tape = qp.tape.QuantumScript(ops, mps, shots=shots)
    res = qp.execute([tape], dev)[0]
    return res if len(mps) > 1 else (res,)


def nontrivial_word(ops):
    return any(o[0] not in ("Identity", "PauliX", "PauliY", "PauliZ", "Barrier", "GlobalPhase") for o in ops)


def pick(fails):
    """Report first the failure that is not one of the modelled known defects (so those never mask a new one)."""
    for f in fails:
        if not f["sig"].startswith("known-model:"):
            return f
    return fails[0]


PAULI_WORDS = None


def pauli_words(wires):
    out = []
    for w in wires:
        for p in "XYZ":
            out.append((p, [w]))
    for a, b in itertools.permutations(wires, 2):
        if a < b or (a, b) in ((2, 0),):  # all unordered pairs + one reversed-order pair
            for p in itertools.product("XYZ", repeat=2):
                out.append(("".join(p), [a, b]))
    return out


def pl_word(qp, word, wires):
    ops = [getattr(qp, c)(w) for c, w in zip(word, wires)]
    return ops[0] if len(ops) == 1 else qp.prod(*ops)


# ---------------------------------------------------------------------------------------------- measurement groups
def prep_init(spec, order):
    """Reference initial state for an optional leading preparation."""
    import numpy as np
    from mc import x_clifford as XC
    from mc import refsim as RS

    prep = spec.get("prep")
    n = len(order)
    if not prep:
        return None
    idx = {w: i for i, w in enumerate(order)}
    if prep[0] == "BasisState":
        vec = np.zeros(2 ** len(prep[1]), dtype=complex)
        vec[int("".join(str(b) for b in prep[2]), 2)] = 1
    else:
        vec = np.array([complex(a, b) for a, b in prep[2]])
        vec = vec / np.linalg.norm(vec)
    k = len(prep[1])
    rest = RS.zero_state(n - k)
    full = np.tensordot(vec.reshape((2,) * k), rest, axes=0)
    if spec.get("_model") == "prep-layout":
        # model of a known defect (never the oracle): the prepared vector is laid out in tape-appearance order of the
        # operator wires but handed to stim as if axis j were wire label j
        app = XC.appearance_order([prep] + spec["ops"])
        app = app + sorted(w for w in order if w not in app)
        ia = {w: i for i, w in enumerate(app)}
        t_app = np.moveaxis(full, list(range(k)), [ia[w] for w in prep[1]])
        return XC.reorder(t_app, sorted(app), order)
    return np.moveaxis(full, list(range(k)), [idx[w] for w in prep[1]])


def grp_pauli(qp, np, XC, RS, spec, ops, plops):
    wires = spec.get("mw", [0, 1, 2])
    words = pauli_words(wires)
    mps, refs = [], []
    order = XC.appearance_order(([spec["prep"]] if spec.get("prep") else []) + ops, wires)
    if spec.get("dw") is not None:
        pass  # expectation values do not depend on the wire order
    st = XC.run(ops, order, prep_init(spec, order))
    for w, ws in words:
        mps.append(qp.expval(pl_word(qp, w, ws)))
        refs.append(("expval:" + w, XC.pauli_expval(st, w, ws, order)))
    for w, ws in words[: 3 * len(wires)]:
        mps.append(qp.var(pl_word(qp, w, ws)))
        e = XC.pauli_expval(st, w, ws, order)
        refs.append(("var:" + w, 1 - e * e))
    # sums
    a, b, c = (wires + wires)[:3]
    sums = [([(1.0, "Z", [a]), (1.0, "X", [b])]), ([(0.5, "ZZ", [a, b]), (-1.5, "Y", [c])]), ([(2.0, "XY", [c, a]), (0.25, "Z", [a]), (1.0, "YZ", [a, b])])]
    # terms whose own wire order DISAGREES with the order in which the whole observable first meets the wires
    sums += [([(1.0, "Z", [b]), (1.0, "XY", [a, b])]), ([(1.0, "Y", [c]), (0.5, "XZ", [a, c]), (2.0, "ZXY", [b, a, c])]),
             ([(1.5, "Z", [c]), (1.0, "Y", [b]), (-0.5, "XYZ", [a, b, c])])]
    forms = [(terms, "sum") for terms in sums] + [(terms, "ham") for terms in sums[2:]]
    for terms, form in forms:
        if form == "ham":
            H = qp.Hamiltonian([cf for cf, _, _ in terms], [pl_word(qp, w, ws) for _, w, ws in terms])
        else:
            H = qp.sum(*[qp.s_prod(cf, pl_word(qp, w, ws)) for cf, w, ws in terms])
        allw = sorted({x for _, _, ws in terms for x in ws})
        M = sum(cf * RS.embed(XC.word_matrix(w), ws, allw) for cf, w, ws in terms)
        e = XC.obs_expval(st, M, allw, order)
        e2 = XC.obs_expval(st, M @ M, allw, order)
        mps.append(qp.expval(H))
        refs.append(("expval:sum", e))
        mps.append(qp.var(H))
        refs.append(("var:sum", e2 - e * e))
    dev = device(qp, spec.get("dw"), True)
    res = execute(qp, dev, plops, mps)
    fails = []
    for (tag, want), got in zip(refs, res):
        if not abs(float(got) - want) <= 1e-9:
            fails.append(dict(sig=f"{tag.split(':')[0]}:mismatch", obs=[tag, float(got)], exp=want))
    fp = [int(round(r[1])) for r in refs[: len(words)]]
    return fails, fp


def grp_probs(qp, np, XC, RS, spec, ops, plops):
    """tableau=True probability algorithm."""
    dw = spec.get("dw")
    wire_sets = [[0, 1, 2], [2, 0], [1], [1, 2, 0]]
    mps = [qp.probs(wires=w) for w in wire_sets]
    if dw is not None:
        mps.append(qp.probs())
        wire_sets = wire_sets + [list(range(dw))]
    allw = list(range(dw)) if dw is not None else [0, 1, 2]
    order = XC.appearance_order(([spec["prep"]] if spec.get("prep") else []) + ops, allw)
    st = XC.run(ops, order, prep_init(spec, order))
    dev = device(qp, dw, True)
    res = execute(qp, dev, plops, mps)
    fails, fp = [], []
    for ws, got in zip(wire_sets, res):
        want = XC.probs(st, ws, order)
        got = np.asarray(got, dtype=float)
        fp.append([int(round(8 * x)) for x in want])
        if got.shape == want.shape and np.all(np.abs(got - want) <= 1e-9):
            continue
        model = XC.probs_precedence_model(st, ws, order)
        if got.shape == model.shape and np.all(np.abs(got - model) <= 1e-9):
            fails.append(dict(sig="known-model:probs:precedence-zeroing", obs=got.tolist(), exp=want.tolist(), wires=ws))
        else:
            fails.append(dict(sig="probs:mismatch", obs=got.tolist(), exp=want.tolist(), wires=ws))
    return fails, fp


def grp_state(qp, np, XC, RS, spec, ops, plops):
    """state vector (tableau=False), tableau (tableau=True), density matrices, purity, entropies."""
    dw = spec.get("dw")
    allw = list(range(dw)) if dw is not None else spec.get("mw", [0, 1, 2])
    pre = ([spec["prep"]] if spec.get("prep") else [])
    fails, fp = [], []
    # --- quantities that do not depend on the order convention
    order = XC.appearance_order(pre + ops, allw)
    n = len(order)
    st = XC.run(ops, order, prep_init(spec, order))
    a, b, c = allw[0], allw[1], allw[2]
    mps = [qp.density_matrix([a]), qp.density_matrix([c, b]), qp.purity([a]), qp.purity([b, c]), qp.purity(allw),
           qp.vn_entropy([b]), qp.vn_entropy([a, c]), qp.vn_entropy([b], log_base=2), qp.vn_entropy(allw),
           qp.mutual_info([a], [b]), qp.mutual_info([a], [b, c]), qp.mutual_info([c], [a], log_base=2)]
    dev = device(qp, dw, False)
    res = execute(qp, dev, plops, mps)
    want = [XC.reduced(st, [a], order), XC.reduced(st, [c, b], order),
            float(np.real(np.trace(np.linalg.matrix_power(XC.reduced(st, [a], order), 2)))),
            float(np.real(np.trace(np.linalg.matrix_power(XC.reduced(st, [b, c], order), 2)))), 1.0,
            XC.entropy(st, [b], order), XC.entropy(st, [a, c], order), XC.entropy(st, [b], order, 2), 0.0]

    def mi(x, y, base=None):
        return XC.entropy(st, x, order, base) + XC.entropy(st, y, order, base) - XC.entropy(st, x + y, order, base)

    def mi_nojoint(x, y, base=None):
        return XC.entropy(st, x, order, base) + XC.entropy(st, y, order, base)

    want += [mi([a], [b]), mi([a], [b, c]), mi([c], [a], 2)]
    alt = [XC.reduced_noconj(st, [a], order), XC.reduced_noconj(st, [c, b], order)] + [None] * 7 + [mi_nojoint([a], [b]), mi_nojoint([a], [b, c]), mi_nojoint([c], [a], 2)]
    tags = ["density_matrix:1", "density_matrix:2", "purity:1", "purity:2", "purity:all", "vn_entropy:1", "vn_entropy:2",
            "vn_entropy:base2", "vn_entropy:all", "mutual_info:1-1", "mutual_info:1-2", "mutual_info:base2"]
    for tag, w_, g_, al in zip(tags, want, res, alt):
        g_ = np.asarray(g_)
        tol = TOL32 if tag.startswith("density") else 1e-9
        if g_.shape == np.asarray(w_).shape and np.all(np.abs(g_ - w_) <= tol):
            continue
        if al is not None and tag.startswith("density"):
            if g_.shape == al.shape and RS.close(RS.phase_align(al, g_) if np.max(np.abs(g_)) > 1e-6 else g_, al, TOL32):
                fails.append(dict(sig="known-model:density_matrix:outer-product-without-conjugate", obs=[g_.real.tolist(), g_.imag.tolist()],
                                  exp=[np.asarray(w_).real.tolist(), np.asarray(w_).imag.tolist()], tag=tag))
            else:
                fails.append(dict(sig="density_matrix:mismatch", obs=[g_.real.tolist(), g_.imag.tolist()],
                                  exp=[np.asarray(w_).real.tolist(), np.asarray(w_).imag.tolist()], tag=tag))
        elif al is not None and abs(float(g_) - al) <= 1e-9:
            fails.append(dict(sig="known-model:mutual_info:joint-entropy-missing", obs=float(g_), exp=float(w_), tag=tag))
        else:
            fails.append(dict(sig=f"{tag.split(':')[0]}:mismatch", obs=g_.tolist() if g_.dtype.kind != "c" else [g_.real.tolist(), g_.imag.tolist()],
                              exp=np.asarray(w_).real.tolist(), tag=tag))
    fp.append([round(float(x), 3) for x in want[2:]])
    # --- state(): expected order = device wires if declared, else the documented standard order of the tape
    order_std = XC.std_order(pre + ops, allw if dw is not None else [])
    exp_order = list(range(dw)) if dw is not None else order_std
    nn = len(exp_order)
    if nn:
        st_t = XC.run(ops, order_std, prep_init(spec, order_std))
        st_e = XC.reorder(st_t, order_std, exp_order)
        got = np.asarray(execute(qp, device(qp, dw, False), plops, [qp.state()])[0])
        if got.shape == (2 ** nn,) and RS.close_up_to_phase(st_e.reshape(-1), got, TOL32):
            pass
        elif got.shape == (2 ** nn,) and RS.close_up_to_phase(st_t.reshape(-1), got, TOL32):
            fails.append(dict(sig="known-model:state:device-wire-order-ignored", obs=[got.real.tolist(), got.imag.tolist()],
                              exp=[st_e.reshape(-1).real.tolist(), st_e.reshape(-1).imag.tolist()], simulated_order=order_std))
        else:
            fails.append(dict(sig="state:mismatch", obs=[got.real.tolist(), got.imag.tolist()] if got.dtype.kind == "c" else got.tolist(),
                              exp=[st_e.reshape(-1).real.tolist(), st_e.reshape(-1).imag.tolist()]))
        tab = np.asarray(execute(qp, device(qp, dw, True), plops, [qp.state()])[0])
        if pre:
            pe = XC.stabilizer_problems(tab, st_e, nn)
            pt = XC.stabilizer_problems(tab, st_t, nn)
        else:
            pe = XC.tableau_problems(tab, XC.unitary(ops, exp_order), nn)
            pt = XC.tableau_problems(tab, XC.unitary(ops, order_std), nn)
        if pe and not pt:
            fails.append(dict(sig="known-model:tableau:device-wire-order-ignored", obs=tab.tolist(), exp="rows = U X_i U^+, U Z_i U^+ in device wire order", rows=pe))
        elif pe:
            fails.append(dict(sig="tableau:mismatch", obs=tab.tolist(), exp="rows = U X_i U^+ , U Z_i U^+", rows=pe))
        fp.append(int(np.asarray(tab).sum()))
    return fails, fp


def grp_probsF(qp, np, XC, RS, spec, ops, plops):
    """tableau=False probability path (state vector -> process_state)."""
    dw = spec.get("dw")
    allw = list(range(dw)) if dw is not None else [0, 1, 2]
    wire_sets = [allw, [2, 0], [1]]
    pre = [spec["prep"]] if spec.get("prep") else []
    order = XC.appearance_order(pre + ops, allw)
    st = XC.run(ops, order, prep_init(spec, order))
    fails, fp = [], []
    for ws in wire_sets:
        want = XC.probs(st, ws, order)
        std = XC.std_order(pre + ops, ws)            # the order in which the device simulates this tape
        tape_wires = XC.appearance_order(pre + ops, ws)  # tape.wires
        touched = {w for o in pre + ops for w in o[1]}
        n_stim = max([std.index(w) for w in touched], default=-1) + 1
        try:
            got = np.asarray(execute(qp, device(qp, dw, False), plops, [qp.probs(wires=ws)])[0], dtype=float)
        except ValueError as e:
            if "cannot reshape" in str(e) and n_stim < len(std):
                fails.append(dict(sig="known-model:probs:tableau=False:idle-trailing-wire-reshape", obs=str(e)[:200], exp=want.tolist(), wires=ws))
                continue
            raise
        fp.append([int(round(8 * x)) for x in want])
        if got.shape == want.shape and np.all(np.abs(got - want) <= TOL32):
            continue
        # model of a known defect: state axes (standard order) labelled with tape.wires (appearance order)
        st_std = XC.run(ops, std, prep_init(spec, std))
        mislabeled = [tape_wires[std.index(w)] for w in std] if std != tape_wires and sorted(std) == sorted(tape_wires) else None
        if mislabeled is not None:
            model = XC.probs(st_std, ws, tape_wires)
            if got.shape == model.shape and np.all(np.abs(got - model) <= TOL32):
                fails.append(dict(sig="known-model:probs:tableau=False:axes-labelled-by-tape-order", obs=got.tolist(), exp=want.tolist(), wires=ws))
                continue
        fails.append(dict(sig="probsF:mismatch", obs=got.tolist(), exp=want.tolist(), wires=ws))
    return fails, fp


def grp_shots(qp, np, XC, RS, spec, ops, plops):
    """Finite shots: samples lie in (and, for the fixed seed, exhaust) the exact support; deterministic outcomes exact."""
    dw = spec.get("dw")
    shots = spec.get("shots", 192)
    allw = [0, 1, 2]
    order = XC.appearance_order(([spec["prep"]] if spec.get("prep") else []) + ops, allw)
    st = XC.run(ops, order, prep_init(spec, order))
    fails, fp = [], []
    sets = [[0, 1, 2], [2, 0], [1]]
    eobs = [("X", [0]), ("Y", [1]), ("Z", [2]), ("XY", [0, 1]), ("ZZ", [2, 0]), ("YX", [1, 2]), ("ZY", [0, 2])]
    mps = [qp.sample(wires=w) for w in sets] + [qp.counts(wires=[1, 0]), qp.probs(wires=[0, 2])]
    mps += [qp.expval(pl_word(qp, w, ws)) for w, ws in eobs] + [qp.sample(pl_word(qp, w, ws)) for w, ws in eobs[:4]]
    mps += [qp.var(pl_word(qp, "Z", [1])), qp.expval(qp.s_prod(0.5, pl_word(qp, "Z", [0])) + qp.s_prod(2.0, pl_word(qp, "XY", [1, 2])))]
    dev = device(qp, dw, True, shots_seed=4321)
    res = execute(qp, dev, plops, mps, shots=shots)
    i = 0
    for ws in sets:
        want = XC.probs(st, ws, order)
        smp = np.asarray(res[i]).reshape(shots, -1)
        i += 1
        if smp.shape[1] != len(ws):
            fails.append(dict(sig="sample:shape", obs=list(smp.shape), exp=[shots, len(ws)]))
            continue
        seen = sorted({int("".join(str(int(b)) for b in row), 2) for row in smp})
        supp = [j for j, p in enumerate(want) if p > 1e-12]
        fp.append(supp)
        if seen != supp:
            fails.append(dict(sig="sample:support", obs=seen, exp=supp, wires=ws))
    cnt = res[i]
    i += 1
    want = XC.probs(st, [1, 0], order)
    seen = sorted(int(str(k), 2) for k, v in cnt.items() if v > 0)
    if seen != [j for j, p in enumerate(want) if p > 1e-12] or sum(cnt.values()) != shots or any(len(str(k)) != 2 for k in cnt):
        fails.append(dict(sig="counts:support", obs={str(k): int(v) for k, v in cnt.items()}, exp=want.tolist()))
    pr = np.asarray(res[i], dtype=float)
    i += 1
    want = XC.probs(st, [0, 2], order)
    if pr.shape != want.shape or abs(pr.sum() - 1) > 1e-9 or any((p > 0) != (w > 1e-12) for p, w in zip(pr, want)):
        fails.append(dict(sig="probs-shots:support", obs=pr.tolist(), exp=want.tolist()))
    for w, ws in eobs:
        e = XC.pauli_expval(st, w, ws, order)
        got = float(res[i])
        i += 1
        if abs(abs(e) - 1) < 1e-9:
            if abs(got - e) > 1e-9:
                fails.append(dict(sig="expval-shots:deterministic", obs=[w, ws, got], exp=e))
        elif not (-1 - 1e-9 <= got <= 1 + 1e-9) or abs(got) > 0.5:
            fails.append(dict(sig="expval-shots:range", obs=[w, ws, got], exp=e))
    for w, ws in eobs[:4]:
        e = XC.pauli_expval(st, w, ws, order)
        got = np.asarray(res[i], dtype=float).reshape(-1)
        i += 1
        vals = sorted(set(np.round(got, 9).tolist()))
        want_vals = [round(e, 9)] if abs(abs(e) - 1) < 1e-9 else [-1.0, 1.0]
        if got.shape != (shots,) or vals != want_vals:
            fails.append(dict(sig="sample-obs:values", obs=[w, ws, vals], exp=want_vals))
    e = XC.pauli_expval(st, "Z", [1], order)
    got = float(res[i])
    i += 1
    if abs(abs(e) - 1) < 1e-9 and abs(got) > 1e-9:
        fails.append(dict(sig="var-shots:deterministic", obs=got, exp=0.0))
    e1, e2 = XC.pauli_expval(st, "Z", [0], order), XC.pauli_expval(st, "XY", [1, 2], order)
    got = float(res[i])
    if abs(abs(e1) - 1) < 1e-9 and abs(abs(e2) - 1) < 1e-9 and abs(got - (0.5 * e1 + 2 * e2)) > 1e-9:
        fails.append(dict(sig="expval-shots:sum", obs=got, exp=0.5 * e1 + 2 * e2))
    return fails, fp


GROUPS = {"pauli": grp_pauli, "probs": grp_probs, "state": grp_state, "probsF": grp_probsF, "shots": grp_shots}


# ---------------------------------------------------------------------------------------------- check functions
def check(spec):
    """kind word/prep: {"k", "ops", "grp", "dw", ("prep")}"""
    import numpy as np
    import pennylane as qp
    from mc import refsim as RS
    from mc import x_clifford as XC

    ops = spec["ops"]
    plops = ([build_op(qp, spec["prep"])] if spec.get("prep") else []) + [build_op(qp, o) for o in ops]
    try:
        fails, fp = GROUPS[spec["grp"]](qp, np, XC, RS, spec, ops, plops)
        prep = spec.get("prep")
        if fails and prep and prep[0] == "StatePrep":
            opw = XC.appearance_order([prep] + ops)
            if set(opw) == set(range(len(opw))) and opw != sorted(opw):
                fails2, _ = GROUPS[spec["grp"]](qp, np, XC, RS, {**spec, "_model": "prep-layout"}, ops, plops)
                if all(f["sig"].startswith("known-model:") for f in fails2):
                    f = pick(fails)
                    return bad("prep:StatePrep-axes-by-appearance-order", f["obs"], f["exp"], first_failure=f["sig"].replace("known-model:", ""))
    except ValueError as e:
        if "Gate not found" in str(e):  # the device's own table names a stim gate that the installed stim does not have
            return bad("translate:stim-gate-not-found:" + str(e).split("'")[1], str(e)[:200], "gate of the device's translation table is simulated")
        raise
    if fails:
        f = pick(fails)
        sig = f.pop("sig")
        sig = sig[len("known-model:"):] if sig.startswith("known-model:") else sig
        return bad(sig, f.pop("obs"), f.pop("exp"), **f)
    return ok(outcome=fp, nontrivial=nontrivial_word(ops) or bool(spec.get("prep")))


def check_big(spec):
    """Each gate once on n = 8 / 10 wires after an entangling prefix; state vector, tableau and local Pauli expvals."""
    import numpy as np
    import pennylane as qp
    from mc import refsim as RS
    from mc import x_clifford as XC

    n = spec["n"]
    pre = [["Hadamard", [w]] for w in range(0, n, 2)] + [["CNOT", [w, w + 1]] for w in range(n - 1)] + [["S", [w]] for w in range(1, n, 3)] + [["Hadamard", [n - 1]], ["Adjoint(S)", [n - 1]]]
    ops = pre + [spec["op"]]
    order = list(range(n))
    plops = [build_op(qp, o) for o in ops]
    st = XC.run(ops, order)
    gw = spec["op"][1]
    words = [(p, [w]) for w in sorted(set(gw + [0, n - 1])) for p in "XYZ"]
    if len(gw) == 2:
        words += [("".join(p), gw) for p in itertools.product("XYZ", repeat=2)]
    words += [("Z" * n, order), ("X" * n, order), ("ZZ", [0, n - 1])]
    mps = [qp.expval(pl_word(qp, w, ws)) for w, ws in words]
    try:
        res = execute(qp, device(qp, n, True), plops, mps)
    except ValueError as e:
        if "Gate not found" in str(e):
            return bad("translate:stim-gate-not-found:" + str(e).split("'")[1], str(e)[:200], "gate of the device's translation table is simulated")
        raise
    for (w, ws), got in zip(words, res):
        want = XC.pauli_expval(st, w, ws, order)
        if abs(float(got) - want) > 1e-9:
            return bad("big:expval:mismatch", [w, ws, float(got)], want)
    got = np.asarray(execute(qp, device(qp, n, False), plops, [qp.state()])[0])
    if got.shape != (2 ** n,) or not RS.close_up_to_phase(st.reshape(-1), got, TOL32):
        return bad("big:state:mismatch", "state differs", "reference", maxdiff=RS.maxdiff(st.reshape(-1), RS.phase_align(st.reshape(-1), got)) if got.shape == (2 ** n,) else None)
    if n <= 8:  # the dense conjugation oracle costs O(n 8^n)
        tab = np.asarray(execute(qp, device(qp, n, True), plops, [qp.state()])[0])
        rows = XC.tableau_problems(tab, XC.unitary(ops, order), n)
        if rows:
            return bad("big:tableau:mismatch", tab.tolist(), "rows = U X_i U^+, U Z_i U^+", rows=rows)
    return ok(outcome=[int(round(XC.pauli_expval(st, w, ws, order))) for w, ws in words], nontrivial=True)


def check_obs(spec):
    """Hermitian / Projector / arithmetic observables: analytic expval and var."""
    import numpy as np
    import pennylane as qp
    from mc import refgates as RG
    from mc import refsim as RS
    from mc import x_clifford as XC

    ops = spec["ops"]
    plops = [build_op(qp, o) for o in ops]
    order = XC.appearance_order(ops, [0, 1, 2])
    st = XC.run(ops, order)
    X, Y, Z, I = RG.X, RG.Y, RG.Z, RG.I2
    k = RG.kron
    cases = {
        "herm1": (lambda: qp.Hermitian(np.array(0.5 * X + 0.25 * Z - Y), wires=[1]), 0.5 * X + 0.25 * Z - Y, [1]),
        "herm2": (lambda: qp.Hermitian(np.array(k(X, Z) + 0.5 * k(Y, Y) - 0.25 * k(I, Z)), wires=[2, 0]), k(X, Z) + 0.5 * k(Y, Y) - 0.25 * k(I, Z), [2, 0]),
        "proj-full": (lambda: qp.Projector([1, 0, 1], wires=[0, 1, 2]), np.diag([0, 0, 0, 0, 0, 1.0, 0, 0]).astype(complex), [0, 1, 2]),
        "proj-part": (lambda: qp.Projector([0, 1], wires=[2, 0]), np.diag([0, 1.0, 0, 0]).astype(complex), [2, 0]),
        "proj-1": (lambda: qp.Projector([1], wires=[1]), np.diag([0, 1.0]).astype(complex), [1]),
        "prod-rev": (lambda: qp.Z(2) @ qp.X(0), k(Z, X), [2, 0]),
        "prod-id": (lambda: qp.Y(1) @ qp.Identity(0) @ qp.Z(2), k(Y, I, Z), [1, 0, 2]),
        "sprod": (lambda: qp.s_prod(-0.75, qp.Y(2)), -0.75 * Y, [2]),
        "sum-id": (lambda: qp.sum(qp.s_prod(0.5, qp.Identity(0)), qp.Z(1), qp.s_prod(2.0, qp.X(1) @ qp.Y(2))), 0.5 * np.eye(4) + k(Z, I) + 2.0 * k(X, Y), [1, 2]),
        "lincomb": (lambda: qp.ops.LinearCombination([0.3, -1.2, 0.7], [qp.Z(0) @ qp.Z(2), qp.X(1), qp.Y(2) @ qp.X(0)]),
                    0.3 * k(Z, I, Z) - 1.2 * k(I, X, I) + 0.7 * k(X, I, Y), [0, 1, 2]),
        "identity": (lambda: qp.Identity(1), I, [1]),
    }
    mk, M, ws = cases[spec["obs"]]
    e = XC.obs_expval(st, M, ws, order)
    e2 = XC.obs_expval(st, M @ M, ws, order)
    want = [e, e2 - e * e]
    got, rejected = [], []
    for tag, mp in (("expval", qp.expval(mk())), ("var", qp.var(mk()))):
        try:
            got.append(execute(qp, device(qp, spec.get("dw"), True), plops, [mp])[0])
        except (NotImplementedError, qp.exceptions.DeviceError) as exc:
            got.append(None)
            rejected.append(tag)
        except AttributeError as exc:
            if tag == "var" and spec["obs"].startswith("proj") and "'copy'" in str(exc):
                return bad("obs:var(Projector):AttributeError", str(exc)[:200], want[1])
            raise
    for tag, g_, w_ in zip(("expval", "var"), got, want):
        if g_ is not None and not abs(complex(np.asarray(g_).reshape(-1)[0]) - w_) <= 1e-9:
            return bad(f"obs:{spec['obs']}:{tag}:mismatch", repr(g_), w_)
    if len(rejected) == 2:
        return skip(f"obs {spec['obs']} rejected (NotImplementedError)")
    return ok(outcome=[spec["obs"], round(e, 6), round(e2 - e * e, 6), rejected], nontrivial=nontrivial_word(ops))


def check_labels(spec):
    """Custom wire labels (strings / non-contiguous ints), device with and without declared wires."""
    import numpy as np
    import pennylane as qp
    from mc import refsim as RS
    from mc import x_clifford as XC

    lab = spec["labels"]
    ops = [[o[0], [lab[w] for w in o[1]]] for o in spec["ops"]]
    plops = [build_op(qp, o) for o in ops]
    dw = lab if spec["declare"] else None
    order = XC.appearance_order(ops, lab)
    st = XC.run(ops, order)
    words = pauli_words([0, 1, 2])
    mps = [qp.expval(pl_word(qp, w, [lab[x] for x in ws])) for w, ws in words]
    res = execute(qp, device(qp, dw, True), plops, mps)
    for (w, ws), got in zip(words, res):
        want = XC.pauli_expval(st, w, [lab[x] for x in ws], order)
        if abs(float(got) - want) > 1e-9:
            return bad("labels:expval:mismatch", [w, ws, float(got)], want)
    ws = [lab[2], lab[0]]
    got = np.asarray(execute(qp, device(qp, dw, True), plops, [qp.probs(wires=ws)])[0], dtype=float)
    want = XC.probs(st, ws, order)
    if got.shape != want.shape or np.any(np.abs(got - want) > 1e-9):
        if got.shape == want.shape and np.all(np.abs(got - XC.probs_precedence_model(st, ws, order)) <= 1e-9):
            return bad("probs:precedence-zeroing", got.tolist(), want.tolist())
        return bad("labels:probs:mismatch", got.tolist(), want.tolist())
    shots = 96
    smp = np.asarray(execute(qp, device(qp, dw, True, shots_seed=11), plops, [qp.sample(wires=[lab[1], lab[2], lab[0]])], shots=shots)[0]).reshape(shots, 3)
    want = XC.probs(st, [lab[1], lab[2], lab[0]], order)
    seen = sorted({int("".join(str(int(b)) for b in row), 2) for row in smp})
    if seen != [j for j, x in enumerate(want) if x > 1e-12]:
        return bad("labels:sample:support", seen, want.tolist())
    return ok(outcome=[int(round(XC.pauli_expval(st, w, [lab[x] for x in ws_], order))) for w, ws_ in words], nontrivial=nontrivial_word(ops))


def check_channel(spec):
    """Pauli channels (finite shots only): support of the samples vs Kraus-sum reference; analytic execution rejected."""
    import numpy as np
    import pennylane as qp
    from mc import refgates as RG
    from mc import refsim as RS
    from mc import x_clifford as XC

    ops = spec["ops"]
    ch = spec["ch"]
    p = ch[2]
    name, cw = ch[0], ch[1]
    if name == "PauliError":
        plch = qp.PauliError(ch[3], p, wires=cw)
        kraus = [math.sqrt(1 - p) * np.eye(2 ** len(cw)), math.sqrt(p) * XC.word_matrix(ch[3])]
    elif name == "BitFlip":
        plch = qp.BitFlip(p, wires=cw)
        kraus = [math.sqrt(1 - p) * RG.I2, math.sqrt(p) * RG.X]
    elif name == "PhaseFlip":
        plch = qp.PhaseFlip(p, wires=cw)
        kraus = [math.sqrt(1 - p) * RG.I2, math.sqrt(p) * RG.Z]
    else:
        plch = qp.DepolarizingChannel(p, wires=cw)
        kraus = [math.sqrt(1 - p) * RG.I2] + [math.sqrt(p / 3) * P for P in (RG.X, RG.Y, RG.Z)]
    post = spec.get("post", [])
    plops = [build_op(qp, o) for o in ops] + [plch] + [build_op(qp, o) for o in post]
    order = [0, 1, 2]
    # reference: mixture over Kraus branches of pure states
    st0 = XC.run(ops, order)
    branches = []
    for K in kraus:
        b = RS.apply_matrix(st0, K, cw, 3)
        w = float(np.sum(np.abs(b) ** 2))
        if w > 1e-14:
            branches.append(XC.run(post, order, b))
    want = sum(np.abs(b.reshape(-1)) ** 2 for b in branches)
    supp = [j for j, x in enumerate(want) if x > 1e-12]
    if not spec.get("shots"):
        try:
            execute(qp, device(qp, 3, True), plops, [qp.expval(qp.Z(0))])
        except qp.exceptions.DeviceError:
            return ok(outcome="analytic-rejected", nontrivial=True)
        return bad("channel:analytic-accepted", "no error", "DeviceError (documented: channels need finite shots)")
    shots = spec["shots"]
    smp = np.asarray(execute(qp, device(qp, 3, True, shots_seed=97), plops, [qp.sample(wires=[0, 1, 2])], shots=shots)[0]).reshape(shots, 3)
    seen = sorted({int("".join(str(int(b)) for b in row), 2) for row in smp})
    if not set(seen) <= set(supp):
        return bad(f"channel:{name}:outside-support", seen, supp)
    if min(want[j] for j in supp) >= 1 / 8 - 1e-12 and seen != supp:
        return bad(f"channel:{name}:support-not-exhausted", seen, supp)
    return ok(outcome=[name, p, supp], nontrivial=p > 0)


NONCLIFF = {
    "T": lambda qp, np: qp.T(0), "T-adj": lambda qp, np: qp.adjoint(qp.T(1)), "RX(g)": lambda qp, np: qp.RX(G1, 0),
    "RZ(pi/2)": lambda qp, np: qp.RZ(np.pi / 2, 1), "PhaseShift(pi/2)": lambda qp, np: qp.PhaseShift(np.pi / 2, 0),
    "RY(pi)": lambda qp, np: qp.RY(np.pi, 0), "Toffoli": lambda qp, np: qp.Toffoli([0, 1, 2]), "CH": lambda qp, np: qp.CH([0, 1]),
    "pow(S,2)": lambda qp, np: qp.pow(qp.S(0), 2), "pow(S,3)": lambda qp, np: qp.pow(qp.S(1), 3), "pow(SX,2)": lambda qp, np: qp.pow(qp.SX(0), 2),
    "pow(T,2)": lambda qp, np: qp.pow(qp.T(0), 2), "ctrl(Z)": lambda qp, np: qp.ctrl(qp.Z(1), 0), "ctrl(Y)": lambda qp, np: qp.ctrl(qp.Y(0), 2),
    "ctrl(X,2)": lambda qp, np: qp.ctrl(qp.X(2), [0, 1]), "ctrl(S)": lambda qp, np: qp.ctrl(qp.S(1), 0),
    "adjoint(H)": lambda qp, np: qp.adjoint(qp.Hadamard(0)), "adjoint(CNOT)": lambda qp, np: qp.adjoint(qp.CNOT([1, 0])),
    "adjoint(adjoint(S))": lambda qp, np: qp.adjoint(qp.adjoint(qp.S(0))), "ECR": lambda qp, np: qp.ECR([0, 1]), "SISWAP": lambda qp, np: qp.SISWAP([0, 1]),
    "Rot": lambda qp, np: qp.Rot(G1, 0.2, 0.1, 0), "PauliRot(pi/2,XY)": lambda qp, np: qp.PauliRot(np.pi / 2, "XY", [0, 1]),
    "IsingXX(g)": lambda qp, np: qp.IsingXX(G1, [0, 1]), "CSWAP": lambda qp, np: qp.CSWAP([0, 1, 2]), "CCZ": lambda qp, np: qp.CCZ([0, 1, 2]),
    "QubitUnitary(H)": lambda qp, np: qp.QubitUnitary(np.array([[1, 1], [1, -1]]) / np.sqrt(2), 0),
    "prod(H,S)": lambda qp, np: qp.prod(qp.Hadamard(0), qp.S(0)), "prod(T,T)": lambda qp, np: qp.prod(qp.T(0), qp.T(0)),
    "exp(iZ pi/4)": lambda qp, np: qp.exp(qp.Z(0), 0.25j * np.pi),
}
PREPS_BAD = {"cos(.2)": (math.cos(0.2), math.sin(0.2)), "cos(pi/8)": (math.cos(math.pi / 8), math.sin(math.pi / 8)),
             "cos(.05)": (math.cos(0.05), math.sin(0.05)), "T|+>": None}


def check_noncliff(spec):
    """Non-Clifford / non-native input: DeviceError (documented), or a result equal to the reference."""
    import numpy as np
    import pennylane as qp
    from mc import refsim as RS
    from mc import x_clifford as XC

    pre = [build_op(qp, o) for o in spec["ops"]]
    order = [0, 1, 2]
    if spec.get("gate"):
        g = NONCLIFF[spec["gate"]](qp, np)
        plops = pre + [g] if spec["pos"] == "end" else [g] + pre
        words = pauli_words([0, 1, 2])
        mps = [qp.expval(pl_word(qp, w, ws)) for w, ws in words]
        try:
            res = execute(qp, device(qp, 3, True, check=spec["check"]), plops, mps)
        except qp.exceptions.DeviceError as e:
            return ok(outcome=["rejected", spec["gate"], str(e)[:40]], nontrivial=True)
        st = RS.run_state(plops, order)  # declared dependence: qp.matrix for arithmetic ops (trusts C01/C03)
        for (w, ws), got in zip(words, res):
            want = XC.pauli_expval(st, w, ws, order)
            if abs(float(got) - want) > 1e-9:
                return bad(f"noncliff:{spec['gate']}:silently-wrong", [w, ws, float(got)], want, check_clifford=spec["check"])
        return ok(outcome=["accepted", spec["gate"]], nontrivial=True)
    # near-/non-stabilizer StatePrep
    amp = PREPS_BAD[spec["prep"]]
    vec = np.array([1, np.exp(0.25j * np.pi)]) / np.sqrt(2) if amp is None else np.array(amp, dtype=complex)
    plops = [qp.StatePrep(vec, wires=[spec["w"]])] + pre
    st0 = np.tensordot(vec, RS.zero_state(2), axes=0)
    st0 = np.moveaxis(st0, 0, spec["w"])
    st = XC.run(spec["ops"], order, st0)
    words = [(p, [w]) for w in order for p in "XYZ"]
    try:
        res = execute(qp, device(qp, 3, True), plops, [qp.expval(pl_word(qp, w, ws)) for w, ws in words])
    except (ValueError, qp.exceptions.DeviceError) as e:
        return ok(outcome=["rejected", spec["prep"], type(e).__name__], nontrivial=True)
    for (w, ws), got in zip(words, res):
        want = XC.pauli_expval(st, w, ws, order)
        if abs(float(got) - want) > 1e-9:
            return bad("noncliff:StatePrep:non-stabilizer-accepted", [spec["prep"], w, ws, float(got)], want)
    return ok(outcome=["accepted", spec["prep"]], nontrivial=True)


def check_misc(spec):
    """Small named situations, each with its own narrow signature."""
    import numpy as np
    import pennylane as qp
    from mc import refsim as RS
    from mc import x_clifford as XC

    what = spec["what"]
    if what == "mid-basisstate":
        # BasisState after other gates (PennyLane semantics: prepares the listed, still-|0>, wires) -- X gates on them
        ops = spec["ops"]
        bits, bw = spec["bits"], spec["bw"]
        plops = [build_op(qp, o) for o in ops] + [qp.BasisState(np.array(bits), wires=bw)]
        order = [0, 1, 2]
        ref_ops = ops + [["PauliX", [w]] for b, w in zip(bits, bw) if b]
        st = XC.run(ref_ops, order)
        words = [(p, [w]) for w in order for p in "XYZ"]
        try:
            res = execute(qp, device(qp, 3, True), plops, [qp.expval(pl_word(qp, w, ws)) for w, ws in words])
        except qp.exceptions.DeviceError:
            return ok(outcome="rejected", nontrivial=True)
        for (w, ws), got in zip(words, res):
            want = XC.pauli_expval(st, w, ws, order)
            if abs(float(got) - want) > 1e-9:
                return bad("prep:mid-circuit-BasisState-ignored" if any(bits) else "prep:mid-circuit-BasisState", [w, ws, float(got)], want)
        return ok(outcome=["mid-basisstate", bits], nontrivial=any(bits))
    if what == "idle":
        # wires that are only measured (no gate), device without declared wires
        ops = spec["ops"]
        plops = [build_op(qp, o) for o in ops]
        order = XC.appearance_order(ops, [0, 1, 2])
        st = XC.run(ops, order)
        m = spec["m"]
        mk = {"density_matrix": lambda: qp.density_matrix([2]), "vn_entropy": lambda: qp.vn_entropy([2]), "purity": lambda: qp.purity([2]),
              "mutual_info": lambda: qp.mutual_info([0], [2]), "expval": lambda: qp.expval(qp.Z(2) @ qp.X(0)), "probs": lambda: qp.probs(wires=[0, 2]),
              "var": lambda: qp.var(qp.Z(2))}[m]
        want = {"density_matrix": lambda: XC.reduced(st, [2], order), "vn_entropy": lambda: XC.entropy(st, [2], order),
                "purity": lambda: float(np.real(np.trace(np.linalg.matrix_power(XC.reduced(st, [2], order), 2)))),
                "mutual_info": lambda: XC.entropy(st, [0], order) + XC.entropy(st, [2], order) - XC.entropy(st, [0, 2], order),
                "expval": lambda: XC.pauli_expval(st, "ZX", [2, 0], order), "probs": lambda: XC.probs(st, [0, 2], order),
                "var": lambda: 1 - XC.pauli_expval(st, "Z", [2], order) ** 2}[m]()
        try:
            got = np.asarray(execute(qp, device(qp, None, spec["tableau"]), plops, [mk()])[0])
        except (ValueError, IndexError) as e:
            if any(t in str(e) for t in ("target >= len(tableau)", "is not in list", "cannot reshape")):
                return bad("idle-wire:measured-only-wire-not-simulated", f"{m}: {type(e).__name__}: {e}"[:200], np.asarray(want).real.tolist())
            raise
        if got.shape != np.asarray(want).shape:
            return bad("idle-wire:measured-only-wire-not-simulated", f"{m}: result shape {list(got.shape)}", np.asarray(want).real.tolist())
        if np.any(np.abs(got - want) > TOL32):
            mdl = XC.probs_precedence_model(st, [0, 2], order) if m == "probs" else None
            if mdl is not None and np.all(np.abs(got - mdl) <= 1e-9):
                return bad("probs:precedence-zeroing", got.tolist(), np.asarray(want).tolist())
            return bad(f"idle-wire:{m}:mismatch", got.real.tolist(), np.asarray(want).real.tolist())
        return ok(outcome=[m, np.round(np.asarray(want).real, 4).tolist()], nontrivial=True)
    raise AssertionError(what)


# ---------------------------------------------------------------------------------------------- driver
STAB_PREPS = [
    ["StatePrep", [1], [[0, 0], [1, 0]]],
    ["StatePrep", [2], [[1, 0], [0, -1]]],                       # |-i>
    ["StatePrep", [0], [[1, 0], [-1, 0]]],                       # |->
    ["StatePrep", [0, 1], [[1, 0], [0, 0], [0, 0], [1, 0]]],     # Bell
    ["StatePrep", [2, 1], [[0, 0], [1, 0], [0, -1], [0, 0]]],    # (|01> - i|10>) on reversed wires
    ["StatePrep", [0, 2], [[1, 0], [1, 0], [1, 0], [-1, 0]]],    # CZ|++>
    ["StatePrep", [0, 1, 2], [[1, 0], [0, 0], [0, 0], [0, 0], [0, 0], [0, 0], [0, 0], [0, 1]]],  # |000> + i|111>
    ["StatePrep", [2, 0, 1], [[0, 0], [1, 0], [1, 0], [0, 0], [1, 0], [0, 0], [0, 0], [-1, 0]]],
    ["BasisState", [0, 1, 2], [1, 0, 1]],
    ["BasisState", [2, 0], [1, 0]],
    ["BasisState", [1], [1]],
]


def run(ctx):
    only = ctx.only

    def want(f):
        return only is None or only == f

    A = full_alphabet(3)
    A_extra = [["GlobalPhase", [], G1], ["Barrier", [0, 1, 2]]]
    AW = A + A_extra
    sub = sub_alphabet()
    tiny = tiny_alphabet()
    words2 = [[]] + [[a] for a in AW] + [[a, b] for a in AW for b in AW]
    ctx.coverage["alphabet"] = {"table": sorted(table()), "letters": len(AW), "gates": [g for g, _ in gate_names()],
                                "sub_alphabet_len3": len(sub), "groups": sorted(GROUPS)}
    ctx.coverage["bound"] = {"word_len_full_alphabet": 2, "word_len_sub_alphabet": 2 if ctx.quick else 3, "wires": 3, "big_wires": [8, 10]}
    # W: words x groups on a device with declared wires=3 (so that idle wires are simulated)
    if want("words"):
        for grp in ("pauli", "probs", "state", "shots"):
            ctx.enumerate([{"k": "word", "ops": w, "grp": grp, "dw": 3} for w in words2], fn="check", axis=f"words:{grp}")
        ctx.enumerate([{"k": "word", "ops": w, "grp": "probsF", "dw": 3} for w in words2 if len(w) < 2 or (w[0] in sub and w[1] in sub)],
                      fn="check", axis="words:probsF")
    # N: device without declared wires -- only words touching all three wires (the idle-wire situation is family M)
    if want("nowires"):
        ws = [w for w in ([[a, b] for a in sub for b in sub] + [[a, b, c] for a in tiny for b in tiny for c in tiny])
              if {x for o in w for x in o[1]} == {0, 1, 2}]
        for grp in ("pauli", "probs", "state", "probsF", "shots"):
            ctx.enumerate([{"k": "word", "ops": w, "grp": grp, "dw": None} for w in ws], fn="check", axis=f"nowires:{grp}")
    if want("len3") and not ctx.quick:
        w3 = [[a, b, c] for a in sub for b in sub for c in sub]
        for grp in ("pauli", "probs", "state"):
            ctx.enumerate([{"k": "word", "ops": w, "grp": grp, "dw": 3} for w in w3], fn="check", axis=f"len3:{grp}")
    if want("len3") and ctx.quick:
        w3 = [[a, b, c] for a in tiny for b in tiny for c in tiny]
        for grp in ("probs", "state"):
            ctx.enumerate([{"k": "word", "ops": w, "grp": grp, "dw": 3} for w in w3], fn="check", axis=f"len3:{grp}")
    if want("big"):
        specs = []
        for n in (8, 10):
            for name, k in gate_names():
                places = [[n - 1], [3]] if k == 1 else [[n - 1, 2], [1, n - 2]]
                specs += [{"k": "big", "n": n, "op": [name, p]} for p in places]
        ctx.enumerate(specs, fn="check_big", axis="big", chunk=2)
    if want("prep"):
        tails = [[]] + [[a] for a in sub] + ([] if ctx.quick else [[a, b] for a in tiny for b in tiny])
        for grp in ("pauli", "probs", "state", "shots"):
            ctx.enumerate([{"k": "prep", "prep": p, "ops": t, "grp": grp, "dw": 3} for p in STAB_PREPS for t in tails], fn="check", axis=f"prep:{grp}")
    if want("obs"):
        names = ["herm1", "herm2", "proj-full", "proj-part", "proj-1", "prod-rev", "prod-id", "sprod", "sum-id", "lincomb", "identity"]
        ws = [[]] + [[a] for a in sub] + [[a, b] for a in tiny for b in tiny]
        ctx.enumerate([{"k": "obs", "ops": w, "obs": o, "dw": 3} for w in ws for o in names], fn="check_obs", axis="obs")
    if want("labels"):
        ws = [[a] for a in sub] + [[a, b] for a in tiny for b in tiny]
        labs = [["b", 7, "a"], [5, 3, 11], ["q2", "q0", "q1"]]
        ctx.enumerate([{"k": "labels", "ops": w, "labels": l, "declare": d} for w in ws for l in labs for d in (True, False)], fn="check_labels", axis="labels")
    if want("channels"):
        chans = []
        for p in (0.0, 0.5, 1.0):
            chans += [["BitFlip", [0], p], ["BitFlip", [2], p], ["PhaseFlip", [1], p], ["DepolarizingChannel", [1], p], ["DepolarizingChannel", [0], p],
                      ["PauliError", [0, 2], p, "XZ"], ["PauliError", [2, 1], p, "YX"], ["PauliError", [1], p, "Y"], ["PauliError", [2, 0, 1], p, "ZXY"]]
        pres = [[], [["Hadamard", [0]]], [["Hadamard", [1]], ["CNOT", [1, 2]]], [["PauliX", [2]], ["Hadamard", [0]], ["S", [0]]]]
        posts = [[], [["Hadamard", [0]], ["Hadamard", [1]], ["Hadamard", [2]]], [["CNOT", [0, 1]], ["S", [2]], ["Hadamard", [2]]]]
        ctx.enumerate([{"k": "ch", "ops": a, "ch": c, "post": b, "shots": 160} for a in pres for c in chans for b in posts], fn="check_channel", axis="channels")
        ctx.enumerate([{"k": "ch", "ops": [], "ch": c, "post": [], "shots": None} for c in chans], fn="check_channel", axis="channels:analytic")
    if want("noncliff"):
        pres = [[]] + [[a] for a in tiny[:5]]
        ctx.enumerate([{"k": "nc", "gate": g, "ops": a, "pos": pos, "check": c} for g in NONCLIFF for a in pres for pos in ("end", "start") for c in (True, False)
                       if not (pos == "start" and not a)], fn="check_noncliff", axis="noncliff")
        ctx.enumerate([{"k": "nc", "prep": p, "w": w, "ops": a} for p in PREPS_BAD for w in (0, 2) for a in pres], fn="check_noncliff", axis="noncliff:prep")
    if want("misc"):
        specs = [{"k": "misc", "what": "mid-basisstate", "ops": a, "bits": b, "bw": w} for a in ([[t] for t in tiny] + [[["Hadamard", [0]], ["CNOT", [0, 1]]]])
                 for b, w in (([1], [2]), ([0], [2]), ([1, 1], [2, 1]), ([0, 1], [1, 2])) if not ({x for o in a for x in o[1]} & set(w))]
        specs += [{"k": "misc", "what": "idle", "ops": a, "m": m, "tableau": t} for a in ([["PauliX", [0]]], [["Hadamard", [0]], ["CNOT", [0, 1]]], [["Hadamard", [1]]])
                  for m in ("density_matrix", "vn_entropy", "purity", "mutual_info", "expval", "probs", "var") for t in (True, False)]
        ctx.enumerate(specs, fn="check_misc", axis="misc")
