"""C59 — Fourier analysis tools are sound (DESIGN §5.11).

E2/E1:
  cs  circuit_spectrum: every word (length <= 3, quick 2) over an alphabet of MARKED one-parameter gates (two markers,
      1- and 2-qubit generators incl. CRX with half-integer frequencies) separated by fixed generic mixing layers
  qs  qnode_spectrum: every word over an alphabet of encoding gates with LINEAR classical pre-processing
      (x, 2x, x/2, x+y, x-y/2, Rot(x,y,.3), CRX(x), array argument) + non-linear pre-processing that must be rejected
  co  coefficients: every real trigonometric polynomial with coefficients in {0, 1, -0.5j} (degree <= 2 in one variable,
      degree <= 1 in two variables) x requested degree x lowpass filter x broadcasting
  re  reconstruct: trigonometric polynomials / a QNode x {nums_frequency (Dirichlet kernels), spectra (general), custom
      shifts, f0 given} compared on a 17-point grid plus the shift points and period translates
Oracle: exact DFT (uniform grid, period 8*pi, more points than twice the largest possible frequency) of an independent
numpy state-vector evaluation of the same circuit; closed-form coefficients / values of the polynomials.
"""
import itertools
import math

from mc.engine import ok, bad, skip

PROPERTY = "C59"
LEVEL = "exploration"
TECHNIQUE = "bounded exhaustive enumeration of encoding circuits / trigonometric polynomials vs. exact DFT of a reference simulation"
LEVEL_TEXT = ("All words of length <=3 (quick 2) over alphabets of marked gates (circuit_spectrum) and linearly pre-processed "
              "encoding gates (qnode_spectrum) are analysed by the real tools and every frequency found by an exact DFT of an "
              "independent state-vector evaluation must be in the reported spectrum; every coefficient pattern over {0,1,-0.5j} "
              "is recovered by coefficients() and reconstruct() is compared with the function on a grid.")
LEVEL_NOTE = ("Reference = numpy state-vector simulation with closed-form gate matrices + numpy FFT on an alias-free grid; only "
              "soundness (reported >= actual) is decided, not tightness; non-linear pre-processing is only checked to be rejected "
              "for three functions (the implementation's linearity test is itself numerical); interfaces other than autograd are "
              "not explored.")
DESIGN_REF = "5.11 C59"
START = "fork"
PARALLEL = True
RULE = ("all words over the gate alphabets up to the length bound; all coefficient patterns over {0,1,-0.5j}; reconstruction "
        "menu x function menu; non-trivial = the function has at least one non-zero frequency")

PI = math.pi
BASE = 0.25          # frequency lattice of the alphabets
NGRID = 64           # > 2 * (max frequency 6 / BASE) + 1
GEN = [0.3, -1.234, 0.789, -0.456, 1.912, -2.345, 0.111, 2.718, 1.333, -0.777, 0.501, -1.9]

# circuit_spectrum alphabet: (gate, wires, marker, hyper)
CS_ALPHA = {
    "rx0a": ("RX", [0], "a"), "ry1a": ("RY", [1], "a"), "zz01a": ("IsingZZ", [0, 1], "a"), "crx01a": ("CRX", [0, 1], "a"),
    "ps0b": ("PhaseShift", [0], "b"), "rx1b": ("RX", [1], "b"), "mrz01b": ("MultiRZ", [0, 1], "b"), "prXY01a": ("PauliRot:XY", [0, 1], "a"),
    "cps01b": ("ControlledPhaseShift", [0, 1], "b"),
}
# qnode_spectrum alphabet: list of gates (gate, wires, [param expressions]) ; expression = (cx, cy, cz0, cz1, const)
QS_ALPHA = {
    "RX(x)": [("RX", [0], [(1, 0, 0, 0, 0)])],
    "RY(2x)": [("RY", [1], [(2, 0, 0, 0, 0)])],
    "RZ(x/2)": [("RZ", [0], [(0.5, 0, 0, 0, 0)])],
    "ZZ(x)": [("IsingZZ", [0, 1], [(1, 0, 0, 0, 0)])],
    "RX(y)": [("RX", [1], [(0, 1, 0, 0, 0)])],
    "Rot(x,y,.3)": [("Rot", [0], [(1, 0, 0, 0, 0), (0, 1, 0, 0, 0), (0, 0, 0, 0, 0.3)])],
    "CRX(x)": [("CRX", [0, 1], [(1, 0, 0, 0, 0)])],
    "RY(x+y)": [("RY", [0], [(1, 1, 0, 0, 0)])],
    "PS(x-y/2)": [("PhaseShift", [1], [(1, -0.5, 0, 0, 0)])],
    "RX(z0)RY(2z1)": [("RX", [0], [(0, 0, 1, 0, 0)]), ("RY", [1], [(0, 0, 0, 2, 0)])],
    "RZ(z0+z1)": [("RZ", [1], [(0, 0, 1, 1, 0)])],
    "RX(-x)": [("RX", [1], [(-1, 0, 0, 0, 0)])],
}
NONLINEAR = ["x*y", "x**2", "sin(x)"]
VALS = {"x": 0.37, "y": -1.1, "z": [0.9, -0.23]}


# ----------------------------------------------------------------------------------------------- reference simulation
def _gate_matrix(name, params):
    from mc import refgates as RG

    if name.startswith("PauliRot:"):
        return RG.pauli_rot(params[0], name.split(":")[1])
    if name == "MultiRZ":
        return RG.pauli_rot(params[0], "ZZ")
    return RG.matrix(name, params)


def _mixer(state, k):
    """fixed generic layer number k on two qubits: Rot x Rot then CNOT"""
    import numpy as np
    from mc import refgates as RG
    from mc.x_synth import _embed

    g = GEN
    a = RG.Rot(g[(3 * k) % 12], g[(3 * k + 1) % 12], g[(3 * k + 2) % 12])
    b = RG.Rot(g[(3 * k + 5) % 12], g[(3 * k + 7) % 12], g[(3 * k + 9) % 12])
    U = RG.matrix("CNOT") @ np.kron(a, b)
    return U @ state


def _mixer_ops(k, g=None):
    import pennylane as qp

    g = GEN if g is None else g
    qp.Rot(g[(3 * k) % 12], g[(3 * k + 1) % 12], g[(3 * k + 2) % 12], wires=0)
    qp.Rot(g[(3 * k + 5) % 12], g[(3 * k + 7) % 12], g[(3 * k + 9) % 12], wires=1)
    qp.CNOT(wires=[0, 1])


def _obs_matrix():
    import numpy as np
    from mc import refgates as RG

    return np.kron(RG.Z, RG.X)


def _ref_value(gates):
    """gates: list of (name, wires, numeric params); mixers in between; <Z0 X1>."""
    import numpy as np
    from mc.x_synth import _embed

    st = np.zeros(4, dtype=complex)
    st[0] = 1
    st = _mixer(st, 0)
    for k, (name, wires, params) in enumerate(gates):
        st = _embed(_gate_matrix(name, params), wires, 2) @ st
        st = _mixer(st, k + 1)
    return float(np.real(np.vdot(st, _obs_matrix() @ st)))


def _dft_support(fun):
    """frequencies (multiples of BASE) with non-zero coefficient of the 8*pi-periodic function fun(t)."""
    import numpy as np

    T = 2 * PI / BASE
    ts = np.arange(NGRID) * T / NGRID
    vals = np.array([fun(t) for t in ts])
    c = np.fft.fft(vals) / NGRID
    sup = set()
    for k in range(NGRID):
        if abs(c[k]) > 1e-9:
            kk = k if k <= NGRID // 2 else k - NGRID
            sup.add(round(abs(kk) * BASE, 6))
    return sorted(sup), float(np.max(np.abs(vals)))


def _contained(actual, reported):
    missing = [f for f in actual if not any(abs(f - abs(r)) < 1e-6 for r in reported)]
    return missing


def _wellformed(spec):
    """documented shape of a spectrum: sorted, symmetric, contains 0"""
    s = [float(v) for v in spec]
    if not s:
        return "empty"
    if sorted(s) != s:
        return "unsorted"
    if not any(abs(v) < 1e-12 for v in s):
        return "no-zero"
    if any(min(abs(v + w) for w in s) > 1e-9 for v in s):
        return "asymmetric"
    return None


# ----------------------------------------------------------------------------------------------- circuit_spectrum
def _make_op(name, par, wires):
    import pennylane as qp

    if name.startswith("PauliRot:"):
        return qp.PauliRot(par, name.split(":")[1], wires=wires)
    return getattr(qp, name)(par, wires=wires)


def check_cs(spec):
    import pennylane as qp
    from pennylane import numpy as pnp

    word = spec["w"]
    letters = [CS_ALPHA[l] for l in word]
    dev = qp.device("default.qubit", wires=2)

    @qp.qnode(dev)
    def circuit(a, b):
        _mixer_ops(0)
        for k, (name, wires, marker) in enumerate(letters):
            qp.fourier.mark(_make_op(name, a if marker == "a" else b, wires), marker)
            _mixer_ops(k + 1)
        return qp.expval(qp.Z(0) @ qp.X(1))

    enc = spec.get("enc")
    a0, b0 = 0.37, -1.1
    res = qp.fourier.circuit_spectrum(circuit, encoding_gates=enc)(pnp.array(a0), pnp.array(b0)) if enc is not None else \
        qp.fourier.circuit_spectrum(circuit)(pnp.array(a0), pnp.array(b0))
    present = sorted({m for _, _, m in letters})
    want_keys = sorted(set(enc)) if enc is not None else present
    if sorted(res.keys()) != want_keys:
        return bad("cs:keys", sorted(res.keys()), want_keys)
    # the real QNode and the reference agree at the base point (ties the reference circuit to the analysed one)
    val = float(circuit(pnp.array(a0), pnp.array(b0)))
    refv = _ref_value([(n, w, [a0 if m == "a" else b0]) for n, w, m in letters])
    if abs(val - refv) > 1e-9:
        return bad("cs:reference-disagrees-with-qnode", val, refv)
    out = {}
    for m in want_keys:
        if m not in present:
            if list(res[m]) != []:
                return bad("cs:absent-marker-not-empty", list(res[m]), [])
            continue
        wf = _wellformed(res[m])
        if wf:
            return bad(f"cs:spectrum-{wf}", [float(v) for v in res[m]], "sorted symmetric spectrum containing 0")

        def fun(t, m=m):
            return _ref_value([(n, w, [t if mm == m else (a0 if mm == "a" else b0)]) for n, w, mm in letters])

        actual, _ = _dft_support(fun)
        missing = _contained(actual, [float(v) for v in res[m]])
        if missing:
            return bad(f"cs:frequency-missing:{m}", {"reported": [float(v) for v in res[m]], "actual": actual}, "actual subset of reported")
        out[m] = [len(actual), len(res[m])]
    return ok(outcome=out, nontrivial=any(v[0] > 1 for v in out.values()))


# ----------------------------------------------------------------------------------------------- qnode_spectrum
def _expr(e, x, y, z):
    return e[0] * x + e[1] * y + e[2] * z[0] + e[3] * z[1] + e[4]


def check_qs(spec):
    import pennylane as qp
    from pennylane import numpy as pnp

    word = spec["w"]
    gates = [g for l in word for g in QS_ALPHA[l]]
    dev = qp.device("default.qubit", wires=2)
    nl = spec.get("nonlinear")

    const = spec.get("mix") == "const"   # mixing layers with Python-float parameters instead of a trainable QNode argument

    @qp.qnode(dev)
    def circuit(x, y, z, w):
        g = None if const else w
        _mixer_ops(0, g)
        for k, (name, wires, exprs) in enumerate(gates):
            pars = [_expr(e, x, y, z) if any(e[:4]) else (e[4] if const else e[4] * w[0] / GEN[0]) for e in exprs]
            getattr(qp, name)(*pars, wires=wires)
            _mixer_ops(k + 1, g)
        if nl == "x*y":
            qp.RX(x * y, wires=0)
        elif nl == "x**2":
            qp.RX(x ** 2, wires=0)
        elif nl == "sin(x)":
            qp.RX(pnp.sin(x), wires=0)
        return qp.expval(qp.Z(0) @ qp.X(1))

    x0, y0, z0 = pnp.array(VALS["x"], requires_grad=True), pnp.array(VALS["y"], requires_grad=True), pnp.array(VALS["z"], requires_grad=True)
    w0 = pnp.array(GEN, requires_grad=True)
    kw = {"argnum": [0, 1, 2]}
    if spec.get("sel") == "argnum":
        kw = {"argnum": [0, 2]}
    elif spec.get("sel") == "names":
        kw = {"encoding_args": {"y", "z"}}
    elif spec.get("sel") == "index":
        kw = {"encoding_args": {"z": [(1,)], "x": ...}}
    try:
        res = qp.fourier.qnode_spectrum(circuit, **kw)(x0, y0, z0, w0)
    except ValueError as e:
        if nl and "linear" in str(e):
            return ok(outcome="nonlinear-rejected", nontrivial=True)
        raise
    if nl:
        return bad(f"qs:nonlinear-preprocessing-accepted:{nl}", {k: {str(i): [float(f) for f in v] for i, v in d.items()} for k, d in res.items()},
                   "ValueError (only linear classical preprocessing is supported)")
    want = {"x": [()], "y": [()], "z": [(0,), (1,)]}
    if spec.get("sel") == "argnum":
        want = {"x": [()], "z": [(0,), (1,)]}
    elif spec.get("sel") == "names":
        want = {"y": [()], "z": [(0,), (1,)]}
    elif spec.get("sel") == "index":
        want = {"x": [()], "z": [(1,)]}
    got = {k: sorted(v.keys()) for k, v in res.items()}
    if got != {k: sorted(v) for k, v in want.items()}:
        return bad("qs:keys", {k: [list(i) for i in v] for k, v in got.items()}, {k: [list(i) for i in v] for k, v in want.items()})
    xv, yv, zv = VALS["x"], VALS["y"], list(VALS["z"])

    def ref(x, y, z):
        return _ref_value([(n, w, [_expr(e, x, y, z) for e in exprs]) for n, w, exprs in gates])

    val = float(circuit(x0, y0, z0, w0))
    if abs(val - ref(xv, yv, zv)) > 1e-9:
        return bad("qs:reference-disagrees-with-qnode", val, ref(xv, yv, zv))
    out = {}
    for arg, idxs in want.items():
        for idx in idxs:
            rep = [float(v) for v in res[arg][idx]]
            wf = _wellformed(rep)
            if wf:
                return bad(f"qs:spectrum-{wf}", rep, "sorted symmetric spectrum containing 0")
            if arg == "x":
                fun = lambda t: ref(t, yv, zv)
            elif arg == "y":
                fun = lambda t: ref(xv, t, zv)
            else:
                fun = lambda t, i=idx[0]: ref(xv, yv, [t if j == i else zv[j] for j in range(2)])
            actual, _ = _dft_support(fun)
            missing = _contained(actual, rep)
            if missing:
                sig = "qs:frequency-missing:constant-gate-parameters-present" if const else f"qs:frequency-missing:{arg}{list(idx)}"
                return bad(sig, {"reported": rep, "actual": actual, "missing": missing, "arg": arg, "idx": list(idx)},
                           "actual subset of reported")
            out[f"{arg}{list(idx)}"] = [actual, len(rep)]
    return ok(outcome=out, nontrivial=any(len(v[0]) > 1 for v in out.values()))


# ----------------------------------------------------------------------------------------------- coefficients
def _poly_1d(c1, c2, c0):
    """doc convention f(x) = sum_n c_n exp(-i n x), c_{-n} = conj(c_n)."""
    cs = {0: complex(c0), 1: complex(*c1), 2: complex(*c2)}
    cs[-1], cs[-2] = cs[1].conjugate(), cs[2].conjugate()
    return {k: v for k, v in cs.items()}


def _eval_poly(cs, x):
    """cs: {tuple n: c}; real-valued by construction"""
    import cmath

    tot = 0
    for n, c in cs.items():
        ph = sum(ni * xi for ni, xi in zip(n, x))
        tot += c * cmath.exp(-1j * ph)
    return tot.real


COEF = [[0, 0], [1, 0], [0, -0.5]]


def check_co(spec):
    import numpy as np
    import pennylane as qp

    nv = spec["nv"]
    if nv == 1:
        cs = {(k,): v for k, v in _poly_1d(spec["c"][0], spec["c"][1], spec["c0"]).items()}
        deg_true = (max([abs(k[0]) for k, v in cs.items() if v != 0] + [0]),)
    else:
        half = [(0, 1), (1, -1), (1, 0), (1, 1)]
        cs = {(0, 0): complex(spec["c0"])}
        for n, c in zip(half, spec["c"]):
            cs[n] = complex(*c)
            cs[(-n[0], -n[1])] = complex(*c).conjugate()
        deg_true = (max([abs(k[0]) for k, v in cs.items() if v != 0] + [0]), max([abs(k[1]) for k, v in cs.items() if v != 0] + [0]))
    degree = spec["deg"]
    dtuple = (degree,) * nv if isinstance(degree, int) else tuple(degree)
    calls = []

    def f(x):
        x = np.asarray(x, dtype=float) if not isinstance(x, (list, tuple)) else x
        calls.append(1)
        if spec.get("bc"):
            # broadcasting: last coordinate is an array
            last = np.asarray(x[-1], dtype=float)
            return np.array([_eval_poly(cs, [float(v) for v in x[:-1]] + [float(l)]) for l in last])
        return _eval_poly(cs, [float(v) for v in x])

    kw = {}
    if spec.get("lp"):
        kw["lowpass_filter"] = True
        if spec.get("thr") is not None:
            kw["filter_threshold"] = spec["thr"]
    if spec.get("bc"):
        kw["use_broadcasting"] = True
    res = np.asarray(qp.fourier.coefficients(f, nv, degree if isinstance(degree, int) else tuple(degree), **kw))
    shape = tuple(2 * d + 1 for d in dtuple)
    if res.shape != shape:
        return bad("co:shape", list(res.shape), list(shape))
    # band-limited w.r.t. what is computed?  without filter: true degree <= requested; with filter: true degree <= threshold
    thr = dtuple
    if spec.get("lp"):
        t = spec.get("thr")
        thr = tuple(2 * d for d in dtuple) if t is None else ((t,) * nv if isinstance(t, int) else tuple(t))
    if any(dt > th for dt, th in zip(deg_true, thr)):
        return skip("function not band-limited for the requested degree/threshold (aliasing documented)")
    exp_doc = np.zeros(shape, dtype=complex)   # result[n] = c_n, f = sum c_n exp(-i n x)  (documented convention and ordering)
    exp_fft = np.zeros(shape, dtype=complex)   # result[n] = c_{-n}
    for n, c in cs.items():
        if all(abs(ni) <= d for ni, d in zip(n, dtuple)):
            exp_doc[tuple(ni % s for ni, s in zip(n, shape))] = c
            exp_fft[tuple((-ni) % s for ni, s in zip(n, shape))] = c
    e_doc = float(np.max(np.abs(res - exp_doc)))
    e_fft = float(np.max(np.abs(res - exp_fft)))
    tag = f"nv={nv}:lp={bool(spec.get('lp'))}:bc={bool(spec.get('bc'))}"
    if e_doc > 1e-10:
        if e_fft <= 1e-10:
            return bad("co:conjugate-convention:result[n]=c[-n]", {"result": res.tolist(), "err_vs_documented": e_doc},
                       "result[n] = c_n with f(x) = sum_n c_n exp(-i n x) (docstring + qp_fourier.rst ordering [c_0, c_1, c_2, c_-2, c_-1])")
        return bad(f"co:coefficients-wrong:{tag}", {"result": res.tolist(), "err_doc": e_doc, "err_fft": e_fft}, exp_doc.tolist())
    return ok(outcome=[nv, list(deg_true), list(dtuple), bool(spec.get("lp")), len(calls)], nontrivial=any(deg_true))


# ----------------------------------------------------------------------------------------------- reconstruct
FUNS = {
    # name: (coefficients a0, [(freq, a, b)...]) : f(t) = a0 + sum a cos(freq t) + b sin(freq t)
    "const": (0.7, []),
    "f1": (0.2, [(1, 0.5, -0.3)]),
    "f12": (-0.1, [(1, 0.5, -0.3), (2, 0.25, 0.4)]),
    "f123": (0.3, [(1, 0.1, 0.2), (2, -0.3, 0.05), (3, 0.45, -0.15)]),
    "f3only": (0.0, [(3, 1.0, -0.5)]),
    "gap": (0.4, [(1, 0.3, 0.2), (4, -0.2, 0.1), (5, 0.15, -0.25)]),
    "nonint": (0.1, [(0.5, 0.3, -0.2), (2.3, 0.25, 0.35)]),
}
GRID17 = [-7.9 + 0.987 * i for i in range(17)]


def _fval(name, t):
    a0, terms = FUNS[name]
    return a0 + sum(a * math.cos(w * t) + b * math.sin(w * t) for w, a, b in terms)


def check_re(spec):
    import warnings

    import numpy as np
    import pennylane as qp
    from pennylane import numpy as pnp

    fname, mode = spec["f"], spec["mode"]
    x0 = spec.get("x0", 0.4)
    terms = FUNS[fname][1]
    calls = []
    if spec.get("arg") == "array":
        # the function depends on Y[1] only through the trig polynomial; Y[0] enters with another polynomial
        def fun(x, Y):
            calls.append(1)
            return _fval(fname, Y[1]) + 0.3 * pnp.cos(Y[0]) + 0.05 * x

        args = (pnp.array(0.9), pnp.array([1.9, x0]))
        ids, key, idx = {"Y": [(1,)]}, "Y", (1,)
        other = lambda t: _fval(fname, t) + 0.3 * math.cos(1.9) + 0.05 * 0.9
    else:
        def fun(x, Y):
            calls.append(1)
            return _fval(fname, x) + 0.3 * pnp.cos(Y[0])

        args = (pnp.array(x0), pnp.array([1.9, -0.5]))
        ids, key, idx = {"x": [()]}, "x", ()
        other = lambda t: _fval(fname, t) + 0.3 * math.cos(1.9)
    freqs = [w for w, _, _ in terms]
    kw = {}
    if mode == "nums":
        R = spec["R"]
        if any(abs(w - round(w)) > 1e-12 for w in freqs) or (freqs and max(freqs) > R):
            return skip("nums_frequency only describes consecutive integer frequencies <= R")
        kw = {"nums_frequency": {key: {idx: R}}}
        nshift = 2 * R + 1
    else:
        spectrum = [0.0] + sorted(set(freqs) | set(spec.get("extra", [])))
        if spec.get("symmetric"):
            spectrum = sorted({-w for w in spectrum} | set(spectrum))
        kw = {"spectra": {key: {idx: spectrum}}}
        Rg = len([w for w in spectrum if w > 0])
        nshift = 2 * Rg + 1
        if mode == "shifts":
            if spec.get("symmetric"):
                return skip("custom shifts are counted against len(spectrum)-1 (non-negative spectra documented)")
            fm = max(spectrum) if Rg else 1.0
            sh = [(-0.9 + 1.7 * i / max(1, nshift - 1) + 0.013 * i * i) * PI / fm for i in range(nshift)]
            if spec.get("zero_shift") and nshift > 1:
                sh[nshift // 2] = 0.0
            kw["shifts"] = {key: {idx: sh}}
    f0 = None
    if spec.get("f0"):
        f0 = other(x0)
    with warnings.catch_warnings():
        warnings.simplefilter("ignore")
        rec = qp.fourier.reconstruct(fun, ids, **kw)(*args, **({"f0": f0} if f0 is not None else {}))
    if sorted(rec.keys()) != [key] or list(rec[key].keys()) != [idx]:
        return bad("re:keys", [sorted(rec.keys())], [key])
    r = rec[key][idx]
    ncalls = len(calls)
    translates = [x0 + 2 * PI, x0 - 2 * PI]       # one period away from the (zero-)shift point
    pts = list(GRID17) + [x0, x0 + 1e-9, 0.0]
    worst, at = 0.0, None
    for t in pts:
        v = r(pnp.array(t))
        if v is None:
            return bad(f"re:returns-None:{mode}:{fname}", {"at": t, "f0_given": bool(spec.get("f0"))}, other(t))
        v = float(v)
        e = abs(v - other(t)) if v == v else float("inf")
        if e > worst:
            worst, at = e, t
    if worst > 1e-8:
        return bad(f"re:mismatch:{mode}:{fname}", {"max_err": worst, "at": at, "x0": x0}, "reconstruction == function (1e-8)")
    tw = 0.0
    for t in translates:
        v = float(r(pnp.array(t)))
        tw = max(tw, abs(v - other(t)) if v == v else float("inf"))
    if tw > 1e-8:
        return bad(f"re:period-translate-of-shift-point:{mode}", {"max_err": tw, "at": translates, "x0": x0, "R": spec.get("R")},
                   "reconstruction == function everywhere (1e-8)")
    if ncalls > nshift + 1:
        return bad(f"re:too-many-evaluations:{mode}", ncalls, f"<= {nshift} (+1 for f0)")
    return ok(outcome=[fname, mode, ncalls, int(round(-math.log10(max(worst, 1e-17))))], nontrivial=bool(terms))


def check_re_qnode(spec):
    """the docstring's QNode, reconstructed from the spectrum that qnode_spectrum reports (tool chain end to end)."""
    import warnings

    import numpy as np
    import pennylane as qp
    from pennylane import numpy as pnp

    dev = qp.device("default.qubit", wires=2)
    k = spec["mult"]

    @qp.qnode(dev)
    def circuit(x, Y):
        qp.RX(x, wires=0)
        qp.RY(Y[0], wires=0)
        qp.RY(Y[1], wires=1)
        qp.CNOT(wires=[0, 1])
        qp.RY(k * Y[1], wires=1)
        return qp.expval(qp.Z(0) @ qp.Z(1))

    x, Y = pnp.array(0.4, requires_grad=True), pnp.array([1.9, -0.5], requires_grad=True)
    spectra = qp.fourier.qnode_spectrum(circuit)(x, Y)
    if spec["mode"] == "nums":
        nums = {"x": {(): 1}, "Y": {(0,): 1, (1,): int(k) + 1}}
        with warnings.catch_warnings():
            warnings.simplefilter("ignore")
            rec = qp.fourier.reconstruct(circuit, None, nums)(x, Y)
    else:
        with warnings.catch_warnings():
            warnings.simplefilter("ignore")
            rec = qp.fourier.reconstruct(circuit, None, None, spectra)(x, Y)

    def ref(xv, y0, y1):
        from mc import refgates as RG

        st = np.zeros(4, dtype=complex)
        st[0] = 1
        st = np.kron(RG.RY(y0) @ RG.RX(xv), RG.RY(y1)) @ st
        st = np.kron(RG.I2, RG.RY(k * y1)) @ (RG.matrix("CNOT") @ st)
        return float(np.real(np.vdot(st, np.kron(RG.Z, RG.Z) @ st)))

    worst = 0.0
    for t in GRID17[::2] + [0.4, -0.5, 1.9]:
        for key, idx, fn in (("x", (), lambda t: ref(t, 1.9, -0.5)), ("Y", (0,), lambda t: ref(0.4, t, -0.5)), ("Y", (1,), lambda t: ref(0.4, 1.9, t))):
            v = float(rec[key][idx](pnp.array(t)))
            worst = max(worst, abs(v - fn(t)) if v == v else float("inf"))
    if worst > 1e-8:
        return bad(f"re:qnode-mismatch:{spec['mode']}", worst, "<= 1e-8")
    return ok(outcome=[k, spec["mode"], {a: {str(i): len(v) for i, v in d.items()} for a, d in spectra.items()}], nontrivial=True)


def check(spec):
    return {"cs": check_cs, "qs": check_qs, "co": check_co, "re": check_re, "rq": check_re_qnode}[spec["k"]](spec)


def run(ctx):
    import pennylane  # noqa: F401  (imported once in the parent; forked workers inherit it)
    from mc.explore import words

    q = ctx.quick
    only = ctx.only
    n = 2 if q else 3
    if only in (None, "cs"):
        specs = [{"k": "cs", "w": w} for w in words(sorted(CS_ALPHA), n, 1)]
        specs += [{"k": "cs", "w": w, "enc": enc} for w in list(words(sorted(CS_ALPHA), 1, 1)) + [["rx0a", "ps0b"], ["crx01a", "crx01a"]]
                  for enc in (["a"], ["b", "nope"])]
        ctx.enumerate(specs, fn="check_cs", axis="circuit_spectrum", chunk=4)
    if only in (None, "qs"):
        specs = [{"k": "qs", "w": w} for w in words(sorted(QS_ALPHA), n, 1)]
        specs += [{"k": "qs", "w": w, "mix": "const"} for w in list(words(sorted(QS_ALPHA), 1, 1)) + [["CRX(x)", l] for l in sorted(QS_ALPHA)]
                  + [[l, "CRX(x)"] for l in sorted(QS_ALPHA) if l != "CRX(x)"]]
        specs += [{"k": "qs", "w": w, "sel": s} for w in words(sorted(QS_ALPHA), 1, 1) for s in ("argnum", "names", "index")]
        specs += [{"k": "qs", "w": w, "nonlinear": nl} for w in [[], ["RX(x)"], ["RX(y)", "RY(2x)"]] for nl in NONLINEAR]
        ctx.enumerate(specs, fn="check_qs", axis="qnode_spectrum", chunk=2)
    if only in (None, "co"):
        specs = []
        for c0 in (0, 1):
            for c in itertools.product(COEF, repeat=2):
                for deg in (1, 2, 3):
                    for lp, thr in ((False, None), (True, None), (True, 3)):
                        for bc in (False, True):
                            specs.append({"k": "co", "nv": 1, "c0": c0, "c": [list(v) for v in c], "deg": deg, "lp": lp, "thr": thr, "bc": bc})
            for c in itertools.product(COEF, repeat=4):
                for deg in ((1, [1, 2]) if q else (1, 2, [1, 2], [2, 1])):
                    for lp in (False, True):
                        for bc in ((False,) if q else (False, True)):
                            specs.append({"k": "co", "nv": 2, "c0": c0, "c": [list(v) for v in c], "deg": deg, "lp": lp, "thr": None, "bc": bc})
        ctx.enumerate(specs, fn="check_co", axis="coefficients")
    if only in (None, "re"):
        specs = []
        for f in FUNS:
            for arg in ("scalar", "array"):
                for x0 in ((0.4,) if q else (0.4, 0.0, -2.9)):
                    for R in (1, 2, 3, 4):
                        for f0 in (False, True):
                            specs.append({"k": "re", "f": f, "mode": "nums", "R": R, "arg": arg, "x0": x0, "f0": f0})
                    for extra in ([], [1.5]):
                        for sym in (False, True):
                            specs.append({"k": "re", "f": f, "mode": "spectra", "extra": extra, "symmetric": sym, "arg": arg, "x0": x0, "f0": False})
                        specs.append({"k": "re", "f": f, "mode": "spectra", "extra": extra, "arg": arg, "x0": x0, "f0": True})
                        for zs in (False, True):
                            for f0 in (False, True):
                                specs.append({"k": "re", "f": f, "mode": "shifts", "extra": extra, "zero_shift": zs, "arg": arg, "x0": x0, "f0": f0})
        ctx.enumerate(specs, fn="check_re", axis="reconstruct")
        ctx.enumerate([{"k": "rq", "mult": kk, "mode": m} for kk in ((5.0,) if q else (5.0, 2.0)) for m in ("nums", "spectra")], fn="check_re_qnode",
                      axis="reconstruct_qnode", parallel=False)
    ctx.coverage["alphabet"] = {"circuit_spectrum_letters": sorted(CS_ALPHA), "qnode_spectrum_letters": sorted(QS_ALPHA), "nonlinear": NONLINEAR,
                                "coefficients": COEF, "functions": sorted(FUNS), "reconstruct_modes": ["nums_frequency", "spectra", "shifts", "f0"]}
    ctx.coverage["bound"] = {"word_length": n, "dft_grid": NGRID, "frequency_lattice": BASE, "grid_points": len(GRID17) + 5}
