"""C57 — State-preparation templates prepare the requested state (DESIGN §5.10).

E1: one spec = (template, arguments incl. a *named* target state, wire layout, route).  Targets are a finite menu built
from fixed formulas (no sampling): every basis state, every +-1 sign pattern and (n <= 2) every {1,i,-1,-i} phase pattern
of the uniform state, every support pattern (exact zeros in every position pattern) with generic complex amplitudes,
every pair of basis states with relative phases {1,-1,i,e^{i 0.3}}, dense generic states, unnormalised inputs with
normalize=True, padded inputs, sparse inputs, MPS tensors (own SVD construction, bond dimension 1-2(4)), all bitstrings.

Routes: `device` (default.qubit `state()`; preparations are device primitives, the others run through the device's own
decomposition), `dec` (hand-written `decomposition()`), `rule:<name>` (every applicable registered rule), the last two
fully expanded to closed-form gates by mc/x_tmpl.py on |0...0>.
Oracle: final state on (target wires + every auxiliary wire) == target (x) |0..0>; exact, or up to a global phase
where the docstring says so (StatePrep / AmplitudeEmbedding through their decomposition, CosineWindow's gate sequence,
single-determinant SumOfSlatersPrep / PartialUnaryStatePreparation = BasisState).
"""
import cmath
import hashlib
import itertools
import math

import numpy as np

from mc.engine import ok, bad, skip

PROPERTY = "C57"
LEVEL = "exploration"
TECHNIQUE = "exhaustive target-state menu vs. directly constructed state vectors (device primitive and fully expanded decompositions)"
LEVEL_TEXT = ("11 state-preparation templates on 1-3 qubits (thorough: 4): every basis state, all sign patterns, all zero patterns, all "
              "two-state superpositions with 4 relative phases, generic complex states, padding/normalisation/sparse inputs, MPS with "
              "bond dimension <= 2 (4), all bitstrings; prepared state compared with the target on default.qubit and through every "
              "decomposition rule expanded recursively to closed-form gates, auxiliary wires required to return to |0>. SumOfSlaters compressing "
              "encoding: every labelled tree of 7 determinants joined by single-bit flips over 6 bits (quick: a fixed quarter; thorough: 3 roots x 4 bit "
              "assignments) and a family of 8-determinant trees through select_sos_rows + compute_sos_encoding (codes distinct, b = U bits, register sizes), "
              "plus 6-wire instances on the device.")
LEVEL_NOTE = ("Reference = numpy vectors built from the docstring formulas; QROMStatePreparation is compared with the state obtained from "
              "angles truncated to the given number of precision bits (its documented approximation), on targets whose angles are not "
              "within 1e-6 of a truncation boundary. Global phase is ignored only where documented. lightning.tensor (native MPSPrep) "
              "and interfaces other than numpy are not explored.")
DESIGN_REF = "5.10 C57"
START = "fork"
PARALLEL = True
RULE = ("one case = (template, target descriptor, options, layout, route); non-trivial = target is not |0..0>")
ASSUMPTIONS = ["closed-form gate matrices of mc.refgates", "QubitUnitary / DiagonalQubitUnitary act as the matrix they carry"]

G1 = 0.3
LAYOUTS = ["seq", "work0", "mixed", "rev"]
_POOL = [2, "q", 0, "w", 7, "e", 1, "r", 9, "t", 3, "y", 11, "u", 4, "i", 13, "o", 5, "p", 6, "a", 8, "s", 10, "d", 12, "f"]


def layout(regs, lay):
    from mc.x_tmpl import layout as L

    return L(regs, lay)


# ================================================================================================= targets
def generic_amp(k, salt=0):
    """fixed generic complex number number k (no RNG)"""
    r = 0.35 + 0.6 * abs(math.sin(1.7 * k + 0.9 + 1.3 * salt))
    ph = 2.1 * k * k + 0.77 * k + 0.4 + 2.3 * salt
    return r * cmath.exp(1j * ph)


PHASES = {"1": 1, "-1": -1, "i": 1j, "-i": -1j, "g1": cmath.exp(1j * G1)}


def target(desc):
    """normalised target vector of a descriptor (pure function)"""
    kind, n = desc["kind"], desc["n"]
    d = 2 ** n
    v = np.zeros(d, dtype=complex)
    if kind == "basis":
        v[desc["idx"]] = 1
    elif kind == "signs":  # bit k of pat set -> amplitude k negative
        for k in range(d):
            v[k] = -1 if (desc["pat"] >> k) & 1 else 1
    elif kind == "phases4":  # base-4 digits of pat choose 1, i, -1, -i
        p = desc["pat"]
        for k in range(d):
            v[k] = [1, 1j, -1, -1j][p % 4]
            p //= 4
    elif kind == "support":  # bit k of mask set -> amplitude k non-zero (generic complex / real)
        for k in range(d):
            if (desc["mask"] >> k) & 1:
                a = generic_amp(k, desc.get("salt", 0))
                v[k] = a if not desc.get("real") else (abs(a) * (-1 if (k * 7 + desc.get("salt", 0)) % 3 == 0 else 1))
    elif kind == "pair":
        w = {"eq": (1, 1), "34": (0.6, 0.8)}[desc["w"]]
        v[desc["i"]] = w[0]
        v[desc["j"]] = w[1] * PHASES[desc["ph"]]
    elif kind == "generic":
        for k in range(d):
            v[k] = generic_amp(k, desc.get("salt", 0))
        if desc.get("real"):
            v = np.array([abs(x) * (-1 if (i * 5 + desc.get("salt", 0)) % 3 == 1 else 1) for i, x in enumerate(v)], dtype=complex)
    else:
        raise ValueError(kind)
    return v / np.linalg.norm(v)


def dense_targets(n, tier):
    """target menu for dense preparers on n wires"""
    d = 2 ** n
    thorough = tier == "thorough"
    out = [{"kind": "basis", "n": n, "idx": i} for i in range(d)]
    if n <= 2 or (n == 3 and thorough):
        out += [{"kind": "signs", "n": n, "pat": p} for p in range(1, 2 ** d)]
    else:
        out += [{"kind": "signs", "n": n, "pat": p} for p in range(1, 2 ** d) if bin(p).count("1") <= 2 or p in (0b10101010, 0b11110000, 0b01101001, 0b11111110)]
    if n == 1 or (n == 2 and thorough):
        out += [{"kind": "phases4", "n": n, "pat": p} for p in range(1, 4 ** d)]
    elif n == 2:
        out += [{"kind": "phases4", "n": n, "pat": p} for p in range(1, 4 ** d) if p % 4 == 0 or p < 64]
    pairs = [(i, j) for i in range(d) for j in range(i + 1, d)]
    for i, j in pairs:
        for ph in ("1", "-1", "i", "g1"):
            for w in (("eq", "34") if (thorough or n <= 2) else ("eq",)):
                out.append({"kind": "pair", "n": n, "i": i, "j": j, "ph": ph, "w": w})
    masks = range(1, 2 ** d) if (n <= 2 or thorough and n == 3) else [m for m in range(1, 2 ** d) if bin(m).count("1") in (1, 2, 3, d - 1, d) or m in (0b01011010, 0b00111100, 0b11001010)]
    for m in masks:
        out.append({"kind": "support", "n": n, "mask": m})
        if bin(m).count("1") > 1:
            out.append({"kind": "support", "n": n, "mask": m, "real": 1})
    out += [{"kind": "generic", "n": n, "salt": s} for s in (0, 1)] + [{"kind": "generic", "n": n, "salt": 2, "real": 1}]
    return out


def sparse_targets(n, kmax, tier):
    """(indices, coefficient-menu-name) for sparse preparers: every index subset of size 1..kmax"""
    d = 2 ** n
    out = []
    for k in range(1, kmax + 1):
        for idx in itertools.combinations(range(d), k):
            out.append(list(idx))
    return out


COEFFS = ["pos", "signs", "cplx"]


def coeff_vector(name, k):
    if name == "pos":
        c = np.array([0.5 + 0.25 * i for i in range(k)], dtype=complex)
    elif name == "signs":
        c = np.array([(0.4 + 0.3 * i) * (-1 if i % 2 == 0 else 1) for i in range(k)], dtype=complex)
    else:
        c = np.array([generic_amp(i, 3) for i in range(k)], dtype=complex)
    return c / np.linalg.norm(c)


# ================================================================================================= MPS (own construction)
def mps_from_state(psi, n):
    """Right-canonical MPS [A0 (2,b), A1 (b,2,b'), ..., A_{n-1} (b,2)] of a state vector by successive SVDs from the right;
    bond dimension = rank rounded up to a power of two (extra rows are orthonormal singular vectors of weight zero, so
    every site tensor stays an isometry).  Contraction reproduces psi exactly."""
    tensors = []
    M = np.asarray(psi, dtype=complex).reshape(2 ** (n - 1), 2)
    rd = 1
    for site in range(n - 1, 0, -1):
        # M: rows = sites 0..site-1, columns = (physical index of `site`, right bond)
        U, S, Vh = np.linalg.svd(M, full_matrices=False)
        r = max(1, int(np.sum(S > 1e-12)))
        chi = 1
        while chi < r:
            chi *= 2
        tensors.append(Vh[:chi].reshape(chi, 2, rd))
        M = (U[:, :chi] * S[:chi]).reshape(2 ** (site - 1), 2 * chi)
        rd = chi
    tensors.append(M.reshape(2, rd))
    tensors = tensors[::-1]
    tensors[-1] = tensors[-1].reshape(tensors[-1].shape[0], 2)
    return tensors


def contract_mps(mps):
    v = mps[0]  # (2, b)
    for A in mps[1:-1]:
        v = np.tensordot(v, A, axes=(-1, 0))  # (..., 2, b')
    v = np.tensordot(v, mps[-1], axes=(-1, 0))
    return v.reshape(-1)


# ================================================================================================= QROM state prep reference
def qrom_reference(psi, n, m):
    """State prepared by the documented algorithm with angles truncated to m bits (None if an angle sits on a truncation
    boundary within 1e-6, where floating point decides)."""
    probs = np.abs(psi) ** 2
    d = 2 ** n

    def trunc(val):  # val in [0, 1]; saturates at 0.11..1
        x = val * 2 ** m
        if abs(x - round(x)) < 1e-6 and round(x) != 0 and abs(x - round(x)) > 0:
            return None
        if abs(x - round(x)) < 1e-6:
            x = round(x)
        f = math.floor(x + 1e-9)
        if f >= 2 ** m:
            f = 2 ** m - 1
        return f / 2 ** m

    amp = np.ones(d, dtype=complex)
    for i in range(n):
        blk = d // 2 ** i
        for j in range(2 ** i):
            seg = probs[j * blk:(j + 1) * blk]
            den = float(np.sum(seg))
            num = float(np.sum(seg[: blk // 2]))
            ratio = num / den if den > 1e-300 else 0.0
            theta = 2 * math.acos(math.sqrt(min(1.0, max(0.0, ratio)))) / math.pi
            tb = trunc(theta)
            if tb is None:
                return None
            c, s = math.cos(math.pi * tb / 2), math.sin(math.pi * tb / 2)
            amp[j * blk: j * blk + blk // 2] *= c
            amp[j * blk + blk // 2:(j + 1) * blk] *= s
    ph = np.angle(psi) % (2 * math.pi)
    if not np.allclose(ph, 0.0):
        for k in range(d):
            tb = trunc(ph[k] / (2 * math.pi))
            if tb is None:
                return None
            amp[k] *= cmath.exp(2j * math.pi * tb)
    return amp


# ================================================================================================= templates
# each: regs(a) -> [(name, size)] ('work*' / aux registers must end in |0>); build(a, W) -> op;
#       expected(a) -> vector on the 'wires' register (None = not judged); phase_free(a, route) -> bool
def _vec(a):
    return target(a["tg"])


class StatePrepT:
    name = "StatePrep"

    @staticmethod
    def regs(a):
        return [("wires", a["tg"]["n"])]

    @staticmethod
    def _arg(a):
        v = _vec(a)
        mode = a.get("mode", "plain")
        kw = {}
        if mode == "unnorm":
            v = v * 3.7
            kw["normalize"] = True
        elif mode in ("pad0", "padc"):
            # drop trailing entries equal to the pad value after rescaling: build a shorter vector + pad constant
            pad = 0.0 if mode == "pad0" else 0.5j
            full = np.array(v)
            keep = a["keep"]
            short = full[:keep].copy()
            vec = np.concatenate([short, np.full(len(full) - keep, pad, dtype=complex)])
            kw["pad_with"] = pad
            kw["normalize"] = True
            return short, kw, vec / np.linalg.norm(vec)
        return v, kw, _vec(a)

    @classmethod
    def build(cls, a, W):
        import pennylane as qp
        import scipy.sparse as sp

        v, kw, _ = cls._arg(a)
        if a.get("sparse"):
            v = sp.csr_matrix(v.reshape(1, -1))
        if cls.name == "AmplitudeEmbedding":
            return qp.AmplitudeEmbedding(v, wires=W["wires"], **kw)
        return qp.StatePrep(v, wires=W["wires"], **kw)

    @classmethod
    def expected(cls, a):
        return cls._arg(a)[2]

    @staticmethod
    def phase_free(a, route):
        return route != "device"  # "up to a global phase" through the decomposition


class AmplitudeEmbeddingT(StatePrepT):
    name = "AmplitudeEmbedding"


class BasisStateT:
    name = "BasisState"

    @staticmethod
    def regs(a):
        return [("wires", a["n"])]

    @staticmethod
    def build(a, W):
        import pennylane as qp

        n = a["n"]
        bits = [(a["idx"] >> (n - 1 - i)) & 1 for i in range(n)]
        form = a.get("form", "list")
        arg = np.array(bits) if form == "list" else (tuple(bits) if form == "tuple" else bits)
        if a.get("cls") == "BasisEmbedding":
            return qp.BasisEmbedding(arg, wires=W["wires"])
        return qp.BasisState(arg, wires=W["wires"])

    @staticmethod
    def expected(a):
        v = np.zeros(2 ** a["n"], dtype=complex)
        v[a["idx"]] = 1
        return v

    @staticmethod
    def phase_free(a, route):
        return False


class MottonenT:
    name = "MottonenStatePreparation"

    @staticmethod
    def regs(a):
        return [("wires", a["tg"]["n"])]

    @staticmethod
    def build(a, W):
        import pennylane as qp

        return qp.MottonenStatePreparation(_vec(a), wires=W["wires"])

    expected = staticmethod(_vec)

    @staticmethod
    def phase_free(a, route):
        return False


class MultiplexerT(MottonenT):
    name = "MultiplexerStatePreparation"

    @staticmethod
    def build(a, W):
        import pennylane as qp

        return qp.MultiplexerStatePreparation(_vec(a), wires=W["wires"])


class CosineWindowT:
    name = "CosineWindow"

    @staticmethod
    def regs(a):
        return [("wires", a["n"])]

    @staticmethod
    def build(a, W):
        import pennylane as qp

        return qp.CosineWindow(wires=W["wires"])

    @staticmethod
    def expected(a):
        m = a["n"]
        return np.array([math.sqrt(2 ** (1 - m)) * math.cos(math.pi * k / 2 ** m - math.pi / 2) for k in range(2 ** m)], dtype=complex)

    @staticmethod
    def phase_free(a, route):
        return route != "device"


class SuperpositionT:
    name = "Superposition"

    @staticmethod
    def regs(a):
        return [("wires", a["n"]), ("work", 1)]

    @staticmethod
    def build(a, W):
        import pennylane as qp

        n = a["n"]
        bases = [[(i >> (n - 1 - b)) & 1 for b in range(n)] for i in a["idx"]]
        return qp.Superposition(coeff_vector(a["c"], len(a["idx"])), bases, W["wires"], W["work"][0] if a.get("scalar_work") else W["work"])

    @staticmethod
    def expected(a):
        v = np.zeros(2 ** a["n"], dtype=complex)
        v[a["idx"]] = coeff_vector(a["c"], len(a["idx"]))
        return v

    @staticmethod
    def phase_free(a, route):
        return False


class SumOfSlatersT:
    name = "SumOfSlatersPrep"

    @staticmethod
    def _sizes(a):
        import pennylane as qp

        return qp.SumOfSlatersPrep.required_register_sizes(tuple(a["idx"]), a["n"])

    @classmethod
    def regs(cls, a):
        r = [("wires", a["n"])]
        if a.get("static"):
            s = cls._sizes(a)
            r += [("work_enum", s["enumeration_wires"]), ("work_id", s["identification_wires"]), ("work_qrom", s["qrom_work_wires"]),
                  ("work_mcx", s["mcx_cache_wires"])]
        return r

    @staticmethod
    def build(a, W):
        import pennylane as qp

        kw = {}
        if a.get("static"):
            kw = {"enumeration_wires": W["work_enum"], "identification_wires": W["work_id"], "qrom_work_wires": W["work_qrom"],
                  "mcx_cache_wires": W["work_mcx"]}
        return qp.SumOfSlatersPrep(coeff_vector(a["c"], len(a["idx"])), W["wires"], tuple(a["idx"]), **kw)

    expected = staticmethod(SuperpositionT.expected)

    @staticmethod
    def phase_free(a, route):
        return len(a["idx"]) == 1  # a single determinant is prepared as BasisState


class PartialUnaryT:
    name = "PartialUnaryStatePreparation"

    @staticmethod
    def regs(a):
        return [("wires", a["n"]), ("work", a["ww"])]

    @staticmethod
    def build(a, W):
        import pennylane as qp

        return qp.PartialUnaryStatePreparation(coeff_vector(a["c"], len(a["idx"])), W["wires"], tuple(a["idx"]), W["work"])

    expected = staticmethod(SuperpositionT.expected)

    @staticmethod
    def phase_free(a, route):
        return len(a["idx"]) == 1


class MPSPrepT:
    name = "MPSPrep"

    @staticmethod
    def _mps(a):
        psi = _vec(a)
        n = a["tg"]["n"]
        mps = mps_from_state(psi, n)
        if a.get("gauge"):
            # non-canonical representation of the same state: insert G, G^-1 on every bond and rescale
            out = [np.array(t) for t in mps]
            for b in range(n - 1):
                chi = out[b].shape[-1]
                G = np.array([[1.5 + 0.2 * ((i + 2 * j + b) % 3) * (1 if i == j else 0.4) if (i == j or (i + j) % 2) else 0.0 for j in range(chi)] for i in range(chi)], dtype=complex)
                G = G + np.eye(chi)
                Gi = np.linalg.inv(G)
                out[b] = np.tensordot(out[b], G, axes=(-1, 0))
                out[b + 1] = np.tensordot(Gi, out[b + 1], axes=(1, 0))
            out[0] = out[0] * 1.7
            return out
        return mps

    @classmethod
    def regs(cls, a):
        return [("wires", a["tg"]["n"]), ("work", a["ww"])]

    @classmethod
    def build(cls, a, W):
        import pennylane as qp

        return qp.MPSPrep(cls._mps(a), wires=W["wires"], work_wires=W["work"], right_canonicalize=bool(a.get("gauge")))

    @classmethod
    def expected(cls, a):
        v = contract_mps(cls._mps(a))
        return v / np.linalg.norm(v)

    @staticmethod
    def phase_free(a, route):
        return bool(a.get("gauge"))  # canonicalisation fixes the state only up to a phase


class QROMStatePrepT:
    name = "QROMStatePreparation"

    @staticmethod
    def regs(a):
        return [("wires", a["tg"]["n"]), ("work_prec", a["m"]), ("work", a["ww"])]

    @staticmethod
    def build(a, W):
        import pennylane as qp

        return qp.QROMStatePreparation(_vec(a), W["wires"], W["work_prec"], W["work"] if a["ww"] else None)

    @staticmethod
    def expected(a):
        return qrom_reference(_vec(a), a["tg"]["n"], a["m"])

    @staticmethod
    def phase_free(a, route):
        return False


TEMPLATES = {c.name: c for c in (StatePrepT, AmplitudeEmbeddingT, BasisStateT, MottonenT, MultiplexerT, CosineWindowT, SuperpositionT,
                                 SumOfSlatersT, PartialUnaryT, MPSPrepT, QROMStatePrepT)}


# ================================================================================================= enumeration
def instances(tier):
    thorough = tier == "thorough"
    out = []
    ALL, SEQ, TWO = LAYOUTS, ["seq"], ["seq", "mixed"]

    def add(t, a, lays):
        out.append((t, a, lays))

    NMAX = 3
    # dense preparers
    for n in range(1, NMAX + 1):
        tg = dense_targets(n, tier)
        for i, d in enumerate(tg):
            lays = TWO if (d["kind"] == "generic" or i % 17 == 0) else SEQ
            for t in ("MottonenStatePreparation", "MultiplexerStatePreparation", "StatePrep"):
                add(t, {"tg": d}, lays)
            if d["kind"] in ("generic", "pair", "basis") or i % 5 == 0:
                add("AmplitudeEmbedding", {"tg": d}, SEQ)
        # option menu on a reduced target list
        for d in [x for x in tg if x["kind"] in ("generic",) or (x["kind"] == "support" and bin(x["mask"]).count("1") == 2 and not x.get("real"))][: (12 if thorough else 6)]:
            for t in ("StatePrep", "AmplitudeEmbedding"):
                add(t, {"tg": d, "mode": "unnorm"}, SEQ)
                add(t, {"tg": d, "sparse": 1}, SEQ) if t == "StatePrep" else None
                add(t, {"tg": d, "sparse": 1, "mode": "unnorm"}, SEQ) if t == "StatePrep" else None
        for keep in range(1, 2 ** n):
            for mode in ("pad0", "padc"):
                for t in ("StatePrep", "AmplitudeEmbedding"):
                    add(t, {"tg": {"kind": "generic", "n": n, "salt": 0}, "mode": mode, "keep": keep}, SEQ)
    if thorough:
        for d in [{"kind": "generic", "n": 4, "salt": 0}, {"kind": "generic", "n": 4, "salt": 2, "real": 1}, {"kind": "support", "n": 4, "mask": 0b1000010000100001},
                  {"kind": "signs", "n": 4, "pat": 0b1010110011110000}] + [{"kind": "basis", "n": 4, "idx": i} for i in range(16)]:
            for t in ("MottonenStatePreparation", "MultiplexerStatePreparation", "StatePrep"):
                add(t, {"tg": d}, SEQ)
    # bitstrings
    for n in range(1, 5 if thorough else 4):
        for idx in range(2 ** n):
            for form in ("list", "pylist"):
                add("BasisState", {"n": n, "idx": idx, "form": form}, ALL if idx in (1, 2 ** n - 2) else SEQ)
            for form in ("list", "tuple"):
                add("BasisState", {"n": n, "idx": idx, "form": form, "cls": "BasisEmbedding"}, SEQ)
    # CosineWindow
    for n in range(1, 6 if thorough else 5):
        add("CosineWindow", {"n": n}, ALL)
    # sparse preparers
    for n in range(1, 4):
        for idx in sparse_targets(n, 3, tier):
            orders = [idx] + ([idx[::-1]] if len(idx) > 1 else []) + ([[idx[1], idx[2], idx[0]]] if len(idx) == 3 else [])
            for o in orders:
                for c in COEFFS:
                    if len(o) == 1 and c == "signs":
                        continue
                    heavy = n == 3 and len(o) == 3
                    if heavy and not thorough and (c == "signs" or o != idx) and (sum(o) % 3):
                        continue
                    add("Superposition", {"n": n, "idx": o, "c": c}, TWO if (c == "cplx" and o == idx and sum(o) % 4 == 1) else SEQ)
                    if not thorough and o != idx and c != "cplx":
                        continue
                    add("SumOfSlatersPrep", {"n": n, "idx": o, "c": c}, SEQ)
                    if o == idx and c == "cplx":
                        add("SumOfSlatersPrep", {"n": n, "idx": o, "c": c, "static": 1}, TWO if sum(o) % 4 == 1 else SEQ)
                    k = len(o)
                    need = 0 if k == 1 else max(math.ceil(math.log2(k)) - 1, 1)
                    for ww in sorted({0, need, need + 1}):
                        if ww != need and (c != "cplx" or o != idx):
                            continue
                        add("PartialUnaryStatePreparation", {"n": n, "idx": o, "c": c, "ww": ww}, SEQ)
    if True:
        # 4 entries (two subspace wires) for PartialUnary / SumOfSlaters on 3 wires
        for idx in itertools.combinations(range(8), 4):
            if not thorough and (sum(idx) % 5):
                continue
            add("PartialUnaryStatePreparation", {"n": 3, "idx": list(idx), "c": "cplx", "ww": 1}, SEQ)
            add("SumOfSlatersPrep", {"n": 3, "idx": list(idx), "c": "cplx"}, SEQ)
    # SumOfSlaters through the COMPRESSING encoding (7 determinants forming a single-bit-flip tree over 6 wires; see check_sos_encoding)
    trees = [([0, 1, 2, 3, 4], 0, [5, 4, 3, 2, 1, 0]), ([0, 0, 0, 0, 0], 21, [0, 1, 2, 3, 4, 5])]
    if thorough:
        trees += [([3, 3, 1, 1, 0], 0, [2, 0, 4, 1, 5, 3]), ([6, 5, 4, 3, 2], 63, [5, 4, 3, 2, 1, 0]), ([0, 6, 0, 6, 0], 0, [1, 2, 3, 4, 5, 0]),
                  ([2, 2, 5, 5, 2], 42, [0, 1, 2, 3, 4, 5])]
    for pr, root, perm in trees:
        add("SumOfSlatersPrep", {"n": 6, "idx": _tree_indices(pr, root, perm), "c": "cplx", "static": 1}, SEQ)
    # MPSPrep
    for n in range(2, 5 if thorough else 4):
        tg = [d for d in dense_targets(min(n, 3), tier) if d["kind"] == "generic" or (d["kind"] == "pair" and (thorough or d["ph"] in ("i", "g1")))
              or (d["kind"] == "support" and not d.get("real") and d["mask"] % 3 == 0)]
        if n == 4:
            tg = [{"kind": "generic", "n": 4, "salt": 0}, {"kind": "support", "n": 4, "mask": 0b1000010000100001}, {"kind": "pair", "n": 4, "i": 0, "j": 15, "ph": "i", "w": "34"},
                  {"kind": "pair", "n": 4, "i": 3, "j": 5, "ph": "g1", "w": "eq"}]
        else:
            tg = [dict(d, n=n) for d in tg if d["n"] == n]
        for d in tg:
            need = max(1, n // 2 if n < 4 else 2)
            for ww in (need, need + 1):
                add("MPSPrep", {"tg": d, "ww": ww}, TWO if d["kind"] == "generic" else SEQ)
            if d["kind"] in ("generic", "pair"):
                add("MPSPrep", {"tg": d, "ww": need, "gauge": 1}, SEQ)
    # QROMStatePreparation: dyadic targets (signs / phases4 / supports of uniform magnitude on sub-cubes) + generic with truncation
    for n in (1, 2) + ((3,) if thorough else ()):
        d = 2 ** n
        tg = [{"kind": "basis", "n": n, "idx": i} for i in range(d)]
        tg += [{"kind": "signs", "n": n, "pat": p} for p in range(0, 2 ** d, 1 if n < 3 else 37)]
        tg += [{"kind": "phases4", "n": n, "pat": p} for p in range(1, 4 ** d, 1 if n == 1 else (7 if n == 2 else 4099))]
        tg += [{"kind": "pair", "n": n, "i": i, "j": j, "ph": ph, "w": "eq"} for i in range(d) for j in range(i + 1, d) for ph in ("1", "-1", "i")]
        tg += [{"kind": "generic", "n": n, "salt": s} for s in (0, 1)] + [{"kind": "generic", "n": n, "salt": 2, "real": 1}]
        for dsc in tg:
            for m in (1, 2, 3):
                if m == 1 and dsc["kind"] == "phases4":
                    continue
                for ww in (0, 1):
                    if ww and not (dsc["kind"] in ("generic", "pair")):
                        continue
                    add("QROMStatePreparation", {"tg": dsc, "m": m, "ww": ww}, TWO if dsc["kind"] == "generic" and m == 2 else SEQ)
    return out


def routes_for(t, a):
    from mc import x_tmpl as X

    Tm = TEMPLATES[t]
    W = layout(Tm.regs(a), "seq")
    op = Tm.build(a, W)
    rs = ["device"]
    if X.overrides_decomposition(op):
        rs.append("dec")
    for name, _ in X.rules(op):
        rs.append("rule:" + name)
    return rs



# ================================================================================================= SumOfSlaters: classical encoding core
# select_sos_rows keeps a row only if two columns differ in that row alone, so r kept rows need a forest of r "single-bit" edges between
# the D columns (r <= D-1).  The compressing branch of compute_sos_encoding (r > 2*ceil(log2 D) - 1) is therefore first reached with D = 7
# determinants that form a TREE of single-bit flips over 6 distinct bits (t = 1, _find_single_w) and D = 8 over 7 bits (t = 2, _find_w):
# none of the 1-3 wire instances above reaches it.  This family enumerates those index sets exhaustively at the classical seam.
def _tree_indices(prufer, root, perm):
    """Index set = node values of the labelled tree given by a Pruefer sequence; edge k (in decoding order) flips bit perm[k]."""
    n = len(prufer) + 2
    deg = [1] * n
    for x in prufer:
        deg[x] += 1
    edges = []
    pr = list(prufer)
    for x in pr:
        leaf = min(i for i in range(n) if deg[i] == 1)
        edges.append((leaf, x))
        deg[leaf] -= 1
        deg[x] -= 1
    u, v = [i for i in range(n) if deg[i] == 1]
    edges.append((u, v))
    adj = {i: [] for i in range(n)}
    for k, (a, b) in enumerate(edges):
        adj[a].append((b, perm[k]))
        adj[b].append((a, perm[k]))
    val, todo = {0: root}, [0]
    while todo:
        a = todo.pop()
        for b, bit in adj[a]:
            if b not in val:
                val[b] = val[a] ^ (1 << bit)
                todo.append(b)
    return [val[i] for i in range(n)]


def check_sos_encoding(spec):
    import pennylane as qp
    from pennylane.templates.state_preparations.sum_of_slaters import compute_sos_encoding, select_sos_rows

    nbits = spec["nbits"]
    idx = _tree_indices(spec["prufer"], spec["root"], spec["perm"])
    D = len(idx)
    bits = np.array([[(v >> (nbits - 1 - k)) & 1 for v in idx] for k in range(nbits)], dtype=int)
    sel, sub = select_sos_rows(bits)
    sub = np.asarray(sub)
    r = sub.shape[0]
    if len({tuple(col) for col in sub.T}) != D or not np.array_equal(sub, bits[list(sel)]):
        return bad(f"SumOfSlaters:select_sos_rows:columns-collide:D={D}", [list(sel), sub.tolist()], "distinct columns, rows = bits[selectors]", indices=idx)
    U, b = compute_sos_encoding(sub)
    U, b = np.asarray(U), np.asarray(b)
    d = int(math.ceil(math.log2(D)))
    m = min(r, 2 * d - 1)
    tag = f"D={D}:r={r}:t={max(r - (2 * d - 1), 0)}"
    if b.shape != (m, D) or U.shape != (m, r):
        return bad(f"SumOfSlaters:encoding:shape:{tag}", [list(U.shape), list(b.shape)], [[m, r], [m, D]], indices=idx)
    if not np.array_equal((U @ sub) % 2, b % 2):
        return bad(f"SumOfSlaters:encoding:b-is-not-U-bits:{tag}", b.tolist(), ((U @ sub) % 2).tolist(), indices=idx)
    if len({tuple(col) for col in (b % 2).T}) != D:
        return bad(f"SumOfSlaters:encoding:identification-codes-collide:{tag}", (b % 2).tolist(), "D distinct columns", indices=idx, U=U.tolist())
    sizes = qp.SumOfSlatersPrep.required_register_sizes(tuple(idx), nbits)
    want_id = m if r > m else 0  # documented: the identity encoding re-uses the system wires as identification register
    if sizes["identification_wires"] != want_id or sizes["enumeration_wires"] != d:
        return bad(f"SumOfSlaters:register-sizes:{tag}", sizes, {"identification_wires": want_id, "enumeration_wires": d}, indices=idx)
    return ok(outcome=[r, m, bool(np.array_equal(U, np.eye(m, r, dtype=int)))], nontrivial=r > m)


def sos_encoding_specs(tier):
    thorough = tier == "thorough"
    out = []
    perms6 = [list(range(6)), list(range(5, -1, -1))] + ([[2, 0, 4, 1, 5, 3], [1, 2, 3, 4, 5, 0]] if thorough else [])
    for root in ((0,) if not thorough else (0, 21, 63)):
        for pr in itertools.product(range(7), repeat=5):                    # all 16807 labelled trees on 7 determinants
            if not thorough and (sum(pr) + pr[0]) % 4:
                continue                                                     # quick: a fixed quarter of the trees
            for perm in perms6:
                out.append({"nbits": 6, "prufer": list(pr), "root": root, "perm": perm})
    for pr in itertools.product(range(3 if not thorough else 4), repeat=6):  # trees on 8 determinants over 7 bits (t = 2)
        for perm in ([list(range(7)), list(range(6, -1, -1))] if thorough else [list(range(6, -1, -1))]):
            out.append({"nbits": 7, "prufer": list(pr), "root": 0, "perm": perm})
    for pr in itertools.product(range(5), repeat=3):                         # small trees (identity branch), all of them
        out.append({"nbits": 4, "prufer": list(pr), "root": 5, "perm": [3, 1, 0, 2]})
    return out

# ================================================================================================= evaluation
HARNESS = (ImportError, MemoryError, OSError, KeyboardInterrupt, SystemExit)


def _variant(t, a):
    if t in ("StatePrep", "AmplitudeEmbedding"):
        return a.get("mode", "plain") + (",sparse" if a.get("sparse") else "")
    if t == "BasisState":
        return a.get("cls", "BasisState") + "," + a.get("form", "list")
    if t in ("Superposition", "SumOfSlatersPrep", "PartialUnaryStatePreparation"):
        v = f"k={len(a['idx'])}"
        if t == "SumOfSlatersPrep":
            v += ",static" if a.get("static") else ",dyn"
        if t == "PartialUnaryStatePreparation":
            k = len(a["idx"])
            need = 0 if k == 1 else max(math.ceil(math.log2(k)) - 1, 1)
            v += ",dyn" if a["ww"] < need else (",extra" if a["ww"] > need else ",static")
        return v
    if t == "MPSPrep":
        return f"gauge,sites={a['tg']['n']}" if a.get("gauge") else "canonical"
    if t == "MultiplexerStatePreparation":
        v = target(a["tg"])
        return "upper-half-empty" if float(np.sum(np.abs(v[len(v) // 2:]) ** 2)) < 1e-20 else "regular"
    if t == "QROMStatePreparation":
        return f"m={a['m']}," + a["tg"]["kind"]
    if "tg" in a:
        return a["tg"]["kind"] + (",real" if a["tg"].get("real") else "")
    return "-"


def check(spec):
    from mc import x_tmpl as X

    t, a, lay, route = spec["t"], spec["a"], spec["lay"], spec["route"]
    Tm = TEMPLATES[t]
    variant = _variant(t, a)
    stage = "build"
    try:
        regs = Tm.regs(a)
        W = layout(regs, lay)
        op = Tm.build(a, W)
        stage = route
        return _check(spec, Tm, regs, W, op, variant)
    except X.Unsupported:
        raise
    except HARNESS as e:
        if not (isinstance(e, ImportError) and "autoray" in str(e)):
            raise
        # autoray reports a missing backend function as ImportError: that is the implementation failing, not the harness
        return bad(f"{t}[{variant}]:{stage}:exception:ImportError(autoray)", f"{e}"[:300], "no exception")
    except Exception as e:  # noqa: BLE001
        import traceback

        return bad(f"{t}[{variant}]:{stage}:exception:{type(e).__name__}", f"{type(e).__name__}: {e}"[:300], "no exception",
                   traceback=traceback.format_exc()[-1500:])


def _check(spec, Tm, regs, W, op, variant):
    from mc import x_tmpl as X

    t, a, lay, route = spec["t"], spec["a"], spec["lay"], spec["route"]
    order = [w for name, _ in regs for w in W[name]]
    n = len(order)
    nsys = regs[0][1]
    exp_sys = Tm.expected(a)
    if exp_sys is None:
        return skip("target sits on a truncation boundary of the precision register")
    exp_sys = np.asarray(exp_sys, dtype=complex)
    E = np.zeros(2 ** n, dtype=complex)
    E[:: 2 ** (n - nsys)] = exp_sys  # auxiliary registers in |0>
    sigbase = f"{t}[{variant}]:{route}"
    extra = {"op": repr(op)[:160]}
    gates = None
    if route == "device":
        out, leaked = X.device_state([op], order)
    else:
        if route == "dec":
            queue = op.decomposition()
        else:
            name = route.split(":", 1)[1]
            rule = dict(X.rules(op)).get(name)
            if rule is None:
                return bad(f"{sigbase}:rule-not-applicable", [r for r, _ in X.rules(op)], name, **extra)
            queue = X.emit(op, rule)
        init = np.zeros((2 ** n, 1), dtype=complex)
        init[0, 0] = 1
        sim = X.Sim(order, init)
        try:
            X.run(sim, queue)
        except X.ExpansionProblem as e:
            return bad(f"{sigbase}:{e.kind}", e.detail, "well-formed decomposition", **extra)
        O, leaked = sim.columns()
        out = O[:, 0]
        gates = sim.gates
        extra["gates"] = gates
    if leaked > 1e-12:
        return bad(f"{sigbase}:aux-not-clean", f"dynamically allocated wires hold weight {leaked:.3g} outside |0>", "|0>", **extra)
    nrm = float(np.linalg.norm(out))
    if abs(nrm - 1) > 1e-7:
        return bad(f"{sigbase}:norm", nrm, 1.0, **extra)
    ov = complex(np.vdot(E, out))
    if abs(abs(ov) - 1) > 1e-7:
        # where did the weight go?
        blk = out.reshape(2 ** nsys, -1)
        aux_w = float(np.sum(np.abs(blk[:, 1:]) ** 2))
        if aux_w > 1e-9:
            sys_ov = abs(np.vdot(exp_sys, blk[:, 0])) ** 2
            kind = "aux-not-clean" if abs(sys_ov + aux_w - 1) > 1e-6 or aux_w > 1e-9 else "wrong-state"
        else:
            kind = "wrong-state"
        return bad(f"{sigbase}:{kind}", {"fidelity": abs(ov) ** 2, "aux_weight": aux_w, "state": np.round(out, 6)}, {"fidelity": 1.0, "state": np.round(E, 6)}, **extra)
    exact = abs(ov - 1) <= 1e-7
    if not exact and not Tm.phase_free(a, route):
        return bad(f"{sigbase}:global-phase", [ov.real, ov.imag], [1.0, 0.0], **extra)
    fp = hashlib.sha1(np.round(exp_sys, 9).tobytes()).hexdigest()[:10]
    nontrivial = abs(exp_sys[0]) < 1 - 1e-9
    return ok(outcome=[t, variant, route.split(":")[0], fp, bool(exact)], nontrivial=nontrivial)


def run(ctx):
    inst = instances(ctx.tier)
    specs, per_t, cache = [], {}, {}
    for t, a, lays in inst:
        key = (t, repr(sorted(a.items(), key=lambda kv: kv[0])))
        rs = cache.get(key)
        if rs is None:
            try:
                rs = routes_for(t, a)
            except Exception:  # noqa: BLE001  (construction failures are judged inside check)
                rs = ["device"]
            cache[key] = rs
        for lay in lays:
            for r in rs:
                specs.append({"t": t, "a": a, "lay": lay, "route": r})
                per_t[t] = per_t.get(t, 0) + 1
    if ctx.only:
        specs = [s for s in specs if s["t"] == ctx.only]
    ctx.enumerate(specs, fn="check", chunk=8, axis="instance-route")
    if not ctx.only or ctx.only == "sos-encoding":
        ctx.enumerate(sos_encoding_specs(ctx.tier), fn="check_sos_encoding", chunk=256, axis="sum-of-slaters-encoding")
    ctx.coverage["alphabet"] = {"templates": sorted(TEMPLATES), "target_kinds": ["basis", "signs", "phases4", "support", "pair", "generic"],
                                "coefficients": COEFFS, "layouts": LAYOUTS, "routes": ["device", "dec", "rule:<every applicable rule>"]}
    ctx.coverage["bound"] = {"wires": "1-3 (thorough: 4 for dense / MPS / bitstrings, CosineWindow 5)", "sparse_entries": "1-3 (+4 on 3 wires; SumOfSlaters: 7 on 6 wires through the compressing encoding, and every 7-/8-determinant flip tree at the classical encoding seam)",
                             "mps_bond_dimension": "<= 2 (4 thorough)", "qrom_precision_bits": "1-3", "instances": len(inst)}
    ctx.coverage["specs_per_template"] = per_t
