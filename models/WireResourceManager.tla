-------------------------- MODULE WireResourceManager --------------------------
(* Model of qp.estimator.WireResourceManager: two counters.  grab_zeroed(n) moves n wires to the       *)
(* any_state counter, creating new wires when fewer than n zeroed ones exist (unless the budget is     *)
(* tight, then it fails without effect); free_wires(n) moves n wires back (fails without effect when   *)
(* fewer than n are in any state).  Ghost `outstanding` = grabbed minus freed, `peak` = its maximum.   *)
EXTENDS Naturals, Sequences
CONSTANTS Z0, A0, Tight, MaxN, MaxTotal
VARIABLES zeroed, anyst, outstanding, peak, last

vars == <<zeroed, anyst, outstanding, peak, last>>

Init == /\ zeroed = Z0 /\ anyst = A0 /\ outstanding = 0 /\ peak = 0 /\ last = <<"init", 0>>

Grab(n) ==
    \/ /\ n <= zeroed
       /\ zeroed' = zeroed - n /\ anyst' = anyst + n
       /\ outstanding' = outstanding + n /\ peak' = IF outstanding + n > peak THEN outstanding + n ELSE peak
       /\ last' = <<"grab", n>>
    \/ /\ n > zeroed /\ ~Tight /\ anyst + n <= MaxTotal
       /\ zeroed' = 0 /\ anyst' = anyst + n
       /\ outstanding' = outstanding + n /\ peak' = IF outstanding + n > peak THEN outstanding + n ELSE peak
       /\ last' = <<"grab", n>>
    \/ /\ n > zeroed /\ Tight
       /\ last' = <<"grabfail", n>>
       /\ UNCHANGED <<zeroed, anyst, outstanding, peak>>

Free(n) ==
    \/ /\ n <= anyst
       /\ anyst' = anyst - n /\ zeroed' = zeroed + n
       /\ outstanding' = IF outstanding >= n THEN outstanding - n ELSE 0
       /\ last' = <<"free", n>> /\ UNCHANGED peak
    \/ /\ n > anyst
       /\ last' = <<"freefail", n>>
       /\ UNCHANGED <<zeroed, anyst, outstanding, peak>>

Next == \E n \in 1..MaxN : Grab(n) \/ Free(n)
Spec == Init /\ [][Next]_vars

NonNegative == zeroed >= 0 /\ anyst >= 0
TotalCoversPeak == zeroed + anyst >= peak
TotalCoversOutstanding == anyst >= outstanding \/ A0 > 0
TotalMonotone == [][zeroed' + anyst' >= zeroed + anyst]_vars
=============================================================================
