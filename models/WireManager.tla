------------------------------ MODULE WireManager ------------------------------
(* Model of the register/loan protocol behind qp.transforms.resolve_dynamic_wires, written from the     *)
(* documented preference order (zero: zeroed -> reset of an any-state wire if allowed -> mint;         *)
(* any: any_state -> zeroed -> mint).  Wires are integers; `last` is a history variable that labels    *)
(* every edge with the action, its arguments and its result so that mc/tlc.py can replay each edge on  *)
(* the real _WireManager.  Ghost variable `dirty` = wires not known to hold |0>.                       *)
EXTENDS Naturals, Sequences, FiniteSets
CONSTANTS Z0, A0, MinInt, AllowResets, MaxMint   \* MinInt = 999 encodes None
VARIABLES zeroed, anyst, loanZero, loanAny, next, minted, dirty, last

vars == <<zeroed, anyst, loanZero, loanAny, next, minted, dirty, last>>
Range(s) == {s[i] : i \in 1..Len(s)}
Front(s) == SubSeq(s, 1, Len(s) - 1)
Last(s) == s[Len(s)]
NoneInt == 999

Init == /\ zeroed = Z0 /\ anyst = A0 /\ loanZero = {} /\ loanAny = {}
        /\ next = MinInt /\ minted = 0 /\ dirty = Range(A0)
        /\ last = <<"init", "-", FALSE, 0, FALSE>>

CanMint == next # NoneInt /\ minted < MaxMint

\* loan wire w taken from a register where it was clean (zero) ; restored decides where it returns
LoanFromZero(w, restored) ==
    /\ loanZero' = IF restored THEN loanZero \cup {w} ELSE loanZero
    /\ loanAny'  = IF restored THEN loanAny ELSE loanAny \cup {w}
    /\ dirty'    = IF restored THEN dirty \ {w} ELSE dirty \cup {w}

GetZero(restored) ==
    \/ /\ zeroed # <<>>
       /\ LET w == Last(zeroed) IN
            /\ zeroed' = Front(zeroed) /\ LoanFromZero(w, restored)
            /\ last' = <<"get", "zero", restored, w, FALSE>>
       /\ UNCHANGED <<anyst, next, minted>>
    \/ /\ zeroed = <<>> /\ AllowResets /\ anyst # <<>>
       /\ LET w == Last(anyst) IN
            /\ anyst' = Front(anyst) /\ LoanFromZero(w, restored)
            /\ last' = <<"get", "zero", restored, w, TRUE>>      \* TRUE: a reset was emitted
       /\ UNCHANGED <<zeroed, next, minted>>
    \/ /\ zeroed = <<>> /\ (~AllowResets \/ anyst = <<>>) /\ CanMint
       /\ LET w == next IN
            /\ LoanFromZero(w, restored)
            /\ last' = <<"get", "zero", restored, w, FALSE>>
       /\ next' = next + 1 /\ minted' = minted + 1
       /\ UNCHANGED <<zeroed, anyst>>
    \/ /\ zeroed = <<>> /\ (~AllowResets \/ anyst = <<>>) /\ next = NoneInt
       /\ last' = <<"fail", "zero", restored, 0, FALSE>>
       /\ UNCHANGED <<zeroed, anyst, loanZero, loanAny, next, minted, dirty>>

GetAny(restored) ==
    \/ /\ anyst # <<>>
       /\ LET w == Last(anyst) IN
            /\ anyst' = Front(anyst) /\ loanAny' = loanAny \cup {w}
            /\ last' = <<"get", "any", restored, w, FALSE>>
       /\ UNCHANGED <<zeroed, loanZero, next, minted, dirty>>
    \/ /\ anyst = <<>> /\ zeroed # <<>>
       /\ LET w == Last(zeroed) IN
            /\ zeroed' = Front(zeroed) /\ LoanFromZero(w, restored)
            /\ last' = <<"get", "any", restored, w, FALSE>>
       /\ UNCHANGED <<anyst, next, minted>>
    \/ /\ anyst = <<>> /\ zeroed = <<>> /\ CanMint
       /\ LET w == next IN
            /\ LoanFromZero(w, restored)
            /\ last' = <<"get", "any", restored, w, FALSE>>
       /\ next' = next + 1 /\ minted' = minted + 1
       /\ UNCHANGED <<zeroed, anyst>>
    \/ /\ anyst = <<>> /\ zeroed = <<>> /\ next = NoneInt
       /\ last' = <<"fail", "any", restored, 0, FALSE>>
       /\ UNCHANGED <<zeroed, anyst, loanZero, loanAny, next, minted, dirty>>

Return(w) ==
    /\ w \in loanZero \cup loanAny
    /\ IF w \in loanZero
         THEN /\ zeroed' = Append(zeroed, w) /\ loanZero' = loanZero \ {w} /\ UNCHANGED <<anyst, loanAny>>
         ELSE /\ anyst' = Append(anyst, w) /\ loanAny' = loanAny \ {w} /\ UNCHANGED <<zeroed, loanZero>>
    /\ last' = <<"return", "-", FALSE, w, FALSE>>
    /\ UNCHANGED <<next, minted, dirty>>

Next == \/ \E r \in BOOLEAN : GetZero(r) \/ GetAny(r)
        \/ \E w \in loanZero \cup loanAny : Return(w)

Spec == Init /\ [][Next]_vars

\* ------------------------------------------------------------------------------------------- invariants
Loaned == loanZero \cup loanAny
NoAlias == /\ Range(zeroed) \cap Range(anyst) = {}
           /\ (Range(zeroed) \cup Range(anyst)) \cap Loaned = {}
           /\ loanZero \cap loanAny = {}
           /\ Cardinality(Range(zeroed)) = Len(zeroed) /\ Cardinality(Range(anyst)) = Len(anyst)
ZeroClean == Range(zeroed) \cap dirty = {}       \* every wire in the zeroed register really holds |0>
Provenance == \A w \in Range(zeroed) \cup Range(anyst) \cup Loaned :
                 w \in Range(Z0) \cup Range(A0) \/ (MinInt # NoneInt /\ w >= MinInt /\ w < MinInt + MaxMint)
=============================================================================
