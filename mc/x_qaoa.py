"""Reference model for C72 (QAOA cost Hamiltonians / mixers): plain numpy + Python, written from the docstrings.

Abstract graph = (n, edges) with nodes 0..n-1; node i sits at position i of the wire order, first wire = most
significant bit.  bit(x, i, n) = value of node i in basis state x;  z = +1 for bit 0, -1 for bit 1."""
import itertools
import math

import numpy as np

I2 = np.eye(2, dtype=complex)
PX = np.array([[0, 1], [1, 0]], dtype=complex)
PY = np.array([[0, -1j], [1j, 0]], dtype=complex)
PZ = np.array([[1, 0], [0, -1]], dtype=complex)


def bit(x, i, n):
    return (x >> (n - 1 - i)) & 1


def zval(x, i, n):
    return 1 - 2 * bit(x, i, n)


def all_graphs(n):
    """Every labelled simple graph on n nodes, fewest edges first."""
    pairs = list(itertools.combinations(range(n), 2))
    out = []
    for m in range(len(pairs) + 1):
        for es in itertools.combinations(pairs, m):
            out.append([list(e) for e in es])
    return out


def all_digraphs(n, max_edges=None):
    pairs = [(i, j) for i in range(n) for j in range(n) if i != j]
    mx = len(pairs) if max_edges is None else min(max_edges, len(pairs))
    out = []
    for m in range(mx + 1):
        for es in itertools.combinations(pairs, m):
            out.append([list(e) for e in es])
    return out


def complement(n, edges):
    s = {tuple(sorted(e)) for e in edges}
    return [[i, j] for i, j in itertools.combinations(range(n), 2) if (i, j) not in s]


# ------------------------------------------------------------------------------------------ objectives (combinatorial)
def obj_maxcut(n, edges, x):
    return -float(sum(1 for i, j in edges if bit(x, i, n) != bit(x, j, n)))


def obj_sumz(n, x):
    return float(n - 2 * bin(x).count("1"))


def obj_mis_unconstrained(n, edges, x):
    """3 sum_E (ZiZj - Zi - Zj) + sum Z:  an edge costs -1 unless both ends are selected (then +3)."""
    viol = sum(1 for i, j in edges if bit(x, i, n) and bit(x, j, n))
    return 3.0 * (-len(edges) + 4 * viol) + obj_sumz(n, x)


def obj_mvc_unconstrained(n, edges, x):
    """3 sum_E (ZiZj + Zi + Zj) - sum Z: an edge costs -1 unless it is uncovered (both ends 0; then +3)."""
    unc = sum(1 for i, j in edges if not bit(x, i, n) and not bit(x, j, n))
    return 3.0 * (-len(edges) + 4 * unc) - obj_sumz(n, x)


def obj_edge_driver(n, edges, reward, x):
    """Per edge: colourings in `reward` get -(4-|R|)/4, the others |R|/4 (gap exactly 1, traceless).  R empty/full:
    returns None (only 'constant' is documented)."""
    R = set(reward)
    if len(R) in (0, 4):
        return None
    tot = 0.0
    for i, j in edges:
        col = f"{bit(x, i, n)}{bit(x, j, n)}"
        tot += -(4 - len(R)) / 4 if col in R else len(R) / 4
    return tot


# ------------------------------------------------------------------------------------------ objectives (documented Z formulas)
def zf_maxcut(n, edges, x):
    return 0.5 * sum(zval(x, i, n) * zval(x, j, n) - 1 for i, j in edges)


def zf_mis_unconstrained(n, edges, x):
    return 3 * sum(zval(x, i, n) * zval(x, j, n) - zval(x, i, n) - zval(x, j, n) for i, j in edges) + sum(zval(x, i, n) for i in range(n))


def zf_mvc_unconstrained(n, edges, x):
    return 3 * sum(zval(x, i, n) * zval(x, j, n) + zval(x, i, n) + zval(x, j, n) for i, j in edges) - sum(zval(x, i, n) for i in range(n))


# ------------------------------------------------------------------------------------------ operators
def on(P, i, n):
    m = np.array([[1]], dtype=complex)
    for k in range(n):
        m = np.kron(m, P if k == i else I2)
    return m


def multi(ps, n):
    """ps: dict position -> 2x2 matrix."""
    m = np.array([[1]], dtype=complex)
    for k in range(n):
        m = np.kron(m, ps.get(k, I2))
    return m


def x_mixer(n):
    return sum((on(PX, i, n) for i in range(n)), np.zeros((2 ** n, 2 ** n), dtype=complex))


def xy_mixer(n, edges):
    M = np.zeros((2 ** n, 2 ** n), dtype=complex)
    for i, j in edges:
        M += 0.5 * (multi({i: PX, j: PX}, n) + multi({i: PY, j: PY}, n))
    return M


def bit_flip_mixer(n, edges, b):
    """sum_v 2^-d(v) X_v prod_{w in N(v)} (I + (-1)^b Z_w)."""
    M = np.zeros((2 ** n, 2 ** n), dtype=complex)
    nb = {v: set() for v in range(n)}
    for i, j in edges:
        nb[i].add(j)
        nb[j].add(i)
    for v in range(n):
        T = on(PX, v, n)
        for w in sorted(nb[v]):
            T = T @ (np.eye(2 ** n) + (-1) ** b * on(PZ, w, n))
        M += T / 2 ** len(nb[v])
    return M


# ------------------------------------------------------------------------------------------ max-weight cycle (wires = edges)
def cyc_weight(i, j, n):
    return 0.5 + 0.25 * (i * n + j)


def cyc_loss(wire_edges, weights, x):
    m = len(wire_edges)
    return sum(zval(x, w, m) * math.log(weights[tuple(e)]) for w, e in enumerate(wire_edges))


def cyc_netflow(n, wire_edges, x):
    m = len(wire_edges)
    tot = 0
    for v in range(n):
        ko = sum(bit(x, w, m) for w, e in enumerate(wire_edges) if e[0] == v)
        ki = sum(bit(x, w, m) for w, e in enumerate(wire_edges) if e[1] == v)
        tot += 4 * (ko - ki) ** 2
    return float(tot)


def cyc_outflow(n, wire_edges, x):
    m = len(wire_edges)
    tot = 0
    for v in range(n):
        k = sum(bit(x, w, m) for w, e in enumerate(wire_edges) if e[0] == v)
        tot += 4 * k * (k - 1)
    return float(tot)


def zf_netflow(n, wire_edges, x):
    m = len(wire_edges)
    tot = 0
    for v in range(n):
        out = [w for w, e in enumerate(wire_edges) if e[0] == v]
        inn = [w for w, e in enumerate(wire_edges) if e[1] == v]
        tot += ((len(out) - len(inn)) - sum(zval(x, w, m) for w in out) + sum(zval(x, w, m) for w in inn)) ** 2
    return float(tot)


def zf_outflow(n, wire_edges, x):
    m = len(wire_edges)
    tot = 0
    for v in range(n):
        out = [w for w, e in enumerate(wire_edges) if e[0] == v]
        d = len(out)
        s = sum(zval(x, w, m) for w in out)
        tot += d * (d - 2) - 2 * (d - 1) * s + s ** 2
    return float(tot)


def cycle_mixer(n, wire_edges):
    """1/4 sum_{(i,j)} sum_{k != i,j; (i,k),(k,j) in E} [X_ij X_ik X_kj + Y_ij Y_ik X_kj + Y_ij X_ik Y_kj - X_ij Y_ik Y_kj]."""
    m = len(wire_edges)
    idx = {tuple(e): w for w, e in enumerate(wire_edges)}
    M = np.zeros((2 ** m, 2 ** m), dtype=complex)
    for (i, j), w in idx.items():
        for k in range(n):
            if k in (i, j) or (i, k) not in idx or (k, j) not in idx:
                continue
            a, b = idx[(i, k)], idx[(k, j)]
            M += 0.25 * (multi({w: PX, a: PX, b: PX}, m) + multi({w: PY, a: PY, b: PX}, m)
                         + multi({w: PY, a: PX, b: PY}, m) - multi({w: PX, a: PY, b: PY}, m))
    return M


def selftest():
    """The combinatorial objectives equal the documented Z formulas (exhaustive on n <= 3)."""
    for n in (1, 2, 3):
        for edges in all_graphs(n):
            for x in range(2 ** n):
                assert abs(obj_maxcut(n, edges, x) - zf_maxcut(n, edges, x)) < 1e-12
                assert abs(obj_mis_unconstrained(n, edges, x) - zf_mis_unconstrained(n, edges, x)) < 1e-12
                assert abs(obj_mvc_unconstrained(n, edges, x) - zf_mvc_unconstrained(n, edges, x)) < 1e-12
                # documented edge_driver example: reward {00,01,10} -> 1/4 sum (ZZ - Zi - Zj)
                e = 0.25 * sum(zval(x, i, n) * zval(x, j, n) - zval(x, i, n) - zval(x, j, n) for i, j in edges)
                assert abs(obj_edge_driver(n, edges, ["00", "01", "10"], x) - e) < 1e-12
    for edges in all_digraphs(3):
        m = len(edges)
        for x in range(2 ** m):
            assert abs(cyc_netflow(3, edges, x) - zf_netflow(3, edges, x)) < 1e-12
            assert abs(cyc_outflow(3, edges, x) - zf_outflow(3, edges, x)) < 1e-12
    # documented edge_driver expectation values: graph 0-1-2, reward 11,10,01: <000|H|000>=1.5, <100|..>=0.5, <110|..>=-0.5
    g = [[0, 1], [1, 2]]
    assert [obj_edge_driver(3, g, ["11", "10", "01"], x) for x in (0b000, 0b100, 0b110)] == [1.5, 0.5, -0.5]
