"""Picklable, PennyLane-free task functions for the executor checks (C65, C31).

The first argument of every task is a pair (task_index, gate_dir).  If gate_dir is not None the task
announces itself (started.<i>) and blocks until the controller releases it (go.<i>), so that the harness
decides the completion order.  Results are pure functions of the arguments.
"""
import os
import time


def _gate(a):
    idx, d = a
    if d is None:
        return idx
    open(os.path.join(d, f"started.{idx}"), "w").close()
    p = os.path.join(d, f"go.{idx}")
    t0 = time.time()
    while not os.path.exists(p):
        if time.time() - t0 > 120:
            raise TimeoutError(f"gate {idx} never released")
        time.sleep(0.001)
    return idx


def f1(a):
    return ("f1", _gate(a))


def f2(a, b):
    return ("f2", _gate(a), b)


def f3(a, b, c):
    return ("f3", _gate(a), b, c)


def f2k(a, b, k=7):
    return ("f2k", _gate(a), b, k)


def boom(a, b):
    i = _gate(a)
    if i == 1:
        raise ValueError("task 1 failed")
    return ("boom", i, b)


FUNCS = {"f1": f1, "f2": f2, "f3": f3, "f2k": f2k, "boom": boom}
