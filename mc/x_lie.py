"""Reference model for C55 (Lie-algebra tools): dense numpy linear algebra only.

An operator spec is a list of [coefficient, pauli-string] on n wires (wire 0 = first letter = most significant qubit),
e.g. [[1.0, "XXI"], [1.0, "YYI"]]."""
import itertools

import numpy as np

P1 = {"I": np.eye(2, dtype=complex), "X": np.array([[0, 1], [1, 0]], dtype=complex),
      "Y": np.array([[0, -1j], [1j, 0]], dtype=complex), "Z": np.array([[1, 0], [0, -1]], dtype=complex)}
RTOL = 1e-9


def word(s):
    m = np.array([[1]], dtype=complex)
    for ch in s:
        m = np.kron(m, P1[ch])
    return m


def dense(spec):
    return sum(c * word(s) for c, s in spec)


def all_words(n, identity=False):
    out = ["".join(t) for t in itertools.product("IXYZ", repeat=n)]
    return out if identity else out[1:]


def com(A, B):
    return A @ B - B @ A


def stack(mats):
    return np.array([np.asarray(m, dtype=complex).reshape(-1) for m in mats]) if len(mats) else np.zeros((0, 1), dtype=complex)


def rank(mats):
    if len(mats) == 0:
        return 0
    return int(np.linalg.matrix_rank(stack(mats), tol=RTOL))


def residual(basis, M):
    """Distance of M from span(basis) (Frobenius), relative to |M|."""
    v = np.asarray(M, dtype=complex).reshape(-1)
    nv = np.linalg.norm(v)
    if nv == 0:
        return 0.0
    if len(basis) == 0:
        return 1.0
    A = stack(basis).T
    x, *_ = np.linalg.lstsq(A, v, rcond=None)
    return float(np.linalg.norm(A @ x - v) / nv)


def in_span(basis, M, tol=1e-8):
    return residual(basis, M) < tol


def orth_add(Q, M, tol=1e-9):
    """Gram-Schmidt step on flattened matrices; returns True if M enlarged the span (Q is a list of orthonormal vectors)."""
    v = np.asarray(M, dtype=complex).reshape(-1).copy()
    n0 = np.linalg.norm(v)
    if n0 == 0:
        return False
    for _ in range(2):
        for q in Q:
            v = v - np.vdot(q, v) * q
    if np.linalg.norm(v) > tol * n0:
        Q.append(v / np.linalg.norm(v))
        return True
    return False


def closure_dims(gens, max_depth=None):
    """dims[e] = dimension of S_e, S_0 = span(gens), S_{e+1} = S_e + [S_e, gens]; stops when stable (or at max_depth)."""
    Q, mats = [], []
    for g in gens:
        if orth_add(Q, g):
            mats.append(np.asarray(g, dtype=complex))
    dims = [len(mats)]
    frontier = list(mats)
    depth = 0
    while frontier and (max_depth is None or depth < max_depth):
        new = []
        for a in frontier:
            for g in gens:
                c = com(a, g)
                if orth_add(Q, c):
                    mats.append(c)
                    new.append(c)
        frontier = new
        depth += 1
        dims.append(len(mats))
        if not new:
            break
    return dims, mats


def full_closure(gens):
    """All-pairs closure (independent of the nesting strategy)."""
    Q, mats = [], []
    for g in gens:
        if orth_add(Q, g):
            mats.append(np.asarray(g, dtype=complex))
    grew = True
    done = 0
    while grew:
        grew = False
        cur = len(mats)
        for i in range(cur):
            for j in range(max(i + 1, done), cur):
                c = com(mats[i], mats[j])
                if orth_add(Q, c):
                    mats.append(c)
                    grew = True
        done = cur
    return mats


# ------------------------------------------------------------------------------------------------ involutions (documented maps)
def _on(P, wire, n):
    return word("".join(P if k == wire else "I" for k in range(n)))


def theta(name, x, n, wire=None, p=None, q=None):
    """Documented involution applied to the (skew-Hermitian) matrix x on n qubits."""
    if name in ("AI", "CI"):
        return x.conj()
    if name == "concurrence_involution":
        return -x.T
    if name == "even_odd_involution":
        Y = word("Y" * n)
        return Y @ x.conj() @ Y
    if name == "AII":
        Y = _on("Y", 0 if wire is None else wire, n)
        return Y @ x.conj() @ Y
    if name == "DIII":
        Y = _on("Y", 0 if wire is None else wire, n)
        return Y @ x @ Y
    if name in ("A", "BD", "C"):  # x (+) y -> y (+) x on block-diagonal input: conjugation with X on the block wire
        X = _on("X", 0 if wire is None else wire, n)
        return X @ x @ X
    if name in ("AIII", "BDI"):
        D = np.diag(np.concatenate([np.ones(p), -np.ones(q)])).astype(complex)
        if wire is not None:
            D = _on("Z", wire, n)
        return D @ x @ D
    if name == "CII":
        D = np.diag(np.concatenate([np.ones(p), -np.ones(q), np.ones(p), -np.ones(q)])).astype(complex)
        if wire is not None:
            D = _on("Z", wire, n)
        return D @ x @ D
    raise AssertionError(name)


def selftest():
    assert np.allclose(com(word("X"), word("Y")), 2j * word("Z"))
    g = [dense([[1.0, "XX"]]), dense([[1.0, "ZI"]]), dense([[1.0, "IZ"]])]
    dims, mats = closure_dims(g)
    assert dims[-1] == 6 and len(full_closure(g)) == 6  # docstring example of lie_closure
    # the documented involutions are involutive automorphisms (checked on all 2-qubit Pauli words)
    ws = [1j * word(s) for s in all_words(2)]
    for name, kw in (("AI", {}), ("concurrence_involution", {}), ("even_odd_involution", {}), ("AII", {}), ("AII", {"wire": 1}), ("DIII", {}),
                     ("AIII", {"p": 2, "q": 2}), ("AIII", {"p": 1, "q": 3}), ("CII", {"p": 1, "q": 1}), ("A", {})):
        for a in ws:
            assert np.allclose(theta(name, theta(name, a, 2, **kw), 2, **kw), a), name
            for b in ws:
                assert np.allclose(theta(name, com(a, b), 2, **kw), com(theta(name, a, 2, **kw), theta(name, b, 2, **kw))), name
