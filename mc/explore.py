"""Explorers.  All of them enumerate a bounded space completely.

E1  product(...)                itertools.product in lexicographic simplest-first order
E2  words(alphabet, maxlen)     all words shortest-first
E3  bfs(...)                    explicit-state BFS over histories of a real object (fresh object per history)
E4  answer_tree(...)            deviation-bounded DFS over scripted environment answers (RNG draws, outcomes)
E5  see mc/sched.py             completion orders / thread interleavings
"""
import itertools
from collections import deque


def product(*axes):
    return itertools.product(*axes)


def words(alphabet, maxlen, minlen=0):
    """All words over `alphabet` with minlen <= length <= maxlen, shortest first."""
    alphabet = list(alphabet)
    for n in range(minlen, maxlen + 1):
        for w in itertools.product(alphabet, repeat=n):
            yield list(w)


def count_words(k, maxlen, minlen=0):
    return sum(k ** n for n in range(minlen, maxlen + 1))


def subsets(items, minsize=0, maxsize=None):
    items = list(items)
    maxsize = len(items) if maxsize is None else maxsize
    for n in range(minsize, maxsize + 1):
        for c in itertools.combinations(items, n):
            yield list(c)


def bfs(build, enabled, canon, check, max_depth, on_state=None):
    """Explicit-state search over histories.

    build(hist)        -> state object reached by replaying `hist` (list of events) on a FRESH real object;
                          may return an Exception instance to denote "this event raised" (then the history
                          is a leaf; `check` still sees it).
    enabled(state,hist)-> list of JSON-able events available in that state
    canon(state)       -> hashable canonical key keeping everything the property can observe
    check(state,hist)  -> None or a violation (anything truthy); called on EVERY transition target
    Returns dict(states, transitions, max_depth, violations=[(hist, v)], leaves)
    """
    root = build([])
    seen = {canon(root)}
    frontier = deque([[]])
    transitions = 0
    depth_reached = 0
    violations = []
    v0 = check(root, [])
    if v0:
        violations.append(([], v0))
    sample_paths = []
    while frontier:
        hist = frontier.popleft()
        state = build(hist) if hist else root
        if len(hist) >= max_depth:
            if len(sample_paths) < 3:
                sample_paths.append(hist)
            continue
        for ev in enabled(state, hist):
            h2 = hist + [ev]
            nxt = build(h2)
            transitions += 1
            v = check(nxt, h2)
            if v:
                violations.append((h2, v))
            if on_state:
                on_state(nxt, h2)
            if isinstance(nxt, Exception):
                continue
            k = canon(nxt)
            if k not in seen:
                seen.add(k)
                depth_reached = max(depth_reached, len(h2))
                frontier.append(h2)
    return {"states": len(seen), "transitions": transitions, "max_depth": depth_reached,
            "violations": violations, "sample_paths": sample_paths}


class Divergence(Exception):
    """Raised when replaying a recorded prefix asks a different question than recorded."""


class Chooser:
    """Scripted source of environment answers for one execution (E4).

    choose(n, label) returns the index of the answer to give: the recorded prefix first, then 0 (default).
    `enabled` may restrict which of the n options are legal (e.g. non-zero probability)."""

    def __init__(self, prefix):
        self.prefix = list(prefix)
        self.points = []  # (n_enabled_list, label, taken)

    def choose(self, n, label=None, enabled=None):
        opts = list(range(n)) if enabled is None else [i for i in range(n) if enabled[i]]
        if not opts:
            raise Divergence(f"no enabled answer at point {len(self.points)} ({label})")
        i = len(self.points)
        if i < len(self.prefix):
            a = self.prefix[i]
            if a not in opts:
                raise Divergence(f"replay divergence at point {i}: answer {a} not in {opts} ({label})")
        else:
            a = opts[0]
        self.points.append((opts, label, a))
        return a

    @property
    def choices(self):
        return [p[2] for p in self.points]

    def deviations(self, upto=None):
        pts = self.points if upto is None else self.points[:upto]
        return sum(1 for opts, _, a in pts if a != opts[0])


def answer_tree(run, bound=None, max_execs=None):
    """Deviation-bounded exhaustive exploration of the answer tree (iterative, DFS).

    run(chooser) -> observation; executed once per leaf.  bound=None explores the full tree.
    Yields (choices, observation, chooser).  Raises if max_execs is exceeded (never silently truncates)."""
    stack = [[]]
    n = 0
    while stack:
        prefix = stack.pop()
        ch = Chooser(prefix)
        obs = run(ch)
        if len(ch.points) < len(prefix):
            raise Divergence(f"execution consumed {len(ch.points)} answers, prefix had {len(prefix)}")
        n += 1
        if max_execs is not None and n > max_execs:
            raise RuntimeError(f"answer tree larger than max_execs={max_execs}")
        yield ch.choices, obs, ch
        # children: deviate at each point after the prefix
        for i in range(len(ch.points) - 1, len(prefix) - 1, -1):
            opts, _, a = ch.points[i]
            cost = ch.deviations(i) + 1
            if bound is not None and cost > bound:
                continue
            for alt in opts[1:][::-1]:
                stack.append(ch.choices[:i] + [alt])
