"""R-gates: closed-form matrices of the named gates, written from the documentation (not from the code).

Convention: first listed wire = most significant qubit.  Every entry is a function params -> ndarray.
`selftest()` checks unitarity and textbook identities so that a typo here cannot hide behind an identical
typo in the implementation.
"""
import cmath
import math
from functools import reduce

import numpy as np

I2 = np.eye(2, dtype=complex)
X = np.array([[0, 1], [1, 0]], dtype=complex)
Y = np.array([[0, -1j], [1j, 0]], dtype=complex)
Z = np.array([[1, 0], [0, -1]], dtype=complex)
H = np.array([[1, 1], [1, -1]], dtype=complex) / math.sqrt(2)
S = np.diag([1, 1j]).astype(complex)
T = np.diag([1, cmath.exp(1j * math.pi / 4)]).astype(complex)
SX = 0.5 * np.array([[1 + 1j, 1 - 1j], [1 - 1j, 1 + 1j]], dtype=complex)
P0 = np.diag([1, 0]).astype(complex)
P1 = np.diag([0, 1]).astype(complex)
PAULI = {"I": I2, "X": X, "Y": Y, "Z": Z}


def kron(*ms):
    return reduce(np.kron, ms)


def controlled(U, n_ctrl=1, values=None):
    """|v><v| (x) U on the control pattern `values` (default all ones), identity elsewhere; controls first."""
    d = U.shape[0]
    values = [1] * n_ctrl if values is None else [int(bool(v)) for v in values]
    idx = int("".join(str(v) for v in values), 2) if values else 0
    M = np.eye(d * 2 ** n_ctrl, dtype=complex)
    M[idx * d:(idx + 1) * d, idx * d:(idx + 1) * d] = U
    return M


def RX(t):
    c, s = math.cos(t / 2), math.sin(t / 2)
    return np.array([[c, -1j * s], [-1j * s, c]], dtype=complex)


def RY(t):
    c, s = math.cos(t / 2), math.sin(t / 2)
    return np.array([[c, -s], [s, c]], dtype=complex)


def RZ(t):
    return np.diag([cmath.exp(-0.5j * t), cmath.exp(0.5j * t)])


def PhaseShift(t):
    return np.diag([1, cmath.exp(1j * t)])


def Rot(phi, theta, omega):
    return RZ(omega) @ RY(theta) @ RZ(phi)


def U2(phi, delta):
    return np.array([[1, -cmath.exp(1j * delta)], [cmath.exp(1j * phi), cmath.exp(1j * (phi + delta))]]) / math.sqrt(2)


def U3(theta, phi, delta):
    c, s = math.cos(theta / 2), math.sin(theta / 2)
    return np.array([[c, -cmath.exp(1j * delta) * s], [cmath.exp(1j * phi) * s, cmath.exp(1j * (phi + delta)) * c]])


def pauli_word_matrix(word):
    return kron(*[PAULI[c] for c in word])


def pauli_rot(t, word):
    P = pauli_word_matrix(word)
    return math.cos(t / 2) * np.eye(P.shape[0]) - 1j * math.sin(t / 2) * P


def IsingXY(t):
    c, s = math.cos(t / 2), math.sin(t / 2)
    return np.array([[1, 0, 0, 0], [0, c, 1j * s, 0], [0, 1j * s, c, 0], [0, 0, 0, 1]], dtype=complex)


def PSWAP(t):
    e = cmath.exp(1j * t)
    return np.array([[1, 0, 0, 0], [0, 0, e, 0], [0, e, 0, 0], [0, 0, 0, 1]], dtype=complex)


def SingleExcitation(t, phase=0):
    """phase=0 plain, +1 'Plus' (e^{+i t/2} on |00>,|11>), -1 'Minus'."""
    c, s = math.cos(t / 2), math.sin(t / 2)
    e = cmath.exp(1j * phase * t / 2)
    return np.array([[e, 0, 0, 0], [0, c, -s, 0], [0, s, c, 0], [0, 0, 0, e]], dtype=complex)


def DoubleExcitation(t, phase=0):
    c, s = math.cos(t / 2), math.sin(t / 2)
    e = cmath.exp(1j * phase * t / 2)
    M = np.eye(16, dtype=complex) * e
    M[3, 3] = c
    M[12, 12] = c
    M[3, 12] = -s
    M[12, 3] = s
    return M


def FermionicSWAP(t):
    c, s, e = math.cos(t / 2), math.sin(t / 2), cmath.exp(1j * t / 2)
    return np.array([[1, 0, 0, 0], [0, e * c, -1j * e * s, 0], [0, -1j * e * s, e * c, 0], [0, 0, 0, e * e]], dtype=complex)


def OrbitalRotation(t):
    """Documented (figure + text) as fSWAP(pi) on wires (1,2), Givens rotations G(t) on (0,1) and (2,3),
    fSWAP(pi) on (1,2).  selftest() pins it to the docstring's numerical example."""
    f = kron(I2, FermionicSWAP(math.pi), I2)
    g = kron(SingleExcitation(t), SingleExcitation(t))
    return f @ g @ f


def _jw_ladders(n):
    lower = np.array([[0, 1], [0, 0]], dtype=complex)  # |0><1|
    out = []
    for j in range(n):
        out.append(kron(*([Z] * j + [lower] + [I2] * (n - j - 1))))
    return out


SWAP = np.array([[1, 0, 0, 0], [0, 0, 1, 0], [0, 1, 0, 0], [0, 0, 0, 1]], dtype=complex)
ISWAP = np.array([[1, 0, 0, 0], [0, 0, 1j, 0], [0, 1j, 0, 0], [0, 0, 0, 1]], dtype=complex)
SISWAP = np.array([[1, 0, 0, 0], [0, 1 / math.sqrt(2), 1j / math.sqrt(2), 0], [0, 1j / math.sqrt(2), 1 / math.sqrt(2), 0],
                   [0, 0, 0, 1]], dtype=complex)
ECR = np.array([[0, 0, 1, 1j], [0, 0, 1j, 1], [1, -1j, 0, 0], [-1j, 1, 0, 0]], dtype=complex) / math.sqrt(2)


def _diag_phase(which, t):
    d = np.ones(4, dtype=complex)
    d[which] = cmath.exp(1j * t)
    return np.diag(d)


# name -> (n_wires, n_params, fn(*params))
TABLE = {
    "Identity": (1, 0, lambda: I2),
    "PauliX": (1, 0, lambda: X),
    "PauliY": (1, 0, lambda: Y),
    "PauliZ": (1, 0, lambda: Z),
    "Hadamard": (1, 0, lambda: H),
    "S": (1, 0, lambda: S),
    "T": (1, 0, lambda: T),
    "SX": (1, 0, lambda: SX),
    "CNOT": (2, 0, lambda: controlled(X)),
    "CZ": (2, 0, lambda: controlled(Z)),
    "CY": (2, 0, lambda: controlled(Y)),
    "CH": (2, 0, lambda: controlled(H)),
    "SWAP": (2, 0, lambda: SWAP),
    "ISWAP": (2, 0, lambda: ISWAP),
    "SISWAP": (2, 0, lambda: SISWAP),
    "SQISW": (2, 0, lambda: SISWAP),
    "ECR": (2, 0, lambda: ECR),
    "CSWAP": (3, 0, lambda: controlled(SWAP)),
    "Toffoli": (3, 0, lambda: controlled(X, 2)),
    "CCZ": (3, 0, lambda: controlled(Z, 2)),
    "RX": (1, 1, RX),
    "RY": (1, 1, RY),
    "RZ": (1, 1, RZ),
    "PhaseShift": (1, 1, PhaseShift),
    "U1": (1, 1, PhaseShift),
    "U2": (1, 2, U2),
    "U3": (1, 3, U3),
    "Rot": (1, 3, Rot),
    "CRX": (2, 1, lambda t: controlled(RX(t))),
    "CRY": (2, 1, lambda t: controlled(RY(t))),
    "CRZ": (2, 1, lambda t: controlled(RZ(t))),
    "CRot": (2, 3, lambda a, b, c: controlled(Rot(a, b, c))),
    "ControlledPhaseShift": (2, 1, lambda t: controlled(PhaseShift(t))),
    "CPhase": (2, 1, lambda t: controlled(PhaseShift(t))),
    "CPhaseShift00": (2, 1, lambda t: _diag_phase(0, t)),
    "CPhaseShift01": (2, 1, lambda t: _diag_phase(1, t)),
    "CPhaseShift10": (2, 1, lambda t: _diag_phase(2, t)),
    "IsingXX": (2, 1, lambda t: pauli_rot(t, "XX")),
    "IsingYY": (2, 1, lambda t: pauli_rot(t, "YY")),
    "IsingZZ": (2, 1, lambda t: pauli_rot(t, "ZZ")),
    "IsingXY": (2, 1, IsingXY),
    "PSWAP": (2, 1, PSWAP),
    "SingleExcitation": (2, 1, lambda t: SingleExcitation(t, 0)),
    "SingleExcitationPlus": (2, 1, lambda t: SingleExcitation(t, +1)),
    "SingleExcitationMinus": (2, 1, lambda t: SingleExcitation(t, -1)),
    "DoubleExcitation": (4, 1, lambda t: DoubleExcitation(t, 0)),
    "DoubleExcitationPlus": (4, 1, lambda t: DoubleExcitation(t, +1)),
    "DoubleExcitationMinus": (4, 1, lambda t: DoubleExcitation(t, -1)),
    "FermionicSWAP": (2, 1, FermionicSWAP),
    "OrbitalRotation": (4, 1, OrbitalRotation),
}


def matrix(name, params=(), n_wires=None, hyper=None):
    """Reference matrix of a named gate; variable-arity gates take n_wires / hyper."""
    hyper = hyper or {}
    params = [float(p) for p in params]
    if name in TABLE:
        return np.asarray(TABLE[name][2](*params), dtype=complex)
    if name == "GlobalPhase":
        n = n_wires or 0
        return cmath.exp(-1j * params[0]) * np.eye(2 ** n, dtype=complex)
    if name == "MultiRZ":
        return pauli_rot(params[0], "Z" * n_wires)
    if name == "PauliRot":
        return pauli_rot(params[0], hyper["pauli_word"])
    if name == "MultiControlledX":
        n_ctrl = n_wires - 1
        return controlled(X, n_ctrl, hyper.get("control_values"))
    raise KeyError(name)


def has(name):
    return name in TABLE or name in ("GlobalPhase", "MultiRZ", "PauliRot", "MultiControlledX")


def selftest():
    """Unitarity + textbook identities of the reference table.  Returns list of failures (empty = fine)."""
    fails = []
    g = 0.3731

    def close(a, b):
        return np.allclose(a, b, atol=1e-12)

    for name, (nw, npar, fn) in TABLE.items():
        M = np.asarray(fn(*([g * (i + 1) for i in range(npar)])))
        if M.shape != (2 ** nw, 2 ** nw) or not close(M.conj().T @ M, np.eye(2 ** nw)):
            fails.append(f"{name}: shape/unitarity")
    from scipy.linalg import expm

    ids = {
        "HZH=X": close(H @ Z @ H, X),
        "S^2=Z": close(S @ S, Z),
        "T^2=S": close(T @ T, S),
        "SX^2=X": close(SX @ SX, X),
        "CNOT=(IH)CZ(IH)": close(kron(I2, H) @ controlled(Z) @ kron(I2, H), controlled(X)),
        "RX=exp": close(RX(g), expm(-0.5j * g * X)),
        "RY=exp": close(RY(g), expm(-0.5j * g * Y)),
        "RZ=exp": close(RZ(g), expm(-0.5j * g * Z)),
        "U3(t,p,d)=P(p)RY(t)P(d)": close(U3(g, 0.7, -1.1), PhaseShift(0.7) @ RY(g) @ PhaseShift(-1.1)),
        "U2=U3(pi/2)": close(U2(0.7, -1.1), U3(math.pi / 2, 0.7, -1.1)),
        "SISWAP^2=ISWAP": close(SISWAP @ SISWAP, ISWAP),
        "ISWAP=exp(i pi/4 (XX+YY))": close(ISWAP, expm(0.25j * math.pi * (kron(X, X) + kron(Y, Y)))),
        "IsingXY=exp(i t/4 (XX+YY))": close(IsingXY(g), expm(0.25j * g * (kron(X, X) + kron(Y, Y)))),
        "SingleExc=exp(-i t/4 (YX - XY))": close(SingleExcitation(g), expm(-0.25j * g * (kron(Y, X) - kron(X, Y)))),
        "ECR=(ZX... ) hermitian": close(ECR, ECR.conj().T),
        "ECR^2=I": close(ECR @ ECR, np.eye(4)),
        "PSWAP(0)=SWAP": close(PSWAP(0), SWAP),
        "FermionicSWAP(pi)=fSWAP": close(FermionicSWAP(math.pi), np.diag([1, 1, 1, -1]) @ SWAP),
        "FermionicSWAP(0)=I": close(FermionicSWAP(0.0), np.eye(4)),
        "DoubleExc acts on |0011>": close(DoubleExcitation(g)[:, 3], np.eye(16)[:, 3] * math.cos(g / 2) + np.eye(16)[:, 12] * math.sin(g / 2)),
        "Toffoli|110>=|111>": close(controlled(X, 2)[:, 6], np.eye(8)[:, 7]),
        "controlled values 0": close(controlled(X, 1, [0]), kron(X, I2) @ controlled(X) @ kron(X, I2)),
    }
    # OrbitalRotation: the docstring example, input |1100>, phi = 0.1
    col = OrbitalRotation(0.1)[:, 12]
    doc = np.zeros(16)
    doc[3], doc[6], doc[9], doc[12] = 0.00249792, 0.04991671, -0.04991671, 0.99750208
    ids["OrbitalRotation docstring example"] = np.allclose(col, doc, atol=1e-8)
    for k, v in ids.items():
        if not v:
            fails.append(k)
    return fails
