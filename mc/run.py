"""CLI runner:  python -m mc.run C44 --tier quick [--replay file] [--workers N]

A check module (checks/Cxx.py) defines

    PROPERTY, LEVEL ("exploration" | "model_checking"), TECHNIQUE, LEVEL_TEXT, LEVEL_NOTE, DESIGN_REF
    def run(ctx): ...            # drives the exploration through ctx (see mc.engine.Ctx)
    def replay(spec): ...        # optional; default = the function named in the replay file

Exit codes: 0 = property held on everything explored (or only known findings), 1 = VIOLATION,
2 = harness error (never accompanied by a VIOLATION line).
"""
import argparse
import importlib
import json
import os
import sys
import time
import traceback


def main(argv=None):
    ap = argparse.ArgumentParser()
    ap.add_argument("prop")
    ap.add_argument("--tier", default=os.environ.get("VERIF_TIER", "quick"), choices=["quick", "thorough"])
    ap.add_argument("--replay", default=None)
    ap.add_argument("--workers", type=int, default=int(os.environ.get("VERIF_WORKERS", "0")))
    ap.add_argument("--only", default=None, help="restrict to sub-space key (check specific)")
    args = ap.parse_args(argv)

    repo = os.environ.get("VERIF_REPO")
    if repo:
        sys.path.insert(0, repo)
    here = os.path.dirname(os.path.dirname(os.path.abspath(__file__)))
    if here not in sys.path:
        sys.path.insert(0, here)

    from mc import engine

    try:
        mod = importlib.import_module(f"checks.{args.prop}")
    except Exception:  # harness error
        traceback.print_exc()
        print(f"HARNESS-ERROR property={args.prop} cannot import check module")
        return 2

    if args.replay:
        return engine.replay(mod, args.replay)

    seed = int(os.environ.get("VERIF_SEED", "0") or 0)
    ctx = engine.Ctx(mod, tier=args.tier, seed=seed, workers=args.workers, only=args.only)
    t0 = time.time()
    try:
        mod.run(ctx)
    except engine.HarnessError as e:
        traceback.print_exc()
        print(f"HARNESS-ERROR property={args.prop} {e}")
        ctx.close()
        return 2
    except Exception as e:  # a crash of the driver itself is a harness error, not a verdict
        traceback.print_exc()
        print(f"HARNESS-ERROR property={args.prop} driver crashed: {type(e).__name__}: {e}")
        ctx.close()
        return 2
    ctx.close()
    return ctx.finish(time.time() - t0)


if __name__ == "__main__":
    sys.exit(main())
