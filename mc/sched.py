"""E5: schedule explorers.

(b) Thread interleavings under a baton scheduler.  Real threads, one runs at a time; scheduling points are the
`call` and `line` trace events of an explicit set of code objects (the functions that touch the shared state).
Exploration = iterative preemption bounding (CHESS): a schedule is a list of choice indices into the canonical
enabled list (running thread first if still enabled, then ascending ids); choice 0 everywhere = run each thread
to completion in id order; switching away from a still-enabled thread costs one preemption.

(a) Completion orders of pool tasks: see `GateBoard` (file-free, works for threads) and `FileGate` (works across
spawned processes).
"""
import os
import sys
import threading
import time


class Divergence(Exception):
    pass


class Deadlock(Exception):
    pass


class BatonRun:
    """One execution of `bodies` (list of zero-arg callables) under schedule prefix `prefix`."""

    def __init__(self, bodies, codes, prefix=(), horizon=20000):
        self.bodies = bodies
        self.n = len(bodies)
        self.codes = set(codes)
        self.prefix = list(prefix)
        self.sems = [threading.Semaphore(0) for _ in bodies]
        self.main_sem = threading.Semaphore(0)
        self.done = [False] * self.n
        self.results = [None] * self.n
        self.errors = [None] * self.n
        self.points = []  # (enabled, choice, running_still_enabled)
        self.steps = 0
        self.horizon = horizon
        self.failure = None
        self.trace = []  # (tid, funcname, lineno) per scheduling point, for explanations

    # -- decisions
    def _decide(self, running):
        others = [i for i in range(self.n) if not self.done[i] and i != running]
        enabled = ([running] if running is not None else []) + others
        if not enabled:
            return None
        if len(enabled) == 1:
            return enabled[0]
        i = len(self.points)
        c = self.prefix[i] if i < len(self.prefix) else 0
        if c >= len(enabled):
            self.failure = Divergence(f"choice {c} at point {i} but only {len(enabled)} enabled")
            c = 0
        self.points.append((enabled, c, running is not None))
        return enabled[c]

    def _point(self, tid, frame):
        self.steps += 1
        if self.steps > self.horizon:
            self.failure = Deadlock("horizon exceeded (livelock?)")
            return
        self.trace.append((tid, frame.f_code.co_name, frame.f_lineno))
        nxt = self._decide(tid)
        if nxt != tid:
            self.sems[nxt].release()
            self.sems[tid].acquire()

    def _tracer(self, tid):
        codes = self.codes

        last = [None]

        def local(frame, event, arg):
            if event == "line":
                # reduction: consecutive events of the same source line (loop / comprehension iterations)
                # count as one atomic step; a scheduling point is the first of such a run
                key = (frame.f_code, frame.f_lineno)
                if key != last[0]:
                    last[0] = key
                    self._point(tid, frame)
            return local

        def glob(frame, event, arg):
            if event == "call" and frame.f_code in codes:
                last[0] = None
                self._point(tid, frame)
                return local
            return None

        return glob

    def _worker(self, tid):
        self.sems[tid].acquire()
        sys.settrace(self._tracer(tid))
        try:
            self.results[tid] = self.bodies[tid]()
        except BaseException as e:  # noqa
            self.errors[tid] = e
        finally:
            sys.settrace(None)
            self.done[tid] = True
            nxt = self._decide(None)
            if nxt is None:
                self.main_sem.release()
            else:
                self.sems[nxt].release()

    def run(self):
        threads = [threading.Thread(target=self._worker, args=(i,), daemon=True) for i in range(self.n)]
        for t in threads:
            t.start()
        first = self._decide(None)
        self.sems[first].release()
        if not self.main_sem.acquire(timeout=60):
            raise Deadlock("execution did not finish within 60 s (blocked thread?)")
        for t in threads:
            t.join(5)
        if self.failure:
            raise self.failure
        return self

    @property
    def choices(self):
        return [p[1] for p in self.points]

    def preemptions_before(self, i):
        return sum(1 for en, c, running in self.points[:i] if running and c != 0)


def explore_interleavings(make_bodies, codes, bound, on_execution, reset=None, max_execs=None):
    """Run every schedule with at most `bound` preemptions.

    make_bodies() -> list of zero-arg callables (fresh per execution); on_execution(run) is called after each
    execution (oracle); reset() restores shared state between executions.  Returns stats dict."""
    stack = [[]]
    n_exec = 0
    max_points = 0
    first_choices = None
    while stack:
        prefix = stack.pop()
        if reset:
            reset()
        r = BatonRun(make_bodies(), codes, prefix).run()
        if len(r.points) < len(prefix):
            raise Divergence("execution shorter than its prefix")
        if r.choices[:len(prefix)] != prefix:
            raise Divergence("replayed prefix diverged")
        if n_exec == 0:
            # determinism proof: replay the very first schedule again and compare the observation trace
            if reset:
                reset()
            r2 = BatonRun(make_bodies(), codes, prefix).run()
            if r2.trace != r.trace:
                raise Divergence("same schedule produced different traces (unowned nondeterminism)")
        n_exec += 1
        max_points = max(max_points, len(r.points))
        on_execution(r)
        if max_execs is not None and n_exec > max_execs:
            raise RuntimeError(f"schedule space larger than max_execs={max_execs}")
        for i in range(len(prefix), len(r.points)):
            enabled, c, running = r.points[i]
            cost = r.preemptions_before(i)
            for alt in range(1, len(enabled)):
                if cost + (1 if running else 0) > bound:
                    continue
                stack.append(r.choices[:i] + [alt])
    if reset:
        reset()
    return {"schedules": n_exec, "max_scheduling_points": max_points, "preemption_bound_completed": bound}


# ---------------------------------------------------------------------------------------------- completion orders
class GateBoard:
    """In-process gates for thread pools: task k blocks in `wait(k)` until released.  `started` lets the
    controller see which tasks are currently running (= enabled for completion)."""

    def __init__(self):
        self.lock = threading.Lock()
        self.events = {}
        self.started = []

    def _ev(self, k):
        with self.lock:
            if k not in self.events:
                self.events[k] = threading.Event()
            return self.events[k]

    def wait(self, k, timeout=30):
        with self.lock:
            self.started.append(k)
        if not self._ev(k).wait(timeout):
            raise TimeoutError(f"gate {k} never released")

    def release(self, k):
        self._ev(k).set()


class FileGate:
    """Cross-process gates through a directory: task k touches started.k and spins until go.k exists."""

    def __init__(self, d):
        self.d = d

    def wait(self, k, timeout=60):
        open(os.path.join(self.d, f"started.{k}"), "w").close()
        t0 = time.time()
        p = os.path.join(self.d, f"go.{k}")
        while not os.path.exists(p):
            if time.time() - t0 > timeout:
                raise TimeoutError(f"gate {k} never released")
            time.sleep(0.002)

    def started(self):
        return sorted(int(f.split(".")[1]) for f in os.listdir(self.d) if f.startswith("started."))

    def release(self, k):
        open(os.path.join(self.d, f"go.{k}"), "w").close()

    def wait_started(self, ks, timeout=60):
        t0 = time.time()
        while not set(ks) <= set(self.started()):
            if time.time() - t0 > timeout:
                raise TimeoutError(f"tasks {ks} did not all start: {self.started()}")
            time.sleep(0.002)


def run_gated(call, gate_dir, ntasks, workers, prefix=(), slow=False):
    """Drive one pool execution whose tasks block on FileGate-style gates in `gate_dir`.

    call() performs the (blocking) API call and returns its result; it runs in a helper thread while this
    function plays controller: wait until the set of started-and-unreleased tasks has the size the pool can
    sustain (min(workers, remaining)), pick one according to `prefix` (default: lowest index), release it.
    Returns (("value", result) | ("raises", type, msg) | ("hung",), points=[(enabled, choice)], released)."""
    box = {}

    def target():
        try:
            box["r"] = ("value", call())
        except BaseException as e:  # noqa
            box["r"] = ("raises", type(e).__name__, str(e)[:300])

    t = threading.Thread(target=target, daemon=True)
    t.start()
    released, points = [], []
    limit = 180 if slow else 20
    while len(released) < ntasks and t.is_alive():
        want = min(workers, ntasks - len(released))
        t0 = time.time()
        timed_out = False
        while True:
            started = sorted(int(x.split(".")[1]) for x in os.listdir(gate_dir) if x.startswith("started."))
            enabled = [k for k in started if k not in released]
            if len(enabled) >= want or not t.is_alive():
                break
            if time.time() - t0 > limit:
                timed_out = True
                break
            time.sleep(0.001)
        if not enabled:
            break
        if len(enabled) > 1:
            i = len(points)
            c = prefix[i] if i < len(prefix) else 0
            if c >= len(enabled):
                raise Divergence(f"replay divergence: choice {c} of {enabled}")
            points.append((enabled, c))
            k = enabled[c]
        else:
            k = enabled[0]
        open(os.path.join(gate_dir, f"go.{k}"), "w").close()
        released.append(k)
        if timed_out:
            break
    for k in range(max(ntasks, 1)):  # safety: nothing may hang
        open(os.path.join(gate_dir, f"go.{k}"), "w").close()
    t.join(300 if slow else 120)
    if t.is_alive():
        return ("hung",), points, released
    return box.get("r", ("nothing",)), points, released


def all_completion_orders(execute):
    """DFS over the full decision tree. execute(prefix) -> (obs, points, released); yields each execution."""
    stack = [[]]
    while stack:
        prefix = stack.pop()
        obs, points, released = execute(prefix)
        yield prefix, obs, points, released
        for i in range(len(prefix), len(points)):
            enabled, c = points[i]
            for alt in range(1, len(enabled)):
                stack.append([p[1] for p in points[:i]] + [alt])
