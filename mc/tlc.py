"""Run TLC on a model under /verif/models, dump the complete labelled state graph, parse it.

The graph (every reachable state, every edge) is handed to the check, which replays EVERY edge on the real
implementation (conformance).  Constants are supplied through a generated MC_<name>.tla wrapper because TLC's
cfg syntax has no tuple literals.
"""
import json
import os
import re
import shutil
import subprocess
import tempfile

ROOT = os.path.dirname(os.path.dirname(os.path.abspath(__file__)))
MODELS = os.path.join(ROOT, "models")


class TLCError(RuntimeError):
    pass


def tla_value(v):
    """Python value -> TLA+ literal (ints, bools, strings, list -> sequence, set/frozenset -> set)."""
    if isinstance(v, bool):
        return "TRUE" if v else "FALSE"
    if isinstance(v, int):
        return str(v)
    if isinstance(v, str):
        return '"' + v + '"'
    if isinstance(v, (list, tuple)):
        return "<<" + ", ".join(tla_value(x) for x in v) + ">>"
    if isinstance(v, (set, frozenset)):
        return "{" + ", ".join(tla_value(x) for x in sorted(v)) + "}"
    raise TypeError(v)


def parse_value(s):
    """TLA+ value printed by TLC -> Python (sequences -> list, sets -> frozenset via tagged list)."""
    s = s.strip()
    out, pos = _parse(s, 0)
    return out


def _parse(s, i):
    while s[i].isspace():
        i += 1
    if s.startswith("<<", i):
        i += 2
        items = []
        while True:
            while s[i].isspace():
                i += 1
            if s.startswith(">>", i):
                return items, i + 2
            v, i = _parse(s, i)
            items.append(v)
            while s[i].isspace():
                i += 1
            if s[i] == ",":
                i += 1
    if s[i] == "{":
        i += 1
        items = []
        while True:
            while s[i].isspace():
                i += 1
            if s[i] == "}":
                return frozenset(items), i + 1
            v, i = _parse(s, i)
            items.append(tuple(v) if isinstance(v, list) else v)
            while s[i].isspace():
                i += 1
            if s[i] == ",":
                i += 1
    if s[i] == '"':
        j = s.index('"', i + 1)
        return s[i + 1:j], j + 1
    m = re.match(r"-?\d+", s[i:])
    if m:
        return int(m.group()), i + m.end()
    if s.startswith("TRUE", i):
        return True, i + 4
    if s.startswith("FALSE", i):
        return False, i + 5
    raise TLCError(f"cannot parse TLA value at {s[i:i+40]!r}")


def run(module, constants, invariants, workdir=None, timeout=600, extra_defs=""):
    """Model-check models/<module>.tla with the given constants (dict name -> python value).
    Returns dict(states={id: {var: value}}, edges=[(src, action, dst)], init=[ids], stats=...)."""
    tmp = workdir or tempfile.mkdtemp(prefix="tlc_", dir="/var/tmp")
    try:
        shutil.copy(os.path.join(MODELS, module + ".tla"), tmp)
        mc = "MC_" + module
        defs = "\n".join(f"c_{k} == {tla_value(v)}" for k, v in constants.items())
        with open(os.path.join(tmp, mc + ".tla"), "w") as f:
            f.write(f"---- MODULE {mc} ----\nEXTENDS {module}\n{defs}\n{extra_defs}\n====\n")
        with open(os.path.join(tmp, mc + ".cfg"), "w") as f:
            f.write("SPECIFICATION Spec\nCONSTANTS\n" + "\n".join(f"  {k} <- c_{k}" for k in constants)
                    + "\nINVARIANTS " + " ".join(invariants) + "\n")
        cmd = ["tlc", "-workers", "1", "-noGenerateSpecTE", "-deadlock", "-metadir", os.path.join(tmp, "meta"),
               "-dump", "dot,actionlabels", os.path.join(tmp, "graph"), mc]
        p = subprocess.run(cmd, cwd=tmp, capture_output=True, text=True, timeout=timeout)
        out = p.stdout + p.stderr
        m = re.search(r"(\d+) states generated, (\d+) distinct states found", out)
        violated = re.search(r"Invariant (\w+) is violated", out)
        if violated:
            return {"violated": violated.group(1), "log": out[-3000:], "states": {}, "edges": [], "init": []}
        if "Model checking completed. No error has been found" not in out or not m:
            raise TLCError("TLC did not complete:\n" + out[-3000:])
        g = parse_dot(os.path.join(tmp, "graph.dot"))
        g["stats"] = {"generated": int(m.group(1)), "distinct": int(m.group(2))}
        g["violated"] = None
        if len(g["states"]) != g["stats"]["distinct"]:
            raise TLCError(f"dump has {len(g['states'])} states, TLC reported {g['stats']['distinct']}")
        return g
    finally:
        if workdir is None:
            shutil.rmtree(tmp, ignore_errors=True)


_NODE = re.compile(r'^(-?\d+) \[label="(.*)"(?:,style = filled)?\];?$')
_EDGE = re.compile(r'^(-?\d+) -> (-?\d+) \[label="([^"]*)"')


def parse_dot(path):
    states, edges, init = {}, [], []
    with open(path) as f:
        for line in f:
            line = line.strip()
            m = _EDGE.match(line)
            if m:
                edges.append((m.group(1), m.group(3), m.group(2)))
                continue
            m = _NODE.match(line)
            if m:
                label = m.group(2).replace("\\n", "\n").replace('\\"', '"').replace("\\\\", "\\")
                st = {}
                for part in re.split(r"\n?/\\ ", "\n" + label):
                    part = part.strip()
                    if not part:
                        continue
                    var, val = part.split(" = ", 1)
                    st[var.strip()] = parse_value(val)
                states[m.group(1)] = st
                if "style = filled" in line:
                    init.append(m.group(1))
    return {"states": states, "edges": edges, "init": init}
