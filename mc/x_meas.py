"""Measurement-transform helpers for C20 (builder-F).

Circuits and observables are described by plain data (gate tuples, Pauli-term lists, explicit matrices); the
reference evaluates them with numpy only (mc.refgates matrices + mc.refsim.apply_matrix), the implementation side
builds PennyLane operators from the same codes through the public operator arithmetic.
"""
import itertools
import math

import numpy as np

from mc import refgates as RG

NW = 3

# ---------------------------------------------------------------------------------------------- circuits
# parameters may be the strings "x" / "y" = broadcast placeholders
CIRCUITS = {
    "prod": [("RX", [0.3], [0]), ("RY", [-1.234], [1]), ("RX", [0.7], [2])],
    "ghz": [("Hadamard", [], [0]), ("CNOT", [], [0, 1]), ("CNOT", [], [1, 2]), ("RY", [0.4], [1])],
    "gen": [("RX", [0.3], [0]), ("RY", [-1.234], [1]), ("CNOT", [], [0, 1]), ("Rot", [0.5, 1.1, -0.4], [2]),
            ("CRX", [0.9], [2, 0]), ("S", [], [1]), ("Hadamard", [], [1])],
    "eig": [("PauliX", [], [0]), ("Hadamard", [], [1])],  # |1>|+>|0>: Z0=-1, X1=+1, Z2=+1 deterministic
    # broadcast circuits
    "b1": [("RX", ["x"], [0]), ("RY", [0.5], [1]), ("CNOT", [], [0, 1]), ("RX", [0.7], [2])],
    "b2": [("RX", ["x"], [0]), ("RY", ["y"], [1]), ("CNOT", [], [0, 1]), ("RX", [0.7], [2])],
    "b3": [("Hadamard", [], [1]), ("Rot", ["x", 0.2, "y"], [0]), ("CRX", [0.9], [1, 0]), ("RY", ["y"], [2])],
}
XB = [0.3, -1.234, 2.0]
YB = [0.7, 0.1, -0.4]


def circuit_params(circ, b):
    """Concrete gate list for batch element b (None = no placeholders expected)."""
    out = []
    for name, params, wires in CIRCUITS[circ]:
        ps = [XB[b] if p == "x" else YB[b] if p == "y" else p for p in params]
        out.append((name, ps, wires))
    return out


def ref_state(gates):
    from mc import refsim as R

    st = R.zero_state(NW)
    for name, params, wires in gates:
        st = R.apply_matrix(st, RG.matrix(name, params), list(wires), NW)
    return st


def build_ops(circ, batch=None):
    """PennyLane operations; with batch=B the placeholders become arrays of length B (broadcasting)."""
    import pennylane as qp

    ops = []
    for name, params, wires in CIRCUITS[circ]:
        ps = []
        for p in params:
            if p == "x":
                ps.append(np.array(XB[:batch]))
            elif p == "y":
                ps.append(np.array(YB[:batch]))
            else:
                ps.append(p)
        ops.append(getattr(qp, name)(*ps, wires=wires))
    return ops


# ---------------------------------------------------------------------------------------------- observables
A1 = np.array([[0.7, 0.2 - 0.4j], [0.2 + 0.4j, -1.1]])
A2 = np.array([[1.0, 0.5, 0.0, 0.2], [0.5, -1.0, 0.3, 0.0], [0.0, 0.3, 0.5, 0.1j], [0.2, 0.0, -0.1j, 2.0]])

# code -> ("pauli", [(coeff, {wire: letter})])  |  ("matrix", M, wires)
OBS = {
    "X0": ("pauli", [(1.0, {0: "X"})]),
    "Z0": ("pauli", [(1.0, {0: "Z"})]),
    "Y1": ("pauli", [(1.0, {1: "Y"})]),
    "X1": ("pauli", [(1.0, {1: "X"})]),
    "Z2": ("pauli", [(1.0, {2: "Z"})]),
    "ZZ": ("pauli", [(1.0, {0: "Z", 1: "Z"})]),
    "XY": ("pauli", [(1.0, {0: "X", 1: "Y"})]),
    "XX": ("pauli", [(1.0, {0: "X", 1: "X"})]),
    "ZX": ("pauli", [(1.0, {0: "Z", 1: "X"})]),
    "I0": ("pauli", [(1.0, {})]),
    "SUM": ("pauli", [(2.0, {0: "X"}), (-0.5, {0: "Z", 1: "Z"}), (1.5, {})]),
    "SUMQ": ("pauli", [(2.0, {0: "X"}), (-0.5, {0: "X", 1: "Z"}), (1.5, {})]),
    "HAMI": ("pauli", [(2.0, {0: "X"}), (-0.5, {}), (0.25, {2: "Z"})]),
    "HAM": ("pauli", [(1.0, {0: "Z"}), (0.5, {1: "X"}), (0.0, {0: "Y"}), (2.0, {0: "Z"}), (-0.7, {}), (0.2, {})]),
    "HAMQ": ("pauli", [(0.3, {0: "X"}), (2.0, {0: "Z"}), (0.5, {1: "Y"}), (1.0, {0: "X", 1: "Y"}), (-1.0, {})]),
    "SP": ("pauli", [(0.5, {0: "X"})]),
    "XPI": ("pauli", [(1.0, {0: "X"}), (1.5, {})]),
    "PR2": ("pauli", [(2.0, {0: "X", 1: "Z"})]),
    "ALLI": ("pauli", [(1.5, {})]),
    "ISUM": ("pauli", [(1.0, {}), (2.0, {})]),
    "ZZS": ("pauli", [(1.0, {0: "Z"}), (1.0, {1: "Z"})]),
    "ASYM": ("pauli", [(1.0, {0: "Z"}), (1.0, {1: "Z"}), (1.0, {0: "Z", 1: "Z"})]),
    "YC": ("pauli", [(1.0, {0: "Y"}), (0.5, {0: "Y", 1: "Z"})]),
    "SUMI": ("pauli", [(2.0, {0: "Z"}), (-0.5, {0: "Z", 1: "Z"}), (1.5, {})]),
    "XH": ("pauli", [(1.0, {0: "X"}), (0.5, {0: "X", 1: "X"})]),
    "SUM2": ("pauli", [(0.7, {0: "Z"}), (-1.3, {1: "Z", 2: "Z"})]),
    "DET": ("pauli", [(2.0, {0: "Z"}), (-0.5, {0: "Z", 1: "X"}), (1.5, {}), (0.25, {2: "Z"})]),  # deterministic on "eig"
    "HER1": ("matrix", A1, [1]),
    "HER2": ("matrix", A2, [0, 1]),
    "PRJ": ("matrix", np.diag([0, 0, 1, 0]).astype(complex), [0, 1]),
}


def obs_matrix(code):
    """Reference matrix on all NW wires (wire 0 most significant)."""
    kind = OBS[code]
    if kind[0] == "pauli":
        M = np.zeros((2 ** NW, 2 ** NW), dtype=complex)
        for c, word in kind[1]:
            M = M + c * RG.kron(*[RG.PAULI[word.get(w, "I")] for w in range(NW)])
        return M
    _, A, wires = kind
    from mc import refsim as R

    return R.embed(np.asarray(A, dtype=complex), wires, list(range(NW)))


def build_obs(code):
    import pennylane as qp

    P = {"X": qp.X, "Y": qp.Y, "Z": qp.Z}

    def word(w):
        if not w:
            return qp.Identity(0)
        fs = [P[l](k) for k, l in sorted(w.items())]
        return fs[0] if len(fs) == 1 else qp.prod(*fs)

    if code in ("X0", "Z0", "Y1", "X1", "Z2", "ZZ", "XY", "XX", "ZX", "I0"):
        return word(OBS[code][1][0][1])
    if code == "SUM":
        return 2 * qp.X(0) - 0.5 * (qp.Z(0) @ qp.Z(1)) + 1.5 * qp.I(0)
    if code == "SUMQ":
        return 2 * qp.X(0) - 0.5 * (qp.X(0) @ qp.Z(1)) + 1.5 * qp.I(0)
    if code in ("HAM", "HAMQ", "DET", "HAMI"):
        terms = OBS[code][1]
        return qp.Hamiltonian([c for c, _ in terms], [word(w) for _, w in terms])
    if code == "SP":
        return 0.5 * qp.X(0)
    if code == "XPI":
        return qp.X(0) + 1.5 * qp.I(0)
    if code == "PR2":
        return (2 * qp.X(0)) @ qp.Z(1)
    if code == "ALLI":
        return 1.5 * qp.I(0)
    if code == "ISUM":
        return qp.I(0) + 2 * qp.I(1)
    if code in ("ZZS", "ASYM", "YC", "SUMI", "XH", "SUM2"):
        return qp.sum(*[qp.s_prod(c, word(w)) for c, w in OBS[code][1]])
    if code == "HER1":
        return qp.Hermitian(A1, wires=[1])
    if code == "HER2":
        return qp.Hermitian(A2, wires=[0, 1])
    if code == "PRJ":
        return qp.Projector([1, 0], wires=[0, 1])
    raise KeyError(code)


PROBS = {"0": [0], "10": [1, 0], "2": [2], "all": None, "02": [0, 2]}


def build_mp(code):
    import pennylane as qp

    t, o = code.split(":")
    if t == "e":
        return qp.expval(build_obs(o))
    if t == "v":
        return qp.var(build_obs(o))
    if t == "p":
        return qp.probs(wires=PROBS[o]) if PROBS[o] is not None else qp.probs()
    if t == "d":  # state-type measurements
        return qp.density_matrix(wires=PROBS[o])
    if t == "st":
        return qp.state()
    if t == "s":
        return qp.sample(wires=PROBS[o]) if o in PROBS else qp.sample(build_obs(o))
    if t == "c":
        return qp.counts(wires=PROBS[o]) if o in PROBS else qp.counts(build_obs(o))
    raise KeyError(code)


def ref_value(code, state):
    t, o = code.split(":")
    v = state.reshape(-1)
    if t in ("e", "v"):
        M = obs_matrix(o)
        e = float(np.real(np.vdot(v, M @ v)))
        if t == "e":
            return e
        return float(np.real(np.vdot(v, M @ (M @ v)))) - e * e
    if t == "p":
        from mc import refsim as R

        axes = PROBS[o] if PROBS[o] is not None else list(range(NW))
        return R.probs_of(state, axes)
    if t == "d":
        from mc import refsim as R

        return R.reduced_dm(state, PROBS[o])
    if t == "st":
        return v
    raise KeyError(code)


def pauli_bases(code):
    """wire -> set of Pauli letters the measurement needs (None if not a Pauli-word based measurement)."""
    t, o = code.split(":")
    if t == "p" or (t in ("s", "c") and o in PROBS):
        wires = PROBS[o] if PROBS[o] is not None else list(range(NW))
        return {w: {"Z"} for w in wires}
    if OBS[o][0] != "pauli":
        return None
    out = {}
    for c, word in OBS[o][1]:
        for w, l in word.items():
            out.setdefault(w, set()).add(l)
    return out


def is_qwc(codes):
    """True / False for Pauli-based lists (every wire is asked for one basis only), None if undecidable here."""
    need = {}
    for c in codes:
        b = pauli_bases(c)
        if b is None:
            return None
        for w, ls in b.items():
            need.setdefault(w, set()).update(ls)
    return all(len(ls) == 1 for ls in need.values())


def is_multi_term(code):
    t, o = code.split(":")
    return o in OBS and OBS[o][0] == "pauli" and len(OBS[o][1]) > 1
