"""x_tapes — start tapes, a plain-Python bookkeeping model and history replay for C40.

A *start* is a JSON dict {"w": [letter,..], "m": meas-key, "lab": label-key, "cls": "qs"|"qt", "tp": [indices]}.
Every parameter k (order of appearance: operations first, then measurement observables) carries the tag value
tagval(k); its `requires_grad` flag is (k in tp), so that "trainability carried by the value" agrees with
`trainable_params` at the start (this is what QNode construction does).

The model of one tape object is a plain dict
    {"struct": [[name, [wires]], ...],  "meas": [repr,...], "P": [np.ndarray,...], "F": [bool,...], "T": [int,...],
     "prov": {"w","m","labs"} | None, "cls": ...}
P = all parameter values in order, F = their requires_grad flags, T = trainable indices, prov = recipe that rebuilds
a tape of the same structure with other values (None after decompositions / re-recording).
"""
import copy
import itertools

import numpy as np

LABS = {"std": [0, 1, 2], "mix": ["b", 2, "a"], "off": [5, 6, 7]}

# letter -> list of parameter kinds.  kinds: "s" real scalar, "c" imaginary scalar, "v2" vector (2,), "m12" (1,2)
LETTERS = {
    "H": [], "CNOT": [], "RX": ["s"], "Rot": ["s", "s", "s"], "CRot": ["s", "s", "s"], "U3": ["s", "s", "s"],
    "adjRY": ["s"], "ctrlRot": ["s", "s", "s"], "powRX": ["s"], "exp": ["c"], "prod": ["s", "s"],
    "angle": ["v2"], "bel": ["m12"], "MultiRZ": ["s"], "PauliRot": ["s"], "cond": ["s"], "adjprod": ["s", "s"],
    "sel": ["m123"],
}
MEAS = {"Z": [], "ham": ["s", "s"], "sum": ["s"], "herm": ["h2"], "zham": ["s", "s"], "pham": ["s", "s", "s"]}


def tagval(k):
    return round(0.11 * (k + 1) + 0.013 * k * k, 6)


def shaped(kind, v):
    if kind == "s":
        return np.asarray(float(v))
    if kind == "c":
        return np.asarray(1j * float(v))
    if kind == "v2":
        return np.asarray([v, v + 0.01])
    if kind == "m12":
        return np.asarray([[v, v + 0.01]])
    if kind == "m123":
        return np.asarray([[[v, v + 0.01, v + 0.02], [v + 0.03, v + 0.04, v + 0.05]]])
    if kind == "h2":
        return np.asarray([[v, 0.5], [0.5, -v]])
    raise KeyError(kind)


def kinds_of(w, m):
    out = []
    for l in w:
        out += LETTERS[l]
    n_ops = len(out)
    out += MEAS[m]
    return out, n_ops


def build(w, m, labs, values, flags, cls="qs", tp="keep", shots=None):
    """Live tape of structure (w, m) on labels `labs` with parameter values/flags given (lists over all params).
    tp: list -> trainable_params=tp; None -> constructor default; "flags" -> indices with flag True."""
    import pennylane as qp
    from pennylane import numpy as pnp

    it = iter(range(len(values)))

    def nxt():
        k = next(it)
        return pnp.array(values[k], requires_grad=bool(flags[k]))

    l0, l1, l2 = labs
    ops = []
    with qp.QueuingManager.stop_recording():
        for l in w:
            if l == "H":
                ops.append(qp.Hadamard(l0))
            elif l == "CNOT":
                ops.append(qp.CNOT([l0, l1]))
            elif l == "RX":
                ops.append(qp.RX(nxt(), l0))
            elif l == "Rot":
                ops.append(qp.Rot(nxt(), nxt(), nxt(), wires=l1))
            elif l == "CRot":
                ops.append(qp.CRot(nxt(), nxt(), nxt(), wires=[l1, l0]))
            elif l == "U3":
                ops.append(qp.U3(nxt(), nxt(), nxt(), wires=l2))
            elif l == "adjRY":
                ops.append(qp.adjoint(qp.RY(nxt(), l1)))
            elif l == "ctrlRot":
                ops.append(qp.ctrl(qp.Rot(nxt(), nxt(), nxt(), wires=l2), control=[l0, l1], control_values=[1, 0]))
            elif l == "powRX":
                ops.append(qp.pow(qp.RX(nxt(), l0), 2.5))
            elif l == "exp":
                ops.append(qp.exp(qp.X(l0) @ qp.Z(l1), nxt()))
            elif l == "prod":
                ops.append(qp.prod(qp.RX(nxt(), l0), qp.RY(nxt(), l1)))
            elif l == "adjprod":
                ops.append(qp.adjoint(qp.prod(qp.RX(nxt(), l0), qp.RY(nxt(), l1))))
            elif l == "angle":
                ops.append(qp.AngleEmbedding(nxt(), wires=[l0, l1]))
            elif l == "bel":
                ops.append(qp.BasicEntanglerLayers(nxt(), wires=[l0, l1]))
            elif l == "sel":
                ops.append(qp.StronglyEntanglingLayers(nxt(), wires=[l0, l1]))
            elif l == "MultiRZ":
                ops.append(qp.MultiRZ(nxt(), wires=[l2, l0, l1]))
            elif l == "PauliRot":
                ops.append(qp.PauliRot(nxt(), "XY", wires=[l1, l2]))
            elif l == "cond":
                mv = qp.measure(l0)
                ops.append(mv.measurements[0])
                ops.append(qp.ops.Conditional(mv, qp.RX(nxt(), l1)))
            else:
                raise KeyError(l)
        if m == "Z":
            meas = [qp.expval(qp.Z(l0))]
        elif m == "ham":
            meas = [qp.expval(qp.Hamiltonian([nxt(), nxt()], [qp.X(l0), qp.Z(l0) @ qp.Z(l1)]))]
        elif m == "zham":
            meas = [qp.expval(qp.Z(l1)), qp.expval(qp.Hamiltonian([nxt(), nxt()], [qp.X(l0), qp.Z(l0) @ qp.Z(l1)]))]
        elif m == "pham":  # measurements WITHOUT an observable in front of / between parametrized observables
            meas = [qp.probs(wires=[l1]), qp.expval(qp.Hamiltonian([nxt()], [qp.Z(l0)])), qp.sample(wires=[l0]) if shots else qp.probs(wires=[l0]),
                    qp.expval(qp.Hamiltonian([nxt(), nxt()], [qp.X(l0), qp.Z(l0) @ qp.Z(l1)]))]
        elif m == "sum":
            meas = [qp.expval(qp.s_prod(nxt(), qp.X(l0)) + qp.Z(l1)), qp.probs(wires=[l1])]
        elif m == "herm":
            meas = [qp.expval(qp.Hermitian(nxt(), wires=l0))]
        else:
            raise KeyError(m)
    C = qp.tape.QuantumTape if cls == "qt" else qp.tape.QuantumScript
    if tp == "flags":
        tp = [k for k, f in enumerate(flags) if f]
    return C(ops, meas, shots=shots, trainable_params=None if tp is None else list(tp))


def start_model(start):
    kinds, _ = kinds_of(start["w"], start["m"])
    p = len(kinds)
    P = [shaped(kinds[k], tagval(k)) for k in range(p)]
    F = [k in start["tp"] for k in range(p)]
    return P, F


def build_start(start):
    P, F = start_model(start)
    labs = LABS[start["lab"]]
    t = build(start["w"], start["m"], labs, P, F, cls=start["cls"], tp=sorted(start["tp"]))
    model = observe(t)
    model["T"] = sorted(start["tp"])
    model["P"], model["F"] = P, F
    model["prov"] = {"w": start["w"], "m": start["m"], "labs": labs}
    model["cls"] = start["cls"]
    return t, model


# ----------------------------------------------------------------------------------------------- observation
def op_struct(op):
    return [type(op).__name__ + ":" + op.name, [str(w) for w in op.wires]]


def walk(tape):
    """Independent walk over the parameter slots: list of (holder object, circuit index, index in holder.data)."""
    out = []
    n = len(tape.operations)
    for i, op in enumerate(tape.operations):
        for j in range(len(op.data)):
            out.append((op, i, j))
    for i, mp in enumerate(tape.measurements):
        if mp.obs is not None:
            for j in range(len(mp.obs.data)):
                out.append((mp.obs, n + i, j))
    return out


def flag_of(x):
    return bool(getattr(x, "requires_grad", False))


def observe(tape):
    """Structure/values read off a live tape through operations/measurements only (no bookkeeping API)."""
    slots = walk(tape)
    return {
        "struct": [op_struct(op) for op in tape.operations],
        "meas": [type(mp).__name__ + ":" + (op_struct(mp.obs)[0] if mp.obs is not None else "") + ":" +
                 ",".join(str(w) for w in mp.wires) for mp in tape.measurements],
        "P": [np.asarray(h.data[j]) for h, _, j in slots],
        "F": [flag_of(h.data[j]) for h, _, j in slots],
        "n_op_params": sum(len(op.data) for op in tape.operations),
        "shots": None if not tape.shots else int(tape.shots.total_shots),
    }


def same_val(a, b, tol=1e-12):
    a, b = np.asarray(a), np.asarray(b)
    return a.shape == b.shape and bool(np.all(np.abs(a - b) <= tol))


def canon_model(m):
    return (tuple((s[0], tuple(s[1])) for s in m["struct"]), tuple(m["meas"]),
            tuple(tuple(np.round(np.asarray(p, dtype=complex).ravel(), 9).tolist()) for p in m["P"]),
            tuple(m["F"]), tuple(m["T"]), m.get("shots"))
