"""x_diff — circuits with classical pre-processing for the differentiation checks (C34, C37, C38).

A circuit spec is {"w": [letters], "share": pattern, "meas": key, "lab": label key, "bcast": bool}.
 * letters (gate alphabet) are listed in LETTERS: name -> (number of parameters, number of wires used)
 * the QNode takes ONE vector argument z; gate parameter j is a function of z given by the sharing pattern
     distinct: g_j = z[j]                  shared: g_0 = g_1 = z[0], g_j = z[j-1]
     2x: g_0 = 2 z[0]   sq: g_0 = z[0]^2   sin: g_0 = sin z[0]   (other g_j = z[j])
   with bcast=True gate parameter 0 is the batch z[-3:] (three entries) and g_j = z[j-1] for j >= 1.
 * a fixed parameter-free prefix (H T SX T on even wires, SX T H T on odd wires) makes all derivatives generic.
The reference `ref_results` never calls PennyLane: gate matrices from mc.refgates / closed forms, tensordot
application, explicit measurement arithmetic.
"""
import math

import numpy as np

from mc import refgates as RG
from mc import refsim as RS

LABS = {"std": [0, 1, 2, 3], "str": ["a", "b", "c", "d"], "mix": [2, "q", 0, 5]}
ZVALS = [0.3, -1.234, 0.8, 1.9, -0.55, 2.4, 0.123, -2.2, 1.05, 0.61, -0.87, 1.41]

# name -> (n_params, wire positions)
LETTERS = {
    "RX": (1, [0]), "RY": (1, [1]), "RZ": (1, [0]), "Rot": (3, [1]), "CRX": (1, [0, 1]), "IsingXX": (1, [0, 1]),
    "PhaseShift": (1, [1]), "SingleExcitation": (1, [0, 1]), "DoubleExcitation": (1, [0, 1, 2, 3]), "MultiRZ": (1, [0, 1, 2]),
    "PauliRot": (1, [0, 1]), "U3": (3, [0]), "exp": (1, [0, 1]), "H": (0, [0]), "CNOT": (0, [0, 1]), "cRY": (0, [0]),
    "CRZ": (1, [1, 0]), "IsingZZ": (1, [0, 1]), "CRY": (1, [0, 1]), "CRot": (3, [0, 1]), "RY0": (1, [0]), "RX1": (1, [1]),
    "RZ1": (1, [1]), "CNOT10": (0, [1, 0]), "H1": (0, [1]),
}
CONST_RY = 0.7
PREFIX = [["Hadamard", "T", "SX", "T"], ["SX", "T", "Hadamard", "T"]]


def n_wires(w):
    return max([2] + [max(LETTERS[l][1]) + 1 for l in w])


def n_gate_params(w):
    return sum(LETTERS[l][0] for l in w)


def n_args(spec):
    p = n_gate_params(spec["w"])
    if spec.get("bcast"):
        return p - 1 + 3
    return p - 1 if spec["share"] == "shared" else p


def gate_params(spec, z, m):
    """Gate parameters as functions of z using the math module m (numpy / autograd numpy / jnp / torch)."""
    p = n_gate_params(spec["w"])
    share = spec["share"]
    if spec.get("bcast"):
        return [z[p - 1:p + 2]] + [z[j - 1] for j in range(1, p)]
    if share == "shared":
        return [z[0], z[0]] + [z[j - 1] for j in range(2, p)]
    g = [z[j] for j in range(p)]
    if share == "2x":
        g[0] = 2 * z[0]
    elif share == "sq":
        g[0] = z[0] ** 2
    elif share == "sin":
        g[0] = m.sin(z[0])
    return g


def z0(spec):
    return np.asarray(ZVALS[: n_args(spec)], dtype=float)


# ------------------------------------------------------------------------------------------------ live circuit
def apply_ops(spec, g, lab):
    """Queue the circuit's operations (inside a QNode / tape context)."""
    import pennylane as qp

    n = n_wires(spec["w"])
    L = lab[:n]
    for k in range(n):  # parameter-free prefix: a generic product state (Bloch vectors off every axis)
        for pg in PREFIX[k % 2]:
            getattr(qp, pg)(L[k])
    it = iter(g)
    for l in spec["w"]:
        npar, pos = LETTERS[l]
        ws = [L[i] for i in pos]
        if l in ("RX", "RX1"):
            qp.RX(next(it), wires=ws)
        elif l in ("RY", "RY0"):
            qp.RY(next(it), wires=ws)
        elif l in ("RZ", "RZ1"):
            qp.RZ(next(it), wires=ws)
        elif l == "Rot":
            qp.Rot(next(it), next(it), next(it), wires=ws)
        elif l == "CRot":
            qp.CRot(next(it), next(it), next(it), wires=ws)
        elif l == "U3":
            qp.U3(next(it), next(it), next(it), wires=ws)
        elif l == "exp":
            qp.exp(qp.X(ws[0]) @ qp.Z(ws[1]), 1j * next(it))
        elif l == "PauliRot":
            qp.PauliRot(next(it), "XY", wires=ws)
        elif l in ("H", "H1"):
            qp.Hadamard(ws)
        elif l in ("CNOT", "CNOT10"):
            qp.CNOT(ws)
        elif l == "cRY":
            qp.RY(CONST_RY, wires=ws)
        else:
            getattr(qp, l)(next(it), wires=ws)


def measurements(key, lab):
    import pennylane as qp

    a, b = lab[0], lab[1]
    if key == "E":
        return [qp.expval(qp.Z(a))]
    if key == "EE":
        return [qp.expval(qp.Z(a)), qp.expval(qp.X(b) @ qp.Y(a))]
    if key == "P":
        return [qp.probs(wires=[b, a])]
    if key == "EP":
        return [qp.expval(qp.Y(b)), qp.probs(wires=[a])]
    if key == "V":
        return [qp.var(qp.Z(a) @ qp.X(b))]
    if key == "Ham":
        return [qp.expval(qp.Hamiltonian([0.5, 2.0, -1.5], [qp.X(a), qp.Z(a) @ qp.Z(b), qp.Y(b)]))]
    if key == "EV":
        return [qp.expval(qp.X(a)), qp.var(qp.Y(b))]
    raise KeyError(key)


def make_qnode(spec, device, interface, diff_method, **kw):
    import pennylane as qp

    lab = LABS[spec["lab"]]
    m = _mathmod(interface)

    def circuit(z):
        apply_ops(spec, gate_params(spec, z, m), lab)
        ms = measurements(spec["meas"], lab)
        return ms[0] if len(ms) == 1 else tuple(ms)

    return qp.QNode(circuit, device, interface=interface, diff_method=diff_method, **kw)


def _mathmod(interface):
    if interface in ("autograd", None, "auto"):
        from pennylane import numpy as anp

        return anp
    if interface in ("jax", "jax-jit"):
        import jax.numpy as jnp

        return jnp
    if interface == "torch":
        import torch

        return torch
    return np


# ------------------------------------------------------------------------------------------------ reference
_P = {"X": RG.X, "Y": RG.Y, "Z": RG.Z}


def ref_gate(l, params):
    if l in ("RX", "RX1"):
        return RG.RX(params[0])
    if l in ("RY", "RY0"):
        return RG.RY(params[0])
    if l in ("RZ", "RZ1"):
        return RG.RZ(params[0])
    if l == "Rot":
        return RG.Rot(*params)
    if l == "U3":
        return RG.U3(*params)
    if l == "CRot":
        return RG.controlled(RG.Rot(*params))
    if l in ("CRX", "CRY", "CRZ"):
        return RG.controlled({"CRX": RG.RX, "CRY": RG.RY, "CRZ": RG.RZ}[l](params[0]))
    if l == "IsingXX":
        return RG.pauli_rot(params[0], "XX")
    if l == "IsingZZ":
        return RG.pauli_rot(params[0], "ZZ")
    if l == "PauliRot":
        return RG.pauli_rot(params[0], "XY")
    if l == "MultiRZ":
        return RG.pauli_rot(params[0], "ZZZ")
    if l == "PhaseShift":
        return RG.PhaseShift(params[0])
    if l == "SingleExcitation":
        return RG.SingleExcitation(params[0])
    if l == "DoubleExcitation":
        return RG.DoubleExcitation(params[0])
    if l == "exp":  # exp(i t X(x)Z)
        XZ = np.kron(RG.X, RG.Z)
        return math.cos(params[0]) * np.eye(4) + 1j * math.sin(params[0]) * XZ
    if l in ("H", "H1"):
        return RG.H
    if l in ("CNOT", "CNOT10"):
        return RG.controlled(RG.X)
    if l == "cRY":
        return RG.RY(CONST_RY)
    raise KeyError(l)


def ref_state(spec, g):
    """Final state tensor for scalar gate parameters g (list of floats)."""
    n = n_wires(spec["w"])
    st = RS.zero_state(n)
    for k in range(n):
        for gname in PREFIX[k % 2]:
            st = RS.apply_matrix(st, {"Hadamard": RG.H, "T": RG.T, "SX": RG.SX}[gname], [k], n)
    i = 0
    for l in spec["w"]:
        npar, pos = LETTERS[l]
        st = RS.apply_matrix(st, ref_gate(l, [float(x) for x in g[i:i + npar]]), pos, n)
        i += npar
    return st


def _ev(st, word, pos):
    M = RG.kron(*[_P[c] for c in word])
    return RS.expval(st, M, pos).real


def ref_measure(key, st):
    """list of numpy arrays, one per measurement (positions 0,1 = labels a,b)."""
    if key == "E":
        return [np.asarray(_ev(st, "Z", [0]))]
    if key == "EE":
        return [np.asarray(_ev(st, "Z", [0])), np.asarray(_ev(st, "XY", [1, 0]))]
    if key == "P":
        return [RS.probs_of(st, [1, 0])]
    if key == "EP":
        return [np.asarray(_ev(st, "Y", [1])), RS.probs_of(st, [0])]
    if key == "V":
        e = _ev(st, "ZX", [0, 1])
        return [np.asarray(1.0 - e * e)]
    if key == "Ham":
        return [np.asarray(0.5 * _ev(st, "X", [0]) + 2.0 * _ev(st, "ZZ", [0, 1]) - 1.5 * _ev(st, "Y", [1]))]
    if key == "EV":
        e = _ev(st, "Y", [1])
        return [np.asarray(_ev(st, "X", [0])), np.asarray(1.0 - e * e)]
    raise KeyError(key)


def ref_flat(spec, z):
    """Flattened reference results in the QNode's output order (per measurement; batch axis first)."""
    z = np.asarray(z, dtype=float)
    g = gate_params(spec, z, np)
    if spec.get("bcast"):
        per_b = [ref_measure(spec["meas"], ref_state(spec, [float(g[0][b])] + [float(x) for x in g[1:]])) for b in range(3)]
        out = [np.stack([per_b[b][k] for b in range(3)]).reshape(-1) for k in range(len(per_b[0]))]
    else:
        out = [np.asarray(r, dtype=float).reshape(-1) for r in ref_measure(spec["meas"], ref_state(spec, [float(x) for x in g]))]
    return np.concatenate(out)


def ref_jacobian(spec, z=None):
    z = z0(spec) if z is None else np.asarray(z, dtype=float)
    return RS.fd_jacobian(lambda y: ref_flat(spec, y), z)


def ref_hessian(spec, z=None, h=2e-2):
    """Nested 8th-order central differences: shape (M, n, n)."""
    z = z0(spec) if z is None else np.asarray(z, dtype=float)
    return RS.fd_jacobian(lambda y: RS.fd_jacobian(lambda u: ref_flat(spec, u), y, h), z, h)
