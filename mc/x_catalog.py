"""Operator-instance catalogue (DESIGN §3.3) shared by C01-C12, C26, C33, C67.

API (import as `from mc import x_catalog as cat`)
-------------------------------------------------
    cat.names(category=None)        sorted list of catalogue names.  A name is the canonical registry name
                                    (`pennylane.decomposition.utils.to_name`): "RX", "Adjoint(RX)", "Pow(S)", "C(RX)", "QFT" ...
                                    category in {"gate","matrix","observable","channel","stateprep","meta","symbolic",
                                    "template","wrapper"} restricts the list.
    cat.category(name)              the category string of a name.
    cat.skeletons(name, tier)       the *variants* of a name (hyper-parameter menu x sizes), one spec each, scalar
                                    parameters at generic values.  tier in {"one","few","quick","thorough"}.
    cat.instances(name, tier)       list of JSON specs = variants x parameter rows x wire labelings:
                                      "one"      1 spec (first variant, generic parameters, wires 0..n-1)
                                      "few"      every variant x {generic, all-pi} + generic on the 'mixed' labeling
                                      "quick"    ANG_quick^k (full product k<=3 [wrappers k<=1], pairwise-covering beyond) on
                                                 wires 0..n-1 for the first two variants, 4 boundary rows for the other variants,
                                                 plus the other LAB labelings at the generic and the all-pi row
                                      "thorough" the same with ANG_thorough and every variant getting the full rows for k<=2
                                    Scalar parameters declared "prob" use PROB instead of ANG.
    cat.build(spec)                 the live operator (imports PennyLane lazily).  Pure function of the spec.
    cat.uncovered()                 coverage report: list of {"name","where","reason"} for every public operator class
                                    (recursive subclasses of Operator / Operator2), qp.ops / qp.templates export and
                                    decomposition-registry key that the catalogue cannot instantiate.
    cat.params(spec)                flat list of all scalar parameters (outer spec first, then nested "$op" specs in order)
    cat.with_params(spec, flat)     copy of the spec with the scalar parameters replaced (values may be lists = batch)
    cat.batched(spec, rows)         copy whose scalar parameters are stacked from `rows` (list of flat parameter lists)
    cat.wires_of(spec)              labels used by the spec in order of first appearance (work wires included)
    cat.relabel(spec, mapping)      copy with every wire label mapped
    cat.canon_name(op)              canonical catalogue name of a live operator
    cat.key(spec)                   short readable string ("RX(0.3)@[0]") for signatures / fingerprints
    cat.selftest(tier)              builds every instance once; returns list of (name, key, error) failures

Spec format (JSON-serialisable)
-------------------------------
    {"op": <catalogue name>, "f": <constructor path relative to `pennylane`, or "sub.module:attr">, "a": [positional args], "kw": {keyword args},
     "p": [scalar parameters], "pk": "ang"|"prob"|[per-parameter kind], "v": <variant label>}
  Encoded values inside "a"/"kw" (recursively):
    {"$p": i}           scalar parameter i of this spec (float, or numpy array if the stored value is a list = batched)
    {"$w": [labels]}    a list of wire labels            {"$w1": label}  a single wire label
    {"$arr": nested, "dtype": "float"|"int"|"complex"|"bool"}   numpy array ("complex": {"$arr": {"re":…, "im":…}})
    {"$U": name}        fixed unitary from mc.x_alphabet.UTABLE      {"$c": [re, im]}  complex scalar
    {"$op": spec}       nested operator        {"$ops": [spec, …]}   list of operators
    {"$t": [...]}       tuple                  {"$cls": "CNOT"}      a PennyLane class (qp.<name>)
    {"$fn": name}       callable from FN       {"$sparse": <encoded array>}  scipy csr matrix
    {"$mv": spec}       measurement value of a mid-circuit measurement built from a MidMeasure spec
  Canonical specs use integer wires 0..n-1; `relabel` produces the other labelings.
"""
import copy
import functools
import itertools
import math

import numpy as np

from mc import x_alphabet as A

PI = math.pi


# =============================================================================================== encoding helpers
def W(*ws):
    if len(ws) == 1 and isinstance(ws[0], (list, tuple, range)):
        ws = list(ws[0])
    return {"$w": list(ws)}


def W1(w):
    return {"$w1": w}


def P(i):
    return {"$p": i}


def ARR(x, dtype="float"):
    x = np.asarray(x)
    if dtype == "complex" or np.iscomplexobj(x):
        return {"$arr": {"re": np.round(x.real, 12).tolist(), "im": np.round(np.imag(x), 12).tolist()}, "dtype": "complex"}
    if dtype == "int":
        return {"$arr": x.astype(int).tolist(), "dtype": "int"}
    if dtype == "bool":
        return {"$arr": x.astype(int).tolist(), "dtype": "bool"}
    return {"$arr": np.round(x.astype(float), 12).tolist(), "dtype": "float"}


def OP(s):
    return {"$op": s}


def OPS(ss):
    return {"$ops": list(ss)}


def U(name):
    return {"$U": name}


def sk(op, f, *a, p=(), pk="ang", v="", **kw):
    """Build a skeleton spec."""
    return {"op": op, "f": f, "a": list(a), "kw": kw, "p": [float(x) for x in p], "pk": pk, "v": v}


def g(op, k, n, f=None, v="", pk="ang", **kw):
    """Standard gate skeleton: qp.<op>(p_0..p_{k-1}, wires=[0..n-1], **kw)."""
    return sk(op, f or op, *[P(i) for i in range(k)], p=A.generic_row(k), pk=pk, v=v, wires=W(range(n)), **kw)


# callables referenced by {"$fn": name}
def _fn_table():
    import pennylane as qp

    def mps_block(weights, wires):
        qp.CNOT(wires=[wires[0], wires[1]])
        qp.RY(weights[0], wires=wires[0])
        qp.RY(weights[1], wires=wires[1])

    def poly_xy(x, y):
        return x + 2 * y

    def poly_sq(x):
        return x * x + 1

    def qmc_func(i):
        return math.sin(i) ** 2

    def trotter_qfunc(time, theta, wires):
        qp.RX(time * theta, wires[0])
        qp.CNOT(wires=wires[:2])
        qp.RZ(time, wires[1])

    return {"mps_block": mps_block, "poly_xy": poly_xy, "poly_sq": poly_sq, "qmc_func": qmc_func, "trotter_qfunc": trotter_qfunc}


@functools.lru_cache(None)
def FN():
    return _fn_table()


# =============================================================================================== build
def _resolve(path):
    import importlib

    import pennylane as qp

    if ":" in path:  # "sub.module:attr" (for modules shadowed by same-named functions, e.g. qp.drawer.label)
        mod, attr = path.split(":")
        return getattr(importlib.import_module("pennylane." + mod), attr)
    obj = qp
    for part in path.split("."):
        obj = getattr(obj, part)
    return obj


def _dec(x, spec):
    if isinstance(x, dict):
        if "$p" in x:
            v = spec["p"][x["$p"]]
            return np.array(v, dtype=float) if isinstance(v, list) else v
        if "$w" in x:
            return list(x["$w"])
        if "$w1" in x:
            return x["$w1"]
        if "$arr" in x:
            d = x.get("dtype", "float")
            if d == "complex":
                return np.array(x["$arr"]["re"], dtype=float) + 1j * np.array(x["$arr"]["im"], dtype=float)
            return np.array(x["$arr"], dtype={"float": float, "int": int, "bool": bool}[d])
        if "$U" in x:
            return np.array(A.UTABLE[x["$U"]], dtype=complex)
        if "$c" in x:
            return complex(x["$c"][0], x["$c"][1])
        if "$op" in x:
            return build(x["$op"])
        if "$ops" in x:
            return [build(s) for s in x["$ops"]]
        if "$t" in x:
            return tuple(_dec(e, spec) for e in x["$t"])
        if "$cls" in x:
            return _resolve(x["$cls"])
        if "$fn" in x:
            return FN()[x["$fn"]]
        if "$sparse" in x:
            from scipy.sparse import csr_matrix

            return csr_matrix(_dec(x["$sparse"], spec))
        if "$mv" in x:
            import pennylane as qp
            from pennylane.ops.mid_measure import MeasurementValue

            return MeasurementValue([build(x["$mv"])], lambda v: v)
        return {k: _dec(v, spec) for k, v in x.items()}
    if isinstance(x, list):
        return [_dec(e, spec) for e in x]
    return x


def build(spec):
    """Live operator from a spec (never queued into an active recording context twice: built under stop_recording)."""
    import pennylane as qp

    with qp.QueuingManager.stop_recording():
        fn = _resolve(spec["f"])
        args = [_dec(a, spec) for a in spec.get("a", [])]
        kw = {k: _dec(v, spec) for k, v in spec.get("kw", {}).items()}
        return fn(*args, **kw)


# =============================================================================================== spec utilities
def _walk(x, fn):
    """Apply fn to every encoded dict (post-order copy)."""
    if isinstance(x, dict):
        if "$op" in x:
            return {"$op": _walk_spec(x["$op"], fn)}
        if "$ops" in x:
            return {"$ops": [_walk_spec(s, fn) for s in x["$ops"]]}
        if "$mv" in x:
            return {"$mv": _walk_spec(x["$mv"], fn)}
        r = fn(x)
        if r is not None:
            return r
        return {k: _walk(v, fn) for k, v in x.items()}
    if isinstance(x, list):
        return [_walk(e, fn) for e in x]
    return x


def _walk_spec(spec, fn):
    s = dict(spec)
    s["a"] = [_walk(a, fn) for a in spec.get("a", [])]
    s["kw"] = {k: _walk(v, fn) for k, v in spec.get("kw", {}).items()}
    s["p"] = list(spec.get("p", []))
    return s


def _subspecs(x, out):
    if isinstance(x, dict):
        if "$op" in x:
            _collect(x["$op"], out)
        elif "$ops" in x:
            for s in x["$ops"]:
                _collect(s, out)
        elif "$mv" in x:
            _collect(x["$mv"], out)
        else:
            for v in x.values():
                _subspecs(v, out)
    elif isinstance(x, list):
        for e in x:
            _subspecs(e, out)


def _collect(spec, out):
    out.append(spec)
    for a in spec.get("a", []):
        _subspecs(a, out)
    for v in spec.get("kw", {}).values():
        _subspecs(v, out)


def _all_specs(spec):
    out = []
    _collect(spec, out)
    return out


def params(spec):
    return [v for s in _all_specs(spec) for v in s.get("p", [])]


def param_kinds(spec):
    out = []
    for s in _all_specs(spec):
        pk = s.get("pk", "ang")
        n = len(s.get("p", []))
        out += list(pk) if isinstance(pk, list) else [pk] * n
    return out


def with_params(spec, flat):
    s = copy.deepcopy(spec)
    flat = list(flat)
    i = 0
    for sub in _all_specs(s):
        n = len(sub.get("p", []))
        sub["p"] = [(list(v) if isinstance(v, (list, tuple)) else float(v)) for v in flat[i:i + n]]
        i += n
    if i != len(flat):
        raise ValueError(f"with_params: spec has {i} parameters, got {len(flat)}")
    return s


def batched(spec, rows):
    rows = [list(r) for r in rows]
    return with_params(spec, [[r[i] for r in rows] for i in range(len(rows[0]))]) if rows and rows[0] else copy.deepcopy(spec)


def wires_of(spec):
    seen = []

    def visit(x):
        if isinstance(x, dict):
            if "$w" in x:
                for w in x["$w"]:
                    if w not in seen:
                        seen.append(w)
            elif "$w1" in x:
                if x["$w1"] not in seen:
                    seen.append(x["$w1"])
            elif "$op" in x:
                vs(x["$op"])
            elif "$ops" in x:
                for s in x["$ops"]:
                    vs(s)
            elif "$mv" in x:
                vs(x["$mv"])
            else:
                for v in x.values():
                    visit(v)
        elif isinstance(x, list):
            for e in x:
                visit(e)

    def vs(s):
        for a in s.get("a", []):
            visit(a)
        for v in s.get("kw", {}).values():
            visit(v)

    vs(spec)
    return seen


def relabel(spec, mapping):
    m = dict(mapping)

    def fn(x):
        if "$w" in x:
            return {"$w": [m.get(w, w) for w in x["$w"]]}
        if "$w1" in x:
            return {"$w1": m.get(x["$w1"], x["$w1"])}
        return None

    s = _walk_spec(spec, fn)
    return s


def _fmt(v):
    if isinstance(v, list):
        return "[" + ",".join(_fmt(x) for x in v) + "]"
    return A.ANG_NAMES.get(v, f"{v:.6g}")


def key(spec):
    """Short readable identifier of an instance."""
    ps = ",".join(_fmt(v) for v in params(spec))
    v = spec.get("v", "")
    return f"{spec['op']}{'<' + v + '>' if v else ''}({ps})@{wires_of(spec)}"


# =============================================================================================== recipes
# RECIPES[name] = (category, function(tier) -> list of skeleton specs)
RECIPES = {}


def recipe(name, cat):
    def deco(fn):
        RECIPES[name] = (cat, fn)
        return fn

    return deco


def _simple(name, cat, k, n, **kw):
    RECIPES[name] = (cat, lambda tier, name=name, k=k, n=n, kw=kw: [g(name, k, n, **kw)])


# ---- fixed-size gates ---------------------------------------------------------------------------------
for _n, _k, _w in [("PauliX", 0, 1), ("PauliY", 0, 1), ("PauliZ", 0, 1), ("Hadamard", 0, 1), ("S", 0, 1), ("T", 0, 1), ("SX", 0, 1),
                   ("CNOT", 0, 2), ("CZ", 0, 2), ("CY", 0, 2), ("CH", 0, 2), ("SWAP", 0, 2), ("ISWAP", 0, 2), ("SISWAP", 0, 2),
                   ("ECR", 0, 2), ("CSWAP", 0, 3), ("Toffoli", 0, 3), ("CCZ", 0, 3),
                   ("RX", 1, 1), ("RY", 1, 1), ("RZ", 1, 1), ("PhaseShift", 1, 1), ("U1", 1, 1), ("U2", 2, 1), ("U3", 3, 1),
                   ("Rot", 3, 1), ("CRX", 1, 2), ("CRY", 1, 2), ("CRZ", 1, 2), ("CRot", 3, 2), ("ControlledPhaseShift", 1, 2),
                   ("CPhaseShift00", 1, 2), ("CPhaseShift01", 1, 2), ("CPhaseShift10", 1, 2),
                   ("IsingXX", 1, 2), ("IsingYY", 1, 2), ("IsingZZ", 1, 2), ("IsingXY", 1, 2), ("PSWAP", 1, 2),
                   ("SingleExcitation", 1, 2), ("SingleExcitationPlus", 1, 2), ("SingleExcitationMinus", 1, 2),
                   ("DoubleExcitation", 1, 4), ("DoubleExcitationPlus", 1, 4), ("DoubleExcitationMinus", 1, 4),
                   ("FermionicSWAP", 1, 2), ("OrbitalRotation", 1, 4), ("QubitCarry", 0, 4), ("QubitSum", 0, 3)]:
    _simple(_n, "gate", _k, _w)


@recipe("Identity", "gate")
def _identity(tier):
    return [g("Identity", 0, 1, v="1w"), g("Identity", 0, 2, v="2w"), g("Identity", 0, 0, v="0w")]


@recipe("GlobalPhase", "gate")
def _globalphase(tier):
    return [g("GlobalPhase", 1, 0, v="0w"), g("GlobalPhase", 1, 1, v="1w"), g("GlobalPhase", 1, 2, v="2w")]


@recipe("MultiRZ", "gate")
def _multirz(tier):
    return [g("MultiRZ", 1, n, v=f"{n}w") for n in ((2, 1, 3) if tier != "thorough" else (2, 1, 3, 4))]


@recipe("PauliRot", "gate")
def _paulirot(tier):
    words = ["XY", "X", "Y", "Z", "ZZX", "IXZ"] + (["II", "YYZ", "XYZI"] if tier == "thorough" else [])
    return [g("PauliRot", 1, len(w), v=w, pauli_word=w) for w in words]


@recipe("PCPhase", "gate")
def _pcphase(tier):
    out = []
    for n, dims in [(2, (1, 2, 3)), (1, (1,)), (3, (5,))] + ([(2, (0, 4)), (1, (2, 0)), (3, (1, 4, 8))] if tier == "thorough" else []):
        for d in dims:
            out.append(sk("PCPhase", "PCPhase", P(0), p=[A.G1], v=f"{n}w,dim{d}", dim=d, wires=W(range(n))))
    return out


@recipe("MultiControlledX", "gate")
def _mcx(tier):
    out = []
    ks = (2, 1, 3) if tier != "thorough" else (2, 1, 3, 4)
    for k in ks:
        cvs = A.ctrl_values(k) if k <= 3 else [[1, 1, 1, 1], [0, 1, 0, 1], [0, 0, 0, 0]]
        for cv in cvs:
            out.append(sk("MultiControlledX", "MultiControlledX", v=f"{k}c," + "".join(map(str, cv)), wires=W(range(k + 1)),
                          control_values=cv))
    for wwt in ("borrowed", "zeroed"):
        out.append(sk("MultiControlledX", "MultiControlledX", v=f"3c,111,work-{wwt}", wires=W(range(4)), control_values=[1, 1, 1],
                      work_wires=W([4]), work_wire_type=wwt))
    return out


@recipe("IntegerComparator", "gate")
def _intcomp(tier):
    out = []
    for n, vals in [(3, (1, 2, 0, 3, 4)), (2, (1,)), (4, (5,))]:
        for val in vals:
            for geq in (True, False):
                out.append(sk("IntegerComparator", "IntegerComparator", val, v=f"{n}w,val{val},geq{int(geq)}", geq=geq, wires=W(range(n))))
    return out


@recipe("TemporaryAND", "gate")
def _tand(tier):
    return [sk("TemporaryAND", "TemporaryAND", v="".join(map(str, cv)), wires=W(range(3)), control_values=cv) for cv in A.ctrl_values(2)]


# ---- matrix-valued operators --------------------------------------------------------------------------
@recipe("QubitUnitary", "matrix")
def _qubitunitary(tier):
    out = [sk("QubitUnitary", "QubitUnitary", U(u), v=u, wires=W([0])) for u in A.U1Q]
    out += [sk("QubitUnitary", "QubitUnitary", U(u), v=u, wires=W([0, 1])) for u in A.U2Q]
    if tier == "thorough":
        out.append(sk("QubitUnitary", "QubitUnitary", U("haar8"), v="haar8", wires=W([0, 1, 2])))
    return out[5:7] + out[:5] + out[7:]  # generic first


@recipe("DiagonalQubitUnitary", "matrix")
def _dqu(tier):
    out = []
    for n in (1, 2) + ((3,) if tier == "thorough" else ()):
        ph = A.ld((2 ** n,), n)
        out.append(sk("DiagonalQubitUnitary", "DiagonalQubitUnitary", ARR(np.exp(1j * ph)), v=f"{n}w,generic", wires=W(range(n))))
        out.append(sk("DiagonalQubitUnitary", "DiagonalQubitUnitary", ARR(np.array([1, -1] * 2 ** (n - 1), dtype=complex), "complex"),
                      v=f"{n}w,pm1", wires=W(range(n))))
        out.append(sk("DiagonalQubitUnitary", "DiagonalQubitUnitary", ARR(np.ones(2 ** n, dtype=complex), "complex"), v=f"{n}w,ones",
                      wires=W(range(n))))
    return out


@recipe("ControlledQubitUnitary", "matrix")
def _cqu(tier):
    out = []
    for u, nt in [("haar2", 1), ("X", 1), ("S", 1), ("haar4", 2), ("SWAP", 2)]:
        for k in (1, 2) + ((3,) if tier == "thorough" and nt == 1 else ()):
            for cv in A.ctrl_values(k):
                out.append(sk("ControlledQubitUnitary", "ControlledQubitUnitary", U(u), v=f"{u},{k}c," + "".join(map(str, cv)),
                              wires=W(range(k + nt)), control_values=cv))
    out.append(sk("ControlledQubitUnitary", "ControlledQubitUnitary", U("haar2"), v="haar2,2c,work", wires=W(range(3)),
                  control_values=[1, 0], work_wires=W([3])))
    return out


@recipe("BlockEncode", "matrix")
def _blockencode(tier):
    mats = {"2x2": A.ld((2, 2), 3, -0.4, 0.4), "1x1": np.array([[0.3]]), "2x3": A.ld((2, 3), 5, -0.3, 0.3), "zero": np.zeros((2, 2)),
            "eye": np.eye(2), "c2x2": A.ld((2, 2), 3, -0.3, 0.3) + 1j * A.ld((2, 2), 4, -0.3, 0.3)}
    out = []
    for k, m in mats.items():
        nw = 3 if k == "2x3" else (1 if k == "1x1" else 2)
        out.append(sk("BlockEncode", "BlockEncode", ARR(m), v=k, wires=W(range(nw))))
    return out


@recipe("SpecialUnitary", "matrix")
def _su(tier):
    out = []
    for n in (1, 2):
        d = 4 ** n - 1
        out.append(sk("SpecialUnitary", "SpecialUnitary", ARR(A.ld((d,), n, -1, 1)), v=f"{n}w,generic", wires=W(range(n))))
        out.append(sk("SpecialUnitary", "SpecialUnitary", ARR(np.zeros(d)), v=f"{n}w,zeros", wires=W(range(n))))
        oh = np.zeros(d)
        oh[d // 2] = A.G1
        out.append(sk("SpecialUnitary", "SpecialUnitary", ARR(oh), v=f"{n}w,onehot", wires=W(range(n))))
    return out


# ---- observables --------------------------------------------------------------------------------------
@recipe("Hermitian", "observable")
def _hermitian(tier):
    out = [sk("Hermitian", "Hermitian", ARR(A.ld_hermitian(2, 1), "complex"), v="1w,generic", wires=W([0])),
           sk("Hermitian", "Hermitian", ARR(A.ld_hermitian(4, 2), "complex"), v="2w,generic", wires=W([0, 1])),
           sk("Hermitian", "Hermitian", ARR(np.array([[1, 0], [0, -1]], dtype=complex), "complex"), v="1w,Z", wires=W([0])),
           sk("Hermitian", "Hermitian", ARR(np.eye(4, dtype=complex), "complex"), v="2w,eye(degenerate)", wires=W([0, 1])),
           sk("Hermitian", "Hermitian", ARR(np.real(A.ld_hermitian(2, 3))), v="1w,real", wires=W([0]))]
    return out


@recipe("Projector", "observable")
def _projector(tier):
    out = [sk("Projector", "Projector", ARR([1, 0], "int"), v="basis10", wires=W([0, 1])),
           sk("Projector", "Projector", ARR([1], "int"), v="basis1", wires=W([0])),
           sk("Projector", "Projector", ARR([0, 0, 1], "int"), v="basis001", wires=W([0, 1, 2])),
           sk("Projector", "Projector", ARR(A.ld_state(2, 1), "complex"), v="state1w", wires=W([0])),
           sk("Projector", "Projector", ARR(A.ld_state(4, 2), "complex"), v="state2w", wires=W([0, 1])),
           sk("Projector", "Projector", ARR(np.array([0, 1, 0, 0], dtype=complex), "complex"), v="state2w-onehot", wires=W([0, 1]))]
    return out


@recipe("SparseHamiltonian", "observable")
def _sparseham(tier):
    return [sk("SparseHamiltonian", "SparseHamiltonian", {"$sparse": ARR(A.ld_hermitian(4, 2), "complex")}, v="2w", wires=W([0, 1])),
            sk("SparseHamiltonian", "SparseHamiltonian", {"$sparse": ARR(np.diag([1.0, 0, 0, -2.0]))}, v="2w,diag", wires=W([0, 1])),
            sk("SparseHamiltonian", "SparseHamiltonian", {"$sparse": ARR(A.ld_hermitian(2, 1), "complex")}, v="1w", wires=W([0]))]


# ---- state preparation --------------------------------------------------------------------------------
@recipe("BasisState", "stateprep")
def _basisstate(tier):
    return [sk("BasisState", "BasisState", ARR(b, "int"), v="".join(map(str, b)), wires=W(range(len(b))))
            for b in ([1, 0], [1], [0, 1, 1], [0, 0])]


@recipe("StatePrep", "stateprep")
def _stateprep(tier):
    return [sk("StatePrep", "StatePrep", ARR(A.ld_state(4, 1), "complex"), v="2w", wires=W([0, 1])),
            sk("StatePrep", "StatePrep", ARR(A.ld_state(2, 2), "complex"), v="1w", wires=W([0])),
            sk("StatePrep", "StatePrep", ARR(np.array([0, 0, 1, 0], dtype=complex), "complex"), v="2w,onehot", wires=W([0, 1])),
            sk("StatePrep", "StatePrep", ARR(A.ld_state(8, 3, real=True)), v="3w,real", wires=W([0, 1, 2])),
            sk("StatePrep", "StatePrep", ARR(np.array([1.0, 2.0, 2.0]) / 3), v="2w,padded", wires=W([0, 1]), pad_with=0.0)]


@recipe("QubitDensityMatrix", "stateprep")
def _qdm(tier):
    v = A.ld_state(4, 1)
    rho = 0.7 * np.outer(v, v.conj()) + 0.3 * np.eye(4) / 4
    return [sk("QubitDensityMatrix", "QubitDensityMatrix", ARR(rho, "complex"), v="2w", wires=W([0, 1]))]


# ---- channels -----------------------------------------------------------------------------------------
for _n, _k in [("AmplitudeDamping", 1), ("BitFlip", 1), ("DepolarizingChannel", 1), ("PhaseDamping", 1), ("PhaseFlip", 1),
               ("GeneralizedAmplitudeDamping", 2)]:
    _simple(_n, "channel", _k, 1, pk="prob")


@recipe("ResetError", "channel")
def _reseterror(tier):
    return [sk("ResetError", "ResetError", P(0), P(1), p=[0.137, 0.4], pk="prob2", v="", wires=W([0]))]


@recipe("ThermalRelaxationError", "channel")
def _thermal(tier):
    out = []
    for lab_, (pe, t1, t2, tg) in {"t2<=t1": (0.1, 8e-5, 5e-5, 1e-6), "t2>t1": (0.3, 5e-5, 8e-5, 1e-6), "pe0": (0.0, 8e-5, 5e-5, 2e-5),
                                   "pe1": (1.0, 5e-5, 9e-5, 2e-5)}.items():
        out.append(sk("ThermalRelaxationError", "ThermalRelaxationError", pe, t1, t2, tg, v=lab_, wires=W([0])))
    return out


@recipe("PauliError", "channel")
def _paulierror(tier):
    return [sk("PauliError", "PauliError", w, P(0), p=[0.137], pk="prob", v=w, wires=W(range(len(w)))) for w in ("X", "Y", "ZX", "XYZ")]


@recipe("QubitChannel", "channel")
def _qubitchannel(tier):
    p = 0.137
    K = [ARR(math.sqrt(1 - p) * np.eye(2, dtype=complex), "complex"), ARR(math.sqrt(p) * A.UTABLE["X"], "complex")]
    K2 = [ARR(math.sqrt(0.5) * A.UTABLE["haar4"], "complex"), ARR(math.sqrt(0.5) * A.UTABLE["CNOT"], "complex")]
    return [sk("QubitChannel", "QubitChannel", K, v="bitflip", wires=W([0])), sk("QubitChannel", "QubitChannel", K2, v="2w", wires=W([0, 1]))]


# ---- meta ---------------------------------------------------------------------------------------------
@recipe("Barrier", "meta")
def _barrier(tier):
    return [sk("Barrier", "Barrier", v="2w", wires=W([0, 1])), sk("Barrier", "Barrier", v="1w,visual", wires=W([0]), only_visual=True)]


@recipe("WireCut", "meta")
def _wirecut(tier):
    return [sk("WireCut", "WireCut", v="1w", wires=W([0])), sk("WireCut", "WireCut", v="2w", wires=W([0, 1]))]


@recipe("Snapshot", "meta")
def _snapshot(tier):
    return [sk("Snapshot", "Snapshot", v="untagged"), sk("Snapshot", "Snapshot", "tag", v="tagged")]


@recipe("MidMeasure", "meta")
def _midmeasure(tier):
    out = []
    for reset in (False, True):
        for ps in (None, 0, 1):
            out.append(sk("MidMeasure", "ops.mid_measure.MidMeasure", W([0]), v=f"reset{int(reset)},ps{ps}", reset=reset, postselect=ps,
                          meas_uid="m0"))
    return out


@recipe("PauliMeasure", "meta")
def _paulimeasure(tier):
    return [sk("PauliMeasure", "ops.mid_measure.PauliMeasure", w, v=f"{w},ps{ps}", wires=W(range(len(w))), postselect=ps,
               meas_uid="m0") for w in ("XY", "Z", "ZZX") for ps in (None, 1)]


# ---- arithmetic / symbolic (fixed small expressions; C03 explores the grammar itself) -------------------
def _leaf(name, *p, wires):
    return sk(name, name, *[P(i) for i in range(len(p))], p=p, wires=W(wires))


@recipe("Prod", "symbolic")
def _prod(tier):
    return [sk("Prod", "prod", OP(_leaf("RX", A.G1, wires=[0])), OP(_leaf("CNOT", wires=[0, 1])), v="RX@CNOT"),
            sk("Prod", "prod", OP(_leaf("PauliX", wires=[0])), OP(_leaf("PauliY", wires=[1])), v="X@Y"),
            sk("Prod", "prod", OP(_leaf("PauliX", wires=[0])), OP(_leaf("PauliZ", wires=[0])), v="X@Z-same-wire"),
            sk("Prod", "prod", OP(_leaf("Hadamard", wires=[1])), OP(_leaf("RZ", A.G2, wires=[0])), OP(_leaf("SWAP", wires=[1, 2])), v="3factors")]


@recipe("Sum", "symbolic")
def _sum(tier):
    return [sk("Sum", "sum", OP(_leaf("PauliX", wires=[0])), OP(_leaf("PauliZ", wires=[1])), v="X+Z"),
            sk("Sum", "sum", OP(_leaf("PauliX", wires=[0])), OP(_leaf("PauliX", wires=[0])), v="X+X"),
            sk("Sum", "sum", OP(_leaf("RX", A.G1, wires=[0])), OP(_leaf("Hadamard", wires=[1])), OP(_leaf("CNOT", wires=[1, 0])), v="3terms")]


@recipe("SProd", "symbolic")
def _sprod(tier):
    out = [sk("SProd", "s_prod", A.scal(c) if not c[1] else {"$c": c}, OP(_leaf("PauliX", wires=[0])), v=f"{c}*X") for c in A.SCAL]
    out.append(sk("SProd", "s_prod", 0.5, OP(_leaf("RX", A.G1, wires=[1])), v="0.5*RX"))
    return out


@recipe("Exp", "symbolic")
def _exp(tier):
    return [sk("Exp", "exp", OP(_leaf("PauliX", wires=[0])), {"$c": [0, A.G1]}, v="exp(i g1 X)"),
            sk("Exp", "exp", OP(_leaf("PauliZ", wires=[0])), -0.5, v="exp(-0.5 Z)"),
            sk("Exp", "exp", OP(sk("Prod", "prod", OP(_leaf("PauliX", wires=[0])), OP(_leaf("PauliY", wires=[1])))), {"$c": [0, -0.7]}, v="exp(-0.7i XY)")]


@recipe("Evolution", "symbolic")
def _evolution(tier):
    return [sk("Evolution", "evolve", OP(_leaf("PauliX", wires=[0])), P(0), p=[A.G1], v="X"),
            sk("Evolution", "evolve", OP(sk("Sum", "sum", OP(_leaf("PauliX", wires=[0])), OP(_leaf("PauliZ", wires=[1])))), P(0), p=[A.G2], v="X+Z"),
            sk("Evolution", "evolve", OP(sk("Prod", "prod", OP(_leaf("PauliZ", wires=[0])), OP(_leaf("PauliZ", wires=[1])))), P(0), p=[A.G1], v="ZZ")]


@recipe("LinearCombination", "symbolic")
def _lincomb(tier):
    return [sk("LinearCombination", "ops.LinearCombination", [0.5, -1.5, 2.0],
               OPS([_leaf("PauliX", wires=[0]), _leaf("PauliZ", wires=[1]), sk("Prod", "prod", OP(_leaf("PauliY", wires=[0])), OP(_leaf("PauliZ", wires=[1])))]),
               v="3terms"),
            sk("LinearCombination", "ops.LinearCombination", [1.0], OPS([_leaf("PauliZ", wires=[0])]), v="1term")]


@recipe("ChangeOpBasis", "symbolic")
def _cob(tier):
    return [sk("ChangeOpBasis", "change_op_basis", OP(_leaf("Hadamard", wires=[0])), OP(_leaf("RZ", A.G1, wires=[0])), v="H,RZ"),
            sk("ChangeOpBasis", "change_op_basis", OP(_leaf("CNOT", wires=[0, 1])), OP(_leaf("RX", A.G1, wires=[0])), OP(_leaf("CNOT", wires=[0, 1])), v="CNOT,RX,CNOT"),
            sk("ChangeOpBasis", "change_op_basis", OP(_leaf("S", wires=[0])), OP(_leaf("PauliX", wires=[0])), v="S,X")]


@recipe("Conditional", "symbolic")
def _conditional(tier):
    mm = sk("MidMeasure", "ops.mid_measure.MidMeasure", W([0]), meas_uid="m0")
    return [sk("Conditional", "ops.op_math.Conditional", {"$mv": mm}, OP(_leaf("RX", A.G1, wires=[1])), v="RX")]


# =============================================================================================== wrappers
POW_Z = {"one": [2], "few": [2, 0.5], "quick": [2, -1, 0.5, 0, 3], "thorough": A.EXPO}
WRAP_BASES = ["PauliX", "PauliY", "PauliZ", "Hadamard", "S", "T", "SX", "Identity", "GlobalPhase", "CNOT", "CZ", "CY", "CH", "SWAP", "ISWAP",
              "SISWAP", "ECR", "CSWAP", "Toffoli", "CCZ", "RX", "RY", "RZ", "PhaseShift", "U1", "U2", "U3", "Rot", "CRX", "CRY", "CRZ", "CRot",
              "ControlledPhaseShift", "CPhaseShift00", "CPhaseShift01", "CPhaseShift10", "IsingXX", "IsingYY", "IsingZZ", "IsingXY",
              "PSWAP", "SingleExcitation", "SingleExcitationPlus", "SingleExcitationMinus", "DoubleExcitation", "DoubleExcitationPlus",
              "DoubleExcitationMinus", "FermionicSWAP", "OrbitalRotation", "MultiRZ", "PauliRot", "MultiControlledX", "QubitUnitary",
              "DiagonalQubitUnitary", "QubitSum", "QubitCarry", "PCPhase"]


def _base_skels(base, tier, nmax=2):
    if base not in RECIPES:
        return []
    sks = RECIPES[base][1]("quick" if tier in ("one", "few") else tier)
    return sks[:nmax]


def _shift_wires(spec, by):
    ws = wires_of(spec)
    return relabel(spec, {w: w + by for w in ws if isinstance(w, int)})


def _mk_adjoint(base):
    def fn(tier):
        return [sk(f"Adjoint({base})", "adjoint", OP(b), v=b.get("v", ""), lazy=True) for b in _base_skels(base, tier)]

    return fn


def _mk_pow(base):
    def fn(tier):
        out = []
        for b in _base_skels(base, tier, 1):
            for z in POW_Z.get(tier, POW_Z["quick"]):
                out.append(sk(f"Pow({base})", "pow", OP(b), v=f"z={z:.4g}", z=z, lazy=True))
        return out

    return fn


def _mk_ctrl(base):
    def fn(tier):
        out = []
        for b in _base_skels(base, tier, 1):
            nb = len(wires_of(b))
            ks = (1, 2) if tier != "thorough" else (1, 2, 3)
            name = f"C({base})"
            for k in ks:
                for cv in A.ctrl_values(k):
                    c = list(range(nb, nb + k))
                    out.append(sk(name, "ctrl", OP(b), v=f"ctrl,{k}c," + "".join(map(str, cv)), control=W(c), control_values=cv))
            # the class constructor itself (v1 Controlled / ControlledOp), bypassing qp.ctrl's dispatch to custom classes
            for k, cv in ((1, [1]), (1, [0]), (2, [1, 0])):
                c = list(range(nb, nb + k))
                out.append(sk(name, "ops.op_math.Controlled", OP(b), W(c), v=f"cls,{k}c," + "".join(map(str, cv)), control_values=cv))
            out.append(sk(name, "ctrl", OP(b), v="ctrl,2c,11,work", control=W([nb, nb + 1]), control_values=[1, 1], work_wires=W([nb + 2])))
        return out

    return fn


def _register_wrappers(extra_bases=()):
    for base in list(WRAP_BASES) + list(extra_bases):
        if base not in RECIPES:
            continue
        for nm, mk_ in ((f"Adjoint({base})", _mk_adjoint), (f"Pow({base})", _mk_pow), (f"C({base})", _mk_ctrl)):
            if nm not in RECIPES:
                RECIPES[nm] = ("wrapper", mk_(base))


# =============================================================================================== enumeration
@functools.lru_cache(None)
def _to_name():
    from pennylane.decomposition.utils import to_name

    return to_name


_OK_CACHE = {}


def canon_name(op):
    """Canonical catalogue name of a live operator = decomposition-registry name ("Adjoint(RX)", "Pow(S)", "C(RX)", "RX")."""
    from pennylane.ops.op_math import Adjoint, Controlled, Pow

    if isinstance(op, Pow):
        return f"Pow({canon_name(op.base)})"
    if isinstance(op, Adjoint):
        return f"Adjoint({canon_name(op.base)})"
    if type(op).__name__ in ("Controlled", "ControlledOp", "ControlledOp2"):
        return f"C({canon_name(op.base)})"
    try:
        return _to_name()(op)
    except Exception:
        return getattr(op, "name", type(op).__name__)


def _name_ok(skel, name):
    """Wrapper skeletons are kept only if the built operator's canonical name equals the catalogue name
    (qp.ctrl / qp.pow / qp.adjoint dispatch to custom classes for some bases)."""
    k = repr(sorted((kk, repr(vv)) for kk, vv in skel.items()))
    if k not in _OK_CACHE:
        try:
            _OK_CACHE[k] = canon_name(build(skel)) == name
        except Exception:
            _OK_CACHE[k] = False
    return _OK_CACHE[k]


_SKEL_CACHE = {}


def skeletons(name, tier="quick"):
    ck = (name, tier)
    if ck not in _SKEL_CACHE:
        cat_, fn = RECIPES[name]
        sks = fn(tier)
        if cat_ in ("wrapper",):
            sks = [s for s in sks if _name_ok(s, name)]
        _SKEL_CACHE[ck] = sks
    return copy.deepcopy(_SKEL_CACHE[ck])


def category(name):
    return RECIPES[name][0]


def names(category=None):
    _ensure()
    return sorted(n for n, (c, _) in RECIPES.items() if category is None or c == category)


def _alphabet_for(kind, tier):
    if kind == "prob":
        return list(A.PROB)
    if kind == "prob2":  # pairs must sum to <= 1
        return [0.0, 0.5, 0.137]
    return A.ANG(tier)


def _boundary_rows(kinds):
    k = len(kinds)
    if k == 0:
        return []
    out = []
    for val_ang, val_prob in ((PI, 1.0), (0.0, 0.0), (2 * PI, 0.5), (-PI, 0.137)):
        out.append([val_prob if kd.startswith("prob") else val_ang for kd in kinds])
    if any(kd == "prob2" for kd in kinds):
        out = [[0.5 if kd == "prob2" and v == 1.0 else v for v, kd in zip(r, kinds)] for r in out]
    return out


def instances(name, tier="quick"):
    """All instance specs of a catalogue name for the tier (see module docstring)."""
    _ensure()
    cat_ = RECIPES[name][0]
    sks = skeletons(name, tier)
    out, seen = [], set()

    def emit(s):
        kk = repr((s["v"], params(s), wires_of(s)))
        if kk not in seen:
            seen.add(kk)
            out.append(s)

    for si, skel in enumerate(sks):
        kinds = param_kinds(skel)
        k = len(kinds)
        generic = params(skel)
        brows = _boundary_rows(kinds)
        ws = wires_of(skel)
        labs = A.lab(len(ws)) if all(isinstance(w, int) for w in ws) and ws == list(range(len(ws))) else [("range", ws)]

        def lab_spec(s, labels):
            return relabel(s, dict(zip(ws, labels)))

        if tier == "one":
            if si == 0:
                emit(skel)
            continue
        if tier == "few":
            emit(skel)
            if brows:
                emit(with_params(skel, brows[0]))
            if si == 0:
                for ln, labels in labs:
                    if ln == "mixed":
                        emit(lab_spec(skel, labels))
            continue
        full_max = 3 if cat_ != "wrapper" else 1
        full_here = si < 2 or (tier == "thorough" and k <= 2)
        emit(skel)
        if k:
            if full_here:
                alph = [_alphabet_for(kd, tier) for kd in kinds]
                for row in A.rows(alph, full_max=full_max):
                    if "prob2" in kinds and sum(v for v, kd in zip(row, kinds) if kd == "prob2") > 1:
                        continue
                    emit(with_params(skel, row))
            for row in brows:
                emit(with_params(skel, row))
        if si < 2 or tier == "thorough":
            for ln, labels in labs[1:]:
                emit(lab_spec(skel, labels))
                if brows and (si == 0 or tier == "thorough"):
                    emit(lab_spec(with_params(skel, brows[0]), labels))
    return out


# =============================================================================================== coverage
EXCLUDED = {
    # abstract bases / internal machinery
    "Operation": "abstract base", "Channel": "abstract base", "StatePrepBase": "abstract base", "StatePrepBase2": "abstract base",
    "CompositeOp": "abstract base", "SymbolicOp": "abstract base", "SymbolicOp2": "abstract base", "ScalarSymbolicOp": "abstract base",
    "Operator1": "abstract base", "Operator": "abstract base", "Operator2": "abstract base",
    "Controlled2": "abstract base of ControlledOp2 and the custom controlled gates",
    "Adjoint": "covered through Adjoint(<base>) names", "AdjointOperation": "covered through Adjoint(<base>) names",
    "Adjoint2": "covered through Adjoint(<base>) names", "Pow": "covered through Pow(<base>) names", "PowOperation": "covered through Pow(<base>) names",
    "Pow2": "covered through Pow(<base>) names", "Controlled": "covered through C(<base>) names", "ControlledOp": "covered through C(<base>) names",
    "ControlledOp2": "covered through C(<base>) names",
}


def _ensure():
    if not getattr(_ensure, "done", False):
        _ensure.done = True
        try:
            from mc import x_catalog_templates  # noqa: F401  (registers template recipes into RECIPES)
        except ImportError:
            pass
        _register_wrappers()
        _register_registry_wrappers()


def _register_registry_wrappers():
    """Adjoint(X)/Pow(X)/C(X) keys of the decomposition registry whose base has a recipe."""
    try:
        from pennylane.decomposition.decomposition_rule import _decompositions_var
    except Exception:
        return
    for k, v in _decompositions_var.get().items():
        if not len(v) or k in RECIPES:
            continue
        for pre, mk_ in (("Adjoint(", _mk_adjoint), ("Pow(", _mk_pow), ("C(", _mk_ctrl)):
            if k.startswith(pre) and k.endswith(")"):
                base = k[len(pre):-1]
                if base in RECIPES:
                    RECIPES[k] = ("wrapper", mk_(base))


def registry_names():
    from pennylane.decomposition.decomposition_rule import _decompositions_var

    return sorted(k for k, v in _decompositions_var.get().items() if len(v))


def _all_subclasses(c, seen):
    for s in c.__subclasses__():
        if s not in seen:
            seen[s] = 1
            _all_subclasses(s, seen)
    return seen


def universe():
    """name -> where it comes from, for every public operator name reachable from qp.ops, qp.templates, the
    Operator/Operator2 class trees (pennylane.* modules only) and the decomposition registry."""
    import inspect

    import pennylane as qp
    from pennylane.core.operator import Operator, Operator2

    out = {}
    for modname, mod in (("qp.ops", qp.ops), ("qp.templates", qp.templates)):
        for n in getattr(mod, "__all__", None) or [x for x in dir(mod) if not x.startswith("_")]:
            obj = getattr(mod, n, None)
            if inspect.isclass(obj) and issubclass(obj, (Operator, Operator2)):
                out.setdefault(obj.__name__, modname)
    for base in (Operator, Operator2):
        for c in _all_subclasses(base, {}):
            if c.__module__.startswith("pennylane.") and not c.__name__.startswith("_"):
                out.setdefault(c.__name__, c.__module__)
    for k in registry_names():
        out.setdefault(k, "decomposition registry")
    return out


def uncovered():
    """Coverage report (see module docstring)."""
    _ensure()
    have = set(RECIPES)
    out = []
    for n, where in sorted(universe().items()):
        if n in have:
            if not skeletons(n, "quick"):
                out.append({"name": n, "where": where, "reason": "recipe yields no instance with this canonical name"})
            continue
        reason = EXCLUDED.get(n) or UNCOVERED_REASONS.get(n) or "no recipe written (class appeared after the catalogue was written?)"
        out.append({"name": n, "where": where, "reason": reason})
    return out


UNCOVERED_REASONS = {
    "Allocate": "dynamic-wire bookkeeping instruction, not a linear map (C22)", "Deallocate": "dynamic-wire bookkeeping instruction (C22)",
    "FromBloq": "needs the external package qualtran (not installed)",
    "FirstQuantization": "legacy resource-estimation operation without wires/matrix (C47)",
    "DoubleFactorization": "legacy resource-estimation operation without wires/matrix (C47)",
    "ParametrizedEvolution": "needs a ParametrizedHamiltonian with callables + jax ODE solve (C63)",
    "MeasureNode": "circuit-cutting placeholder without a linear map (C24)", "PrepareNode": "circuit-cutting placeholder (C24)",
    "BasisStateProjector": "covered through Projector (basis* variants)", "StateVectorProjector": "covered through Projector (state* variants)",
    "SubroutineOp": "only created by calling a Subroutine-decorated quantum function (needs inspect.BoundArguments of that function)",
    "CollectedSubroutine": "internal container created by the Subroutine machinery", "TmpPauliRot": "private helper of SpecialUnitary's decomposition",
}


def selftest(tier="quick", which=None):
    """Build every instance once; returns list of (name, key, error)."""
    fails = []
    for n in (which or names()):
        try:
            insts = instances(n, tier)
        except Exception as e:  # pragma: no cover
            fails.append((n, "<enumeration>", f"{type(e).__name__}: {e}"))
            continue
        for s in insts:
            try:
                build(s)
            except Exception as e:
                fails.append((n, key(s), f"{type(e).__name__}: {str(e)[:200]}"))
    return fails
