"""Shared machinery of C56 / C57 / C58 (templates): full recursive expansion + column simulation.

* `rules(op)`                 applicable registered decomposition rules of a live operator, by name
* `emit(op, rule)`            record one rule (queue incl. Allocate / Deallocate markers)
* `as_leaf(op)`               reference action of a *leaf* gate, or None if the operator has to be expanded further.
                              Leaves: gates of mc.refgates (closed forms written from the documentation), structural
                              wrappers of leaves (Adjoint = dagger, Controlled = |v><v| (x) U, integer Pow), and "plain
                              matrix" operators (QubitUnitary & co: the matrix *is* the definition).  Everything else -
                              in particular every template, even if it has a `compute_matrix` - is expanded with its own
                              `decomposition()`.
* `Sim(wires, cols)`          column simulator: tensor (2,)*n + (C,), one column per input state; dynamic wires are appended
                              on Allocate (|0>) and removed on Deallocate after checking that they are back in |0>.
* `run(sim, ops)`             streams a decomposition through the simulator, expanding recursively until leaves.
* `dft(n)`                    the documented QFT matrix  QFT|x> = 2^{-n/2} sum_k exp(2 pi i x k / 2^n) |k>.

Plain numpy; PennyLane is imported lazily inside functions.
"""
import cmath
import math

import numpy as np

from mc import refgates as RG

TOL = 1e-9


class Unsupported(Exception):
    """The reference cannot model something the decomposition emitted (reported as a harness-side limitation)."""


class ExpansionProblem(Exception):
    """The decomposition itself is ill-formed (foreign wire, work wire returned dirty, ...): a property violation."""

    def __init__(self, kind, detail=""):
        super().__init__(f"{kind}: {detail}")
        self.kind = kind
        self.detail = detail


# ------------------------------------------------------------------------------------------------ rules
def rules(op):
    """[(name, rule)] of the registered rules applicable to this instance (registration order)."""
    import pennylane as qp
    from pennylane.decomposition.utils import _get_decomp_args

    params, _, _ = _get_decomp_args(op)
    out = []
    seen = {}
    for r in qp.list_decomps(op):
        try:
            okk = r.is_applicable(**params)
        except TypeError:
            okk = r.is_applicable(**{k: v for k, v in params.items()})
        if not okk:
            continue
        name = getattr(r, "name", None) or getattr(getattr(r, "_impl", None), "__name__", None) or repr(r)
        if name in seen:
            seen[name] += 1
            name = f"{name}#{seen[name]}"
        else:
            seen[name] = 0
        out.append((name, r))
    return out


def emit(op, rule):
    import pennylane as qp
    from pennylane.decomposition.utils import _get_decomp_args

    _, args, kwargs = _get_decomp_args(op)
    with qp.queuing.AnnotatedQueue() as q:
        rule(*args, **kwargs)
    return list(q.queue)


def overrides_decomposition(op):
    """True if `op.decomposition()` is hand-written code (not just 'first applicable registered rule')."""
    cls = type(op)
    for klass in cls.__mro__:
        if klass.__name__ in ("Operator", "Operator2", "Operation", "Operator1"):
            break
        d = vars(klass)
        if "decomposition" in d or "compute_decomposition" in d:
            return True
    return False


# ------------------------------------------------------------------------------------------------ leaves
_ADJ = ("Adjoint2", "Adjoint", "AdjointOperation", "AdjointOpObs", "AdjointObs")
_CTRL = ("ControlledOp2", "Controlled", "ControlledOp", "Controlled2")
_POW = ("Pow2", "Pow", "PowOperation", "PowOpObs")
_PASS = ("Barrier", "Snapshot", "WireCut")
PLAIN = ("QubitUnitary", "DiagonalQubitUnitary", "ControlledQubitUnitary", "SpecialUnitary", "BlockEncode", "PCPhase")


def _floats(data):
    # a broadcast dimension of size one is squeezed (batch of one = the operator itself)
    return [float(np.real(np.asarray(p).reshape(-1)[0])) for p in data]


def as_leaf(op):
    """("skip",) | ("phase", c) | ("u", M, wires) | ("cu", M, cwires, cvals, twires) | None (= expand further)."""
    tname = type(op).__name__
    name = op.name
    wires = list(op.wires)
    if tname in _PASS or name in _PASS:
        return ("skip",)
    if name == "Identity":
        return ("skip",)
    if name == "GlobalPhase":
        return ("phase", cmath.exp(-1j * _floats(op.data)[0]))
    if getattr(op, "batch_size", None) not in (None, 1):
        raise Unsupported(f"batched operator {name}")
    if name in RG.TABLE and len(wires) == RG.TABLE[name][0]:
        return ("u", RG.matrix(name, _floats(op.data)), wires)
    if name == "MultiRZ":
        return ("u", RG.matrix(name, _floats(op.data), n_wires=len(wires)), wires)
    if name == "PauliRot":
        return ("u", RG.matrix(name, _floats(op.data), hyper={"pauli_word": op.hyperparameters["pauli_word"]}), wires)
    if name == "MultiControlledX":
        cw = list(op.control_wires)
        tw = [w for w in wires if w not in cw]
        return ("cu", RG.X, cw, [int(bool(v)) for v in op.control_values], tw)
    base = getattr(op, "base", None)
    if base is not None and tname in _ADJ:
        b = as_leaf(base)
        if b is None:
            return None
        if b[0] == "skip":
            return b
        if b[0] == "phase":
            return ("phase", b[1].conjugate())
        if b[0] == "u":
            return ("u", b[1].conj().T, b[2])
        return ("cu", b[1].conj().T, b[2], b[3], b[4])
    if base is not None and tname in _CTRL and hasattr(op, "control_wires"):
        b = as_leaf(base)
        if b is None:
            return None
        cw = list(op.control_wires)
        cv = [int(bool(v)) for v in op.control_values]
        if b[0] == "skip":
            return b
        if b[0] == "phase":
            # controlled global phase = phase on the control pattern
            if not cw:
                return b
            return ("cu", np.array([[b[1]]], dtype=complex), cw, cv, [])
        if b[0] == "u":
            return ("cu", b[1], cw, cv, b[2])
        return ("cu", b[1], cw + list(b[2]), cv + list(b[3]), b[4])
    if base is not None and tname in _POW:
        z = op.z
        try:
            zi = int(z)
        except (TypeError, ValueError):
            return None
        if zi != z:
            return None
        b = as_leaf(base)
        if b is None:
            return None
        if b[0] == "skip":
            return b
        if b[0] == "phase":
            return ("phase", b[1] ** zi)
        M = b[1] if zi >= 0 else b[1].conj().T
        M = np.linalg.matrix_power(M, abs(zi))
        return ("u", M, b[2]) if b[0] == "u" else ("cu", M, b[2], b[3], b[4])
    if tname in PLAIN or name in PLAIN:
        if tname == "ControlledQubitUnitary" or name == "ControlledQubitUnitary":
            cw = list(op.control_wires)
            tw = [w for w in wires if w not in cw]
            U = np.asarray(op.base.matrix() if getattr(op, "base", None) is not None else op.data[0], dtype=complex)
            return ("cu", U, cw, [int(bool(v)) for v in op.control_values], tw)
        return ("u", np.asarray(op.matrix(), dtype=complex), wires)
    return None


# ------------------------------------------------------------------------------------------------ simulator
class Sim:
    """Column simulator.  State = array (2**n, C): row index = basis state (first wire most significant), one column per
    input state.  Every gate is 'matrix M on target wires, conditioned on a control pattern'; it is applied on explicit row
    index sets (rows whose control bits match, grouped by the value of the target bits)."""

    def __init__(self, wires, cols):
        self.wires = list(wires)
        n = len(self.wires)
        cols = np.asarray(cols, dtype=complex)
        if cols.ndim == 1:
            cols = cols.reshape(-1, 1)
        if cols.shape[0] != 2 ** n:
            raise ValueError("column length does not match the number of wires")
        self.C = cols.shape[1]
        self.t = np.ascontiguousarray(cols)
        self.base_n = n
        self.gates = 0
        self.leaf_names = set()
        self.max_wires = n
        self.allocs = 0
        self._restored = {}

    # -- wires
    def bit(self, w):
        """bit position (0 = least significant) of wire w in the row index"""
        try:
            return len(self.wires) - 1 - self.wires.index(w)
        except ValueError:
            raise ExpansionProblem("foreign-wire", repr(w)) from None

    def allocate(self, wires, state="zero", restored=True):
        if str(state) not in ("zero", "AllocateState.ZERO"):
            raise Unsupported(f"allocation in state {state}")
        for w in wires:
            new = np.zeros((2 * self.t.shape[0], self.C), dtype=complex)
            new[0::2] = self.t
            self.t = new
            self.wires.append(w)
            self._restored[w] = bool(restored)
            self.allocs += 1
        self.max_wires = max(self.max_wires, len(self.wires))

    def deallocate(self, wires):
        for w in wires:
            b = self.bit(w)
            if self.wires.index(w) < self.base_n:
                raise ExpansionProblem("deallocate-static-wire", repr(w))
            rows = np.arange(self.t.shape[0])
            one = self.t[(rows >> b) & 1 == 1]
            leak = float(np.sqrt(np.sum(np.abs(one) ** 2)))
            if leak > 1e-7:
                if self._restored.get(w, True):
                    raise ExpansionProblem("dyn-wire-not-restored", f"|1> weight {leak:.3g} at Deallocate")
                raise Unsupported("garbage wire deallocated in an entangled state")
            self.t = np.ascontiguousarray(self.t[(rows >> b) & 1 == 0])
            self.wires.remove(w)

    # -- gates
    def apply(self, leaf):
        kind = leaf[0]
        if kind == "skip":
            return
        self.gates += 1
        if kind == "phase":
            self.t *= leaf[1]
            return
        if kind == "u":
            M, cw, cv, tw = leaf[1], [], [], leaf[2]
        else:
            _, M, cw, cv, tw = leaf
        cb = [self.bit(w) for w in cw]
        tb = [self.bit(w) for w in tw]
        if len(set(cb + tb)) != len(cb) + len(tb):
            raise ExpansionProblem("repeated-wire-in-gate", repr((cw, tw)))
        k = len(tb)
        M = np.asarray(M, dtype=complex)
        if M.shape != (2 ** k, 2 ** k):
            raise Unsupported(f"matrix shape {M.shape} for {k} target wires")
        rows = np.arange(self.t.shape[0])
        sel = np.ones(rows.shape, dtype=bool)
        for b, v in zip(cb, cv):
            sel &= ((rows >> b) & 1) == v
        for b in tb:
            sel &= ((rows >> b) & 1) == 0
        base = rows[sel]

        def R(i):
            off = 0
            for j, b in enumerate(tb):
                if (i >> (k - 1 - j)) & 1:
                    off |= 1 << b
            return base | off

        t = self.t
        if k == 0:
            t[base] *= M[0, 0]
            return
        nz = M != 0
        if np.all(nz.sum(axis=0) == 1) and np.all(nz.sum(axis=1) == 1):
            # monomial (diagonal / permutation with phases): move and scale row blocks
            moved = []
            for i in range(2 ** k):
                j = int(np.nonzero(nz[:, i])[0][0])
                if j != i:
                    moved.append((j, M[j, i], t[R(i)]))
                elif M[i, i] != 1:
                    t[R(i)] *= M[i, i]
            for j, f, data in moved:
                t[R(j)] = data if f == 1 else data * f
            return
        S = np.stack([t[R(i)] for i in range(2 ** k)], axis=0)
        out = np.tensordot(M, S, axes=(1, 0))
        for i in range(2 ** k):
            t[R(i)] = out[i]

    # -- results
    def columns(self):
        """(2**base_n, C) block with all dynamic wires in |0>, and the squared norm found outside that block."""
        extra = len(self.wires) - self.base_n
        blk = self.t[:: 2 ** extra]
        tot = float(np.sum(np.abs(self.t) ** 2))
        inb = float(np.sum(np.abs(blk) ** 2))
        return blk, max(0.0, tot - inb)


# ------------------------------------------------------------------------------------------------ expansion
MAX_DEPTH = 60
MAX_GATES = 2_000_000


def run(sim, ops, depth=0, stack=()):
    """Apply `ops` (a recorded decomposition) to the simulator, expanding non-leaf operators recursively with
    their own `decomposition()`."""
    from pennylane.allocation import Allocate, Deallocate

    for o in ops:
        if isinstance(o, Allocate):
            sim.allocate(list(o.wires), getattr(o, "state", "zero"), getattr(o, "restored", True))
            continue
        if isinstance(o, Deallocate):
            sim.deallocate(list(o.wires))
            continue
        tname = type(o).__name__
        if tname in ("MidMeasureMP", "MidMeasure", "Conditional", "PauliMeasure", "MeasurementValue"):
            raise Unsupported(f"mid-circuit measurement inside a nested decomposition ({tname})")
        leaf = as_leaf(o)
        if leaf is not None:
            sim.leaf_names.add(o.name)
            sim.apply(leaf)
            if sim.gates > MAX_GATES:
                raise Unsupported("gate budget exceeded")
            continue
        if depth >= MAX_DEPTH:
            raise ExpansionProblem("expansion-does-not-terminate", " > ".join(stack[-6:] + (o.name,)))
        if not o.has_decomposition:
            if getattr(o, "has_matrix", False):
                sim.leaf_names.add(o.name + "*")
                sim.apply(("u", np.asarray(o.matrix(), dtype=complex), list(o.wires)))
                continue
            raise Unsupported(f"{o.name}: neither decomposition nor matrix")
        run(sim, o.decomposition(), depth + 1, stack + (o.name,))


# ------------------------------------------------------------------------------------------------ references
def dft(n):
    N = 2 ** n
    j, k = np.meshgrid(np.arange(N), np.arange(N), indexing="ij")
    return np.exp(2j * math.pi * j * k / N) / math.sqrt(N)


def basis_columns(n, indices):
    cols = np.zeros((2 ** n, len(indices)), dtype=complex)
    cols[np.asarray(indices, dtype=int), np.arange(len(indices))] = 1
    return cols


def overlaps(E, O):
    """<E_c|O_c> for every column."""
    return np.sum(np.conj(E) * O, axis=0)


def bits_index(values_sizes):
    """[(value, nbits), ...] most significant register first -> integer index."""
    idx = 0
    for v, nb in values_sizes:
        idx = (idx << nb) | (int(v) & ((1 << nb) - 1))
    return idx


# ------------------------------------------------------------------------------------------------ device
def device_state(ops, order, spare=6):
    """State of default.qubit after `ops` on wires `order` (first wire most significant).  If the decompositions allocate
    work wires dynamically, spare device wires are offered; returns (state on `order` with the spares in |0>, squared norm
    found with a spare wire not in |0>)."""
    import pennylane as qp

    n = len(order)
    tape = qp.tape.QuantumScript(list(ops), [qp.state()])
    try:
        dev = qp.device("default.qubit", wires=list(order))
        res = np.asarray(qp.execute([tape], dev)[0], dtype=complex).reshape(-1)
        return res, 0.0
    except qp.exceptions.AllocationError:
        sp = [f"_spare{i}" for i in range(spare)]
        dev = qp.device("default.qubit", wires=list(order) + sp)
        res = np.asarray(qp.execute([tape], dev)[0], dtype=complex).reshape(2 ** n, -1)
        return res[:, 0], float(np.sum(np.abs(res[:, 1:]) ** 2))


# ------------------------------------------------------------------------------------------------ wire layouts
LAYOUTS = ["seq", "work0", "mixed", "rev"]
_POOL = [2, "q", 0, "w", 7, "e", 1, "r", 9, "t", 3, "y", 11, "u", 4, "i", 13, "o", 5, "p", 6, "a", 8, "s", 10, "d", 12, "f"]


def layout(regs, lay):
    """regs: [(name, size)] -> {name: [labels]}.  seq: consecutive ints in register order; rev: descending ints;
    work0: registers named work* first (so the first work wire has the falsy label 0); mixed: ints and strings,
    registers interleaved."""
    tot = sum(s for _, s in regs)
    out = {}
    if lay in ("seq", "rev"):
        c = 0
        for name, s in regs:
            out[name] = [(c + i) if lay == "seq" else (tot - 1 - c - i) for i in range(s)]
            c += s
        return out
    if lay == "work0":
        c = 0
        for name, s in sorted(regs, key=lambda r: 0 if r[0].startswith("work") else 1):
            out[name] = list(range(c, c + s))
            c += s
        return out
    if lay == "mixed":
        out = {name: [] for name, _ in regs}
        left = {name: s for name, s in regs}
        p = 0
        while any(left.values()):
            for name, _ in regs:
                if left[name]:
                    out[name].append(_POOL[p] if p < len(_POOL) else f"m{p}")
                    p += 1
                    left[name] -= 1
        return out
    raise ValueError(lay)
