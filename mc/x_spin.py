"""Reference model for C69 (spin lattices / model Hamiltonians): plain numpy + scipy.sparse, written from the docstrings.

Site numbering (documented by the docstring examples): cells in row-major order (first axis slowest), sublattice index
fastest: index = ((c0 * n1 + c1) * n2 + c2) * n_sl + sl; position = cell . vectors + positions[sl].

Neighbour semantics ("k-th neighbours" of a finite lattice with per-axis periodic boundary): take all distances between a
site and every other site or periodic image (of any site, itself included) up to order * max|vector|; the k-th smallest
distinct distance (rounded to 4 decimals) realised in the lattice defines colour k-1; {i, j} is an edge of colour k-1 iff some
image of j is at that distance from i.  Each (i, j, colour) is listed once (a wrap-around bond that coincides with a direct
bond is NOT counted twice)."""
import itertools
import math

import numpy as np
import scipy.sparse as sp


# ------------------------------------------------------------------------------------------------ lattices
def sites(n_cells, vectors, positions):
    """list of (index, cell tuple, sublattice, coordinate)."""
    V = np.asarray(vectors, dtype=float)
    P = np.asarray(positions, dtype=float)
    out = []
    for cell in itertools.product(*[range(n) for n in n_cells]):
        for sl in range(len(P)):
            out.append((len(out), cell, sl, np.asarray(cell, dtype=float) @ V + P[sl]))
    return out


def site_index(cell, sl, n_cells, n_sl):
    idx = 0
    for c, n in zip(cell, n_cells):
        idx = idx * n + c
    return idx * n_sl + sl


def tiling_edges(n_cells, vectors, positions, bc, order, tol=1e-5):
    V = np.asarray(vectors, dtype=float)
    S = sites(n_cells, V, positions)
    r = np.array([x[3] for x in S])
    N = len(S)
    cutoff = order * max(np.linalg.norm(V, axis=1)) + tol
    span = order + 1
    shifts = list(itertools.product(*[range(-span, span + 1) if b else [0] for b in bc]))
    found = {}
    iu = np.triu(np.ones((N, N), dtype=bool))  # j >= i
    for s in shifts:
        dv = (np.asarray(s, dtype=float) * np.asarray(n_cells, dtype=float)) @ V
        D = np.linalg.norm(r[None, :, :] + dv - r[:, None, :], axis=2)  # D[i, j] = |r_j + dv - r_i|
        mask = (D <= cutoff) & iu
        if not any(s):
            mask &= ~np.eye(N, dtype=bool)
        for i, j in zip(*np.nonzero(mask)):
            found.setdefault(round(float(D[i, j]), 4), set()).add((int(i), int(j)))
    edges = []
    for k, d in enumerate(sorted(found)):
        if k >= order:
            break
        edges += [(i, j, k) for i, j in found[d]]
    return sorted(edges), sorted(found)[:order]


def coordination(vectors, positions, kmax):
    """Bulk coordination numbers: for every sublattice site, the number of sites at the 1st..kmax-th distance."""
    V = np.asarray(vectors, dtype=float)
    P = np.asarray(positions, dtype=float)
    dim = len(V)
    R = 3 + kmax
    pts = []
    for cell in itertools.product(range(-R, R + 1), repeat=dim):
        for sl in range(len(P)):
            pts.append(np.asarray(cell, dtype=float) @ V + P[sl])
    pts = np.asarray(pts)
    res = []
    for sl in range(len(P)):
        d = np.round(np.linalg.norm(pts - P[sl], axis=1), 6)
        d = d[d > 1e-9]
        vals = sorted(set(d.tolist()))[:kmax]
        res.append([(v, int(np.sum(d == v))) for v in vals])
    return res


# textbook facts (lattice constant 1): sites per cell, nearest-neighbour distance, per-sublattice (z1, z2) coordination
TEXTBOOK = {
    "chain": (1, 1.0, [(2, 2)]),
    "square": (1, 1.0, [(4, 4)]),
    "rectangle": (1, 1.0, [(4, 4)]),
    "triangle": (1, 1.0, [(6, 6)]),
    "honeycomb": (2, 1 / math.sqrt(3), [(3, 6), (3, 6)]),
    "kagome": (3, 0.5, [(4, 4), (4, 4), (4, 4)]),
    "lieb": (3, 0.5, [(4, 4), (2, 4), (2, 4)]),  # corner: 4 edge sites then 4 corners; edge site: 2 corners then 4 edge sites
    "cubic": (1, 1.0, [(6, 12)]),
    "bcc": (2, math.sqrt(3) / 2, [(8, 6), (8, 6)]),
    "fcc": (4, 1 / math.sqrt(2), [(12, 6)] * 4),
    "diamond": (2, math.sqrt(3) / 4, [(4, 12), (4, 12)]),
}
DIM = {"chain": 1, "square": 2, "rectangle": 2, "triangle": 2, "honeycomb": 2, "kagome": 2, "lieb": 2, "cubic": 3, "bcc": 3, "fcc": 3, "diamond": 3}


def custom_edges_translated(custom, n_cells, n_sl, bc):
    """Documented custom_edges semantics: the edge (s, t) is repeated in every cell where both ends exist (open axes) or wrapped
    (periodic axes).  Returns list of (i, j, k) with k = position of the custom edge in the list."""
    def decode(s):
        sl = s % n_sl
        c = s // n_sl
        cell = []
        for n in reversed(n_cells):
            cell.append(c % n)
            c //= n
        return tuple(reversed(cell)), sl

    out = []
    for k, (s, t) in enumerate(custom):
        (cs, sls), (ct, slt) = decode(s), decode(t)
        delta = [b - a for a, b in zip(cs, ct)]
        for cell in itertools.product(*[range(n) for n in n_cells]):
            tgt = [c + d for c, d in zip(cell, delta)]
            okk = True
            for ax, n in enumerate(n_cells):
                if bc[ax]:
                    tgt[ax] %= n
                elif not 0 <= tgt[ax] < n:
                    okk = False
            if okk:
                out.append((site_index(cell, sls, n_cells, n_sl), site_index(tgt, slt, n_cells, n_sl), k))
    return out


# ------------------------------------------------------------------------------------------------ operators (sparse)
_P = {"I": sp.identity(2, dtype=complex, format="csr"),
      "X": sp.csr_matrix(np.array([[0, 1], [1, 0]], dtype=complex)),
      "Y": sp.csr_matrix(np.array([[0, -1j], [1j, 0]], dtype=complex)),
      "Z": sp.csr_matrix(np.array([[1, 0], [0, -1]], dtype=complex))}
_LOW = sp.csr_matrix(np.array([[0, 1], [0, 0]], dtype=complex))


def site_op(P, i, n):
    return sp.kron(sp.kron(sp.identity(2 ** i, dtype=complex, format="csr"), _P[P] if isinstance(P, str) else P, format="csr"),
                   sp.identity(2 ** (n - i - 1), dtype=complex, format="csr"), format="csr")


def zero(n):
    return sp.csr_matrix((2 ** n, 2 ** n), dtype=complex)


def two_site(Pa, i, Pb, j, n):
    return site_op(Pa, i, n) @ site_op(Pb, j, n)  # literal product: a self-loop gives P P = I


def jw_annihilators(n):
    out = []
    for j in range(n):
        m = sp.identity(1, dtype=complex, format="csr")
        for k in range(n):
            m = sp.kron(m, _P["Z"] if k < j else (_LOW if k == j else _P["I"]), format="csr")
        out.append(m)
    return out


def pick(c, edge, order_len):
    """Coupling for an edge (i, j, colour) from a scalar / per-order list / full matrix."""
    i, j, k = edge
    c = np.asarray(c)
    if c.ndim == 0:
        return complex(c)
    if c.ndim == 1:
        return complex(c[k])
    return complex(c[i][j])


def tfim(n, edges, J, h):
    H = zero(n)
    for e in edges:
        H = H - pick(J, e, None) * two_site("Z", e[0], "Z", e[1], n)
    for v in range(n):
        H = H - h * site_op("X", v, n)
    return H


def heisenberg(n, edges, J):
    """J: array (order, 3) or (3, n, n)."""
    J = np.asarray(J, dtype=float)
    H = zero(n)
    for i, j, k in edges:
        for a, P in enumerate("XYZ"):
            c = J[k][a] if J.ndim == 2 else J[a][i][j]
            H = H + c * two_site(P, i, P, j, n)
    return H


def hubbard(n_sites, edges, t, U, V=None):
    """-t sum_<ij>,s (c+_is c_js + h.c.) + sum_i U_i n_iu n_id [+ V sum_<ij> (n_iu + n_id)(n_ju + n_jd)], mode = 2*site + spin."""
    a = jw_annihilators(2 * n_sites)
    ad = [m.conj().T.tocsr() for m in a]
    num = [ad[p] @ a[p] for p in range(2 * n_sites)]
    H = zero(2 * n_sites)
    for e in edges:
        i, j, _ = e
        for s in range(2):
            p, q = 2 * i + s, 2 * j + s
            H = H - pick(t, e, None) * (ad[p] @ a[q] + ad[q] @ a[p])
        if V is not None:
            H = H + pick(V, e, None) * ((num[2 * i] + num[2 * i + 1]) @ (num[2 * j] + num[2 * j + 1]))
    U = np.asarray(U, dtype=float)
    for i in range(n_sites):
        H = H + (float(U) if U.ndim == 0 else float(U[i])) * (num[2 * i] @ num[2 * i + 1])
    return H


def haldane(n_sites, edges, t1, t2, phi):
    """order 0: -t1 (c+_i c_j + h.c.); order 1: -t2 (e^{i phi} c+_i c_j + e^{-i phi} c+_j c_i) with (i, j) as listed (i <= j)."""
    a = jw_annihilators(2 * n_sites)
    ad = [m.conj().T.tocsr() for m in a]
    H = zero(2 * n_sites)

    def val(c, i, j):
        c = np.asarray(c)
        return complex(c) if c.ndim == 0 else complex(c[i][j])

    for i, j, k in edges:
        for s in range(2):
            p, q = 2 * i + s, 2 * j + s
            if k == 0:
                H = H - val(t1, i, j) * (ad[p] @ a[q] + ad[q] @ a[p])
            else:
                ph = val(phi, i, j)
                H = H - val(t2, i, j) * (np.exp(1j * ph) * (ad[p] @ a[q]) + np.exp(-1j * ph) * (ad[q] @ a[p]))
    return H


def selftest():
    e, d = tiling_edges([2, 2], [[0, 1], [1, 0]], [[0, 0]], [False, False], 1)
    assert e == [(0, 1, 0), (0, 2, 0), (1, 3, 0), (2, 3, 0)] and d == [1.0]  # docstring example of generate_lattice
    e, _ = tiling_edges([4], [[1]], [[0]], [True], 2)
    assert e == [(0, 1, 0), (0, 2, 1), (0, 3, 0), (1, 2, 0), (1, 3, 1), (2, 3, 0)]
    assert custom_edges_translated([(0, 1), (0, 3), (0, 4)], [3, 3], 1, [False, False])[:2] == [(0, 1, 0), (1, 2, 0)]
    assert len(custom_edges_translated([(0, 1), (0, 3), (0, 4)], [3, 3], 1, [False, False])) == 16  # documented list has 16 entries
