"""Helpers for C64 (dataset attributes survive HDF5 round trips): JSON value specs -> live Python values, a
type-aware equality ("reads back equal to what was written"), and a plain nested-dict reference model of
datasets / files under write, open, read, copy, set, del.  PennyLane is imported inside functions only."""
import math

import numpy as np

# ------------------------------------------------------------------------------------------ operator catalogue
# every class listed in DatasetOperator.supported_ops() at the pinned commit, with a canonical instance
_U2 = [[0.0, 1.0], [1.0, 0.0]]
OPS = {
    "QubitCarry": ("QubitCarry", [], [0, 1, 2, 3]), "QubitSum": ("QubitSum", [], [0, 1, 2]),
    "QubitUnitary": ("QubitUnitary", ["cmat"], [0]), "DiagonalQubitUnitary": ("DiagonalQubitUnitary", ["diag"], [0]),
    "Hadamard": ("Hadamard", [], ["a"]), "PauliX": ("PauliX", [], [0]), "PauliY": ("PauliY", [], [1]), "PauliZ": ("PauliZ", [], ["b"]),
    "T": ("T", [], [0]), "S": ("S", [], [0]), "SX": ("SX", [], [0]), "CNOT": ("CNOT", [], [0, 1]), "CH": ("CH", [], [0, 1]),
    "SWAP": ("SWAP", [], [1, 0]), "ECR": ("ECR", [], [0, 1]), "SISWAP": ("SISWAP", [], [0, 1]), "CSWAP": ("CSWAP", [], [0, 1, 2]),
    "CCZ": ("CCZ", [], [0, 1, 2]), "Toffoli": ("Toffoli", [], [2, 0, 1]), "WireCut": ("WireCut", [], [0]),
    "Hermitian": ("Hermitian", ["hmat"], [0]), "Projector": ("Projector", ["basis2"], [0, 1]),
    "MultiRZ": ("MultiRZ", [0.3], [0, 1, 2]), "IsingXX": ("IsingXX", [0.3], [0, 1]), "IsingYY": ("IsingYY", [0.3], [0, 1]),
    "IsingZZ": ("IsingZZ", [0.3], [0, 1]), "IsingXY": ("IsingXY", [0.3], [0, 1]), "PSWAP": ("PSWAP", [0.3], [0, 1]),
    "CPhaseShift00": ("CPhaseShift00", [0.3], [0, 1]), "CPhaseShift01": ("CPhaseShift01", [0.3], [0, 1]),
    "CPhaseShift10": ("CPhaseShift10", [0.3], [0, 1]),
    "RX": ("RX", [0.5], [1]), "RY": ("RY", [-0.5], [0]), "RZ": ("RZ", [0.25], ["q"]), "PhaseShift": ("PhaseShift", [0.3], [0]),
    "Rot": ("Rot", [0.1, 0.2, 0.3], [0]), "U1": ("U1", [0.3], [0]), "U2": ("U2", [0.1, 0.2], [0]), "U3": ("U3", [0.1, 0.2, 0.3], [0]),
    "SingleExcitation": ("SingleExcitation", [0.3], [0, 1]), "SingleExcitationMinus": ("SingleExcitationMinus", [0.3], [0, 1]),
    "SingleExcitationPlus": ("SingleExcitationPlus", [0.3], [0, 1]), "DoubleExcitation": ("DoubleExcitation", [0.3], [0, 1, 2, 3]),
    "DoubleExcitationMinus": ("DoubleExcitationMinus", [0.3], [0, 1, 2, 3]), "DoubleExcitationPlus": ("DoubleExcitationPlus", [0.3], [0, 1, 2, 3]),
    "OrbitalRotation": ("OrbitalRotation", [0.3], [0, 1, 2, 3]), "FermionicSWAP": ("FermionicSWAP", [0.3], [0, 1]),
    "SpecialUnitary": ("SpecialUnitary", ["vec3"], [0]),
    "BasisState": ("BasisState", ["basis2"], [0, 1]), "StatePrep": ("StatePrep", ["state1"], [0]), "QubitDensityMatrix": ("QubitDensityMatrix", ["rho1"], [0]),
    "AmplitudeDamping": ("AmplitudeDamping", [0.1], [0]), "GeneralizedAmplitudeDamping": ("GeneralizedAmplitudeDamping", [0.1, 0.2], [0]),
    "PhaseDamping": ("PhaseDamping", [0.1], [0]), "DepolarizingChannel": ("DepolarizingChannel", [0.1], [0]), "BitFlip": ("BitFlip", [0.1], [0]),
    "ResetError": ("ResetError", [0.1, 0.2], [0]), "PauliError": ("PauliError", ["strX", 0.1], [0]), "PhaseFlip": ("PhaseFlip", [0.1], [0]),
    "ThermalRelaxationError": ("ThermalRelaxationError", [0.1, 1.0, 1.2, 0.5], [0]),
    "Identity": ("Identity", [], [0]), "ControlledQubitUnitary": ("ControlledQubitUnitary", ["cmat"], [0, 1]),
    "ControlledPhaseShift": ("ControlledPhaseShift", [0.3], [0, 1]), "CRX": ("CRX", [0.3], [0, 1]), "CRY": ("CRY", [0.3], [0, 1]),
    "CRZ": ("CRZ", [0.3], [0, 1]), "CRot": ("CRot", [0.1, 0.2, 0.3], [0, 1]), "CZ": ("CZ", [], [0, 1]), "CY": ("CY", [], [0, 1]),
}
COMPOSITES = ["LinearCombination", "Prod", "SProd", "Sum", "SumDup", "NestedSum", "Hamiltonian"]
PYTREE_ONLY = ["ctrl", "adjoint", "pow", "exp", "ctrl_values"]
ALL_SUPPORTED = set(OPS) | {"LinearCombination", "Prod", "SProd", "Sum", "X", "Y", "Z"}


def _param(p):
    if p == "cmat":
        return np.array([[0, 1j], [-1j, 0]])
    if p == "hmat":
        return np.array([[1.0, 0.5 - 0.5j], [0.5 + 0.5j, -1.0]])
    if p == "diag":
        return np.array([1.0, -1.0])
    if p == "basis2":
        return np.array([1, 0])
    if p == "state1":
        return np.array([0.6, 0.8])
    if p == "rho1":
        return np.array([[0.75, 0.0], [0.0, 0.25]], dtype=complex)
    if p == "vec3":
        return np.array([0.1, -0.2, 0.3])
    if p == "strX":
        return "X"
    return p


def make_op(name):
    import pennylane as qp

    if name in OPS:
        cls, params, wires = OPS[name]
        return getattr(qp, cls)(*[_param(p) for p in params], wires=wires)
    if name == "LinearCombination" or name == "Hamiltonian":
        return qp.Hamiltonian([1.0, 0.5], [qp.Z(0) @ qp.Z(1), qp.X("a")])
    if name == "Prod":
        return qp.prod(qp.X(0), qp.Y(1))
    if name == "SProd":
        return qp.s_prod(2.0, qp.X(0))
    if name == "Sum":
        return qp.sum(qp.X(0), qp.Y(1))
    if name == "SumDup":  # simplifies non-trivially
        return qp.sum(qp.X(0), qp.X(0), qp.s_prod(2.0, qp.Y(1)))
    if name == "NestedSum":
        return qp.sum(qp.prod(qp.RX(0.5, 0), qp.Z(1)), qp.s_prod(-0.5j, qp.Hadamard("a")))
    if name == "ctrl":
        return qp.ctrl(qp.RX(0.5, 1), control=[0, "b"])
    if name == "ctrl_values":
        return qp.ctrl(qp.RX(0.5, 1), control=[0, "b"], control_values=[0, 1])
    if name == "adjoint":
        return qp.adjoint(qp.Rot(0.1, 0.2, 0.3, wires="q"))
    if name == "pow":
        return qp.pow(qp.S(0), 0.5)
    if name == "exp":
        return qp.exp(qp.X(0) @ qp.Y(1), 0.5j)
    raise KeyError(name)


# ------------------------------------------------------------------------------------------ value specs
def _arr(dtype, shape):
    n = int(np.prod(shape)) if shape else 1
    if dtype == "bool":
        a = (np.arange(n) % 2 == 0)
    elif dtype.startswith("complex"):
        a = (np.arange(n) - 1.5) + 1j * (np.arange(n) * 0.5)
    elif dtype.startswith("float"):
        a = np.arange(n) * 0.75 - 1.0
    else:
        a = np.arange(n) - 2
    return np.asarray(a).astype(dtype).reshape(shape)


def build(spec, raw=False):
    """JSON value spec -> live value (raw=True: explicit-codec operators are returned as bare operators)."""
    kind = spec[0]
    if kind == "none":
        return None
    if kind in ("int", "float", "bool", "str"):
        return {"int": int, "float": float, "bool": bool, "str": str}[kind](spec[1])
    if kind == "special":
        return {"nan": float("nan"), "inf": float("inf"), "-0.0": -0.0}[spec[1]]
    if kind == "complex":
        return complex(spec[1], spec[2])
    if kind == "npscalar":
        return np.dtype(spec[1]).type(spec[2])
    if kind == "arr":
        return _arr(spec[1], tuple(spec[2]))
    if kind == "pnp":
        from pennylane import numpy as pnp

        return pnp.array(_arr(spec[1], tuple(spec[2])), requires_grad=spec[3])
    if kind == "list":
        return [build(s, raw) for s in spec[1]]
    if kind == "tuple":
        return tuple(build(s, raw) for s in spec[1])
    if kind == "dict":
        return {k: build(s, raw) for k, s in spec[1]}
    if kind == "op":
        return make_op(spec[1])
    if kind == "xop":  # explicit DatasetOperator route
        import pennylane as qp

        return make_op(spec[1]) if raw else qp.data.DatasetOperator(make_op(spec[1]))
    if kind == "sparse":
        import scipy.sparse as sp

        dense = np.zeros(tuple(spec[3]), dtype=spec[2])
        if spec[4] == "some":
            dense[0, 1 % dense.shape[1]] = 1.5
            dense[dense.shape[0] - 1, 0] = -2
        elif spec[4] == "lastcol_empty":
            dense[0, 0] = 3
        return getattr(sp, spec[1])(dense)
    if kind == "mol":
        import pennylane as qp

        if spec[1] == "h2":
            return qp.qchem.Molecule(["H", "H"], np.array([[0.0, 0.0, 0.0], [0.0, 0.0, 1.4]]))
        if spec[1] == "heh+":
            return qp.qchem.Molecule(["He", "H"], np.array([[0.0, 0.0, 0.0], [0.0, 0.0, 1.46]]), charge=1)
        if spec[1] == "h3+_631g":
            return qp.qchem.Molecule(["H", "H", "H"], np.array([[0.0, 0.0, 0.0], [0.0, 0.0, 1.6], [0.0, 1.4, 0.8]]), charge=1, basis_name="6-31g")
    if kind == "pytree":
        import pennylane as qp

        if spec[1] == "tape":
            return qp.tape.QuantumScript([qp.RX(0.5, 0), qp.CNOT([0, "a"])], [qp.expval(qp.Z(0) @ qp.X("a")), qp.probs(wires=[0])], shots=10)
        if spec[1] == "tape_empty":
            return qp.tape.QuantumScript([], [])
        if spec[1] == "expval":
            return qp.expval(qp.Z(0))
        if spec[1] == "sample":
            return qp.sample(wires=[0, "a"])
    if kind == "dataset":
        import pennylane as qp

        return qp.data.Dataset(**{k: build(s) for k, s in spec[1]})
    raise KeyError(spec)


def same(spec, r):
    """None if the read-back value `r` equals what `spec` wrote, else a short reason (type-aware)."""
    from collections.abc import Mapping, Sequence

    kind = spec[0]
    if kind == "none":
        return None if r is None else f"none:{type(r).__name__}"
    if kind == "bool":
        return None if isinstance(r, (bool, np.bool_)) and bool(r) == spec[1] else f"bool:{r!r}"
    if kind == "int":
        return None if isinstance(r, (int, np.integer)) and not isinstance(r, (bool, np.bool_)) and int(r) == spec[1] else f"int:{r!r}"
    if kind in ("float", "special"):
        w = build(spec)
        if not isinstance(r, (float, np.floating)):
            return f"float:type:{type(r).__name__}"
        if math.isnan(w):
            return None if math.isnan(float(r)) else f"float:{r!r}"
        return None if float(r) == w and math.copysign(1, float(r)) == math.copysign(1, w) else f"float:{r!r}"
    if kind == "complex":
        return None if isinstance(r, (complex, np.complexfloating)) and complex(r) == complex(spec[1], spec[2]) else f"complex:{r!r}"
    if kind == "npscalar":
        w = build(spec)
        return None if isinstance(r, np.generic) and r.dtype.kind == w.dtype.kind and r == w else f"npscalar:{r!r}"
    if kind == "str":
        return None if isinstance(r, str) and r == spec[1] else f"str:{r!r}"
    if kind in ("arr", "pnp"):
        w = build(spec)
        if not isinstance(r, np.ndarray):
            return f"array:type:{type(r).__name__}"
        if r.shape != w.shape:
            return f"array:shape:{r.shape}"
        if r.dtype != w.dtype:
            return f"array:dtype:{r.dtype}"
        if not np.array_equal(np.asarray(r), np.asarray(w)):
            return "array:values"
        if kind == "pnp":
            if type(r).__name__ != "tensor":
                return f"tensor:type:{type(r).__name__}"
            if bool(r.requires_grad) != bool(spec[3]):
                return f"tensor:requires_grad:{r.requires_grad}"
        elif type(r).__name__ == "tensor":
            return "array:became-tensor"
        return None
    if kind == "list":
        if isinstance(r, (tuple, str, bytes)) or not isinstance(r, Sequence):
            return f"list:type:{type(r).__name__}"
        if len(r) != len(spec[1]):
            return f"list:len:{len(r)}"
        for i, s in enumerate(spec[1]):
            why = same(s, r[i])
            if why:
                return f"list[{i}]/{why}"
        return None
    if kind == "tuple":
        if not isinstance(r, tuple):
            return f"tuple:type:{type(r).__name__}"
        if len(r) != len(spec[1]):
            return f"tuple:len:{len(r)}"
        for i, s in enumerate(spec[1]):
            why = same(s, r[i])
            if why:
                return f"tuple[{i}]/{why}"
        return None
    if kind == "dict":
        if not isinstance(r, Mapping):
            return f"dict:type:{type(r).__name__}"
        if sorted(r.keys()) != sorted(k for k, _ in spec[1]):
            return f"dict:keys:{sorted(r.keys())}"
        for k, s in spec[1]:
            why = same(s, r[k])
            if why:
                return f"dict[{k}]/{why}"
        return None
    if kind in ("op", "xop"):
        import pennylane as qp

        w = make_op(spec[1])
        if not isinstance(r, qp.operation.Operator):
            return f"op:type:{type(r).__name__}"
        if qp.equal(w, r):
            return None
        if kind == "xop" and qp.equal(w.simplify(), r.simplify()):  # the explicit operator codec stores composite ops simplified
            return None
        return f"op:not-equal:{r!r}"[:120]
    if kind == "sparse":
        w = build(spec)
        if type(r) is not type(w):
            return f"sparse:type:{type(r).__name__}"
        if r.shape != w.shape:
            return f"sparse:shape:{r.shape}"
        if r.dtype != w.dtype:
            return f"sparse:dtype:{r.dtype}"
        return None if not np.any(r.toarray() != w.toarray()) else "sparse:values"
    if kind == "mol":
        w = build(spec)
        if type(r).__name__ != "Molecule":
            return f"mol:type:{type(r).__name__}"
        for a in ("symbols", "charge", "mult", "basis_name", "n_electrons", "n_orbitals"):
            if getattr(r, a) != getattr(w, a):
                return f"mol:{a}"
        for a in ("coordinates", "nuclear_charges"):
            if not np.array_equal(np.asarray(getattr(r, a)), np.asarray(getattr(w, a))):
                return f"mol:{a}"
        for a in ("l", "alpha", "coeff"):
            x, y = getattr(r, a), getattr(w, a)
            if len(x) != len(y) or any(not np.array_equal(np.asarray(p), np.asarray(q)) for p, q in zip(x, y)):
                return f"mol:{a}"
        return None
    if kind == "pytree":
        import pennylane as qp

        w = build(spec)
        if type(r) is not type(w):
            return f"pytree:type:{type(r).__name__}"
        if not qp.equal(w, r):
            return "pytree:not-equal"
        if spec[1].startswith("tape") and r.shots != w.shots:
            return "pytree:shots"
        return None
    if kind == "dataset":
        if type(r).__name__ != "Dataset":
            return f"dataset:type:{type(r).__name__}"
        names = sorted(r.list_attributes())
        if names != sorted(k for k, _ in spec[1]):
            return f"dataset:attrs:{names}"
        for k, s in spec[1]:
            why = same(s, getattr(r, k))
            if why:
                return f"dataset.{k}/{why}"
        return None
    raise KeyError(spec)


def kind_of(spec):
    """Short class label used in signatures."""
    return spec[0] if spec[0] not in ("op", "xop") else f"{spec[0]}:{spec[1]}"
