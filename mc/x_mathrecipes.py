"""Argument recipes for the qp.math interface-agnosticism check (C48).  No framework is imported at module level.

A recipe = dict(args=[...], kw={...}, grad=[positions of tensor args to differentiate] | None, mix=bool,
prec=[64, 32], cmp=<compare mode>).  Argument mini-language:
  "$name"      tensor from TENSORS, built in the interface under test
  ["L", ...]   python list (elements converted recursively);  ["T", ...]  python tuple
  "@iface"     the `like` name of the interface under test ("numpy", "autograd", "jax", "torch")
  "@dtype:x"   the string x (kept as a literal; used for dtype names)
  "@obs:..", "@fn:.."  special objects built in the worker (see checks/C48.py)
  anything else is passed as is.
"""
import math

S = math.sqrt

TENSORS = {
    # real
    "s": 0.3, "s2": -1.234, "sp": 1.7,
    "v1": [0.7], "v2": [0.6, -0.8], "v3": [0.3, -1.2, 2.5], "v3b": [1.1, 0.4, -0.6], "v3p": [0.5, 1.2, 2.5],
    "v4": [0.5, -0.1, 0.7, 0.5], "v4b": [0.1, 0.7, -0.5, 0.5],
    "p4": [0.1, 0.2, 0.3, 0.4], "p8": [0.05, 0.1, 0.15, 0.2, 0.02, 0.08, 0.25, 0.15],
    "m22": [[0.2, -1.1], [0.7, 1.5]], "m22b": [[1.3, 0.4], [-0.5, 0.9]], "sym22": [[1.0, 0.3], [0.3, -0.5]],
    "psd22": [[0.7, 0.2], [0.2, 0.3]], "psd22b": [[0.4, -0.1], [-0.1, 0.6]], "rd22": [[1.0, 2.0], [2.0, 4.0]],
    "m23": [[0.2, -1.1, 0.4], [0.7, 1.5, -0.3]], "m11": [[0.7]],
    "b322": [[[0.2, -1.1], [0.7, 1.5]], [[1.3, 0.4], [-0.5, 0.9]], [[0.1, 0.8], [0.6, -0.2]]],
    "m44": [[0.2, -1.1, 0.4, 0.9], [0.7, 1.5, -0.3, 0.1], [-0.6, 0.3, 1.1, 0.5], [0.8, -0.2, 0.25, -0.7]],
    "b24": [[0.5, -0.1, 0.7, 0.5], [0.1, 0.7, -0.5, 0.5]],
    "bsym322": [[[1.0, 0.3], [0.3, -0.5]], [[0.7, 0.2], [0.2, 0.3]], [[0.4, -0.1], [-0.1, 0.6]]],
    "dm4r": [[0.4, 0.1, 0.0, 0.05], [0.1, 0.3, 0.05, 0.0], [0.0, 0.05, 0.2, 0.02], [0.05, 0.0, 0.02, 0.1]],
    "dm4s": [[0.25, 0.0, 0.05, 0.0], [0.0, 0.35, 0.0, -0.05], [0.05, 0.0, 0.15, 0.0], [0.0, -0.05, 0.0, 0.25]],
    # complex
    "cs": 0.3 - 0.7j, "cs_tiny": 0.4 + 1e-13j,
    "cv2": [0.6, 0.8j], "cv3": [0.3 + 0.1j, -1.2j, 2.5 - 0.4j], "cv4": [0.5, -0.1j, 0.7, 0.5j], "cv4b": [0.1j, 0.7, -0.5, 0.5j],
    "cm22": [[0.2 + 0.3j, -1.1j], [0.7, 1.5 - 0.2j]], "herm22": [[1.0, 0.3 - 0.4j], [0.3 + 0.4j, -0.5]],
    "u22": [[0.6 * (0.8 + 0.6j), -0.8j * (0.8 + 0.6j)], [-0.8j * (0.8 + 0.6j), 0.6 * (0.8 + 0.6j)]],
    "u22b": [[S(0.5), S(0.5)], [S(0.5) * 1j, -S(0.5) * 1j]],
    "bu22": [[[0.6 * (0.8 + 0.6j), -0.8j * (0.8 + 0.6j)], [-0.8j * (0.8 + 0.6j), 0.6 * (0.8 + 0.6j)]],
             [[S(0.5), S(0.5)], [S(0.5) * 1j, -S(0.5) * 1j]]],
    "k1": [[S(0.3) * S(0.5), S(0.3) * S(0.5)], [S(0.3) * S(0.5) * 1j, -S(0.3) * S(0.5) * 1j]],
    "k2": [[0j, S(0.7) + 0j], [S(0.7) + 0j, 0j]],
    "dm4c": [[0.4, 0.1 + 0.05j, 0.0, 0.05], [0.1 - 0.05j, 0.3, 0.05j, 0.0], [0.0, -0.05j, 0.2, 0.02], [0.05, 0.0, 0.02, 0.1]],
    "herm44": [[1.0, 0.3 - 0.4j, 0.0, 0.2], [0.3 + 0.4j, -0.5, 0.1j, 0.0], [0.0, -0.1j, 0.7, 0.4], [0.2, 0.0, 0.4, -1.2]],
    # three-qubit objects (wire ORDER of multi-index arguments is only visible from three wires on)
    "m88": [[round(math.sin(3 * i + 7 * j + 1), 3) for j in range(8)] for i in range(8)],
    "cm88": [[round(math.sin(3 * i + 7 * j + 1), 3) + 1j * round(math.cos(5 * i - 2 * j + 2), 3) for j in range(8)] for i in range(8)],
    "cv8": [round(math.sin(2 * i + 1), 3) + 1j * round(math.cos(3 * i + 2), 3) for i in range(8)],
    "b288": [[[round(math.sin(3 * i + 7 * j + 1 + 11 * b), 3) for j in range(8)] for i in range(8)] for b in range(2)],
    # integer / boolean
    "iv3": [1, -2, 3], "im22": [[1, 2], [3, 4]], "idx2": [2, 0], "idx1": [1], "bv3": [True, False, True],
}
U44 = None  # built lazily: kron(u22, u22b)

RECIPES = {}


def R(name, *args, kw=None, grad=None, mix=False, prec=(64, 32), cmp="value", note=None, gi=("autograd", "jax", "torch"), ifaces=("autograd", "jax", "torch")):
    """grad = ordinals (order of appearance) of the tensor arguments to differentiate; gi = interfaces in which the
    function is differentiable at all; ifaces = interfaces the function is documented for."""
    RECIPES.setdefault(name, []).append({"args": list(args), "kw": kw or {}, "grad": grad, "mix": mix, "prec": list(prec), "cmp": cmp,
                                         "note": note, "gi": list(gi), "ifaces": list(ifaces)})


P64 = (64,)
L = lambda *a: ["L", *a]
T = lambda *a: ["T", *a]

# ---------------------------------------------------------------------------------------------- static public callables
R("T", "$m23", grad=[0]); R("T", "$cm22")
R("transpose", "$m23", grad=[0]); R("transpose", "$b322", T(1, 0, 2)); R("transpose", "$b322", kw={"axes": T(2, 0, 1)})
R("add", "$v3", "$v3b", grad=[0, 1], mix=True); R("add", "$m22", "$s", mix=True); R("add", "$cv3", "$v3", mix=True); R("add", "$iv3", "$iv3")
R("multiply", "$v3", "$v3b", grad=[0, 1]); R("multiply", "$m22", "$s"); R("multiply", "$cm22", "$cs")
R("allclose", "$v3", "$v3", cmp="py", mix=True); R("allclose", "$v3", "$v3b", cmp="py", mix=True)
R("allclose", "$m22", "$m22b", cmp="py", kw={"atol": 10.0}); R("allclose", "$cv3", "$cv3", cmp="py")
R("allequal", "$v3", "$v3", cmp="py", mix=True); R("allequal", "$iv3", "$v3", cmp="py", mix=True)
R("array", L(0.3, -1.2, 2.5), kw={"like": "@iface"}, prec=P64); R("array", L(L(1, 2), L(3, 4)), kw={"like": "@iface"}, prec=P64)
R("array", "$v3", kw={"like": "@iface"})
R("block_diag", L("$m22", "$m22b"), mix=True); R("block_diag", L("$m22", "$m11", "$m23")); R("block_diag", L("$cm22", "$m22"))
R("cast", "$v3", "@dtype:complex128", cmp="value+dtype"); R("cast", "$iv3", "@dtype:float64", cmp="value+dtype")
R("cast", "$v3", "@dtype:float32", cmp="value+dtype"); R("cast", "$v3b", "@dtype:int64", cmp="value+dtype", prec=P64)
R("cast", "$cm22", "@dtype:complex64", cmp="value+dtype"); R("cast", "$v3", "@npdtype:complex128", cmp="value+dtype")
R("cast_like", "$v3", "$cv3", cmp="value+dtype", mix=True); R("cast_like", "$iv3", "$v3", cmp="value+dtype", mix=True)
R("cast_like", "$v3", "$cs", cmp="value+dtype"); R("cast_like", "$cm22", "$cv3", cmp="value+dtype"); R("cast_like", "$m22", "$iv3", cmp="value+dtype", prec=P64)
R("ceil_log2", 5, cmp="py", prec=P64); R("ceil_log2", 8, cmp="py", prec=P64); R("ceil_log2", 1, cmp="py", prec=P64)
R("choi_matrix", L("$u22")); R("choi_matrix", L("$k1", "$k2"), kw={"check_Ks": True})
R("concatenate", L("$v3", "$v3b"), grad=[0, 1], mix=True); R("concatenate", L("$m22", "$m22b"), kw={"axis": 1}, mix=True)
R("concatenate", L("$m22", "$v3"), kw={"axis": None}, mix=True); R("concatenate", L("$cv3", "$v3"))
R("conj", "$cv3"); R("conj", "$v3"); R("conj", "$cm22")
R("convert_like", "$v3", "$m22", cmp="value+iface-of-second", mix=True); R("convert_like", L(1.0, 2.0), "$v3", cmp="value+iface-of-second", prec=P64)
R("convert_to_su2", "$bu22", cmp="tuple")
R("convert_to_su4", "$@u44", cmp="tuple")
R("cov_matrix", "$p4", "@obs:ZZ", cmp="value"); R("cov_matrix", "$p4", "@obs:ZZ", kw={"diag_approx": True}); R("cov_matrix", "$p8", "@obs:Z0Z2", kw={"wires": "@wires:3"})
R("detach", "$v3"); R("detach", "$cm22")
R("diag", "$v3", grad=[0]); R("diag", "$m22", grad=[0]); R("diag", "$v3", kw={"k": 1}); R("diag", L("$s", "$s2", "$sp")); R("diag", L(0.1, 0.2), kw={"like": "@iface"}, prec=P64)
R("dm_from_state_vector", "$cv4"); R("dm_from_state_vector", "$b24"); R("dm_from_state_vector", "$v4", kw={"c_dtype": "complex64"})
R("dot", "$v3", "$v3b", grad=[0, 1], mix=True); R("dot", "$m22", "$v2", grad=[0, 1], mix=True); R("dot", "$m22", "$m22b", grad=[0, 1], mix=True)
R("dot", "$s", "$v3", mix=True); R("dot", "$b322", "$m22", grad=[0, 1]); R("dot", "$cm22", "$cv2"); R("dot", "$b322", "$v2"); R("dot", "$v2", "$b322")
R("einsum", "ij,jk->ik", "$m22", "$m22b", grad=[0, 1], mix=True); R("einsum", "i,i->", "$v3", "$v3b", grad=[0, 1]); R("einsum", "bij,bjk->bik", "$b322", "$b322")
R("einsum", "ij,jk->ik", "$m22", "$m22b", kw={"optimize": "greedy"}); R("einsum", "ii->", "$m22", grad=[0], gi=("jax", "torch")); R("einsum", "ij,j->i", "$cm22", "$v2", mix=True)
R("expand_matrix", "$m22", L(0), L(0, 1), grad=[0]); R("expand_matrix", "$m22", L(1), L(0, 1, 2)); R("expand_matrix", "$m44", L(0, 2), L(2, 1, 0), grad=[0])
R("expand_matrix", "$b322", L("a"), L("b", "a")); R("expand_matrix", "$cm22", L(2), L(0, 2))
R("expand_vector", "$v2", L(1), L(0, 1)); R("expand_vector", "$v4", L(0, 1), L(2, 0, 1)); R("expand_vector", "$cv2", L(0), 2)
R("expectation_value", "$herm22", "$cv2", kw={"check_state": True, "check_operator": True}); R("expectation_value", "$herm44", "$cv4"); R("expectation_value", "$sym22", "$v2", grad=[1])
R("expectation_value", "$herm44", "$b24")
R("expm", "$m22", grad=[0], gi=("jax", "torch")); R("expm", "$cm22"); R("expm", "$sym22")
R("eye", 2, kw={"like": "@iface"}, prec=P64); R("eye", 3, kw={"like": "@iface", "dtype": "@iface-dtype:complex128"}, prec=P64, cmp="value+dtype")
R("fidelity", "$dm4c", "$dm4s", mix=True); R("fidelity", "$psd22", "$psd22b", grad=[0, 1], cmp="value", note="sym"); R("fidelity", "$dm4r", "$dm4s", kw={"check_state": True})
R("fidelity_statevector", "$cv4", "$cv4b", mix=True); R("fidelity_statevector", "$v4", "$v4b", grad=[0, 1]); R("fidelity_statevector", "$b24", "$v4")
R("flatten", "$m22", grad=[0]); R("flatten", "$b322"); R("flatten", "$cm22")
R("frobenius_inner_product", "$m22", "$m22b", grad=[0, 1], mix=True); R("frobenius_inner_product", "$m22", "$m22b", kw={"normalize": True}, grad=[0]); R("frobenius_inner_product", "$cm22", "$cm22")
R("gammainc", 1.5, "$v3p"); R("gammainc", 2, "$sp"); R("gammainc", 0.5, "$v3p", mix=False)
R("get_batch_size", "$b322", T(2, 2), 4, cmp="py"); R("get_batch_size", "$m22", T(2, 2), 4, cmp="py"); R("get_batch_size", "$s", T(), 1, cmp="py"); R("get_batch_size", "$v3", T(), 1, cmp="py")
R("get_deep_interface", L(L("$v3")), cmp="iface"); R("get_deep_interface", L("$s", 1.0), cmp="iface")
R("get_dtype_name", "$v3", cmp="py"); R("get_dtype_name", "$cv3", cmp="py"); R("get_dtype_name", "$iv3", cmp="py")
R("get_interface", "$v3", cmp="iface"); R("get_interface", "$v3", "$m22", cmp="iface", mix=True); R("get_interface", "$v3", L(1.0, 2.0), 0.5, cmp="iface")
R("get_trainable_indices", L("$v3", "$s"), cmp="py", note="all tensors are created without gradient tracking")
R("grad", "@fn:sumsin", cmp="gradfn", prec=P64); R("jacobian", "@fn:vecfun", cmp="gradfn", prec=P64)
R("in_backprop", "$v3", cmp="py", ifaces=("autograd", "jax")); R("is_abstract", "$v3", cmp="py"); R("requires_grad", "$v3", cmp="py"); R("requires_grad", "$cm22", cmp="py")
R("is_independent", "@fn:const", cmp="independent", prec=P64); R("is_independent", "@fn:dependent", cmp="independent", prec=P64)
R("is_real_obj_or_close", "$v3", cmp="py"); R("is_real_obj_or_close", "$cv3", cmp="py"); R("is_real_obj_or_close", "$cs_tiny", cmp="py", prec=P64); R("is_real_obj_or_close", "$iv3", cmp="py")
R("iscomplex", "$cs", cmp="py"); R("iscomplex", "$s", cmp="py"); R("iscomplex", "$cv3", cmp="py"); R("iscomplex", "$v3", cmp="py")
R("kron", "$m22", "$m22b", grad=[0, 1], mix=True); R("kron", "$v3", "$v3b", grad=[0, 1]); R("kron", "$cm22", "$m22", mix=True); R("kron", "$m23", "$m22")
R("marginal_prob", "$p4", L(0), grad=[0]); R("marginal_prob", "$p8", L(0, 2)); R("marginal_prob", "$p8", L(2, 0)); R("marginal_prob", "$p4", L(0, 1))
R("matmul", "$m22", "$m22b", grad=[0, 1], mix=True); R("matmul", "$b322", "$m22", grad=[0, 1]); R("matmul", "$m22", "$v2", mix=True); R("matmul", "$cm22", "$m22", mix=True); R("matmul", "$im22", "$im22")
for f in ("vn_entropy", "max_entropy", "min_entropy"):
    R(f, "$dm4c", L(0)); R(f, "$dm4c", L(1, 0), kw={"base": 2}); R(f, "$dm4r", L(1), kw={"check_state": True})
R("vn_entropy", "$psd22", L(0), grad=[0], note="sym"); R("vn_entropy", "$dm4r", L(0), grad=[0], note="sym")
R("purity", "$dm4c", L(0)); R("purity", "$dm4c", L(0, 1)); R("purity", "$dm4r", L(1), grad=[0]); R("purity", "$b322", L(0))
R("mutual_info", "$dm4c", L(0), L(1)); R("mutual_info", "$dm4r", L(1), L(0), kw={"base": 2}); R("mutual_info", "$dm4r", L(0), L(1), grad=[0], note="sym")
R("vn_entanglement_entropy", "$dm4c", L(0), L(1)); R("vn_entanglement_entropy", "$dm4r", L(1), L(0), kw={"base": 2})
R("reduce_dm", "$dm4c", L(0)); R("reduce_dm", "$dm4c", L(1, 0)); R("reduce_dm", "$dm4r", L(1), grad=[0]); R("reduce_dm", "$dm4c", L(1), kw={"c_dtype": "complex64"})
R("reduce_statevector", "$cv4", L(0)); R("reduce_statevector", "$cv4", L(1, 0)); R("reduce_statevector", "$b24", L(1)); R("reduce_statevector", "$v4", L(1), grad=[0])
R("partial_trace", "$dm4c", L(0)); R("partial_trace", "$m44", L(1), grad=[0]); R("partial_trace", "$dm4c", L(0, 1)); R("partial_trace", "$b322", L(0))
for _idx in (L(2, 0), L(1, 0), L(2, 1), L(0, 2), L(2, 1, 0), L(1, 2, 0)):
    R("partial_trace", "$cm88", _idx); R("partial_trace", "$b288", _idx)
R("partial_trace", "$m88", L(2, 0), grad=[0]); R("partial_trace", "$m88", L(1, 0), grad=[0])
for _idx in (L(2, 0), L(1, 0), L(2, 1), L(2, 0, 1), L(1, 2, 0), L(2, 1, 0)):
    R("reduce_dm", "$cm88", _idx); R("reduce_statevector", "$cv8", _idx)
R("reduce_dm", "$m88", L(2, 0), grad=[0]); R("reduce_dm", "$b288", L(2, 0))
R("relative_entropy", "$dm4c", "$dm4s"); R("relative_entropy", "$dm4r", "$dm4s", kw={"base": 2}); R("relative_entropy", "$psd22", "$psd22b", grad=[0, 1], note="sym")
R("trace_distance", "$dm4c", "$dm4s"); R("trace_distance", "$psd22", "$psd22b", grad=[0, 1], note="sym"); R("trace_distance", "$bsym322", "$psd22")
R("sqrt_matrix", "$psd22"); R("sqrt_matrix", "$dm4c"); R("sqrt_matrix", "$rd22"); R("sqrt_matrix", "$b322", note="not psd: skip", cmp="skip")
R("mean", "$v3", grad=[0]); R("mean", "$m22", kw={"axis": 0}, grad=[0]); R("mean", "$cm22")
R("moveaxis", "$b322", 0, -1, grad=[0]); R("moveaxis", "$m23", 0, 1)
R("norm", "$v3", grad=[0]); R("norm", "$m22", grad=[0]); R("norm", "$cv3"); R("norm", "$v3", kw={"ord": 1}); R("norm", "$m22", kw={"axis": 0}); R("norm", "$m22", kw={"ord": "fro"})
R("ones_like", "$v3", cmp="value+dtype"); R("ones_like", "$m22", kw={"dtype": "@dtype:complex128"}, cmp="value+dtype"); R("ones_like", "$iv3", cmp="value+dtype")
R("reduce_matrices", "@matswires", "@fn:dot", cmp="matswires")
R("reshape", "$m23", T(3, 2), grad=[0]); R("reshape", "$b322", T(3, 4)); R("reshape", "$v4", T(2, 2)); R("reshape", "$m23", T(-1,))
R("round", "$v3"); R("round", "$v3b", 1); R("round", "$m22", kw={"decimals": 1})
R("scatter", "$idx2", "$v2", L(4)); R("scatter", "$idx2", "$v2", 4); R("scatter", "$idx1", "$v1", L(3))
R("scatter_element_add", "$m22", T(0, 1), "$s", grad=[0, 1]); R("scatter_element_add", "$v3", T(1,), "$s"); R("scatter_element_add", "$m22", T(L(0, 1), L(1, 0)), "$v2", grad=[0, 1])
R("scatter_element_add", "$s", T(), "$s2")
R("set_index", "$v3", 1, "$s"); R("set_index", "$m22", T(0, 1), 2.5); R("set_index", "$v3", 0, 7.0)
R("shape", "$m23", cmp="py"); R("shape", "$s", cmp="py"); R("shape", "$b322", cmp="py")
R("sqrt", "$v3p", grad=[0]); R("sqrt", "$cs"); R("sqrt", "$sp")
R("stack", L("$v3", "$v3b"), grad=[0, 1], mix=True); R("stack", L("$v3", "$v3b"), kw={"axis": 1}); R("stack", L("$s", "$s2")); R("stack", L("$cv3", "$v3"))
R("sum", "$m22", grad=[0]); R("sum", "$m22", kw={"axis": 0}, grad=[0]); R("sum", "$b322", kw={"axis": T(0, 2)}); R("sum", "$cv3"); R("sum", "$iv3")
R("svd", "$m22", kw={"compute_uv": False}, grad=[0], gi=("jax", "torch")); R("svd", "$m23", kw={"compute_uv": False}); R("svd", "$m22", cmp="svd"); R("svd", "$m23", kw={"full_matrices": False}, cmp="svd"); R("svd", "$cm22", kw={"compute_uv": False})
R("tensordot", "$m22", "$m22b", kw={"axes": 1}, grad=[0, 1], mix=True); R("tensordot", "$b322", "$m22", kw={"axes": L(L(2), L(0))}); R("tensordot", "$v3", "$v3b", kw={"axes": 0})
R("tensordot", "$m22", "$m22b", kw={"axes": L(L(0, 1), L(1, 0))})
R("toarray", "$v3", cmp="value+numpy"); R("toarray", "$cm22", cmp="value+numpy")
R("unwrap", L("$v3", "$s"), cmp="py"); R("unwrap", "$m22", cmp="py")
R("where", "$bv3", "$v3", "$v3b", grad=[1, 2], mix=True); R("where", "$bv3", cmp="tuple"); R("where", "$bv3", "$v3", 0.0); R("where", "$bv3", "$cv3", "$v3")
R("zeros", T(2, 3), kw={"like": "@iface"}, prec=P64); R("zeros", 3, kw={"like": "@iface"}, prec=P64)

# ---------------------------------------------------------------------------------------------- dynamic (autoray-dispatched) names
for f in ("sin", "cos", "tan", "exp", "sinh", "cosh", "tanh", "arctan"):
    R(f, "$v3", grad=[0]); R(f, "$cs"); R(f, "$s")
for f in ("arcsin", "arccos"):
    R(f, "$v2", grad=[0]); R(f, "$s")
R("log", "$v3p", grad=[0]); R("log", "$cs"); R("abs", "$v3", grad=[0]); R("abs", "$cv3"); R("abs", "$iv3")
R("real", "$cv3"); R("real", "$v3"); R("imag", "$cv3"); R("imag", "$v3"); R("angle", "$cv3"); R("angle", "$cs")
R("arctan2", "$v3", "$v3b", grad=[0, 1]); R("power", "$v3p", 2, grad=[0]); R("power", "$v3p", "$v3b", grad=[0, 1]); R("sign", "$v3"); R("sign", "$iv3")
R("maximum", "$v3", "$v3b"); R("minimum", "$v3", "$v3b"); R("clip", "$v3", -1.0, 1.0); R("cumsum", "$v3", kw={"axis": 0}, grad=[0]); R("cumsum", "$m22", kw={"axis": 0})
R("prod", "$v3", grad=[0]); R("prod", "$m22", kw={"axis": 1}); R("trace", "$m22", grad=[0]); R("trace", "$cm22"); R("outer", "$v3", "$v3b", grad=[0, 1]); R("outer", "$cv3", "$v3")
R("squeeze", "$m11"); R("ravel", "$m22"); R("expand_dims", "$v3", 0); R("expand_dims", "$m22", 1); R("ndim", "$b322", cmp="py"); R("ndim", "$s", cmp="py"); R("size", "$m23", cmp="py")
R("logical_and", "$bv3", "$bv3"); R("logical_not", "$bv3"); R("isclose", "$v3", "$v3"); R("any", "$bv3", cmp="py"); R("all", "$bv3", cmp="py")
R("argmax", "$v3", cmp="py"); R("argsort", "$v3"); R("sort", "$v3"); R("sort", "$v3b"); R("floor", "$v3"); R("ceil", "$v3")
R("hstack", L("$v3", "$v3b")); R("vstack", L("$v3", "$v3b")); R("tile", "$v3", T(2,)); R("diagonal", "$m22"); R("diagonal", "$m44")
R("take", "$v3", "$idx2"); R("take", "$m22", L(1, 0), kw={"axis": 1}); R("take", "$m23", "$idx2", kw={"axis": 1}); R("take", "$m22", 1, kw={"axis": 0})
R("gather", "$v3", "$idx2"); R("gather", "$v3", L(0, 2)); R("unstack", "$m22", cmp="tuple"); R("equal", "$iv3", "$iv3"); R("mod", "$v3p", 0.7); R("mod", "$iv3", 2)
R("eigvalsh", "$sym22", grad=[0], note="sym"); R("eigvalsh", "$herm22"); R("eigvalsh", "$bsym322"); R("entr", "$v3p", grad=[0]); R("entr", "$p4")
R("gamma", "$v3p"); R("gamma", "$sp")
R("linalg.inv", "$m22", grad=[0]); R("linalg.inv", "$cm22"); R("linalg.det", "$m22", grad=[0]); R("linalg.eigh", "$sym22", cmp="eigh"); R("linalg.eigh", "$herm22", cmp="eigh")
R("linalg.solve", "$m22", "$v2", grad=[0, 1]); R("linalg.norm", "$v3"); R("linalg.matrix_power", "$m22", 3)
R("asarray", "$v3"); R("asarray", L(1.0, 2.0), kw={"like": "@iface"}, prec=P64); R("to_numpy", "$v3", cmp="value+numpy"); R("coerce", L("$v3", "$s"), kw={"like": "@iface"}, cmp="tuple")
R("ones", T(2, 2), kw={"like": "@iface"}, prec=P64); R("arange", 4, kw={"like": "@iface"}, prec=P64); R("linspace", 0.0, 1.0, 5, kw={"like": "@iface"}, prec=P64)
R("fft.fft", "$cv4"); R("fft.ifft", "$cv4"); R("fft.fft2", "$cm22")

# ---------------------------------------------------------------------------------------------- deliberately not driven
EXCLUDED = {
    "Interface": "enum class, not a tensor function",
    "NumpyMimic": "namespace class, not a tensor function",
    "multi_dispatch": "decorator factory; exercised through every decorated function above",
    "binary_decimals": "GF(2)/integer helper typed for numpy.ndarray only (property C50)",
    "binary_finite_reduced_row_echelon": "GF(2) helper typed for numpy.ndarray only (property C50)",
    "binary_is_independent": "GF(2) helper typed for numpy.ndarray only (property C50)",
    "binary_matrix_rank": "GF(2) helper typed for numpy.ndarray only (property C50)",
    "binary_select_basis": "GF(2) helper typed for numpy.ndarray only (property C50)",
    "binary_solve_linear_system": "GF(2) helper typed for numpy.ndarray only (property C50)",
    "int_to_binary": "integer helper typed for numpy.ndarray only (property C50)",
    "sqrt_matrix_sparse": "documented for scipy.sparse input only",
}
