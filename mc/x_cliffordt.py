"""Helpers for C15 (Clifford+T approximation): owned `randrange`, cache hygiene, distance, op-list product.

The Ross-Selinger search factors integers with Pollard-rho (norm_solver._integer_factorize) which draws
`random.randrange`.  ScriptedRandrange replaces the module attribute `norm_solver.randrange` (harness side):
a fixed deterministic default stream plus optional overrides {call index: "lo" | "hi"}; every draw is logged.
The lru_caches that would otherwise carry draws from one case to the next are cleared before each run, which makes
a decomposition a pure function of (operator, epsilon, script).
"""
import math
from contextlib import contextmanager

import numpy as np

ONE_QUBIT_CT = {"Identity", "PauliX", "PauliY", "PauliZ", "Hadamard", "S", "T", "SX", "Adjoint(S)", "Adjoint(T)", "Adjoint(SX)"}
TWO_QUBIT_CT = {"CNOT", "CY", "CZ", "SWAP", "ISWAP", "Adjoint(ISWAP)"}


class ScriptedRandrange:
    def __init__(self, overrides=None):
        self.overrides = {int(k): v for k, v in (overrides or {}).items()}
        self.log = []

    def __call__(self, start, stop=None, step=1):
        if stop is None:
            start, stop = 0, start
        if step != 1 or stop <= start:
            raise ValueError("unsupported randrange call")
        i = len(self.log)
        ov = self.overrides.get(i)
        if ov == "lo":
            v = start
        elif ov == "hi":
            v = stop - 1
        else:
            v = start + ((i * 2654435761 + 1013904223) * 2862933555777941757 + 3037000493) % (stop - start)
        self.log.append((start, stop, v))
        return v


def clear_caches():
    from pennylane.ops.op_math.decompositions import norm_solver as ns

    for name in ("_prime_factorize", "_integer_factorize"):
        getattr(ns, name).cache_clear()
    import pennylane.transforms.decompositions.clifford_t_transform as ct

    ct._CLIFFORD_T_CACHE = None


@contextmanager
def owned_randrange(overrides=None):
    from pennylane.ops.op_math.decompositions import norm_solver as ns

    old = ns.randrange
    src = ScriptedRandrange(overrides)
    ns.randrange = src
    clear_caches()
    try:
        yield src
    finally:
        ns.randrange = old
        clear_caches()


def dist_up_to_phase(U, V):
    """min_phi || U - e^{i phi} V ||_2 for unitaries (phi from tr(V^dag U); refined by a local search if needed)."""
    U, V = np.asarray(U, dtype=complex), np.asarray(V, dtype=complex)
    t = np.trace(V.conj().T @ U)
    phi0 = math.atan2(t.imag, t.real) if abs(t) > 1e-14 else 0.0

    def d(phi):
        return float(np.linalg.norm(U - np.exp(1j * phi) * V, 2))

    best = d(phi0)
    if U.shape[0] > 2:  # for n > 1 qubit the trace phase need not minimise the operator norm: golden-section refinement
        lo, hi = phi0 - 0.5, phi0 + 0.5
        g = (math.sqrt(5) - 1) / 2
        a, b = hi - g * (hi - lo), lo + g * (hi - lo)
        fa, fb = d(a), d(b)
        for _ in range(60):
            if fa < fb:
                hi, b, fb = b, a, fa
                a = hi - g * (hi - lo)
                fa = d(a)
            else:
                lo, a, fa = a, b, fb
                b = lo + g * (hi - lo)
                fb = d(b)
        best = min(best, fa, fb)
    return best


def dist_with_phase(U, V):
    return float(np.linalg.norm(np.asarray(U, dtype=complex) - np.asarray(V, dtype=complex), 2))
