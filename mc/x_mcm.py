"""Dynamic-circuit helpers shared by C21 and C43 (builder-F).

A *program* is a JSON spec: {"prep": name, "body": [statement codes], "meas": [atom codes], "lab": label set,
"uid": "asc"|"desc"}.  From one spec two artefacts are built that share nothing but the gate constructors:

* `emit(spec)`      – the PennyLane program, through the public API (`qp.measure`, `qp.cond`, dunder arithmetic on
                      measurement values, `qp.expval(op=mv)` …).  Called inside a QNode / queuing context.
* `reference(spec)` – a plain-Python reading of the same spec: operations for `refsim.run_branches` where every
                      condition / statistic is a hand-written Python lambda over the tuple of outcomes (wrapped in a
                      bare `MeasurementValue(all_mcms, fn)` only because that is run_branches' input format).  No
                      MeasurementValue arithmetic, no `qp.cond`, no `get_mcm_predicates` on this side.

Statement codes
    gate        "H0" "H1" "X0" "X1" "RX0" "RY1" "CN01" "CN10" "S0"
    measure     "M<wire><reset 0|1><postselect n|0|1>"            e.g. "M01n" = measure(0, reset=True)
    cond        "?<expr>:<G>" or "?<expr>:<G>/<G'>" (else branch)  expr in EXPRS, G in COND_GATES
                a = most recent MCM before the statement, b = the one before it.
Measurement atoms (a = last MCM of the program, b = first MCM of the program): see ATOMS.
"""
import contextlib
import itertools
import math

import numpy as np

G1, G2 = 0.3, -1.234

LABELS = {"A": [0, 1], "B": [2, 0], "C": ["b", 1], "D": ["q", "a"]}

PREPS = {
    "none": [],
    "bell": ["H0", "CN01"],
    "prod": ["RX0", "RY1"],
    "ent": ["RX0", "RY1", "CN01"],
}

GATES = {
    "H0": ("Hadamard", [], [0]), "H1": ("Hadamard", [], [1]),
    "X0": ("PauliX", [], [0]), "X1": ("PauliX", [], [1]),
    "S0": ("S", [], [0]),
    "RX0": ("RX", [G1], [0]), "RY1": ("RY", [math.pi / 2], [1]), "RX1": ("RX", [G2], [1]), "RY0": ("RY", [G2], [0]),
    "CN01": ("CNOT", [], [0, 1]), "CN10": ("CNOT", [], [1, 0]),
}
# branch bodies for cond: lists of gate codes (two-op bodies exercise "one Conditional per recorded op")
COND_GATES = {"X0": ["X0"], "X1": ["X1"], "RX1": ["RX1"], "RY0": ["RY0"], "CN01": ["CN01"], "CN10": ["CN10"], "HX": ["H1", "X0"]}

# expr code -> (needs b?, plain-Python predicate on (a, b))
EXPRS = {
    "a": (False, lambda a, b: a == 1),
    "na": (False, lambda a, b: not a),
    "a0": (False, lambda a, b: a == 0),
    "and": (True, lambda a, b: bool(a and b)),
    "or": (True, lambda a, b: bool(a or b)),
    "x1": (True, lambda a, b: a + b == 1),
    "eq": (True, lambda a, b: a == b),
    "lin": (True, lambda a, b: 2 * a - b > 0),
    "nb": (True, lambda a, b: not b),
}


def impl_expr(code, ma, mb):
    """The same expressions through MeasurementValue's operators (implementation side)."""
    if code == "a":
        return ma
    if code == "na":
        return ~ma
    if code == "a0":
        return ma == 0
    if code == "and":
        return ma & mb
    if code == "or":
        return ma | mb
    if code == "x1":
        return ma + mb == 1
    if code == "eq":
        return ma == mb
    if code == "lin":
        return 2 * ma - mb > 0
    if code == "nb":
        return ~mb
    raise KeyError(code)


# measurement atoms: code -> (kind, needs_b, needs_shots, analytic_ok)
#   kinds: obs-based  eZ0 vX1 eZZ p01 p10 p1 sZ0 sX1 s01 c01 cZ0
#          mv-based   ea va pa pab pba e2 v2 sa sab s2 ca cab c2
ATOMS = {
    "eZ0": ("obs", False, False), "vX1": ("obs", False, False), "eZZ": ("obs", False, False), "vZ0": ("obs", False, False),
    "eX1": ("obs", False, False),
    "p01": ("obs", False, False), "p10": ("obs", False, False), "p1": ("obs", False, False), "p0": ("obs", False, False),
    "sZ0": ("obs", False, True), "sX1": ("obs", False, True), "s01": ("obs", False, True), "c01": ("obs", False, True),
    "cZ0": ("obs", False, True), "s1": ("obs", False, True),
    "ea": ("mv", False, False), "va": ("mv", False, False), "pa": ("mv", False, False), "eb": ("mv", True, False),
    "pab": ("mv", True, False), "pba": ("mv", True, False), "e2": ("mv", True, False), "v2": ("mv", True, False),
    "ena": ("mv", False, False),
    "sa": ("mv", False, True), "sab": ("mv", True, True), "s2": ("mv", True, True), "ca": ("mv", False, True),
    "cab": ("mv", True, True), "c2": ("mv", True, True), "sb": ("mv", True, True),
}


def parse_body(spec):
    return list(PREPS[spec.get("prep", "none")]) + list(spec["body"])


def n_mcm(spec):
    return sum(1 for s in spec["body"] if s[0] == "M")


def valid_word(body):
    """A body is well-formed if every cond finds the MCMs it refers to."""
    k = 0
    for s in body:
        if s[0] == "M":
            k += 1
        elif s[0] == "?":
            expr = s[1:].split(":")[0]
            if k < (2 if EXPRS[expr][0] else 1):
                return False
    return True


def features(spec):
    f = set()
    for s in spec["body"]:
        if s[0] == "M":
            if s[2] == "1":
                f.add("reset")
            if s[3] != "n":
                f.add("ps")
        elif s[0] == "?":
            f.add("cond")
            if "/" in s:
                f.add("else")
    if n_mcm(spec) > 1:
        f.add("multi")
    return "+".join(sorted(f)) or "plain"


# ---------------------------------------------------------------------------------------- implementation side
class _SeqUUID:
    """Stand-in for the `uuid` module inside pennylane.ops.mid_measure.mid_measure: deterministic ids whose
    lexicographic order is ascending or descending in creation order (MeasurementValue._merge sorts by it)."""

    def __init__(self, order):
        self.order = order
        self.k = 0

    def uuid4(self):
        k = self.k
        self.k += 1
        return f"u{k:03d}" if self.order == "asc" else f"u{999 - k:03d}"


@contextlib.contextmanager
def scripted_uuids(order):
    from pennylane.ops.mid_measure import mid_measure as mm

    real = mm.uuid
    mm.uuid = _SeqUUID(order)
    try:
        yield
    finally:
        mm.uuid = real


def _gate(code, lab):
    import pennylane as qp

    name, params, wires = GATES[code]
    return getattr(qp, name)(*params, wires=[lab[w] for w in wires])


def emit_ops(spec):
    """Queue the program's operations through the public API; returns the list of measurement values."""
    import pennylane as qp

    lab = LABELS[spec.get("lab", "A")]
    mvs = []
    for s in parse_body(spec):
        if s[0] == "M":
            ps = None if s[3] == "n" else int(s[3])
            mvs.append(qp.measure(lab[int(s[1])], reset=s[2] == "1", postselect=ps))
        elif s[0] == "?":
            expr, rest = s[1:].split(":")
            ma = mvs[-1]
            mb = mvs[-2] if len(mvs) > 1 else None
            e = impl_expr(expr, ma, mb)
            branches = rest.split("/")

            def body(codes):
                def f():
                    for c in codes:
                        _gate(c, lab)
                return f

            if len(branches) == 1:
                qp.cond(e, body(COND_GATES[branches[0]]))()
            else:
                qp.cond(e, body(COND_GATES[branches[0]]), body(COND_GATES[branches[1]]))()
        else:
            _gate(s, lab)
    return mvs


def emit_measurements(spec, mvs):
    import pennylane as qp

    lab = LABELS[spec.get("lab", "A")]
    w0, w1 = lab
    ma = mvs[-1] if mvs else None
    mb = mvs[0] if mvs else None
    out = []
    for a in spec["meas"]:
        if a == "eZ0":
            out.append(qp.expval(qp.Z(w0)))
        elif a == "vZ0":
            out.append(qp.var(qp.Z(w0)))
        elif a == "vX1":
            out.append(qp.var(qp.X(w1)))
        elif a == "eX1":
            out.append(qp.expval(qp.X(w1)))
        elif a == "eZZ":
            out.append(qp.expval(qp.Z(w0) @ qp.Z(w1)))
        elif a == "p01":
            out.append(qp.probs(wires=[w0, w1]))
        elif a == "p10":
            out.append(qp.probs(wires=[w1, w0]))
        elif a == "p1":
            out.append(qp.probs(wires=[w1]))
        elif a == "p0":
            out.append(qp.probs(wires=[w0]))
        elif a == "sZ0":
            out.append(qp.sample(qp.Z(w0)))
        elif a == "sX1":
            out.append(qp.sample(qp.X(w1)))
        elif a == "s01":
            out.append(qp.sample(wires=[w0, w1]))
        elif a == "s1":
            out.append(qp.sample(wires=[w1]))
        elif a == "c01":
            out.append(qp.counts(wires=[w0, w1]))
        elif a == "cZ0":
            out.append(qp.counts(qp.Z(w0)))
        elif a == "ea":
            out.append(qp.expval(ma))
        elif a == "eb":
            out.append(qp.expval(mb))
        elif a == "ena":
            out.append(qp.expval(~ma))
        elif a == "va":
            out.append(qp.var(ma))
        elif a == "pa":
            out.append(qp.probs(op=ma))
        elif a == "pab":
            out.append(qp.probs(op=[ma, mb]))
        elif a == "pba":
            out.append(qp.probs(op=[mb, ma]))
        elif a == "e2":
            out.append(qp.expval(ma + 2 * mb))
        elif a == "v2":
            out.append(qp.var(ma + 2 * mb))
        elif a == "sa":
            out.append(qp.sample(ma))
        elif a == "sb":
            out.append(qp.sample(mb))
        elif a == "sab":
            out.append(qp.sample([ma, mb]))
        elif a == "s2":
            out.append(qp.sample(ma + 2 * mb))
        elif a == "ca":
            out.append(qp.counts(ma))
        elif a == "cab":
            out.append(qp.counts([ma, mb]))
        elif a == "c2":
            out.append(qp.counts(ma + 2 * mb))
        else:
            raise KeyError(a)
    return tuple(out) if len(out) != 1 else out[0]


def qfunc(spec):
    def f():
        with scripted_uuids(spec.get("uid", "asc")):
            mvs = emit_ops(spec)
            return emit_measurements(spec, mvs)

    return f


# ---------------------------------------------------------------------------------------- reference side
def reference_ops(spec):
    """Operations for refsim.run_branches + list of the reference MidMeasure objects in program order.
    Conditions are bare Python lambdas over the full outcome tuple."""
    import pennylane as qp
    from pennylane.ops import Conditional, MeasurementValue, MidMeasure

    lab = LABELS[spec.get("lab", "A")]
    ops, mcms = [], []
    with qp.QueuingManager.stop_recording():
        for s in parse_body(spec):
            if s[0] == "M":
                ps = None if s[3] == "n" else int(s[3])
                m = MidMeasure(wires=qp.wires.Wires(lab[int(s[1])]), reset=s[2] == "1", postselect=ps, meas_uid=f"ref{len(mcms)}")
                mcms.append(m)
                ops.append(m)
            elif s[0] == "?":
                expr, rest = s[1:].split(":")
                ia = len(mcms) - 1
                ib = len(mcms) - 2
                pred = EXPRS[expr][1]
                branches = rest.split("/")
                seen = list(mcms)

                def mk(ia=ia, ib=ib, pred=pred, negate=False):
                    def fn(*bits):
                        v = bool(pred(bits[ia], bits[ib] if ib >= 0 else None))
                        return (not v) if negate else v
                    return fn

                for c in COND_GATES[branches[0]]:
                    ops.append(Conditional(MeasurementValue(seen, mk()), _gate(c, lab)))
                if len(branches) > 1:
                    for c in COND_GATES[branches[1]]:
                        ops.append(Conditional(MeasurementValue(seen, mk(negate=True)), _gate(c, lab)))
            else:
                ops.append(_gate(s, lab))
    return ops, mcms


def mv_value(atom, bits):
    """Per-shot value of an mv-based atom on the outcome tuple (program order); a = last, b = first."""
    a, b = bits[-1], bits[0]
    if atom in ("ea", "va", "pa", "sa", "ca"):
        return a
    if atom in ("eb", "sb"):
        return b
    if atom == "ena":
        return int(not a)
    if atom in ("pab", "sab", "cab"):
        return (a, b)
    if atom == "pba":
        return (b, a)
    if atom in ("e2", "v2", "s2", "c2"):
        return a + 2 * b
    raise KeyError(atom)


_X = np.array([[0, 1], [1, 0]], dtype=complex)
_Z = np.array([[1, 0], [0, -1]], dtype=complex)
_Hd = np.array([[1, 1], [1, -1]], dtype=complex) / math.sqrt(2)


def obs_outcomes(atom, state):
    """Distribution {per-shot value: probability mass} of an obs-based atom on an UNNORMALISED 2-qubit state tensor
    (axis 0 = program wire 0, axis 1 = program wire 1).  Values: eigenvalue (float) or bit tuple."""
    from mc import refsim as R

    st = state
    if atom in ("vX1", "sX1", "eX1"):
        st = R.apply_matrix(st, _Hd, [1], 2)
    p = np.abs(st) ** 2  # p[i0, i1]
    out = {}

    def add(k, v):
        out[k] = out.get(k, 0.0) + float(v)

    for i0, i1 in itertools.product((0, 1), repeat=2):
        m = p[i0, i1]
        if atom in ("eZ0", "sZ0", "vZ0", "cZ0"):
            add(1.0 - 2 * i0, m)
        elif atom in ("vX1", "sX1", "eX1"):
            add(1.0 - 2 * i1, m)
        elif atom == "eZZ":
            add((1.0 - 2 * i0) * (1.0 - 2 * i1), m)
        elif atom in ("p01", "s01", "c01"):
            add((i0, i1), m)
        elif atom == "p10":
            add((i1, i0), m)
        elif atom in ("p1", "s1"):
            add((i1,), m)
        elif atom == "p0":
            add((i0,), m)
        else:
            raise KeyError(atom)
    return out


def all_histories(spec):
    """Own walker (no postselection pruning): list of (bits tuple, valid flag, unnormalised state tensor over
    program wires 0,1).  Branches of squared norm <= 1e-14 are dropped (outcomes of probability zero)."""
    from mc import refsim as R
    from mc import refgates as RG

    branches = [((), True, R.zero_state(2))]
    for s in parse_body(spec):
        if s[0] == "M":
            w, reset, ps = int(s[1]), s[2] == "1", (None if s[3] == "n" else int(s[3]))
            new = []
            for bits, valid, st in branches:
                for o in (0, 1):
                    sl = [slice(None)] * 2
                    sl[w] = 1 - o
                    pr = st.copy()
                    pr[tuple(sl)] = 0
                    if float(np.sum(np.abs(pr) ** 2)) <= 1e-14:
                        continue
                    if reset and o == 1:
                        pr = R.apply_matrix(pr, _X, [w], 2)
                    new.append((bits + (o,), valid and (ps is None or ps == o), pr))
            branches = new
        elif s[0] == "?":
            expr, rest = s[1:].split(":")
            pred = EXPRS[expr][1]
            brs = rest.split("/")
            new = []
            for bits, valid, st in branches:
                v = bool(pred(bits[-1], bits[-2] if len(bits) > 1 else None))
                codes = COND_GATES[brs[0]] if v else (COND_GATES[brs[1]] if len(brs) > 1 else [])
                for c in codes:
                    name, params, wires = GATES[c]
                    st = R.apply_matrix(st, RG.matrix(name, params), wires, 2)
                new.append((bits, valid, st))
            branches = new
        else:
            name, params, wires = GATES[s]
            U = RG.matrix(name, params)
            branches = [(b, v, R.apply_matrix(st, U, wires, 2)) for b, v, st in branches]
    return branches


def shot_distribution(spec, atom, mode):
    """Reference distribution of ONE shot for `atom`: dict value -> probability, with key None = shot discarded
    (hw-like).  mode 'fill-shots' conditions on validity.  Returns (dist, p_valid)."""
    kind = ATOMS[atom][0]
    dist = {}
    pv = 0.0
    for bits, valid, st in all_histories(spec):
        w = float(np.sum(np.abs(st) ** 2))
        if not valid:
            dist[None] = dist.get(None, 0.0) + w
            continue
        pv += w
        if kind == "mv":
            k = mv_value(atom, bits)
            dist[k] = dist.get(k, 0.0) + w
        else:
            for k, m in obs_outcomes(atom, st).items():
                if m > 0:
                    dist[k] = dist.get(k, 0.0) + m
    if mode == "fill-shots":
        dist.pop(None, None)
        if pv > 0:
            dist = {k: v / pv for k, v in dist.items()}
    return {k: v for k, v in dist.items() if v > 1e-13}, pv


# ---------------------------------------------------------------------------------------- aggregation of shots
def _r(x):
    x = float(x)
    if math.isnan(x):
        return "nan"
    return round(x, 9) + 0.0


def aggregate(atom, values):
    """Canonical result of `atom` from the list of per-shot values of the VALID shots (reference side)."""
    t = atom[0]
    n = len(values)
    if n == 0:
        return "EMPTY"
    if t == "e":
        return ["e", _r(sum(values) / n)]
    if t == "v":
        mu = sum(values) / n
        return ["v", _r(sum((v - mu) ** 2 for v in values) / n)]
    if t == "s":
        return ["s", sorted([list(v) if isinstance(v, tuple) else _r(v) for v in values], key=repr)]
    if t == "c":
        c = {}
        for v in values:
            k = "".join(str(int(b)) for b in v) if isinstance(v, tuple) else repr(_r(v))
            c[k] = c.get(k, 0) + 1
        return ["c", sorted(c.items())]
    if t == "p":
        if atom == "pa":
            keys = [0, 1]
        else:
            width = len(values[0])
            keys = list(itertools.product((0, 1), repeat=width))
        return ["p", [_r(sum(1 for v in values if v == k) / n) for k in keys]]
    raise KeyError(atom)


def canon_result(atom, res):
    """Canonical form of what the implementation returned for `atom` (same format as aggregate)."""
    t = atom[0]
    if t in ("e", "v"):
        arr = np.asarray(res, dtype=float)
        if arr.size == 0:
            return "EMPTY"
        x = float(arr.reshape(-1)[0]) if arr.size == 1 else None
        if x is None:
            return ["?", np.round(arr, 9).tolist()]
        if math.isnan(x):
            return "EMPTY"
        return [t, _r(x)]
    if t == "p":
        arr = np.asarray(res, dtype=float).reshape(-1)
        if arr.size == 0 or np.all(np.isnan(arr)):
            return "EMPTY"
        return ["p", [_r(x) for x in arr]]
    if t == "s":
        arr = np.asarray(res)
        if arr.size == 0 or (arr.dtype.kind == "f" and np.all(np.isnan(arr))):
            return "EMPTY"
        if atom in ("s01", "sab", "s1"):
            width = {"s01": 2, "sab": 2, "s1": 1}[atom]
            rows = arr.reshape(-1, width)
            return ["s", sorted([[int(x) for x in r] for r in rows], key=repr)]
        return ["s", sorted([_r(x) for x in arr.reshape(-1)], key=repr)]
    if t == "c":
        if isinstance(res, float) and math.isnan(res):
            return "EMPTY"
        if not isinstance(res, dict):
            res = res.item() if hasattr(res, "item") else dict(res)
        c = {}
        for k, v in res.items():
            if int(v) == 0:
                continue
            kk = k if isinstance(k, str) else repr(_r(k))
            c[kk] = c.get(kk, 0) + int(v)
        if not c:
            return "EMPTY"
        return ["c", sorted(c.items())]
    raise KeyError(atom)


def result_distribution(spec, atom, mode, shots):
    """Reference distribution of the canonical `shots`-shot result of `atom`: dict json-key -> probability."""
    import json

    dist, _ = shot_distribution(spec, atom, mode)
    keys = list(dist)
    out = {}
    for seq in itertools.product(keys, repeat=shots):
        p = 1.0
        for k in seq:
            p *= dist[k]
        vals = [k for k in seq if k is not None]
        r = json.dumps(aggregate(atom, vals))
        out[r] = out.get(r, 0.0) + p
    return out


# ---------------------------------------------------------------------------------------- analytic reference
def analytic_reference(spec):
    """Exact branch-averaged values of every atom, from refsim.run_branches on the reference operations.
    Returns (list of values or None when the postselected probability is zero, total kept probability,
    number of branches)."""
    from mc import refsim as R

    ops, mcms = reference_ops(spec)
    lab = LABELS[spec.get("lab", "A")]
    branches = R.run_branches(ops, lab)
    tot = sum(float(np.sum(np.abs(st) ** 2)) for _, st in branches)
    if tot <= 1e-12:
        return None, tot, len(branches)
    vals = []
    for atom in spec["meas"]:
        kind = ATOMS[atom][0]
        dist = {}
        for hist, st in branches:
            w = float(np.sum(np.abs(st) ** 2))
            if kind == "mv":
                bits = tuple(hist[id(m)] for m in mcms)
                k = mv_value(atom, bits)
                dist[k] = dist.get(k, 0.0) + w / tot
            else:
                for k, m in obs_outcomes(atom, st).items():
                    dist[k] = dist.get(k, 0.0) + m / tot
        t = atom[0]
        if t == "e":
            vals.append(sum(k * p for k, p in dist.items()))
        elif t == "v":
            mu = sum(k * p for k, p in dist.items())
            vals.append(sum(k * k * p for k, p in dist.items()) - mu * mu)
        elif t == "p":
            if atom == "pa":
                keys = [0, 1]
            else:
                width = len(next(iter(dist)))
                keys = list(itertools.product((0, 1), repeat=width))
            vals.append(np.array([dist.get(k, 0.0) for k in keys]))
        else:
            raise KeyError(atom)
    return vals, tot, len(branches)


# ---------------------------------------------------------------------------------------- model of a known defect
def per_subtree_model(spec):
    """NOT a reference.  Model of the analytic tree-traversal defect found by C21 (postselection renormalised inside
    every subtree instead of globally); used only to classify a mismatch under a narrow known-finding signature.
    Returns (values per atom, or None if some explored node keeps no outcome, flag 'differs-from-exact possible')."""
    from mc import refsim as R
    from mc import refgates as RG

    stmts = parse_body(spec)
    atoms = spec["meas"]
    empty = [False]
    last_ps = max([i for i, s in enumerate(stmts) if s[0] == "M" and s[3] != "n"], default=-1)

    def leaf(state, bits):
        out = []
        for atom in atoms:
            if ATOMS[atom][0] == "mv":
                dist = {mv_value(atom, bits): 1.0}
            else:
                dist = obs_outcomes(atom, state)
            t = atom[0]
            if t == "e":
                out.append(np.array([sum(k * p for k, p in dist.items())]))
            elif t == "v":
                out.append(np.array([sum(k * k * p for k, p in dist.items()), sum(k * p for k, p in dist.items())]))
            else:
                if atom == "pa":
                    keys = [0, 1]
                else:
                    keys = list(itertools.product((0, 1), repeat=len(next(iter(dist)))))
                out.append(np.array([dist.get(k, 0.0) for k in keys]))
        return out

    def rec(i, state, bits):
        while i < len(stmts):
            s = stmts[i]
            if s[0] == "M":
                w, reset, ps = int(s[1]), s[2] == "1", (None if s[3] == "n" else int(s[3]))
                acc, tot = None, 0.0
                for o in (0, 1):
                    sl = [slice(None)] * 2
                    sl[w] = 1 - o
                    pr = state.copy()
                    pr[tuple(sl)] = 0
                    p = float(np.sum(np.abs(pr) ** 2))
                    if p <= 1e-14 and not (ps is not None and o != ps) and last_ps > i:
                        # tree-traversal only skips branches of probability EXACTLY 0; a float-noise branch (1e-33) is
                        # entered, and a later postselection inside it can produce 0/0 = nan that survives the weighting
                        empty[0] = True
                    if p <= 1e-14 or (ps is not None and o != ps):
                        continue
                    pr = pr / math.sqrt(p)
                    if reset and o == 1:
                        pr = R.apply_matrix(pr, _X, [w], 2)
                    sub = rec(i + 1, pr, bits + (o,))
                    if sub is None:
                        continue
                    tot += p
                    acc = [p * x for x in sub] if acc is None else [a + p * x for a, x in zip(acc, sub)]
                if acc is None:
                    empty[0] = True
                    return None
                return [a / tot for a in acc]
            if s[0] == "?":
                expr, rest = s[1:].split(":")
                brs = rest.split("/")
                v = bool(EXPRS[expr][1](bits[-1], bits[-2] if len(bits) > 1 else None))
                codes = COND_GATES[brs[0]] if v else (COND_GATES[brs[1]] if len(brs) > 1 else [])
            else:
                codes = [s]
            for c in codes:
                name, params, wires = GATES[c]
                state = R.apply_matrix(state, RG.matrix(name, params), wires, 2)
            i += 1
        return leaf(state, bits)

    res = rec(0, R.zero_state(2), ())
    if res is None or empty[0]:
        return None
    out = []
    for atom, x in zip(atoms, res):
        if atom[0] == "e":
            out.append(float(x[0]))
        elif atom[0] == "v":
            out.append(float(x[0] - x[1] ** 2))
        else:
            out.append(x)
    return out
