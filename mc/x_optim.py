"""Reference models for C61 (optimizers): objectives with hand-written gradients, 10-line reference
implementations of every documented update formula, a closed-form reference for a small variational circuit
(state, energy gradient, Fubini-Study metric tensor in the three documented approximations) and the scripted
replacement of ``numpy.random.choice`` used by SPSAOptimizer.  Plain numpy, written from the class docstrings in
pennylane/optimize/*.py; PennyLane is only imported inside the ``live_*`` builders."""
import contextlib
import math

import numpy as np

# ------------------------------------------------------------------------------------------ classical objectives
# Every objective: name -> dict(args=[(value, trainable)], kwargs, f(*np arrays, **kw) -> float,
#                               g(*np arrays, **kw) -> list of gradients for the TRAINABLE args in order)
_A = np.array([[2.0, 0.5], [0.5, 1.0]])
_B = np.array([1.0, -1.0])


def _quad_f(x):
    return float(0.5 * x @ _A @ x - _B @ x)


def _quad_g(x):
    return [_A @ x - _B]


def _scal_f(x):
    return float(np.sin(x) * np.cos(0.5 * x) + 0.1 * x**2)


def _scal_g(x):
    return [np.asarray(np.cos(x) * np.cos(0.5 * x) - 0.5 * np.sin(x) * np.sin(0.5 * x) + 0.2 * x)]


def _one_nt_f(c, x):
    return float(np.sum(c * np.sin(x)) + 0.3 * x[0] * x[1])


def _one_nt_g(c, x):
    return [c * np.cos(x) + 0.3 * x[::-1]]


def _two_tr_f(x, c, y, scale=1.0):
    return float(scale * (np.sum(np.sin(x) * c) + y**2 * x[0]))


def _two_tr_g(x, c, y, scale=1.0):
    return [scale * (np.cos(x) * c + np.array([y**2, 0.0])), np.asarray(scale * 2 * y * x[0])]


OBJECTIVES = {
    "quad": dict(args=[([0.3, -0.7], True)], kwargs={}, f=_quad_f, g=_quad_g),
    "scalar": dict(args=[(0.4, True)], kwargs={}, f=_scal_f, g=_scal_g),
    "one_nt": dict(args=[([0.5, -1.2], False), ([0.2, 0.9], True)], kwargs={}, f=_one_nt_f, g=_one_nt_g),
    "two_tr": dict(args=[([0.3, -0.7], True), ([1.5, 0.5], False), (0.8, True)], kwargs={"scale": 0.7}, f=_two_tr_f, g=_two_tr_g),
}


def live_objective(name):
    """The same objectives written with pennylane.numpy (so that autograd differentiates them)."""
    from pennylane import numpy as pnp

    if name == "quad":
        A, B = _A, _B  # plain numpy constants (a non-trainable *tensor* constant cannot be mixed with autograd boxes in pnp.dot)
        return lambda x: 0.5 * pnp.dot(x, pnp.dot(A, x)) - pnp.dot(B, x)
    if name == "scalar":
        return lambda x: pnp.sin(x) * pnp.cos(0.5 * x) + 0.1 * x**2
    if name == "one_nt":
        return lambda c, x: pnp.sum(c * pnp.sin(x)) + 0.3 * x[0] * x[1]
    if name == "two_tr":
        return lambda x, c, y, scale=1.0: scale * (pnp.sum(pnp.sin(x) * c) + y**2 * x[0])
    raise KeyError(name)


def live_args(name):
    from pennylane import numpy as pnp

    spec = OBJECTIVES[name] if name in OBJECTIVES else QNODES[name]
    return [pnp.array(v, requires_grad=t) for v, t in spec["args"]]


def ref_args(name):
    spec = OBJECTIVES[name] if name in OBJECTIVES else QNODES[name]
    return [np.array(v, dtype=float) for v, _ in spec["args"]], [t for _, t in spec["args"]]


# ------------------------------------------------------------------------------------------ reference circuit
# RX(p0) w0, RY(p1) w1 | CNOT(0,1) | RY(p2) w0, RX(p3) w1 ; cost <Z0 Z1 + 0.5 X1>.  First wire = most significant.
_I2 = np.eye(2, dtype=complex)
_P = {"X": np.array([[0, 1], [1, 0]], dtype=complex), "Y": np.array([[0, -1j], [1j, 0]]), "Z": np.diag([1.0 + 0j, -1.0])}
_CNOT = np.array([[1, 0, 0, 0], [0, 1, 0, 0], [0, 0, 0, 1], [0, 0, 1, 0]], dtype=complex)
CIRCUIT = [("X", 0), ("Y", 1), "CNOT", ("Y", 0), ("X", 1)]
LAYERS = [[0, 1], [2, 3]]  # parameter indices of the two parametrized layers


def _on(P, w):
    return np.kron(P, _I2) if w == 0 else np.kron(_I2, P)


def _rot(p, w, th):
    return math.cos(th / 2) * np.eye(4) - 1j * math.sin(th / 2) * _on(_P[p], w)


_HAM = _on(_P["Z"], 0) @ _on(_P["Z"], 1) + 0.5 * _on(_P["X"], 1)


def circuit_states(p):
    """psi(p), [d psi / d p_i], [state before layer l]."""
    gates, k = [], 0
    for g in CIRCUIT:
        if g == "CNOT":
            gates.append((None, _CNOT))
        else:
            gates.append((k, _rot(g[0], g[1], p[k])))
            k += 1
    psi0 = np.zeros(4, dtype=complex)
    psi0[0] = 1
    psi = psi0
    before = {}
    for idx, U in gates:
        if idx is not None:
            before[idx] = psi
        psi = U @ psi
    dpsi = []
    names = [g for g in CIRCUIT if g != "CNOT"]
    for i in range(4):
        v = psi0
        for idx, U in gates:
            v = U @ v
            if idx == i:
                v = (-0.5j) * _on(_P[names[i][0]], names[i][1]) @ v
        dpsi.append(v)
    return psi, dpsi, [before[l[0]] for l in LAYERS]


def circuit_cost(p):
    psi, _, _ = circuit_states(p)
    return float(np.real(np.vdot(psi, _HAM @ psi)))


def circuit_grad(p):
    psi, dpsi, _ = circuit_states(p)
    return np.array([2 * np.real(np.vdot(psi, _HAM @ d)) for d in dpsi])


def circuit_metric(p, approx):
    """Fubini-Study metric tensor: approx None = Re(<di|dj> - <di|psi><psi|dj>); 'block-diag' = per layer
    <K_i K_j> - <K_i><K_j> on the state entering the layer with K = -P/2; 'diag' = its diagonal."""
    psi, dpsi, layer_states = circuit_states(p)
    n = 4
    g = np.zeros((n, n))
    if approx is None:
        for i in range(n):
            for j in range(n):
                g[i, j] = np.real(np.vdot(dpsi[i], dpsi[j]) - np.vdot(dpsi[i], psi) * np.vdot(psi, dpsi[j]))
        return g
    names = [x for x in CIRCUIT if x != "CNOT"]
    for layer, st in zip(LAYERS, layer_states):
        for i in layer:
            Ki = -0.5 * _on(_P[names[i][0]], names[i][1])
            for j in layer:
                if approx == "diag" and i != j:
                    continue
                Kj = -0.5 * _on(_P[names[j][0]], names[j][1])
                g[i, j] = np.real(np.vdot(st, Ki @ Kj @ st) - np.vdot(st, Ki @ st) * np.vdot(st, Kj @ st))
    return g


def circuit_overlap(p, q):
    a, _, _ = circuit_states(p)
    b, _, _ = circuit_states(q)
    return float(abs(np.vdot(a, b)) ** 2)


QNODES = {
    "qnode": dict(args=[([0.4, -0.3, 0.7, 0.2], True)], kwargs={}, f=lambda p: circuit_cost(p), g=lambda p: [circuit_grad(p)]),
}


SPLITS = {1: ([0], [1, 2, 3]), 2: ([0, 2], [1, 3])}  # positions of (pa, pb) inside p; split 2: the trainable p0, p2 do NOT commute


def merge(split, pa, pb):
    out = [None] * 4
    for i, k in enumerate(SPLITS[split][0]):
        out[k] = pa[i]
    for i, k in enumerate(SPLITS[split][1]):
        out[k] = pb[i]
    return out


def live_qnode(split=None):
    """QNode of the reference circuit on default.qubit; split=k: signature circuit(pa, pb), p = merge(k, pa, pb)."""
    import pennylane as qp

    dev = qp.device("default.qubit", wires=[0, 1, "aux"])

    def body(p):
        qp.RX(p[0], wires=0)
        qp.RY(p[1], wires=1)
        qp.CNOT(wires=[0, 1])
        qp.RY(p[2], wires=0)
        qp.RX(p[3], wires=1)
        return qp.expval(qp.Hamiltonian([1.0, 0.5], [qp.Z(0) @ qp.Z(1), qp.X(1)]))

    if split is None:

        def circuit(p):
            return body(p)

    else:

        def circuit(pa, pb):
            return body(merge(split, pa, pb))

    return qp.QNode(circuit, dev)


# ------------------------------------------------------------------------------------------ reference optimizers
class RefOpt:
    """Reference optimizer: xs = list of numpy arrays, tr = list of bools.  grad_point(xs) = where the documented
    formula evaluates the gradient; update(xs, gs) = the documented update (gs = gradients of trainable args)."""

    resettable = False

    def __init__(self, hp):
        self.hp = dict(hp)
        self.reset()

    def reset(self):
        self.acc = None

    def grad_point(self, xs, tr):
        return xs

    def _each(self, xs, tr, gs, fn):
        out, k = [], 0
        for i, (x, t) in enumerate(zip(xs, tr)):
            if t:
                out.append(fn(i, k, x, gs[k]))
                k += 1
            else:
                out.append(x)
        return out

    def state(self):
        return self.acc


class RefGD(RefOpt):  # x <- x - eta g
    def update(self, xs, tr, gs, aux=None):
        return self._each(xs, tr, gs, lambda i, k, x, g: x - self.hp["stepsize"] * g)


class RefMomentum(RefOpt):  # a <- m a + eta g ; x <- x - a
    resettable = True

    def _a(self, xs):
        if self.acc is None:
            self.acc = [np.zeros_like(x) for x in xs]
        return self.acc

    def update(self, xs, tr, gs, aux=None):
        a = self._a(xs)

        def fn(i, k, x, g):
            a[i] = self.hp["momentum"] * a[i] + self.hp["stepsize"] * g
            return x - a[i]

        return self._each(xs, tr, gs, fn)


class RefNesterov(RefMomentum):  # a <- m a + eta grad f(x - m a) ; x <- x - a
    def grad_point(self, xs, tr):
        a = self._a(xs)
        return [x - self.hp["momentum"] * a[i] if t else x for i, (x, t) in enumerate(zip(xs, tr))]


class RefAdagrad(RefMomentum):  # a <- a + g^2 ; x <- x - eta / sqrt(a + eps) g
    def update(self, xs, tr, gs, aux=None):
        a = self._a(xs)

        def fn(i, k, x, g):
            a[i] = a[i] + g**2
            return x - self.hp["stepsize"] / np.sqrt(a[i] + self.hp["eps"]) * g

        return self._each(xs, tr, gs, fn)


class RefRMSProp(RefMomentum):  # a <- gamma a + (1-gamma) g^2 ; x <- x - eta / sqrt(a + eps) g
    def update(self, xs, tr, gs, aux=None):
        a = self._a(xs)

        def fn(i, k, x, g):
            a[i] = self.hp["decay"] * a[i] + (1 - self.hp["decay"]) * g**2
            return x - self.hp["stepsize"] / np.sqrt(a[i] + self.hp["eps"]) * g

        return self._each(xs, tr, gs, fn)


class RefAdam(RefOpt):
    # a <- b1 a + (1-b1) g ; b <- b2 b + (1-b2) g^2 ; eta_t = eta sqrt(1-b2^t)/(1-b1^t) ; x <- x - eta_t a/(sqrt(b)+eps)
    resettable = True

    def update(self, xs, tr, gs, aux=None):
        if self.acc is None:
            self.acc = {"a": [np.zeros_like(x) for x in xs], "b": [np.zeros_like(x) for x in xs], "t": 0}
        s, h = self.acc, self.hp
        s["t"] += 1
        eta = h["stepsize"] * math.sqrt(1 - h["beta2"] ** s["t"]) / (1 - h["beta1"] ** s["t"])

        def fn(i, k, x, g):
            s["a"][i] = h["beta1"] * s["a"][i] + (1 - h["beta1"]) * g
            s["b"][i] = h["beta2"] * s["b"][i] + (1 - h["beta2"]) * g**2
            return x - eta * s["a"][i] / (np.sqrt(s["b"][i]) + h["eps"])

        return self._each(xs, tr, gs, fn)


def _nat(G, lam, g):
    G = np.asarray(G, dtype=float).reshape(g.size, g.size) + lam * np.eye(g.size)
    return (np.linalg.pinv(G) @ g.reshape(-1)).reshape(g.shape)


class RefQNG(RefOpt):  # x <- x - eta pinv(G + lam I) g ; G recomputed unless recompute_tensor=False
    def reset(self):
        self.acc = None
        self.G = None

    def update(self, xs, tr, gs, aux=None):
        if aux is not None:  # list of metric tensors (one per trainable argument) computed at this step
            self.G = [np.array(m, dtype=float) + 0.0 for m in aux]
            self.G_lam = self.hp["lam"]
        return self._each(xs, tr, gs, lambda i, k, x, g: x - self.hp["stepsize"] * _nat(self.G[k], self.G_lam, g))


class RefMomentumQNG(RefQNG):  # x_new = x + rho (x - x_prev) - eta pinv(G + lam I) g
    def update(self, xs, tr, gs, aux=None):
        if aux is not None:
            self.G = [np.array(m, dtype=float) + 0.0 for m in aux]
            self.G_lam = self.hp["lam"]
        prev = self.acc if self.acc is not None else [x.copy() for x in xs]
        new = self._each(xs, tr, gs, lambda i, k, x, g: x + self.hp["momentum"] * (x - prev[i])
                         - self.hp["stepsize"] * _nat(self.G[k], self.G_lam, g))
        self.acc = [x.copy() for x in xs]
        return new


REFS = {"GradientDescentOptimizer": RefGD, "MomentumOptimizer": RefMomentum, "NesterovMomentumOptimizer": RefNesterov,
        "AdagradOptimizer": RefAdagrad, "RMSPropOptimizer": RefRMSProp, "AdamOptimizer": RefAdam,
        "QNGOptimizer": RefQNG, "MomentumQNGOptimizer": RefMomentumQNG}

# hyper-parameter menus: [constructor kwargs], alternative stepsize for the "eta" event, ("hp2" event: attribute, value)
MENUS = {
    "GradientDescentOptimizer": dict(hps=[{"stepsize": 0.1}, {"stepsize": 1.0}], eta=0.35, hp2=None),
    "MomentumOptimizer": dict(hps=[{"stepsize": 0.1, "momentum": 0.9}, {"stepsize": 1.0, "momentum": 0.0}, {"stepsize": 0.3, "momentum": 0.5}],
                              eta=0.35, hp2=("momentum", 0.6)),
    "NesterovMomentumOptimizer": dict(hps=[{"stepsize": 0.1, "momentum": 0.9}, {"stepsize": 1.0, "momentum": 0.0}, {"stepsize": 0.3, "momentum": 0.5}],
                                      eta=0.35, hp2=("momentum", 0.6)),
    "AdagradOptimizer": dict(hps=[{"stepsize": 0.1, "eps": 1e-8}, {"stepsize": 1.0, "eps": 0.25}], eta=0.35, hp2=("eps", 0.01)),
    "RMSPropOptimizer": dict(hps=[{"stepsize": 0.1, "decay": 0.9, "eps": 1e-8}, {"stepsize": 1.0, "decay": 0.5, "eps": 0.25}],
                             eta=0.35, hp2=("decay", 0.7)),
    "AdamOptimizer": dict(hps=[{"stepsize": 0.1, "beta1": 0.9, "beta2": 0.99, "eps": 1e-8}, {"stepsize": 1.0, "beta1": 0.5, "beta2": 0.75, "eps": 0.25}],
                          eta=0.35, hp2=("beta1", 0.7)),
    "QNGOptimizer": dict(hps=[{"stepsize": 0.1, "lam": 0}, {"stepsize": 1.0, "lam": 0.25}], eta=0.35, hp2=None),
    "MomentumQNGOptimizer": dict(hps=[{"stepsize": 0.1, "momentum": 0.9, "lam": 0}, {"stepsize": 1.0, "momentum": 0.5, "lam": 0.25}],
                                 eta=0.35, hp2=("momentum", 0.6)),
}


# user-supplied metric tensors for classical objectives (QNG with metric_tensor_fn=...): one tensor per trainable arg
def ref_metric(name, xs):
    if name == "quad":
        x = xs[0]
        return [np.array([[1.0 + x[0] ** 2, 0.3], [0.3, 2.0]])]
    if name == "scalar":
        return [np.array(0.5 + float(xs[0]) ** 2)]
    if name == "one_nt":
        x = xs[1]
        return [np.array([[2.0, 0.0], [0.0, 0.0]]) * (1 + x[1] ** 2)]  # singular on purpose: pseudo-inverse
    if name == "two_tr":
        x, y = xs[0], xs[2]
        return [np.array([[1.0 + x[0] ** 2, 0.3], [0.3, 2.0]]), np.array(0.5 + float(y) ** 2)]
    raise KeyError(name)


# ------------------------------------------------------------------------------------------ SPSA / QNSPSA
class RefSPSA:
    """theta <- theta - a_k g_k, g_k = (y(theta + c_k D) - y(theta - c_k D)) / (2 c_k D_i), a_k = a/(A+k)^alpha,
    c_k = c/k^gamma, k = 1, 2, ... ; A = maxiter/10 and a = 0.05 (A+1)^alpha unless given."""

    def __init__(self, hp):
        h = dict(maxiter=None, alpha=0.602, gamma=0.101, c=0.2, A=None, a=None)
        h.update(hp)
        self.A = h["A"] if h["A"] else h["maxiter"] * 0.1
        self.alpha, self.gamma, self.c = h["alpha"], h["gamma"], h["c"]
        self.a = h["a"] if h["a"] else 0.05 * (self.A + 1) ** self.alpha
        self.k = 1

    def step(self, f, xs, tr, deltas, kwargs):
        ck = self.c / self.k**self.gamma
        ak = self.a / (self.A + self.k) ** self.alpha
        plus, minus, k = [], [], 0
        for x, t in zip(xs, tr):
            if t:
                plus.append(x + ck * deltas[k])
                minus.append(x - ck * deltas[k])
                k += 1
            else:
                plus.append(x)
                minus.append(x)
        dy = f(*plus, **kwargs) - f(*minus, **kwargs)
        out, k = [], 0
        for x, t in zip(xs, tr):
            if t:
                out.append(x - ak * dy / (2 * ck * deltas[k]))
                k += 1
            else:
                out.append(x)
        self.k += 1
        return out


SPSA_MENUS = [{"maxiter": 10}, {"A": 2.0, "a": 0.3, "alpha": 1.0, "gamma": 1.0 / 6, "c": 0.1}]


class ScriptedChoice:
    """Harness-side replacement of numpy.random.choice (the legacy global RNG used by SPSAOptimizer): answers are
    read from a prepared list of indices; every call is logged."""

    def __init__(self, answers):
        self.answers = list(answers)
        self.pos = 0
        self.calls = []

    def __call__(self, a, size=None, replace=True, p=None):
        arr = np.asarray(a)
        shape = () if size is None else (tuple(size) if not isinstance(size, (int, np.integer)) else (int(size),))
        n = int(np.prod(shape)) if shape else 1
        if self.pos + n > len(self.answers):
            raise RuntimeError("scripted numpy.random.choice ran out of answers")
        idx = self.answers[self.pos:self.pos + n]
        self.pos += n
        self.calls.append({"a": arr.tolist(), "size": list(shape), "p": None if p is None else list(p)})
        return arr[np.asarray(idx, dtype=int)].reshape(shape)


@contextlib.contextmanager
def own_legacy_choice(scripted):
    real = np.random.choice
    np.random.choice = scripted
    try:
        yield scripted
    finally:
        np.random.choice = real


class RefQNSPSA:
    """Gacon et al. 2021 / class docstring: grad = (f(x+eps h) - f(x-eps h))/(2 eps) h ;
    g_raw = -dF/(8 eps^2) (h1 h2^T + h2 h1^T), dF = F(x,x+eps(h1+h2)) - F(x,x+eps h1) - F(x,x+eps(-h1+h2)) + F(x,x-eps h1);
    running average g_avg = (k g_prev + g_raw)/(k+1) (g_prev = identity at k = 1); regularisation
    g = (sqrt(g_avg g_avg) + beta I)/(1+beta); x <- x - eta g^-1 grad; with blocking the step is rejected when
    f(x_new) > f(x) + 2 std(last losses)."""

    def __init__(self, hp, f, overlap):
        h = dict(stepsize=1e-3, regularization=1e-3, finite_diff_step=1e-2, resamplings=1, blocking=True, history_length=5)
        h.update(hp)
        self.h, self.f, self.F = h, f, overlap
        self.k = 1
        self.G = None
        self.losses = []

    def step(self, x, dirs):
        """dirs: per resampling (h, h1, h2) arrays of +-1."""
        h, eps = self.h, self.h["finite_diff_step"]
        grads, tensors = [], []
        for (d, d1, d2) in dirs:
            grads.append((self.f(x + eps * d) - self.f(x - eps * d)) / (2 * eps) * d)
            dF = self.F(x, x + eps * (d1 + d2)) - self.F(x, x + eps * d1) - self.F(x, x + eps * (-d1 + d2)) + self.F(x, x - eps * d1)
            tensors.append(-dF / (8 * eps**2) * (np.outer(d1, d2) + np.outer(d2, d1)))
        grad, raw = np.mean(grads, axis=0), np.mean(tensors, axis=0)
        n = x.size
        prev = np.eye(n) if self.G is None else self.G
        avg = self.k / (self.k + 1) * prev + raw / (self.k + 1)
        w, V = np.linalg.eigh((avg + avg.T) / 2)
        absavg = (V * np.abs(w)) @ V.T
        self.G = (absavg + h["regularization"] * np.eye(n)) / (1 + h["regularization"])
        self.k += 1
        new = x - h["stepsize"] * np.linalg.solve(self.G, grad)
        loss = self.f(x)
        accepted = True
        if h["blocking"]:  # tolerance = twice the standard deviation of the losses of the last history_length steps
            self.losses.append(loss)
            tol = 2 * float(np.std(self.losses[-h["history_length"]:]))
            if loss + tol < self.f(new):
                new, accepted = x, False
        return new, loss, accepted


# ------------------------------------------------------------------------------------------ sinusoids
def sin_family(a, bs, fs, c):
    """f(theta) = a prod_d sin(f_d theta_d + b_d) + c (numpy)."""

    def f(theta):
        theta = np.asarray(theta, dtype=float).reshape(-1)
        return float(a * np.prod(np.sin(np.asarray(fs) * theta + np.asarray(bs))) + c)

    return f


def sin_coordinate_min(a, bs, fs, c, theta, d):
    """Exact minimum of the restriction to coordinate d: value c - |A| with A = a prod_{e != d} sin(...); the
    minimisers are theta_d = (-sign(A) pi/2 - b_d)/f_d mod 2 pi/f_d."""
    theta = np.asarray(theta, dtype=float).reshape(-1)
    A = a
    for e in range(len(bs)):
        if e != d:
            A *= math.sin(fs[e] * theta[e] + bs[e])
    pos = ((-math.pi / 2 if A > 0 else math.pi / 2) - bs[d]) / fs[d]
    return c - abs(A), pos, A


def sin_fit_min(g):
    """Minimum of a 2 pi periodic single-frequency function g(t) = C + A sin(t + phi) from g(0), g(pi/2), g(pi)."""
    g0, g1, g2 = g(0.0), g(math.pi / 2), g(math.pi)
    C = 0.5 * (g0 + g2)
    return C - math.hypot(g0 - C, g1 - C)


def close(a, b, tol=1e-9):
    a, b = np.asarray(a, dtype=float), np.asarray(b, dtype=float)
    if a.shape != b.shape:
        return False
    return bool(np.all(np.abs(a - b) <= tol * np.maximum(1.0, np.abs(b))))
