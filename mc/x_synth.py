"""Helpers for C14 (unitary synthesis) and C15 (Clifford+T): structured unitary families built from JSON
descriptors, and an independent product of the returned operator list.

Pure numpy/scipy on the reference side: every matrix is built from mc.refgates closed forms or scipy.linalg.expm,
never from PennyLane.  First listed wire = most significant qubit.
"""
import cmath
import math

import numpy as np

from mc import refgates as RG

PI = math.pi
I2, X, Y, Z, H, S, T = RG.I2, RG.X, RG.Y, RG.Z, RG.H, RG.S, RG.T
XX, YY, ZZ = np.kron(X, X), np.kron(Y, Y), np.kron(Z, Z)


# ------------------------------------------------------------------------------------------- 1-qubit families
def cliffords_1q():
    """The 24 single-qubit Cliffords (modulo phase) as (word over 'HS', matrix), shortest word first (BFS)."""
    gens = {"H": H, "S": S}
    found = [("", I2)]
    frontier = [("", I2)]

    def known(M):
        for _, F in found:
            k = np.argmax(np.abs(F))
            i, j = divmod(int(k), 2)
            ph = M[i, j] / F[i, j]
            if abs(abs(ph) - 1) < 1e-9 and np.allclose(M, ph * F, atol=1e-9):
                return True
        return False

    while frontier:
        nxt = []
        for w, M in frontier:
            for g in "HS":
                M2 = gens[g] @ M
                if not known(M2):
                    found.append((g + w, M2))
                    nxt.append((g + w, M2))
        frontier = nxt
    assert len(found) == 24
    return found


_CLIFF = None


def clifford(i):
    global _CLIFF
    if _CLIFF is None:
        _CLIFF = cliffords_1q()
    return _CLIFF[i]


PHASES = {"1": 1.0, "i": 1j, "g1": cmath.exp(0.3j), "-1": -1.0, "g2": cmath.exp(-1.234j)}


def build_1q(d):
    """descriptor -> 2x2 complex unitary.
    ["cliff", i, phase] | ["R", axis, t] | ["rot", a, b, c] | ["diag", a, b] | ["anti", a, b] | ["u3", t, p, l, phase]"""
    k = d[0]
    if k == "cliff":
        return PHASES[d[2]] * clifford(d[1])[1]
    if k == "R":
        return {"X": RG.RX, "Y": RG.RY, "Z": RG.RZ}[d[1]](d[2]).astype(complex)
    if k == "rot":
        return RG.Rot(d[1], d[2], d[3]).astype(complex)
    if k == "diag":
        return np.diag([cmath.exp(1j * d[1]), cmath.exp(1j * d[2])])
    if k == "anti":
        return np.array([[0, cmath.exp(1j * d[1])], [cmath.exp(1j * d[2]), 0]])
    if k == "u3":
        return PHASES[d[4]] * RG.U3(d[1], d[2], d[3])
    raise KeyError(k)


# fixed local (single-qubit) unitaries used to dress two-qubit cores; generic = no special structure
LOCALS = {
    "I": I2,
    "H": H,
    "S": S,
    "X": X,
    "Ry": RG.RY(0.789),
    "g": cmath.exp(0.37j) * RG.Rot(0.3, -1.234, 1.912),
    "g2": RG.Rot(-2.345, 0.111, 2.718),
    "g3": cmath.exp(-1.1j) * RG.Rot(0.456, 2.2, -0.9),
    "T": T,
}


# ------------------------------------------------------------------------------------------- 2-qubit families
def generic4():
    """A fixed 'generic' 4x4 unitary (3-CNOT class) from an explicit Hermitian generator."""
    from scipy.linalg import expm

    A = np.array([[0.3, 0.1 + 0.4j, -0.7j, 0.25], [0, -0.5, 0.6 - 0.2j, 0.15j], [0, 0, 0.9, -0.35 + 0.3j], [0, 0, 0, -0.2]])
    Hm = A + A.conj().T
    return expm(1j * Hm)


def generic8():
    from scipy.linalg import expm

    n = 8
    A = np.zeros((n, n), dtype=complex)
    for i in range(n):
        for j in range(i, n):
            A[i, j] = math.sin(1.3 * i + 0.7 * j + 0.2) + 1j * math.cos(0.9 * i - 1.1 * j + 0.5) * (i != j)
    return expm(0.5j * (A + A.conj().T))


def generic_n(n, salt=0.0):
    from scipy.linalg import expm

    d = 2 ** n
    A = np.zeros((d, d), dtype=complex)
    for i in range(d):
        for j in range(i, d):
            A[i, j] = math.sin(1.3 * i + 0.7 * j + 0.2 + salt) + 1j * math.cos(0.9 * i - 1.1 * j + 0.5 + salt) * (i != j)
    return expm(0.3j * (A + A.conj().T))


def canonical(a, b, c):
    """exp(i (a XX + b YY + c ZZ)) in closed form (XX, YY, ZZ commute)."""
    M = np.eye(4, dtype=complex)
    for t, P in ((a, XX), (b, YY), (c, ZZ)):
        M = M @ (math.cos(t) * np.eye(4) + 1j * math.sin(t) * P)
    return M


def weyl_class(a, b, c, tol=0.0):
    """Exact minimal CNOT count of exp(i(aXX+bYY+cZZ)) from its canonical coordinates (Shende-Bullock-Markov /
    Vidal-Dawson): coordinates reduced mod pi/2; 0 CNOTs iff all three vanish, 1 iff two vanish and the third is
    pi/4, 2 iff at least one vanishes, else 3."""
    r = []
    for t in (a, b, c):
        t = math.fmod(t, PI / 2)
        if t > PI / 4:
            t -= PI / 2
        if t <= -PI / 4:
            t += PI / 2
        r.append(t)
    zeros = [abs(t) <= tol for t in r]
    n0 = sum(zeros)
    if n0 == 3:
        return 0
    if n0 == 2:
        t = [abs(x) for x, z in zip(r, zeros) if not z][0]
        return 1 if abs(t - PI / 4) <= tol else 2
    if n0 == 1:
        return 2
    return 3


def core_2q(d):
    """descriptor of a two-qubit core -> (4x4 unitary, exact CNOT class or None if not asserted)."""
    k = d[0]
    if k == "I":
        return np.eye(4, dtype=complex), 0
    if k in ("CNOT", "CZ", "CY", "CH"):
        return RG.matrix(k), 1
    if k == "CNOT10":
        return RG.SWAP @ RG.matrix("CNOT") @ RG.SWAP, 1
    if k == "SWAP":
        return RG.SWAP.copy(), 3
    if k == "ISWAP":
        return RG.ISWAP.copy(), 2
    if k == "SISWAP":
        return RG.SISWAP.copy(), 2
    if k == "ECR":
        return RG.ECR.copy(), 1
    if k in ("CRX", "CRY", "CRZ", "IsingXX", "IsingYY", "IsingZZ", "IsingXY", "ControlledPhaseShift", "PSWAP",
             "SingleExcitation"):
        return RG.matrix(k, [d[1]]), None
    if k == "2cnot":  # CNOT (RZ(a) x RY(b)) CNOT : at most 2 CNOTs
        cn = RG.matrix("CNOT")
        return cn @ np.kron(RG.RZ(d[1]), RG.RY(d[2])) @ cn, None
    if k == "generic":
        return generic4(), 3
    if k == "canon":
        return canonical(d[1], d[2], d[3]), weyl_class(d[1], d[2], d[3])
    if k == "diag":
        return np.diag([cmath.exp(1j * t) for t in d[1:5]]), None
    if k == "perm":
        P = np.zeros((4, 4), dtype=complex)
        for i, j in enumerate(d[1]):
            P[j, i] = 1
        return P, None
    raise KeyError(k)


def build_2q(spec):
    """spec = {"core": descriptor, "L": [nameA, nameB], "R": [nameC, nameD], "ph": phase-name}
    U = ph * (A x B) . core . (C x D)"""
    G, cls = core_2q(spec["core"])
    L = spec.get("L") or ["I", "I"]
    R = spec.get("R") or ["I", "I"]
    U = np.kron(LOCALS[L[0]], LOCALS[L[1]]) @ G @ np.kron(LOCALS[R[0]], LOCALS[R[1]])
    return PHASES[spec.get("ph", "1")] * U, cls


# ------------------------------------------------------------------------------------------- n-qubit family
def build_nq(d):
    """descriptor -> (n, 2^n x 2^n unitary)"""
    k = d[0]
    if k == "named":
        name = d[1]
        n = RG.TABLE[name][0]
        return n, RG.matrix(name, d[2] if len(d) > 2 else [])
    if k == "qft":
        n = d[1]
        N = 2 ** n
        w = cmath.exp(2j * PI / N)
        return n, np.array([[w ** (i * j) for j in range(N)] for i in range(N)]) / math.sqrt(N)
    if k == "kron":
        Ms = [LOCALS[x] for x in d[1]]
        return len(Ms), RG.kron(*Ms)
    if k == "eye":
        return d[1], np.eye(2 ** d[1], dtype=complex) * PHASES[d[2] if len(d) > 2 else "1"]
    if k == "ctrl2q":  # controlled two-qubit unitary, control = first wire
        U, _ = build_2q(d[1])
        return 3, RG.controlled(U, 1, [d[2]] if len(d) > 2 else None)
    if k == "2q_on":  # two-qubit unitary on wires (i,j) of 3, identity on the third
        U, _ = build_2q(d[1])
        from mc import refsim

        return 3, refsim.embed(U, d[2], [0, 1, 2])
    if k == "generic":
        return d[1], generic_n(d[1], d[2] if len(d) > 2 else 0.0)
    if k == "diag":
        n = d[1]
        return n, np.diag([cmath.exp(1j * (0.37 * i * i - 0.9 * i + d[2])) for i in range(2 ** n)])
    if k == "perm":
        p = d[1]
        N = len(p)
        P = np.zeros((N, N), dtype=complex)
        for i, j in enumerate(p):
            P[j, i] = 1
        return int(round(math.log2(N))), P
    if k == "2q":
        U, _ = build_2q(d[1])
        return 2, U
    if k == "mcx":
        n = d[1]
        return n, RG.controlled(X, n - 1)
    if k == "block":  # block diagonal of two generic (n-1)-qubit unitaries (a multiplexer: cos-sin angles all 0)
        n = d[1]
        A, B = generic_n(n - 1, 0.1), generic_n(n - 1, 0.9)
        Zr = np.zeros_like(A)
        return n, np.block([[A, Zr], [Zr, B]])
    raise KeyError(k)


# ------------------------------------------------------------------------------------------- product of op lists
_ROT = {"X": RG.RX, "Y": RG.RY, "Z": RG.RZ}


def _embed(U, pos, n):
    """U acting on qubit positions `pos` (list, order = U's own wire order) of n qubits."""
    k = len(pos)
    T_ = np.eye(2 ** n, dtype=complex).reshape((2,) * n + (2 ** n,))
    Ut = np.asarray(U, dtype=complex).reshape((2,) * (2 * k))
    T_ = np.tensordot(Ut, T_, axes=(list(range(k, 2 * k)), list(pos)))
    T_ = np.moveaxis(T_, list(range(k)), list(pos))
    return T_.reshape(2 ** n, 2 ** n)


def own_matrix(op):
    """(matrix, wires) of one returned operator using closed forms only; raises KeyError for undocumented types."""
    name = op.name
    wires = list(op.wires)
    if name in ("RX", "RY", "RZ"):
        return _ROT[name[1]](float(op.data[0])).astype(complex), wires
    if name == "Rot":
        return RG.Rot(*[float(p) for p in op.data]).astype(complex), wires
    if name in ("CNOT", "Hadamard", "S", "T", "PauliX", "PauliY", "PauliZ", "SX", "Identity", "CZ", "SWAP", "CY", "ISWAP"):
        return RG.matrix(name), wires
    if name == "Adjoint(ISWAP)":
        return RG.ISWAP.conj().T, wires
    if name == "Adjoint(S)":
        return S.conj().T, wires
    if name == "Adjoint(T)":
        return T.conj().T, wires
    if name == "Adjoint(SX)":
        return RG.SX.conj().T, wires
    if name == "GlobalPhase":
        return cmath.exp(-1j * float(op.data[0])), []
    if name == "QubitUnitary":
        M = np.asarray(op.data[0], dtype=complex)
        if M.shape != (2 ** len(wires),) * 2:
            raise KeyError(f"QubitUnitary shape {M.shape}")
        return M, wires
    if name == "SelectPauliRot":
        ctrl = list(op.control_wires)
        tgt = list(op.target_wire)
        ang = np.asarray(op.angles, dtype=float).ravel()
        axis = op.rot_axis
        d = 2 ** len(ctrl)
        M = np.zeros((2 * d, 2 * d), dtype=complex)
        for i in range(d):
            M[2 * i:2 * i + 2, 2 * i:2 * i + 2] = _ROT[axis](float(ang[i]))
        return M, ctrl + tgt
    raise KeyError(name)


def product(ops, wire_order):
    """Matrix of `ops` applied in list order on wire_order."""
    n = len(wire_order)
    idx = {w: i for i, w in enumerate(wire_order)}
    M = np.eye(2 ** n, dtype=complex)
    for op in ops:
        m, w = own_matrix(op)
        if not w:
            M = m * M
            continue
        M = _embed(m, [idx[x] for x in w], n) @ M
    return M


def selftest():
    fails = []
    from scipy.linalg import expm

    if not np.allclose(canonical(0.3, -0.7, 1.1), expm(1j * (0.3 * XX - 0.7 * YY + 1.1 * ZZ)), atol=1e-13):
        fails.append("canonical closed form")
    for (abc, k) in [((0, 0, 0), 0), ((PI / 4, 0, 0), 1), ((0, PI / 4, 0), 1), ((PI / 4, PI / 4, 0), 2), ((0.3, 0, 0), 2),
                     ((PI / 4, PI / 4, PI / 4), 3), ((0.1, 0.2, 0.3), 3), ((PI / 2, 0, 0), 0), ((PI / 2, PI / 4, PI), 1)]:
        if weyl_class(*abc) != k:
            fails.append(f"weyl_class{abc}")
    # CNOT is locally equivalent to canonical(pi/4,0,0); iSWAP = canonical(pi/4,pi/4,0); SWAP ~ canonical(pi/4,pi/4,pi/4)
    if not np.allclose(RG.ISWAP, canonical(PI / 4, PI / 4, 0)):
        fails.append("iswap canonical")
    if not np.allclose(RG.SWAP * cmath.exp(1j * PI / 4), canonical(PI / 4, PI / 4, PI / 4)):
        fails.append("swap canonical")
    E = _embed(RG.matrix("CNOT"), [1, 0], 2)
    if not np.allclose(E, RG.SWAP @ RG.matrix("CNOT") @ RG.SWAP):
        fails.append("embed reversed")
    if not np.allclose(_embed(X, [1], 2), np.kron(I2, X)):
        fails.append("embed 1q")
    return fails
