"""Helpers shared by the finite-shot checks (C29, C60): exact output distributions from a fully explored
answer tree of scripted RNG draws, canonical result keys, a scripted stand-in for `jax.random.choice`,
and a scripted uniform draw that turns `rng.random(size) > p` into Bernoulli questions."""
import contextlib
import itertools

import numpy as np

from mc.explore import answer_tree

PTOL = 1e-12


# ------------------------------------------------------------------------------------------- canonical keys
def canon(x, nd=6):
    """Hashable, order-insensitive (for dicts) key of a measurement result."""
    if isinstance(x, dict):
        items = []
        for k, v in x.items():
            kk = ("s", str(k)) if isinstance(k, str) else ("f", round(float(k), nd) + 0.0)
            items.append((kk, int(v)))
        return ("dict",) + tuple(sorted(items))
    if isinstance(x, (tuple, list)):
        return tuple(canon(y, nd) for y in x)
    a = np.asarray(x)
    if a.dtype == object:
        raise TypeError(f"cannot canonicalise {type(x)}")
    if a.ndim == 0:
        return round(float(a), nd) + 0.0
    return tuple(canon(y, nd) for y in a)


def jsonable(key):
    if isinstance(key, tuple):
        return [jsonable(k) for k in key]
    return key


# ------------------------------------------------------------------------------------------- distributions
def leaf_weight(log):
    """Probability of the answers recorded in a scripted generator log (product of the supplied p's)."""
    w = 1.0
    for e in log:
        if e["fn"] in ("choice", "jax.choice"):
            p = e["p"]
            n = e["n"]
            for a in e["answers"]:
                w *= (1.0 / n) if p is None else float(p[a])
        elif e["fn"] == "bernoulli":
            for a, p1 in zip(e["answers"], e["p1"]):
                w *= float(p1) if a else 1.0 - float(p1)
        elif e["fn"] == "randint":
            w *= (1.0 / e["n"]) ** len(e["answers"])
    return w


def predicted_leaves(log):
    """Number of leaves of the full answer tree, assuming the supplied distributions do not depend on answers."""
    n = 1
    for e in log:
        if e["fn"] in ("choice", "jax.choice"):
            k = e["n"] if e["p"] is None else int(np.sum(np.asarray(e["p"]) > PTOL))
            n *= k ** len(e["answers"])
        elif e["fn"] == "bernoulli":
            for p1 in e["p1"]:
                n *= 2 if PTOL < p1 < 1 - PTOL else 1
        elif e["fn"] == "randint":
            n *= e["n"] ** len(e["answers"])
    return n


def explore(run, key_of, max_execs):
    """Full answer tree.  run(chooser) -> (result, log).  key_of(result) -> list of hashable keys (one per
    tracked marginal).  Returns (list of dict key->probability, number of leaves, total weight)."""
    dists = None
    leaves = 0
    total = 0.0
    for _choices, (res, log), _ch in answer_tree(run, bound=None, max_execs=max_execs):
        w = leaf_weight(log)
        keys = key_of(res)
        if dists is None:
            dists = [dict() for _ in keys]
        for d, k in zip(dists, keys):
            d[k] = d.get(k, 0.0) + w
        leaves += 1
        total += w
    return dists, leaves, total


def compare_dist(got, exp, tol=1e-9):
    """None if the two finite distributions agree, else (kind, detail)."""
    extra = [k for k in got if k not in exp and got[k] > tol]
    if extra:
        return "impossible-outcome", {"outcome": jsonable(extra[0]), "p_impl": got[extra[0]]}
    for k, p in exp.items():
        q = got.get(k, 0.0)
        if abs(p - q) > tol:
            return ("missing-outcome" if q == 0.0 else "wrong-probability"), {"outcome": jsonable(k), "p_impl": q, "p_ref": p}
    return None


def iid_sequences(outcomes, probs, n):
    """All sequences of n iid draws with their probabilities."""
    idx = range(len(outcomes))
    for seq in itertools.product(idx, repeat=n):
        w = 1.0
        for i in seq:
            w *= probs[i]
        yield [outcomes[i] for i in seq], w


# ------------------------------------------------------------------------------------------- jax seam
class JaxChoiceScript:
    """Scripted stand-in for jax.random.choice: every drawn element is a question to the chooser."""

    def __init__(self, chooser):
        self.ch = chooser
        self.log = []

    def __call__(self, key, a, shape=(), replace=True, p=None, axis=0, **kw):
        import jax.numpy as jnp

        arr = np.arange(int(a)) if np.ndim(a) == 0 else np.asarray(a)
        n = arr.shape[0]
        shape = (shape,) if isinstance(shape, (int, np.integer)) else tuple(int(s) for s in shape)
        cnt = int(np.prod(shape)) if shape else 1
        pv = None if p is None else np.asarray(p, dtype=float)
        enabled = None if pv is None else [bool(x > PTOL) for x in pv]
        answers = [self.ch.choose(n, "jax.choice", enabled) for _ in range(cnt)]
        self.log.append({"fn": "jax.choice", "n": n, "p": pv, "size": shape, "answers": answers, "key_is_jax": hasattr(key, "dtype")})
        out = arr[np.asarray(answers, dtype=int)].reshape(shape + arr.shape[1:])
        return jnp.asarray(out)


@contextlib.contextmanager
def own_jax_choice(script):
    import jax

    real = jax.random.choice
    jax.random.choice = script
    try:
        yield script
    finally:
        jax.random.choice = real


# ------------------------------------------------------------------------------------------- uniform > p seam
class _Uniform(np.ndarray):
    """Result of a scripted `Generator.random(size)`: the only supported use is a comparison with a threshold
    array (`u > p`, `u < p`, ...), which is answered as independent Bernoulli questions."""

    _gen = None

    def _bern(self, p_true, label):
        gen = self._gen
        p_true = np.broadcast_to(np.asarray(p_true, dtype=float), self.shape)
        flat = p_true.reshape(-1)
        answers = []
        for q in flat:
            en = [bool(1 - q > PTOL), bool(q > PTOL)]
            answers.append(gen._ch.choose(2, label, en))
        gen.log.append({"fn": "bernoulli", "p1": flat.copy(), "answers": answers, "shape": self.shape})
        return np.asarray(answers, dtype=bool).reshape(self.shape)

    @staticmethod
    def _thr(other):
        a = np.asarray(other)
        if np.iscomplexobj(a):  # numpy orders complex numbers by their real part first
            a = a.real
        return a.astype(float)

    def __gt__(self, other):  # u > p  is True with probability 1 - p
        return self._bern(1.0 - self._thr(other), "u>p")

    def __ge__(self, other):
        return self._bern(1.0 - self._thr(other), "u>=p")

    def __lt__(self, other):  # u < p is True with probability p
        return self._bern(self._thr(other), "u<p")

    def __le__(self, other):
        return self._bern(self._thr(other), "u<=p")

    def __array_ufunc__(self, ufunc, method, *inputs, **kwargs):
        name = getattr(ufunc, "__name__", "")
        if method == "__call__" and name in ("greater", "greater_equal", "less", "less_equal") and len(inputs) == 2:
            mine_first = inputs[0] is self
            other = inputs[1] if mine_first else inputs[0]
            op = {"greater": "__gt__", "greater_equal": "__ge__", "less": "__lt__", "less_equal": "__le__"}[name]
            if not mine_first:
                op = {"__gt__": "__lt__", "__ge__": "__le__", "__lt__": "__gt__", "__le__": "__ge__"}[op]
            return getattr(self, op)(other)
        from mc.seams import UnownedRandomness

        raise UnownedRandomness(f"scripted uniform sample used in {name}; only comparisons with a threshold are owned")


def scripted_generator(chooser, **kw):
    """ScriptedGenerator whose `random(size)` returns a `_Uniform` (comparison = Bernoulli questions)."""
    from mc.seams import ScriptedGenerator

    class _Gen(ScriptedGenerator):
        def random(self, size=None, dtype=np.float64, out=None):
            shape = () if size is None else ((int(size),) if isinstance(size, (int, np.integer)) else tuple(int(s) for s in size))
            u = np.full(shape, 0.5).view(_Uniform)
            u._gen = self
            return u

    return _Gen(chooser, **kw)


class ScriptedRandomState:
    """Stand-in for numpy.random.RandomState(seed): `randint(lo, hi, size)` draws are chooser questions."""

    def __init__(self, chooser, log):
        self._ch = chooser
        self.log = log
        self.seeds = []

    def __call__(self, seed=None):  # used as the class: RandomState(seed) -> self
        self.seeds.append(seed)
        return self

    def randint(self, low, high=None, size=None, dtype=int):
        if high is None:
            low, high = 0, low
        n = int(high) - int(low)
        shape = () if size is None else ((int(size),) if isinstance(size, (int, np.integer)) else tuple(int(s) for s in size))
        cnt = int(np.prod(shape)) if shape else 1
        answers = [self._ch.choose(n, "randint") for _ in range(cnt)]
        self.log.append({"fn": "randint", "n": n, "answers": answers, "shape": shape})
        out = (np.asarray(answers, dtype=int) + int(low)).reshape(shape)
        return out if shape else int(out)


@contextlib.contextmanager
def own_random_state(stand_in):
    real = np.random.RandomState
    np.random.RandomState = stand_in
    try:
        yield stand_in
    finally:
        np.random.RandomState = real
