"""Reference branch simulator for MBQC-formalism tapes (C74).

Walks a tape that may contain GraphStatePrep, CZ/H/S/Paulis/PhaseShift, computational and *parametric* mid-circuit
measurements (measure_x / measure_y / measure_arbitrary_basis, with reset), `cond_measure` pairs (two Conditionals
wrapping measurements, exactly one fires) and Conditional gates.  Depth-first over every measurement outcome, so the
memory is one state vector per tree level (the 15-qubit CNOT pattern has 2^13 leaves).

Measurement bases are written from the `measure_arbitrary_basis` docstring:
  XY(phi):   outcome 0 <-> (|0> + e^{i phi}|1>)/sqrt2       (measure_x = XY(0), measure_y = XY(pi/2))
  YZ(theta): outcome 0 <-> cos(theta/2)|0> + i sin(theta/2)|1>
  ZX(theta): outcome 0 <-> cos(theta/2)|0> +   sin(theta/2)|1>
outcome 1 <-> the orthogonal vector.  Gate matrices come from mc.refgates.
"""
import cmath
import math

import numpy as np

from mc import refgates as RG
from mc import refsim as RS


def basis_vectors(op):
    """(|m0>, |m1>) of a mid-circuit measurement operator."""
    cls = type(op).__name__
    if cls in ("MidMeasure", "MidMeasureMP"):
        return np.array([1, 0], dtype=complex), np.array([0, 1], dtype=complex)
    if cls == "XMidMeasure":
        plane, angle = "XY", 0.0
    elif cls == "YMidMeasure":
        plane, angle = "XY", math.pi / 2
    else:
        plane, angle = op.plane, float(op.angle)
    if plane == "XY":
        m0 = np.array([1, cmath.exp(1j * angle)]) / math.sqrt(2)
        m1 = np.array([1, -cmath.exp(1j * angle)]) / math.sqrt(2)
    elif plane == "YZ":
        m0 = np.array([math.cos(angle / 2), 1j * math.sin(angle / 2)])
        m1 = np.array([1j * math.sin(angle / 2), math.cos(angle / 2)])
    elif plane == "ZX":
        m0 = np.array([math.cos(angle / 2), math.sin(angle / 2)], dtype=complex)
        m1 = np.array([-math.sin(angle / 2), math.cos(angle / 2)], dtype=complex)
    else:
        raise ValueError(plane)
    return m0.astype(complex), m1.astype(complex)


def is_measure(op):
    return any(c.__name__ in ("MidMeasure", "MidMeasureMP") for c in type(op).__mro__)


def mkey(m):
    return getattr(m, "meas_uid", None) or getattr(m, "id", None) or id(m)


def eval_mv(mv, hist):
    """MeasurementValue on an outcome history; a measurement that did not fire (other arm of cond_measure) counts as 0."""
    vals = [hist.get(mkey(m), 0) for m in mv.measurements]
    return mv.processing_fn(*vals)


def gate_matrix(op):
    name = op.name
    if name == "RotXZX":
        a, b, c = [float(x) for x in op.data]
        return RG.RX(c) @ RG.RZ(b) @ RG.RX(a)
    if name.startswith("Adjoint("):
        return RG.matrix(name[8:-1], [float(x) for x in op.base.data]).conj().T
    return RG.matrix(name, [float(x) for x in op.data])


def apply_gate(state, op, idx, n):
    name = op.name
    if name == "GraphStatePrep":
        g = op.hyperparameters["graph"]
        if op.hyperparameters["one_qubit_ops"].__name__ not in ("Hadamard", "H") or op.hyperparameters["two_qubit_ops"].__name__ != "CZ":
            raise NotImplementedError("graph state with non-default operations")
        nodes = sorted(g.nodes)
        wmap = dict(zip(nodes, list(op.wires)))
        for w in op.wires:
            state = RS.apply_matrix(state, RG.H, [idx[w]], n)
        CZ = RG.controlled(RG.Z)
        for a, b in g.edges:
            state = RS.apply_matrix(state, CZ, [idx[wmap[a]], idx[wmap[b]]], n)
        return state
    if name == "GlobalPhase":
        return state * cmath.exp(-1j * float(op.data[0]))
    if name in ("Identity", "Barrier") or len(op.wires) == 0:
        return state
    return RS.apply_matrix(state, gate_matrix(op), [idx[w] for w in op.wires], n)


def _ensure(state, present, wires):
    """Wires that were measured-and-reset are dropped from the tensor (they are exactly |0>); bring them back on demand."""
    for w in wires:
        if w not in present:
            state = np.tensordot(state, np.array([1, 0], dtype=complex), axes=0)
            present = present + [w]
    return state, present


def all_branches(ops, wire_order, init=None, prune=1e-13, skip_op=None):
    """Yield (outcomes in firing order, history dict, leaf=(unnormalised state tensor, wires it is defined on)) for EVERY branch.
    skip_op(op) -> True drops an operation (used to remove the online byproduct corrections)."""
    n0 = len(wire_order)
    state0 = RS.zero_state(n0) if init is None else np.asarray(init, dtype=complex).reshape((2,) * n0)
    if init is None:
        state0, present0 = np.array(1.0 + 0j), []        # start with nothing allocated: every wire is |0>
    else:
        present0 = list(wire_order)
    stack = [(0, state0, present0, {}, [])]
    while stack:
        i, state, present, hist, outs = stack.pop()
        done = True
        while i < len(ops):
            op = ops[i]
            i += 1
            if skip_op is not None and skip_op(op):
                continue
            tname = type(op).__name__
            target = None
            if tname == "Conditional":
                if not bool(eval_mv(op.meas_val, hist)):
                    continue
                if is_measure(op.base):
                    target = op.base
                else:
                    op = op.base
            elif is_measure(op):
                target = op
            if target is None:
                if op.name == "GlobalPhase" or len(op.wires) == 0:
                    state = apply_gate(state, op, {}, state.ndim)
                    continue
                state, present = _ensure(state, present, list(op.wires))
                idx = {w: k for k, w in enumerate(present)}
                state = apply_gate(state, op, idx, len(present))
                continue
            # branch on the measurement `target`
            state, present = _ensure(state, present, list(target.wires))
            a = present.index(target.wires[0])
            m0, m1 = basis_vectors(target)
            for outcome in (1, 0):
                if target.postselect is not None and outcome != target.postselect:
                    continue
                m = m1 if outcome else m0
                red = np.tensordot(m.conj(), state, axes=([0], [a]))
                if float(np.sum(np.abs(red) ** 2)) <= prune:
                    continue
                if target.reset:
                    st2, pr2 = red, present[:a] + present[a + 1:]
                else:
                    st2, pr2 = np.moveaxis(np.tensordot(m, red, axes=0), 0, a), present
                h2 = dict(hist)
                h2[mkey(target)] = outcome
                stack.append((i, st2, pr2, h2, outs + [outcome]))
            done = False
            break
        if done:
            yield outs, hist, (state, present)


def extract(leaf, keep_wires):
    """leaf = (tensor, present wires).  Returns (copy of the state on `keep_wires` given every other wire is |0>,
    weight found outside that slice).  Wires absent from the tensor are |0> by construction (measured with reset)."""
    state, present = leaf
    state, present = _ensure(state, present, list(keep_wires))
    sl = [0] * len(present)
    for w in keep_wires:
        sl[present.index(w)] = slice(None)
    sub = state[tuple(sl)]
    rest = float(np.sum(np.abs(state) ** 2) - np.sum(np.abs(sub) ** 2))
    kept_in_order = [w for w in present if w in keep_wires]
    perm = [kept_in_order.index(w) for w in keep_wires]
    return np.array(np.transpose(sub, perm)), rest
