"""Reference model for C54: truncated boson ladder matrices and the documented state -> qubit encodings.

A word is a list of [mode, sign] in operator order.  Fock space of `nm` modes with d levels each: basis index in
mixed radix, mode 0 most significant.  Qubit space: wire 0 most significant.

Encodings (column index list `encoded(...)`: Fock basis index -> computational basis index):
  binary        mode b uses wires b*q .. b*q+q-1 (q = ceil(log2 d)); wire b*q+k holds bit k of the level (standard binary,
                least significant bit on the lowest wire, arXiv:1507.03271 eqs 27-29)
  unary         mode b uses wires b*d .. b*d+d-1; level s <-> exactly wire b*d+s is |1>  (one-hot, arXiv:1909.12847)
  christiansen  d = 2, mode b <-> wire b, level = qubit value (b = (X+iY)/2 = |0><1|)"""
import itertools
import math

import numpy as np


def lowering(d):
    b = np.zeros((d, d))
    for s in range(1, d):
        b[s - 1, s] = math.sqrt(s)
    return b


def word_matrix(word, nm, d):
    """Product of truncated ladder matrices in word order on the nm-mode Fock space (d^nm dimensional)."""
    b = lowering(d)
    M = np.eye(d ** nm)
    for mode, sign in word:
        loc = b.T if sign == "+" else b
        M = M @ np.kron(np.kron(np.eye(d ** mode), loc), np.eye(d ** (nm - mode - 1)))
    return M


def qubits_per_mode(mapping, d):
    if mapping == "binary":
        return max(1, math.ceil(math.log2(d)))
    if mapping == "unary":
        return d
    return 1


def encoded(mapping, nm, d):
    """List: Fock basis index -> computational-basis index of its code word."""
    q = qubits_per_mode(mapping, d)
    nq = q * nm
    out = []
    for levels in itertools.product(range(d), repeat=nm):
        bits = [0] * nq
        for b, s in enumerate(levels):
            if mapping == "binary":
                for k in range(q):
                    bits[b * q + k] = (s >> k) & 1
            elif mapping == "unary":
                bits[b * d + s] = 1
            else:
                bits[b] = s
        idx = 0
        for v in bits:
            idx = (idx << 1) | v
        out.append(idx)
    return out, nq


def letters(nm):
    return [[m, s] for m in range(nm) for s in ("+", "-")]


def all_words(nm, maxlen, minlen=0):
    L = letters(nm)
    for k in range(minlen, maxlen + 1):
        for w in itertools.product(L, repeat=k):
            yield [list(x) for x in w]


def adjoint_word(word):
    return [[m, "-" if s == "+" else "+"] for m, s in reversed(word)]


def selftest():
    b = lowering(4)
    assert np.allclose(b @ b.T - b.T @ b, np.diag([1, 1, 1, -3]))  # [b, b+] = 1 below the cut
    assert np.allclose(np.diag(b.T @ b), [0, 1, 2, 3])
    assert encoded("binary", 1, 3) == ([0, 2, 1], 2)  # level 1 -> bit0 on wire 0 -> |10>
    assert encoded("unary", 1, 3) == ([4, 2, 1], 3)
    assert encoded("binary", 2, 2) == ([0, 1, 2, 3], 2)
