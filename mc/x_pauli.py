"""Plain-numpy reference semantics for Pauli words / sentences (shared by C51, C52).

A word is a mapping wire -> one of "IXYZ"; its matrix on an explicit wire order is the Kronecker product of the
2x2 Pauli matrices, first wire most significant, identity on wires the word does not mention.  A sentence is
a list of (word, coefficient) pairs; its matrix is the weighted sum.  Nothing in here calls PennyLane.
"""
import itertools

import numpy as np

P = {
    "I": np.eye(2, dtype=complex),
    "X": np.array([[0, 1], [1, 0]], dtype=complex),
    "Y": np.array([[0, -1j], [1j, 0]], dtype=complex),
    "Z": np.array([[1, 0], [0, -1]], dtype=complex),
}
LETTERS = "IXYZ"


def dec(c):
    """JSON coefficient -> python scalar ([re, im] pairs denote complex numbers; ints stay ints)."""
    if isinstance(c, list):
        return complex(c[0], c[1])
    return c


def enc(c):
    if isinstance(c, complex):
        return [c.real, c.imag]
    return c


def word_matrix(items, order):
    """items: dict or list of (wire, letter); order: list of wire labels."""
    d = dict((w, ch) for w, ch in (items.items() if isinstance(items, dict) else items))
    M = np.ones((1, 1), dtype=complex)
    for w in order:
        M = np.kron(M, P[d.get(w, "I")])
    return M


def sentence_matrix(terms, order):
    """terms: iterable of (items, coefficient)."""
    n = len(order)
    M = np.zeros((2 ** n, 2 ** n), dtype=complex)
    for items, c in terms:
        M = M + complex(c) * word_matrix(items, order)
    return M


def den(ps, order):
    """Denotation of a live PauliWord / PauliSentence read through its dict interface only."""
    if hasattr(ps, "wires") and not _is_sentence(ps):
        return word_matrix(dict(ps.items()), order)
    return sentence_matrix(((dict(pw.items()), _num(c)) for pw, c in ps.items()), order)


def _is_sentence(ps):
    return type(ps).__name__ == "PauliSentence"


def _num(c):
    return complex(np.asarray(c).item()) if not isinstance(c, (int, float, complex)) else c


def words_on(labels):
    """All 4^n words on the label list, as item lists in label order (identity letters kept explicit)."""
    for s in itertools.product(LETTERS, repeat=len(labels)):
        yield [[w, ch] for w, ch in zip(labels, s)]


def wstr(items, labels):
    d = dict((w, ch) for w, ch in items)
    return "".join(d.get(w, "I") for w in labels)


def support(items):
    return [w for w, ch in items if ch != "I"]


def first_seen(*wirelists):
    out = []
    for wl in wirelists:
        for w in wl:
            if w not in out:
                out.append(w)
    return out


def close(A, B, atol=1e-9):
    A = np.asarray(A)
    B = np.asarray(B)
    if A.shape != B.shape:
        return False
    scale = max(1.0, float(np.max(np.abs(B))) if B.size else 1.0)
    return bool(np.all(np.abs(A - B) <= atol * scale))


def fp(M):
    """Small fingerprint of a matrix for the outcome counter."""
    M = np.asarray(M)
    return [int(M.shape[0]), int(np.count_nonzero(np.abs(M) > 1e-12)), round(float(np.linalg.norm(M)), 3),
            round(float(np.trace(M).real), 3), round(float(np.trace(M).imag), 3)]


def is_scalar_matrix(M):
    M = np.asarray(M)
    return bool(np.allclose(M, M[0, 0] * np.eye(M.shape[0])))
