"""Shared alphabets of DESIGN §3.1 / §3.2 (scalars, wire labelings, wire orders, batches, control values, small
fixed unitaries, deterministic "low-discrepancy" arrays).  Pure numpy; importing this module does NOT import PennyLane.

Everything is a plain list / function returning JSON-able values; thorough ⊇ quick everywhere.

    ANG(tier)            rotation angles           quick 7 values, thorough 15
    ANG_NAMES            value -> readable name ("pi/2", "g1", ...) for fingerprints
    SCAL, EXPO, PROB     coefficients ([re, im] pairs via scal()), powers, channel strengths
    BATCH                [None, 1, 3]
    lab(n)               the five wire labelings of n wires: list of (name, [label_0..label_{n-1}])
    orders(wires)        ORDER(op): [None, wires, reversed, one extra wire 'x' front/middle/back (x reversal)]
    ctrl_values(k)       all 2^k control-value vectors
    rows(alphabets, full_max=3)   full product for <= full_max columns, else pairwise covering + all-equal rows
    ld(shape, salt)      deterministic low-discrepancy real array in (-pi, pi)
    UTABLE               name -> fixed small unitary (numpy complex array), first wire most significant
"""
import itertools
import math

import numpy as np

PI = math.pi
G1 = 0.3
G2 = -1.234

ANG_QUICK = [0.0, PI / 2, PI, -PI, 2 * PI, G1, G2]
ANG_EXTRA = [PI / 4, 3 * PI / 2, -2 * PI, 4 * PI, 2 * PI + G1, 4 * PI + G1, 1e-8, 7.0]
ANG_THOROUGH = ANG_QUICK + ANG_EXTRA
ANG_NAMES = dict(zip(ANG_THOROUGH, ["0", "pi/2", "pi", "-pi", "2pi", "g1", "g2", "pi/4", "3pi/2", "-2pi", "4pi", "2pi+g1",
                                    "4pi+g1", "1e-8", "7.0"]))
GENERIC = [G1, G2, 0.789, -0.456, 1.912, -2.345, 0.111, 2.718]  # distinct generic values for multi-parameter rows


def ANG(tier="quick"):
    return list(ANG_QUICK if tier != "thorough" else ANG_THOROUGH)


SCAL = [[1, 0], [-1, 0], [0.5, 0], [2, 0], [0, 1], [0.3, -0.7], [0, 0]]  # [re, im]
EXPO = [0, 1, 2, 3, -1, -2, 0.5, 1 / 3, -0.5, 2.5]
PROB = [0.0, 1.0, 0.5, 0.137]
BATCH = [None, 1, 3]


def scal(pair):
    return complex(pair[0], pair[1]) if pair[1] else float(pair[0])


# ----------------------------------------------------------------------------------------------- wires
_MIXED = [2, "q", 0, "w", 7, "e", 1, "r", 9, "t", 3, "y", 11, "u", 4, "i", 13, "o"]
_ALPHA = "abcdefghijklmnopqrstuvwxyz"


def lab(n, tier="quick"):
    """Wire labelings LAB(n): list of (name, labels) where labels[i] is the label given to canonical wire i."""
    out = [("range", list(range(n)))]
    if n == 0:
        return out
    if n > 1:
        out.append(("reversed", list(range(n - 1, -1, -1))))
    out.append(("alpha", [_ALPHA[i] if i < 26 else f"w{i}" for i in range(n)]))
    out.append(("mixed", [_MIXED[i] if i < len(_MIXED) else f"m{i}" for i in range(n)]))
    out.append(("offset", list(range(5, 5 + n))))
    return out


def orders(wires, extra="x"):
    """ORDER(op) of DESIGN §3.2 for an operator on `wires` (list of labels): JSON list of wire orders, None first."""
    w = list(wires)
    out = [None, list(w)]
    if len(w) > 1:
        out.append(list(reversed(w)))
    pos = sorted({0, len(w) // 2, len(w)})
    for base in ([w, list(reversed(w))] if len(w) > 1 else [w]):
        for p in pos:
            o = base[:p] + [extra] + base[p:]
            if o not in out:
                out.append(o)
    return out


def ctrl_values(k):
    return [list(v) for v in itertools.product([1, 0], repeat=k)]


# ----------------------------------------------------------------------------------------------- rows
def _next_prime(n):
    while True:
        if n > 1 and all(n % d for d in range(2, int(n ** 0.5) + 1)):
            return n
        n += 1


def pairwise(alphabets):
    """Deterministic pairwise-covering rows (orthogonal-array construction over a prime >= max alphabet size)."""
    k = len(alphabets)
    v = max(len(a) for a in alphabets)
    q = _next_prime(max(v, k - 1, 2))
    seen, out = set(), []
    for i in range(q):
        for j in range(q):
            row = []
            for c, a in enumerate(alphabets):
                idx = (i + c * j) % q if c < q else j
                row.append(a[idx % len(a)])
            t = tuple(row)
            if t not in seen:
                seen.add(t)
                out.append(list(row))
    return out


def rows(alphabets, full_max=3):
    """Value rows for k columns: the full product for k <= full_max, otherwise pairwise covering plus the
    all-equal rows (each value of the first alphabet in every column that contains it) — DESIGN §3.3."""
    alphabets = [list(a) for a in alphabets]
    k = len(alphabets)
    if k == 0:
        return [[]]
    if k <= full_max:
        return [list(r) for r in itertools.product(*alphabets)]
    out = pairwise(alphabets)
    seen = {tuple(r) for r in out}
    for val in alphabets[0]:
        if all(val in a for a in alphabets):
            t = tuple([val] * k)
            if t not in seen:
                seen.add(t)
                out.append(list(t))
    return out


def generic_row(k, offset=0):
    return [GENERIC[(i + offset) % len(GENERIC)] + 0.01 * ((i + offset) // len(GENERIC)) for i in range(k)]


# ----------------------------------------------------------------------------------------------- arrays
_PHI = (math.sqrt(5) - 1) / 2


def ld(shape, salt=0, lo=-PI, hi=PI):
    """Deterministic low-discrepancy array (Kronecker sequence of the golden ratio) with values in (lo, hi)."""
    n = int(np.prod(shape)) if shape else 1
    vals = [lo + (hi - lo) * (((i + 1) * _PHI + salt * math.sqrt(2)) % 1.0) for i in range(n)]
    return np.array(vals, dtype=float).reshape(shape)


def ld_list(shape, salt=0, lo=-PI, hi=PI, nd=6):
    return np.round(ld(shape, salt, lo, hi), nd).tolist()


def ld_state(n_amp, salt=0, real=False):
    """Normalised deterministic state vector with n_amp amplitudes (complex unless real=True)."""
    re = ld((n_amp,), salt, -1, 1)
    v = re.astype(complex)
    if not real:
        v = v + 1j * ld((n_amp,), salt + 7, -1, 1)
    return v / np.linalg.norm(v)


def ld_unitary(d, salt=0):
    """Fixed 'Haar-like' d x d unitary: QR of a deterministic complex matrix, phases of R's diagonal removed."""
    M = ld((d, d), salt, -1, 1) + 1j * ld((d, d), salt + 3, -1, 1)
    Q, R = np.linalg.qr(M)
    ph = np.diag(R) / np.abs(np.diag(R))
    return Q * ph


def ld_hermitian(d, salt=0):
    M = ld((d, d), salt, -1, 1) + 1j * ld((d, d), salt + 5, -1, 1)
    return (M + M.conj().T) / 2


_I = np.eye(2, dtype=complex)
_X = np.array([[0, 1], [1, 0]], dtype=complex)
_H = np.array([[1, 1], [1, -1]], dtype=complex) / math.sqrt(2)
_S = np.diag([1, 1j]).astype(complex)
_T = np.diag([1, np.exp(1j * PI / 4)]).astype(complex)
_SX = 0.5 * np.array([[1 + 1j, 1 - 1j], [1 - 1j, 1 + 1j]], dtype=complex)

UTABLE = {
    "I": _I, "X": _X, "H": _H, "S": _S, "T": _T, "SX": _SX,
    "haar2": ld_unitary(2, 1),
    "SWAP": np.array([[1, 0, 0, 0], [0, 0, 1, 0], [0, 1, 0, 0], [0, 0, 0, 1]], dtype=complex),
    "CNOT": np.array([[1, 0, 0, 0], [0, 1, 0, 0], [0, 0, 0, 1], [0, 0, 1, 0]], dtype=complex),
    "ISWAP": np.array([[1, 0, 0, 0], [0, 0, 1j, 0], [0, 1j, 0, 0], [0, 0, 0, 1]], dtype=complex),
    "HxT": np.kron(_H, _T),
    "haar4": ld_unitary(4, 2),
    "haar8": ld_unitary(8, 4),
}
U1Q = ["I", "X", "H", "S", "T", "SX", "haar2"]
U2Q = ["SWAP", "CNOT", "ISWAP", "HxT", "haar4"]
PAULI_WORDS = ["X", "Y", "Z", "XY", "ZZX", "IXZ"]
