"""Object space shared by C04 (equality / hashing) and C06 (copies, pickles, pytrees, rebinding): operators from the shared
catalogue (mc/x_catalog.py), nested arithmetic expressions (mc/x_exprs.py), measurement processes (MEAS of DESIGN §3.5) and
mid-circuit-measurement based measurement processes - each described by a small JSON *object spec* - plus a generic
single-field mutation engine on those specs.

Object spec
    {"k": "cat",  "g": <catalogue spec>}
    {"k": "expr", "e": <expression spec of mc.x_exprs>}
    {"k": "mp",   "m": kind, "obs": <object spec of an operator> | None, "wires": [...] | None, "wires2": [...] (mutual_info),
                  "kw": {...}, "mv": {"mcm": [<MidMeasure catalogue specs>], "fn": "id"|"x2"|"plus1"|"not"|"sum"|"list"} | None}
build(spec) -> live object (never queued).  mutations(spec) -> [(label, structural, mutated spec)].
"""
import copy
import math

import numpy as np

from mc import x_alphabet as A
from mc import x_catalog as cat
from mc import x_exprs as X


def canon(o):
    """Canonical form of an object spec (dict keys sorted, as the engine stores specs in replay files): enumeration order of the
    mutation engine and of cat.params / cat.wires_of depends on dict order, so checks canonicalise before use."""
    import json

    return json.loads(json.dumps(o, sort_keys=True))


# ---------------------------------------------------------------------------------------------------- building
def build(o):
    import pennylane as qp

    with qp.QueuingManager.stop_recording():
        return _build(o, qp)


_MV_MEMO = {}


def _base_mv(s):
    """The (unprocessed) measurement value of one mid-circuit measurement; memoised so that a 'reconstruction from identical data'
    re-uses the same m0 = qp.measure(...) result, as user code does (each qp.measure call has its own identity)."""
    import json

    from pennylane.ops.mid_measure import MeasurementValue

    k = json.dumps(s, sort_keys=True)
    if k not in _MV_MEMO:
        _MV_MEMO[k] = MeasurementValue([cat.build(s)])
    return _MV_MEMO[k]


def _mv(spec, qp):
    mvs = [_base_mv(s) for s in spec["mcm"]]
    fn = spec.get("fn", "id")
    if fn == "id":
        return mvs[0]
    if fn == "x2":
        return 2 * mvs[0]
    if fn == "plus1":
        return mvs[0] + 1
    if fn == "not":
        return ~mvs[0]
    if fn == "sum":
        return mvs[0] + mvs[1]
    if fn == "list":
        return list(mvs)
    raise AssertionError(fn)


def _build(o, qp):
    k = o["k"]
    if k == "cat":
        return cat.build(o["g"])
    if k == "expr":
        return X.build(o["e"])
    if k != "mp":
        raise AssertionError(k)
    m = o["m"]
    kw = dict(o.get("kw") or {})
    obs = _build(o["obs"], qp) if o.get("obs") else None
    mv = _mv(o["mv"], qp) if o.get("mv") else None
    w = o.get("wires")
    tgt = obs if obs is not None else mv
    if m in ("expval", "var"):
        return getattr(qp, m)(tgt)
    if m == "sample":
        if tgt is not None:
            return qp.sample(tgt)
        return qp.sample(wires=w) if w is not None else qp.sample()
    if m == "counts":
        if tgt is not None:
            return qp.counts(tgt, **kw)
        return qp.counts(wires=w, **kw) if w is not None else qp.counts(**kw)
    if m == "probs":
        if tgt is not None:
            return qp.probs(op=tgt)
        return qp.probs(wires=w) if w is not None else qp.probs()
    if m == "state":
        return qp.state()
    if m == "density_matrix":
        return qp.density_matrix(wires=w)
    if m == "purity":
        return qp.purity(wires=w)
    if m == "vn_entropy":
        return qp.vn_entropy(wires=w, **kw)
    if m == "mutual_info":
        return qp.mutual_info(wires0=w, wires1=o["wires2"], **kw)
    if m == "classical_shadow":
        return qp.classical_shadow(wires=w, **kw)
    if m == "shadow_expval":
        return qp.shadow_expval(obs, **kw)
    raise AssertionError(m)


def is_mp(o):
    return o["k"] == "mp"


def label(o):
    """Failure-class label of an object spec (catalogue name / expression skeleton / measurement kind)."""
    if o["k"] == "cat":
        cat.names()  # registers wrapper / template recipes (replays call this without the driver having run)
        g = o["g"]
        n = g["op"]
        return f"{n}[{g['v']}]" if cat.category(n) == "symbolic" and g.get("v") else n
    if o["k"] == "expr":
        return "expr:" + X.shape(o["e"], 1)
    tgt = "obs" if o.get("obs") else ("mv:" + o["mv"].get("fn", "id") if o.get("mv") else "wires")
    return f"mp:{o['m']}({tgt})"


# ---------------------------------------------------------------------------------------------------- mutations
_PAULI = "IXYZ"
_U_ALT = {n: (A.U1Q if n in A.U1Q else A.U2Q) for n in A.U1Q + A.U2Q}


def _lit_mutations(x, path):
    """Yield (label, mutated value) for one encoded value of a catalogue spec (not descending into nested operator specs)."""
    if isinstance(x, bool):
        yield path + ":flip", (not x)
    elif isinstance(x, int):
        yield path + ":+1", x + 1
    elif isinstance(x, float):
        yield path + ":+0.5", x + 0.5
    elif isinstance(x, str):
        if x and all(c in _PAULI for c in x):
            yield path + ":pauli-letter", _PAULI[(_PAULI.index(x[0]) + 1) % 4 or 1] + x[1:]
        elif x in ("zeroed", "borrowed"):
            yield path + ":work-wire-type", ("borrowed" if x == "zeroed" else "zeroed")
    elif isinstance(x, list):
        if x and all(isinstance(v, (int, bool)) and not isinstance(v, str) for v in x) and path.endswith("control_values"):
            for i in sorted({0, len(x) - 1}):
                y = list(x)
                y[i] = 0 if y[i] else 1
                yield f"{path}:flip[{i}]", y
        else:
            for i, v in enumerate(x[:3]):
                for lab, mv in _lit_mutations(v, f"{path}[{i}]"):
                    y = list(x)
                    y[i] = mv
                    yield lab, y
    elif isinstance(x, dict):
        if "$arr" in x:
            y = copy.deepcopy(x)
            d = x.get("dtype", "float")
            tgt = y["$arr"]["re"] if d == "complex" else y["$arr"]
            flat = tgt
            while isinstance(flat, list) and flat and isinstance(flat[0], list):
                flat = flat[0]
            if isinstance(flat, list) and flat:
                flat[0] = (flat[0] + 0.5) if d in ("float", "complex") else ((flat[0] + 1) if d == "int" else (0 if flat[0] else 1))
                yield path + ":array-entry", y
        elif "$U" in x:
            alts = [n for n in _U_ALT.get(x["$U"], []) if n != x["$U"]]
            if alts:
                yield path + ":unitary", {"$U": alts[0]}
        elif "$c" in x:
            yield path + ":scalar+0.5", {"$c": [x["$c"][0] + 0.5, x["$c"][1]]}
        elif "$t" in x:
            for lab, mv in _lit_mutations(list(x["$t"]), path):
                yield lab, {"$t": mv}
        elif "$sparse" in x:
            for lab, mv in _lit_mutations(x["$sparse"], path):
                yield lab, {"$sparse": mv}
        elif "$ops" in x and len(x["$ops"]) > 1:
            yield path + ":drop-last-operand", {"$ops": list(x["$ops"][:-1])}
        elif any(k.startswith("$") for k in x):
            return
        else:
            for k, v in x.items():
                for lab, mv in _lit_mutations(v, f"{path}.{k}"):
                    y = dict(x)
                    y[k] = mv
                    yield lab, y


def cat_mutations(g):
    """Single-field mutations of a catalogue spec: [(label, structural, mutated spec)]."""
    out = []
    ps = cat.params(g)
    for i in range(len(ps)):
        if isinstance(ps[i], list):
            continue
        q = list(ps)
        q[i] = ps[i] + 0.5
        out.append((f"param{i}+0.5", True, cat.with_params(g, q)))
        q = list(ps)
        q[i] = ps[i] + 1e-12
        out.append((f"param{i}+1e-12", False, cat.with_params(g, q)))
    ws = cat.wires_of(g)
    if len(ws) >= 2:
        out.append(("swap-two-wires", True, cat.relabel(g, {ws[0]: ws[1], ws[1]: ws[0]})))
    if ws:
        out.append(("rename-one-wire", True, cat.relabel(g, {ws[-1]: "zz"})))
    # literals of this spec and of nested operator specs
    def visit(spec, prefix, rebuild):
        for i, a in enumerate(spec.get("a", [])):
            if isinstance(a, dict) and ("$op" in a or "$ops" in a or "$mv" in a):
                _nested(a, f"{prefix}arg{i}", lambda na, i=i: rebuild(_with(spec, "a", i, na)))
                if "$ops" in a:
                    for lab, mv in _lit_mutations(a, f"{prefix}arg{i}"):
                        out.append((lab, True, rebuild(_with(spec, "a", i, mv))))
                continue
            for lab, mv in _lit_mutations(a, f"{prefix}arg{i}"):
                out.append((lab, True, rebuild(_with(spec, "a", i, mv))))
        for k, v in spec.get("kw", {}).items():
            if k in ("wires",) or (isinstance(v, dict) and ("$w" in v or "$w1" in v)):
                continue
            if isinstance(v, dict) and ("$op" in v or "$ops" in v):
                _nested(v, f"{prefix}{k}", lambda nv, k=k: rebuild(_with(spec, "kw", k, nv)))
                continue
            for lab, mv in _lit_mutations(v, f"{prefix}{k}"):
                out.append((lab, True, rebuild(_with(spec, "kw", k, mv))))

    def _nested(enc, prefix, rebuild):
        if "$op" in enc:
            visit(enc["$op"], prefix + ">", lambda ns: rebuild({"$op": ns}))
        elif "$ops" in enc:
            for j, s in enumerate(enc["$ops"][:2]):
                visit(s, f"{prefix}[{j}]>", lambda ns, j=j: rebuild({"$ops": [ns if jj == j else x for jj, x in enumerate(enc["$ops"])]}))
        elif "$mv" in enc:
            visit(enc["$mv"], prefix + ">", lambda ns: rebuild({"$mv": ns}))

    visit(g, "", lambda s: s)
    return out


def _with(spec, field, key, value):
    s = dict(spec)
    if field == "a":
        s["a"] = [value if i == key else x for i, x in enumerate(spec.get("a", []))]
    else:
        s["kw"] = dict(spec.get("kw", {}))
        s["kw"][key] = value
    return s


def _is_expr(x):
    return isinstance(x, list) and x and isinstance(x[0], str) and x[0] in X._KINDS


_NEXT_LEAF = {"X0": "Z0", "Z0": "S0", "S0": "RX0", "RX0": "RX0s", "RX0s": "PS0", "PS0": "Herm0", "Herm0": "X0", "Y1": "H1", "H1": "RZ1",
              "RZ1": "I1", "I1": "Y1", "CNOT01": "SWAP10", "SWAP10": "QFT01", "QFT01": "CNOT01", "T1": "RY1", "RY1": "T1", "CRX10": "CNOT01"}


def expr_mutations(e, prefix=""):
    """Single-field mutations of an expression: one leaf replaced, exponent / scalar / control value / control wire changed."""
    out = []
    k = e[0]
    if k == "L":
        return [(prefix + "leaf", True, ["L", _NEXT_LEAF[e[1]]])]
    if k in ("pow", "**"):
        z = e[2]
        out.append((prefix + k + ":exponent+1", True, [k, e[1], z + 1] + e[3:]))
    if k in ("sprod", "*"):
        out.append((prefix + k + ":scalar+0.5", True, [k, [e[1][0] + 0.5, e[1][1]], e[2]]))
        out.append((prefix + k + ":scalar+1e-12", False, [k, [e[1][0] + 1e-12, e[1][1]], e[2]]))
    if k == "exp":
        out.append((prefix + "exp:coeff+0.5", True, [k, e[1], [e[2][0] + 0.5, e[2][1]]]))
    if k == "ctrl":
        cv = list(e[3])
        cv[0] = 0 if cv[0] else 1
        out.append((prefix + "ctrl:flip-control-value", True, [k, e[1], e[2], cv, e[4]]))
        out.append((prefix + "ctrl:control-wire", True, [k, e[1], [5] + list(e[2][1:]), e[3], e[4]]))
        out.append((prefix + "ctrl:work-wire", True, [k, e[1], e[2], e[3], ([] if e[4] else [4])]))
    if k in ("prod", "sum", "@", "+", "-", "cob") and len(e) == 3:
        out.append((prefix + k + ":swap-operands", True, [k, e[2], e[1]]))
    for i, x in enumerate(e[1:], 1):
        if _is_expr(x):
            for lab, st, mx in expr_mutations(x, f"{prefix}{k}>"):
                out.append((lab, st, e[:i] + [mx] + e[i + 1:]))
    return out


def mutations(o):
    if o["k"] == "cat":
        return [(lab, st, {"k": "cat", "g": g}) for lab, st, g in cat_mutations(o["g"])]
    if o["k"] == "expr":
        return [(lab, st, {"k": "expr", "e": e}) for lab, st, e in expr_mutations(o["e"])]
    out = []
    m = o["m"]
    other = {"expval": "var", "var": "expval", "sample": "counts", "counts": "sample", "purity": "vn_entropy", "vn_entropy": "purity"}
    if m in other and not (o.get("kw") and m in ("counts", "vn_entropy")):
        out.append(("mp:kind", True, dict(o, m=other[m], kw={})))
    if o.get("obs"):
        for lab, st, mo in mutations(o["obs"])[:6]:
            out.append(("mp:obs>" + lab, st, dict(o, obs=mo)))
    w = o.get("wires")
    if w:
        if len(w) >= 2:
            out.append(("mp:swap-wires", True, dict(o, wires=[w[1], w[0]] + list(w[2:]))))
        out.append(("mp:rename-wire", True, dict(o, wires=list(w[:-1]) + ["zz"])))
        out.append(("mp:drop-wire", True, dict(o, wires=list(w[:-1])))) if len(w) >= 2 else None
    if o.get("wires2"):
        out.append(("mp:rename-wire2", True, dict(o, wires2=["zz"])))
    for k, v in (o.get("kw") or {}).items():
        for lab, mv in _lit_mutations(v, "mp:kw." + k):
            out.append((lab, True, dict(o, kw=dict(o["kw"], **{k: mv}))))
    if o.get("mv"):
        mv = o["mv"]
        if mv.get("fn", "id") == "id":
            out.append(("mp:mv-processing-x2", True, dict(o, mv=dict(mv, fn="x2"))))
            out.append(("mp:mv-processing-plus1", True, dict(o, mv=dict(mv, fn="plus1"))))
        for lab, st, g in cat_mutations(mv["mcm"][0])[:6]:
            out.append(("mp:mcm>" + lab, st, dict(o, mv=dict(mv, mcm=[g] + mv["mcm"][1:]))))
    return [x for x in out if x is not None]


# ---------------------------------------------------------------------------------------------------- object families
def _one(name, relabel=None, variant=None):
    sks = cat.instances(name, "few")
    g = next((s for s in sks if variant is None or s.get("v") == variant), sks[0])
    if relabel:
        g = cat.relabel(g, relabel)
    return {"k": "cat", "g": g}


def obs_alphabet():
    return [_one("PauliZ"), _one("PauliX", {0: 1}), _one("Prod", variant="X@Y"), _one("LinearCombination", variant="3terms"),
            _one("Hermitian", variant="1w,generic"), _one("Projector", variant="basis10"), _one("Sum", variant="X+Z"),
            {"k": "expr", "e": ["sprod", [0.5, 0], ["L", "Y1"]]}]


def _mcm(wire, uid, reset=False, postselect=None):
    return cat.sk("MidMeasure", "ops.mid_measure.MidMeasure", cat.W([wire]), reset=reset, postselect=postselect, meas_uid=uid)


def measurements(tier="quick"):
    """MEAS(2) of DESIGN §3.5 plus mid-circuit-measurement based processes."""
    out = []
    for ob in obs_alphabet():
        for m in ("expval", "var", "sample", "counts", "probs"):
            if m == "probs" and ob["k"] == "cat" and ob["g"]["op"] in ("LinearCombination", "Sum", "Hermitian") and False:
                continue
            out.append({"k": "mp", "m": m, "obs": ob})
    for w in ([0], [1], [0, 1], [1, 0]):
        out.append({"k": "mp", "m": "probs", "wires": w})
    out.append({"k": "mp", "m": "probs"})
    out.append({"k": "mp", "m": "state"})
    out += [{"k": "mp", "m": "density_matrix", "wires": [1]}, {"k": "mp", "m": "density_matrix", "wires": [0, 1]}]
    out += [{"k": "mp", "m": "purity", "wires": [0]}, {"k": "mp", "m": "vn_entropy", "wires": [0]},
            {"k": "mp", "m": "vn_entropy", "wires": [0, 1], "kw": {"log_base": 2}},
            {"k": "mp", "m": "mutual_info", "wires": [0], "wires2": [1]},
            {"k": "mp", "m": "mutual_info", "wires": [0], "wires2": [1], "kw": {"log_base": 2}}]
    out += [{"k": "mp", "m": "sample", "wires": [0, 1]}, {"k": "mp", "m": "sample"}, {"k": "mp", "m": "counts"},
            {"k": "mp", "m": "counts", "wires": [1, 0]}, {"k": "mp", "m": "counts", "wires": [0], "kw": {"all_outcomes": True}},
            {"k": "mp", "m": "counts", "obs": _one("PauliZ"), "kw": {"all_outcomes": True}}]
    out += [{"k": "mp", "m": "classical_shadow", "wires": [0, 1], "kw": {"seed": 1}},
            {"k": "mp", "m": "shadow_expval", "obs": _one("Prod", variant="X@Y"), "kw": {"k": 2, "seed": 1}}]
    m0, m1 = _mcm(0, "m0"), _mcm(1, "m1", reset=True)
    mps = _mcm(0, "m0", postselect=1)
    for m in ("expval", "var", "sample", "counts", "probs"):
        out.append({"k": "mp", "m": m, "mv": {"mcm": [m0], "fn": "id"}})
    out += [{"k": "mp", "m": "expval", "mv": {"mcm": [m0, m1], "fn": "sum"}}, {"k": "mp", "m": "expval", "mv": {"mcm": [m0], "fn": "x2"}},
            {"k": "mp", "m": "sample", "mv": {"mcm": [m0, m1], "fn": "list"}}, {"k": "mp", "m": "probs", "mv": {"mcm": [m0, m1], "fn": "list"}},
            {"k": "mp", "m": "counts", "mv": {"mcm": [m0, m1], "fn": "list"}}, {"k": "mp", "m": "expval", "mv": {"mcm": [mps], "fn": "id"}},
            {"k": "mp", "m": "expval", "mv": {"mcm": [m0], "fn": "not"}}]
    return out


def catalogue_objects(tier="quick", only=None):
    """One generic + one boundary instance per catalogue variant (the catalogue's 'few' tier; quick: first 3 variants of a name)."""
    out = []
    for n in cat.names():
        if only and not any(t in n for t in only):
            continue
        insts = cat.instances(n, "few")
        if tier == "quick":
            keep_v = []
            for s in insts:
                if s.get("v") not in keep_v:
                    keep_v.append(s.get("v"))
            keep_v = set(keep_v[:3])
            insts = [s for s in insts if s.get("v") in keep_v]
        out += [{"k": "cat", "g": s} for s in insts]
    return out


def expression_objects(tier="quick"):
    """C03's depth-1 expressions (all) and depth-2 (every full-menu unary form on the 6-leaf depth-1 'tiny' set; thorough: small set)."""
    from checks import C03

    d1 = C03.depth1(X.LEAF_ALL, "full", ternary_leaves=X.LEAF_ALL[:3])
    inner = C03.depth1(X.LEAF6, "tiny" if tier == "quick" else "small", binary=("prod", "sum", "cob"), binary_leaves=X.LEAF4)
    d2 = [f(e) for e in inner for f in X.unary_menu("small" if tier == "quick" else "full")]
    seen, out = set(), []
    import json

    for e in d1 + d2:
        k = json.dumps(e)
        if k not in seen:
            seen.add(k)
            out.append({"k": "expr", "e": e})
    return out
