"""Gated executor backends for C31: subclasses of PennyLane's native executors whose `map` prepends a task
index and wraps the mapped function in a picklable gate (mc.x_tasks._gate), so the harness controls the order
in which the device's per-circuit simulations complete.  Handed to ExecutionConfig(executor_backend=...)."""
import os

from mc.x_tasks import _gate


class GatedCall:
    def __init__(self, fn, gate_dir):
        self.fn = fn
        self.gate_dir = gate_dir

    def __call__(self, index, *args):
        _gate((index, self.gate_dir))
        return self.fn(*args)


def make(base_name):
    from pennylane.concurrency.executors.native import MPPoolExec, ProcPoolExec, SerialExec, ThreadPoolExec

    base = {"serial": SerialExec, "cf_threadpool": ThreadPoolExec, "cf_procpool": ProcPoolExec, "mp_pool": MPPoolExec}[base_name]

    class Gated(base):
        gate_dir = None
        calls = []

        def map(self, fn, *args, **kwargs):
            n = len(args[0])
            type(self).calls.append(n)
            return super().map(GatedCall(fn, type(self).gate_dir), list(range(n)), *args, **kwargs)

    Gated.__name__ = "Gated" + base.__name__
    return Gated
