"""Independent OpenQASM evaluators for C67.

The text is parsed by the reference `openqasm3` parser (it accepts the OpenQASM 2 legacy syntax `qreg/creg/include/measure ->`).
The AST is evaluated here into a unitary on the declared qubits (first declared qubit = most significant), using

* `QELIB1`   : gate definitions written from the OpenQASM 2 specification (arXiv:1707.03429, qelib1.inc): every gate is a
               sequence of the two built-ins U(theta,phi,lambda) = Rz(phi) Ry(theta) Rz(lambda) and CX;
* `STDGATES` : the OpenQASM 3 standard library as final matrices (spec "Standard library": p, x, y, z, h, s, sdg, t, tdg, sx,
               rx, ry, rz, cx, cy, cz, cp, crx, cry, crz, ch, swap, ccx, cswap, cu, phase, cphase, id, u1, u2, u3 (the last two up
               to the global phase their definitions carry -- they are therefore not used under `ctrl @`)),
  plus the gate modifiers inv / pow(k) / ctrl / negctrl, constant folding, static `for` over sets and ranges, static `if`.

No PennyLane import.  `selftest()` pins every derived qelib1 gate to mc.refgates up to a global phase.
"""
import cmath
import math

import numpy as np

from mc import refgates as RG
from mc import refsim as RS


def U_qasm2(theta, phi, lam):
    """OpenQASM 2 built-in: U(theta,phi,lambda) := Rz(phi) Ry(theta) Rz(lambda)."""
    return RG.RZ(phi) @ RG.RY(theta) @ RG.RZ(lam)


CX = RG.controlled(RG.X)
PI = math.pi

# name -> (n_params, n_qubits, body) ; body = list of (gate, param-exprs (callables of the params), qubit indices)
QELIB1 = {
    "u3": (3, 1, lambda t, p, l: [("U", (t, p, l), [0])]),
    "u2": (2, 1, lambda p, l: [("U", (PI / 2, p, l), [0])]),
    "u1": (1, 1, lambda l: [("U", (0, 0, l), [0])]),
    "cx": (0, 2, lambda: [("CX", (), [0, 1])]),
    "id": (0, 1, lambda: [("U", (0, 0, 0), [0])]),
    "x": (0, 1, lambda: [("u3", (PI, 0, PI), [0])]),
    "y": (0, 1, lambda: [("u3", (PI, PI / 2, PI / 2), [0])]),
    "z": (0, 1, lambda: [("u1", (PI,), [0])]),
    "h": (0, 1, lambda: [("u2", (0, PI), [0])]),
    "s": (0, 1, lambda: [("u1", (PI / 2,), [0])]),
    "sdg": (0, 1, lambda: [("u1", (-PI / 2,), [0])]),
    "t": (0, 1, lambda: [("u1", (PI / 4,), [0])]),
    "tdg": (0, 1, lambda: [("u1", (-PI / 4,), [0])]),
    "rx": (1, 1, lambda t: [("u3", (t, -PI / 2, PI / 2), [0])]),
    "ry": (1, 1, lambda t: [("u3", (t, 0, 0), [0])]),
    "rz": (1, 1, lambda p: [("u1", (p,), [0])]),
    "cz": (0, 2, lambda: [("h", (), [1]), ("cx", (), [0, 1]), ("h", (), [1])]),
    "cy": (0, 2, lambda: [("sdg", (), [1]), ("cx", (), [0, 1]), ("s", (), [1])]),
    "swap": (0, 2, lambda: [("cx", (), [0, 1]), ("cx", (), [1, 0]), ("cx", (), [0, 1])]),
    "ch": (0, 2, lambda: [("h", (), [1]), ("sdg", (), [1]), ("cx", (), [0, 1]), ("h", (), [1]), ("t", (), [1]), ("cx", (), [0, 1]),
                          ("t", (), [1]), ("h", (), [1]), ("s", (), [1]), ("x", (), [1]), ("s", (), [0])]),
    "ccx": (0, 3, lambda: [("h", (), [2]), ("cx", (), [1, 2]), ("tdg", (), [2]), ("cx", (), [0, 2]), ("t", (), [2]), ("cx", (), [1, 2]),
                           ("tdg", (), [2]), ("cx", (), [0, 2]), ("t", (), [1]), ("t", (), [2]), ("h", (), [2]), ("cx", (), [0, 1]),
                           ("t", (), [0]), ("tdg", (), [1]), ("cx", (), [0, 1])]),
    "cswap": (0, 3, lambda: [("cx", (), [2, 1]), ("ccx", (), [0, 1, 2]), ("cx", (), [2, 1])]),
    "crz": (1, 2, lambda l: [("u1", (l / 2,), [1]), ("cx", (), [0, 1]), ("u1", (-l / 2,), [1]), ("cx", (), [0, 1])]),
    "cu1": (1, 2, lambda l: [("u1", (l / 2,), [0]), ("cx", (), [0, 1]), ("u1", (-l / 2,), [1]), ("cx", (), [0, 1]), ("u1", (l / 2,), [1])]),
    "cu3": (3, 2, lambda t, p, l: [("u1", ((l + p) / 2,), [0]), ("u1", ((l - p) / 2,), [1]), ("cx", (), [0, 1]), ("u3", (-t / 2, 0, -(p + l) / 2), [1]),
                                   ("cx", (), [0, 1]), ("u3", (t / 2, p, 0), [1])]),
    # later additions to qelib1.inc (Qiskit's copy)
    "crx": (1, 2, lambda l: [("u1", (PI / 2,), [1]), ("cx", (), [0, 1]), ("u3", (-l / 2, 0, 0), [1]), ("cx", (), [0, 1]), ("u3", (l / 2, -PI / 2, 0), [1])]),
    "cry": (1, 2, lambda l: [("ry", (l / 2,), [1]), ("cx", (), [0, 1]), ("ry", (-l / 2,), [1]), ("cx", (), [0, 1])]),
    "sx": (0, 1, lambda: [("sdg", (), [0]), ("h", (), [0]), ("sdg", (), [0])]),
}


def qelib1_matrix(name, params=()):
    """Matrix of a qelib1 gate on its own qubits (first = most significant), by expanding its definition."""
    if name == "U":
        return U_qasm2(*params)
    if name == "CX":
        return CX
    npar, nq, body = QELIB1[name]
    if len(params) != npar:
        raise ValueError(f"{name}: expected {npar} parameters, got {len(params)}")
    st = np.eye(2 ** nq, dtype=complex).reshape((2,) * nq + (2 ** nq,))
    for g, ps, qs in body(*params):
        st = RS.apply_matrix(st, qelib1_matrix(g, ps), list(qs), nq)
    return st.reshape(2 ** nq, 2 ** nq)


def selftest():
    """Every derived qelib1 gate equals the textbook matrix up to a global phase.  Returns list of failures."""
    g = 0.3731
    pairs = {"x": RG.X, "y": RG.Y, "z": RG.Z, "h": RG.H, "s": RG.S, "sdg": RG.S.conj().T, "t": RG.T, "tdg": RG.T.conj().T, "id": RG.I2,
             "cz": RG.controlled(RG.Z), "cy": RG.controlled(RG.Y), "swap": RG.SWAP, "ch": RG.controlled(RG.H), "ccx": RG.controlled(RG.X, 2),
             "cswap": RG.controlled(RG.SWAP), "sx": RG.SX}
    fails = [k for k, M in pairs.items() if not RS.close_up_to_phase(M, qelib1_matrix(k), 1e-12)]
    par = {"rx": RG.RX(g), "ry": RG.RY(g), "rz": RG.RZ(g), "u1": RG.PhaseShift(g), "crz": RG.controlled(RG.RZ(g)), "cu1": RG.controlled(RG.PhaseShift(g)),
           "crx": RG.controlled(RG.RX(g)), "cry": RG.controlled(RG.RY(g))}
    fails += [k for k, M in par.items() if not RS.close_up_to_phase(M, qelib1_matrix(k, (g,)), 1e-12)]
    if not RS.close_up_to_phase(RG.U3(g, 0.7, -1.1), qelib1_matrix("u3", (g, 0.7, -1.1)), 1e-12):
        fails.append("u3")
    if not RS.close_up_to_phase(RG.U2(0.7, -1.1), qelib1_matrix("u2", (0.7, -1.1)), 1e-12):
        fails.append("u2")
    if not RS.close_up_to_phase(RG.controlled(RG.U3(g, 0.7, -1.1)), qelib1_matrix("cu3", (g, 0.7, -1.1)), 1e-12):
        fails.append("cu3")
    return fails


# ----------------------------------------------------------------------------------------- OpenQASM 3 standard library
def _p(l):
    return RG.PhaseShift(l)


STDGATES = {
    "p": (1, 1, _p), "phase": (1, 1, _p), "x": (0, 1, lambda: RG.X), "y": (0, 1, lambda: RG.Y), "z": (0, 1, lambda: RG.Z), "h": (0, 1, lambda: RG.H),
    "s": (0, 1, lambda: RG.S), "sdg": (0, 1, lambda: RG.S.conj().T), "t": (0, 1, lambda: RG.T), "tdg": (0, 1, lambda: RG.T.conj().T),
    "sx": (0, 1, lambda: RG.SX), "rx": (1, 1, RG.RX), "ry": (1, 1, RG.RY), "rz": (1, 1, RG.RZ), "id": (0, 1, lambda: RG.I2),
    "cx": (0, 2, lambda: RG.controlled(RG.X)), "cy": (0, 2, lambda: RG.controlled(RG.Y)), "cz": (0, 2, lambda: RG.controlled(RG.Z)),
    "cp": (1, 2, lambda l: RG.controlled(_p(l))), "cphase": (1, 2, lambda l: RG.controlled(_p(l))),
    "crx": (1, 2, lambda t: RG.controlled(RG.RX(t))), "cry": (1, 2, lambda t: RG.controlled(RG.RY(t))), "crz": (1, 2, lambda t: RG.controlled(RG.RZ(t))),
    "ch": (0, 2, lambda: RG.controlled(RG.H)), "swap": (0, 2, lambda: RG.SWAP), "ccx": (0, 3, lambda: RG.controlled(RG.X, 2)),
    "cswap": (0, 3, lambda: RG.controlled(RG.SWAP)),
    # cu(theta,phi,lambda,gamma) = |0><0| (x) 1 + e^{i gamma} |1><1| (x) U3(theta,phi,lambda)
    "cu": (4, 2, lambda t, p, l, g: np.kron(RG.P0, RG.I2) + cmath.exp(1j * g) * np.kron(RG.P1, RG.U3(t, p, l))),
    "u1": (1, 1, _p),
    # u2/u3 carry a global phase in the standard library; matrices here are exact per their definitions
    "u2": (2, 1, lambda p, l: cmath.exp(-0.5j * (p + l)) * RG.U2(p, l)),
    "u3": (3, 1, lambda t, p, l: cmath.exp(-0.5j * (p + l)) * RG.U3(t, p, l)),
}


class Unsupported(Exception):
    pass


class Evaluator:
    """Walks an openqasm3 AST.  lib = "qelib1" (OpenQASM 2) or "stdgates" (OpenQASM 3)."""

    def __init__(self, lib, range_end_exclusive=False, gphase_sign=1):
        self.lib = lib
        self.range_end_exclusive = range_end_exclusive   # False = the specification; True only to *name* a known deviation
        self.gphase_sign = gphase_sign                   # +1 = the specification (gphase(g) = e^{+ig})
        self.qubits = []          # flat list of qubit names in declaration order: "q[0]", "q[1]", "a"
        self.regs = {}            # register name -> list of flat names
        self.cregs = {}
        self.env = {"pi": math.pi, "π": math.pi, "tau": 2 * math.pi, "τ": 2 * math.pi, "euler": math.e, "ℇ": math.e}
        self.ops = []             # (matrix, [qubit names])
        self.phase = 0.0
        self.measures = []        # (qubit name, (creg, index))
        self.seen_gate_after_measure = False

    # ---- expressions
    def ev(self, e):
        from openqasm3 import ast

        if isinstance(e, (ast.IntegerLiteral, ast.FloatLiteral, ast.BooleanLiteral)):
            return e.value
        if isinstance(e, ast.Identifier):
            if e.name in self.env:
                return self.env[e.name]
            raise Unsupported(f"identifier {e.name}")
        if isinstance(e, ast.UnaryExpression):
            v = self.ev(e.expression)
            return {"-": lambda: -v, "!": lambda: not v, "~": lambda: ~v}[e.op.name]()
        if isinstance(e, ast.BinaryExpression):
            a, b = self.ev(e.lhs), self.ev(e.rhs)
            op = e.op.name
            table = {"+": lambda: a + b, "-": lambda: a - b, "*": lambda: a * b, "/": lambda: (a // b if isinstance(a, int) and isinstance(b, int) else a / b),
                     "**": lambda: a ** b, "%": lambda: a % b, "==": lambda: a == b, "!=": lambda: a != b, "<": lambda: a < b, ">": lambda: a > b,
                     "<=": lambda: a <= b, ">=": lambda: a >= b, "&&": lambda: bool(a) and bool(b), "||": lambda: bool(a) or bool(b)}
            if op not in table:
                raise Unsupported(f"operator {op}")
            return table[op]()
        if isinstance(e, ast.FunctionCall):
            fn = {"sin": math.sin, "cos": math.cos, "sqrt": math.sqrt, "exp": math.exp, "arccos": math.acos, "arcsin": math.asin, "tan": math.tan}.get(e.name.name)
            if fn is None:
                raise Unsupported(f"function {e.name.name}")
            return fn(*[self.ev(a) for a in e.arguments])
        if isinstance(e, ast.Cast):
            v = self.ev(e.argument)
            return {"IntType": int, "UintType": int, "FloatType": float, "BoolType": bool}[type(e.type).__name__](v)
        raise Unsupported(type(e).__name__)

    def qubit(self, q):
        name = q.name.name if hasattr(q.name, "name") else q.name
        idx = getattr(q, "indices", None)
        if idx:
            i = self.ev(idx[0][0])
            return [self.regs[name][i]]
        if name in self.regs:
            return list(self.regs[name])  # whole-register broadcast
        return [name]

    # ---- statements
    def run(self, stmts):
        from openqasm3 import ast

        for s in stmts:
            t = type(s).__name__
            if t == "Include":
                want = "qelib1.inc" if self.lib == "qelib1" else "stdgates.inc"
                if s.filename != want:
                    raise Unsupported(f"include {s.filename}")
            elif t == "QubitDeclaration":
                if s.size is None:
                    self.qubits.append(s.qubit.name)
                else:
                    names = [f"{s.qubit.name}[{i}]" for i in range(self.ev(s.size))]
                    self.regs[s.qubit.name] = names
                    self.qubits += names
            elif t == "ClassicalDeclaration":
                ty = type(s.type).__name__
                if ty == "BitType":
                    self.cregs[s.identifier.name] = self.ev(s.type.size) if s.type.size is not None else 1
                else:
                    self.env[s.identifier.name] = self.ev(s.init_expression) if s.init_expression is not None else 0
            elif t == "ConstantDeclaration":
                self.env[s.identifier.name] = self.ev(s.init_expression)
            elif t == "ClassicalAssignment":
                name = s.lvalue.name
                v = self.ev(s.rvalue)
                op = s.op.name
                cur = self.env.get(name)
                self.env[name] = {"=": lambda: v, "+=": lambda: cur + v, "-=": lambda: cur - v, "*=": lambda: cur * v}[op]()
            elif t == "QuantumGate":
                self.gate(s)
            elif t == "QuantumPhase":
                if s.modifiers or s.qubits:
                    self.gate(s, phase=True)
                else:
                    self.phase += self.gphase_sign * self.ev(s.argument)
            elif t == "QuantumMeasurementStatement":
                qs = self.qubit(s.measure.qubit)
                tgt = s.target
                if tgt is None:
                    cs = [None] * len(qs)
                else:
                    cname = tgt.name.name if hasattr(tgt.name, "name") else tgt.name
                    ind = getattr(tgt, "indices", None)
                    cs = [(cname, self.ev(ind[0][0]))] if ind else [(cname, i) for i in range(len(qs))]
                self.measures += list(zip(qs, cs))
            elif t == "ForInLoop":
                sd = s.set_declaration
                if type(sd).__name__ == "RangeDefinition":
                    a = self.ev(sd.start)
                    c = self.ev(sd.end)
                    b = self.ev(sd.step) if sd.step is not None else 1
                    # OpenQASM 3 ranges are inclusive: {a, a+b, ..., a+mb} with a+mb <= c (b > 0)
                    vals = []
                    v = a
                    while (b > 0 and (v < c or (v == c and not self.range_end_exclusive))) or (b < 0 and (v > c or (v == c and not self.range_end_exclusive))):
                        vals.append(v)
                        v += b
                elif type(sd).__name__ == "DiscreteSet":
                    vals = [self.ev(v) for v in sd.values]
                else:
                    raise Unsupported("loop domain")
                for v in vals:
                    self.env[s.identifier.name] = v
                    self.run(s.block)
            elif t == "BranchingStatement":
                self.run(s.if_block if self.ev(s.condition) else s.else_block)
            elif t == "QuantumBarrier":
                pass
            else:
                raise Unsupported(t)

    def gate(self, s, phase=False):
        if self.measures:
            self.seen_gate_after_measure = True
        name = "gphase" if phase else s.name.name
        args = [self.ev(s.argument)] if phase else [self.ev(a) for a in s.arguments]
        if phase:
            # gphase(g) multiplies by e^{+i g}  (stdgates: gate p(lambda) a { ctrl @ gphase(lambda) a; })
            M = np.array([[cmath.exp(1j * self.gphase_sign * args[0])]])
            nq = 0
        elif self.lib == "qelib1":
            if name not in QELIB1:
                raise Unsupported(f"gate {name} is not defined in qelib1.inc")
            if s.modifiers:
                raise Unsupported("modifiers in OpenQASM 2")
            M = qelib1_matrix(name, tuple(args))
            nq = QELIB1[name][1]
        else:
            if name not in STDGATES:
                raise Unsupported(f"gate {name} is not in stdgates.inc")
            npar, nq, fn = STDGATES[name]
            if len(args) != npar:
                raise ValueError(f"{name}: {len(args)} args")
            M = np.asarray(fn(*args), dtype=complex)
        qs = [q for qq in s.qubits for q in self.qubit(qq)]
        # modifiers: applied innermost (rightmost) first; control qubits are the leading operands, outermost first
        nctrl_total = 0
        for mod in s.modifiers:
            if mod.modifier.name in ("ctrl", "negctrl"):
                nctrl_total += 1 if mod.argument is None else int(self.ev(mod.argument))
        ctrl_qs, tgt_qs = qs[:nctrl_total], qs[nctrl_total:]
        if len(tgt_qs) != nq:
            raise ValueError(f"{name}: {len(tgt_qs)} target qubits, expected {nq}")
        pos = len(ctrl_qs)
        for mod in reversed(s.modifiers):
            mname = mod.modifier.name
            if mname == "inv":
                M = M.conj().T
            elif mname == "pow":
                k = self.ev(mod.argument)
                if isinstance(k, int) or float(k).is_integer():
                    M = np.linalg.matrix_power(M, int(k)) if k >= 0 else np.linalg.matrix_power(M.conj().T, int(-k))
                else:
                    w, V = np.linalg.eig(M)  # principal power
                    M = V @ np.diag(np.exp(k * np.log(w))) @ np.linalg.inv(V)
            else:
                c = 1 if mod.argument is None else int(self.ev(mod.argument))
                M = RG.controlled(M, c, [1 if mname == "ctrl" else 0] * c)
                pos -= c
                tgt_qs = ctrl_qs[pos:pos + c] + tgt_qs
        self.ops.append((M, tgt_qs))

    def unitary(self, order=None):
        order = order or self.qubits
        n = len(order)
        idx = {q: i for i, q in enumerate(order)}
        st = np.eye(2 ** n, dtype=complex).reshape((2,) * n + (2 ** n,))
        for M, qs in self.ops:
            st = RS.apply_matrix(st, M, [idx[q] for q in qs], n)
        return cmath.exp(1j * self.phase) * st.reshape(2 ** n, 2 ** n)


def evaluate(text, lib, **kw):
    import openqasm3

    prog = openqasm3.parse(text)
    ev = Evaluator(lib, **kw)
    ev.version = prog.version
    ev.run(prog.statements)
    return ev
