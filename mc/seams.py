"""Seams for owned nondeterminism (E4): a scripted numpy Generator and helpers to install it.

ScriptedGenerator is a real subclass of numpy.random.Generator, so `np.random.default_rng(obj)` returns it
unchanged and PennyLane's `rng=` / `seed=` parameters accept it.  Every draw becomes one *question* to the
explorer's Chooser (mc.explore.Chooser); the probabilities the code supplied are logged so that the check
can compare them with the reference distribution.  An RNG method that is not scripted raises, so no
nondeterminism can slip through unnoticed.
"""
import contextlib
import sys

import numpy as np


class UnownedRandomness(RuntimeError):
    pass


class ScriptedGenerator(np.random.Generator):
    def __init__(self, chooser, ptol=1e-12, menus=None, integers_value=1234567):
        super().__init__(np.random.PCG64(0))
        self._ch = chooser
        self._ptol = ptol
        self._menus = menus or {}
        self._ival = integers_value
        self.log = []  # dicts: {"fn":..., "p":..., "n":..., "size":..., "answers":[...]}

    # -- helpers
    def _ask(self, n, label, enabled=None):
        return self._ch.choose(n, label, enabled)

    @staticmethod
    def _count(size):
        if size is None:
            return 1, ()
        if isinstance(size, (int, np.integer)):
            return int(size), (int(size),)
        shape = tuple(int(s) for s in size)
        return int(np.prod(shape)) if shape else 1, shape

    # -- scripted draws
    def choice(self, a, size=None, replace=True, p=None, axis=0, shuffle=True):
        arr = np.arange(a) if isinstance(a, (int, np.integer)) else np.asarray(a)
        n = arr.shape[0]
        cnt, shape = self._count(size)
        if p is not None:
            pv = np.asarray(p, dtype=float)
            enabled = [bool(x > self._ptol) for x in pv]
        else:
            pv = None
            enabled = None
        answers = [self._ask(n, "choice", enabled) for _ in range(cnt)]
        self.log.append({"fn": "choice", "n": n, "p": None if pv is None else pv.copy(), "size": size, "answers": answers})
        out = arr[np.asarray(answers, dtype=int)]
        if size is None:
            return out[0]
        return out.reshape(shape + arr.shape[1:])

    def binomial(self, n, p, size=None):
        cnt, shape = self._count(size)
        n_arr = np.broadcast_to(np.asarray(n), shape if shape else ()).ravel() if shape else np.asarray([n]).ravel()
        p_arr = np.broadcast_to(np.asarray(p, dtype=float), shape if shape else ()).ravel() if shape else np.asarray([p], dtype=float).ravel()
        answers = []
        for i in range(cnt):
            ni = int(n_arr[i if n_arr.size > 1 else 0])
            pi = float(p_arr[i if p_arr.size > 1 else 0])
            if ni == 1:
                en = [1 - pi > self._ptol, pi > self._ptol]
            else:
                en = None if self._ptol < pi < 1 - self._ptol else ([True] + [False] * ni if pi <= self._ptol else [False] * ni + [True])
            answers.append(self._ask(ni + 1, "binomial", en))
        self.log.append({"fn": "binomial", "n": n, "p": np.asarray(p, dtype=float).copy(), "size": size, "answers": answers})
        out = np.asarray(answers, dtype=np.int64)
        return int(out[0]) if size is None and np.ndim(n) == 0 and np.ndim(p) == 0 else out.reshape(shape)

    def integers(self, low, high=None, size=None, dtype=np.int64, endpoint=False):
        menu = self._menus.get("integers")
        cnt, shape = self._count(size)
        if menu is None:  # seed derivation etc.: a fixed, recorded answer (not a behaviour-relevant question)
            vals = [self._ival + i for i in range(cnt)]
        else:
            vals = [menu[self._ask(len(menu), "integers")] for _ in range(cnt)]
        self.log.append({"fn": "integers", "low": low, "high": high, "size": size, "answers": vals})
        out = np.asarray(vals, dtype=dtype)
        return out[0] if size is None else out.reshape(shape)

    def _menu_draw(self, name, size):
        menu = self._menus.get(name)
        if menu is None:
            raise UnownedRandomness(f"Generator.{name} called but no finite answer menu was scripted for it")
        cnt, shape = self._count(size)
        vals = [menu[self._ask(len(menu), name)] for _ in range(cnt)]
        self.log.append({"fn": name, "size": size, "answers": vals})
        out = np.asarray(vals, dtype=float)
        return float(out[0]) if size is None else out.reshape(shape)

    def random(self, size=None, dtype=np.float64, out=None):
        return self._menu_draw("random", size)

    def uniform(self, low=0.0, high=1.0, size=None):
        return self._menu_draw("uniform", size)

    def normal(self, loc=0.0, scale=1.0, size=None):
        return self._menu_draw("normal", size)

    def standard_normal(self, size=None, dtype=np.float64, out=None):
        return self._menu_draw("normal", size)

    def permutation(self, x, axis=0):
        raise UnownedRandomness("Generator.permutation not scripted")

    def shuffle(self, x, axis=0):
        raise UnownedRandomness("Generator.shuffle not scripted")

    def multinomial(self, n, pvals, size=None):
        raise UnownedRandomness("Generator.multinomial not scripted")

    def __reduce__(self):
        raise UnownedRandomness("scripted generator must not be pickled (would cross a process boundary)")


@contextlib.contextmanager
def own_numpy_rng(gen):
    """While active, every `default_rng(...)` call anywhere in already-imported PennyLane modules (and
    numpy.random.default_rng itself) returns `gen`.  Harness-side monkey patch; restored on exit."""
    real = np.random.default_rng

    def fake(seed=None):
        return gen

    patched = []
    for name, mod in list(sys.modules.items()):
        if mod is None or not (name.startswith("pennylane") or name == "numpy.random"):
            continue
        d = getattr(mod, "__dict__", {})
        if d.get("default_rng") is real:
            patched.append((mod, "default_rng"))
            setattr(mod, "default_rng", fake)
    np.random.default_rng = fake
    try:
        yield gen
    finally:
        np.random.default_rng = real
        for mod, attr in patched:
            setattr(mod, attr, real)
