"""x_circ — JSON circuit specs -> live PennyLane objects + a plain-numpy reference (shared by C26/C27/C28/C71).

A *letter* is a JSON list  [name, [positions], [params], {hyper}]   (hyper optional).
  positions   indices into a label list `lab` (position i carries wire label lab[i]); the reference simulates on
              positions, first position = most significant qubit
  params      float | [floats] (= broadcast parameter, one value per batch entry) | token string
  tokens      "U2" generic 2-qubit unitary, "U2b3"/"U2b1" batched (3 / 1 entries), "U2s" scipy-sparse;
              "V3" generic 3-qubit state vector, "V2b3" batched, "V3s" sparse; "A2" Hermitian 4x4; "bits:101"
All token values are fixed deterministic tables (closed formulas below), nothing is drawn at random.

A *measurement letter*:  ["state"] | ["probs", [pos]|None] | ["probs_op", obs] | ["expval", obs] | ["var", obs] |
  ["dm", [pos]] | ["purity", [pos]] | ["vn", [pos], base|None] | ["mi", [pos], [pos], base|None]
An *observable*:  ["Z",[p]] "X" "Y" "H" "I" | ["prod", o, o, ..] | ["sprod", c, o] | ["sum", o, ..] |
  ["lc", [coeffs], [o, ..]] | ["herm", "A1", [pos]] | ["proj", "bits:10", [pos]] | ["projv", "V1", [pos]] |
  ["sparseH", "A3", [pos]]

The reference never calls PennyLane: gate matrices come from mc.refgates (closed forms) or from the token tables,
states evolve by mc.refsim.apply_matrix (tensordot on explicit axes), measurements by explicit index arithmetic.
"""
import hashlib
import math
import re

import numpy as np

from mc import refgates as RG
from mc import refsim as RS

G1, G2, G3 = 0.3, -1.234, 2.2
B3 = [0.3, -1.234, 2.2]
B1 = [0.7]


# ------------------------------------------------------------------------------------------------ token tables
def _herm(d, s):
    a = np.arange(d, dtype=float)
    A = np.sin(1.0 + s + 3 * a[:, None] + 7 * a[None, :]) + 1j * np.cos(2.0 + 2 * s + 5 * a[:, None] - 3 * a[None, :])
    return (A + A.conj().T) / 2


def _unitary(k, s):
    w, V = np.linalg.eigh(_herm(2 ** k, s))
    return (V * np.exp(1j * w)) @ V.conj().T


def _vector(k, s):
    a = np.arange(2 ** k, dtype=float)
    v = np.sin(0.7 + s + 1.3 * a) + 1j * np.cos(0.2 + 2 * s + 2.1 * a * a)
    return v / np.linalg.norm(v)


_CACHE = {}


def token(tok):
    """-> (kind, array, batch, sparse).  array has a leading batch axis iff batch is not None."""
    if tok in _CACHE:
        return _CACHE[tok]
    if tok.startswith("bits:"):
        r = ("bits", np.array([int(c) for c in tok[5:]], dtype=int), None, False)
    else:
        kind = tok[0]
        mt = re.match(r"(\d+)(.*)$", tok[1:])
        k = int(mt.group(1))
        suffix = mt.group(2)
        f = {"U": _unitary, "V": _vector, "A": _herm}[kind]
        arg = 2 ** k if kind == "A" else k
        if suffix == "":
            r = (kind, f(arg, 0), None, False)
        elif suffix == "b3":
            r = (kind, np.stack([f(arg, s) for s in (1, 2, 3)]), 3, False)
        elif suffix == "b1":
            r = (kind, np.stack([f(arg, 4)]), 1, False)
        elif suffix == "s":
            M = f(arg, 5)
            if kind == "V":  # a sparse vector with exact zeros
                M = M.copy()
                M[1::3] = 0
                M = M / np.linalg.norm(M)
            r = (kind, M, None, True)
        elif suffix == "r":  # real symmetric / orthogonal-free variant: real Hermitian matrix
            r = (kind, np.real(f(arg, 6)) + 0j, None, False)
        else:
            raise KeyError(tok)
    _CACHE[tok] = r
    return r


def kraus_token(tok):
    """Fixed Kraus-operator lists for QubitChannel letters (each list is complete by construction)."""
    p = 0.137
    ad = [np.array([[1, 0], [0, math.sqrt(1 - 0.3)]], dtype=complex), np.array([[0, math.sqrt(0.3)], [0, 0]], dtype=complex)]
    mix1 = [math.sqrt(1 - p) * np.eye(2, dtype=complex), math.sqrt(p) * _unitary(1, 7)]
    if tok == "K1u":
        return mix1
    if tok == "K1ad":
        return ad
    if tok == "K2u":
        return [math.sqrt(1 - p) * np.eye(4, dtype=complex), math.sqrt(p) * _unitary(2, 7)]
    if tok == "K2x":  # not symmetric under exchange of its two wires
        return [np.kron(a, b) for a in ad for b in mix1]
    if tok == "K3u":
        return [math.sqrt(0.8) * np.eye(8, dtype=complex), math.sqrt(0.2) * _unitary(3, 7)]
    raise KeyError(tok)


# ------------------------------------------------------------------------------------------------ letters
def letter_batch(letter):
    """Broadcast size of a letter (None = not broadcast)."""
    for p in letter[2]:
        if isinstance(p, list):
            return len(p)
        if isinstance(p, str) and p.startswith("K"):
            continue
        if isinstance(p, str):
            b = token(p)[2]
            if b is not None:
                return b
    return None


def unbatch(letter, b):
    """The letter with its broadcast (list) parameters replaced by entry b."""
    out = list(letter)
    out[2] = [p[b] if isinstance(p, list) else p for p in letter[2]]
    return out


def circuit_batch(letters):
    """-> (B or None, consistent?)"""
    sizes = {letter_batch(l) for l in letters if l is not None} - {None}
    if not sizes:
        return None, True
    if len(sizes) > 1:
        return None, False
    return sizes.pop(), True


PREPS = ("StatePrep", "BasisState")
NOOPS = ("Snapshot", "Barrier", "Identity")


def _param_at(p, b):
    if isinstance(p, list):
        return p[b if b is not None else 0]
    return p


def ref_matrix(letter, b=None):
    """Reference matrix of a gate letter on its own wires for batch entry b (closed forms / token tables)."""
    name, wpos, params = letter[0], letter[1], letter[2]
    hyper = letter[3] if len(letter) > 3 else {}
    k = len(wpos)
    if name in NOOPS:
        return np.eye(2 ** k, dtype=complex)
    if name == "QubitUnitary":
        _, arr, bt, _ = token(params[0])
        return arr[b if b is not None else 0] if bt is not None else arr
    if name == "GroverOperator":
        d = 2 ** k
        return 2.0 * np.ones((d, d), dtype=complex) / d - np.eye(d)
    if name == "MultiControlledX":
        return RG.matrix(name, [], n_wires=k, hyper={"control_values": hyper.get("control_values", [1] * (k - 1))})
    if name == "PauliRot":
        return RG.matrix(name, [_param_at(params[0], b)], hyper={"pauli_word": hyper["pauli_word"]})
    if name in ("MultiRZ", "GlobalPhase"):
        return RG.matrix(name, [_param_at(params[0], b)], n_wires=k)
    return RG.matrix(name, [_param_at(p, b) for p in params])


def ref_prep_vector(letter, b=None):
    name, wpos, params = letter[0], letter[1], letter[2]
    kind, arr, bt, _ = token(params[0])
    if name == "BasisState":
        v = np.zeros(2 ** len(wpos), dtype=complex)
        v[int("".join(str(int(x)) for x in arr), 2)] = 1
        return v
    return arr[b if b is not None else 0] if bt is not None else arr


def ref_apply(state, letter, b, n):
    name, wpos = letter[0], letter[1]
    if name in PREPS:
        vec = ref_prep_vector(letter, b)
        k = len(wpos)
        sl = [slice(None)] * n
        for a in wpos:
            sl[a] = 0
        rest = state[tuple(sl)]
        out = np.tensordot(vec.reshape((2,) * k), rest, axes=0)
        return np.moveaxis(out, list(range(k)), list(wpos))
    if len(wpos) == 0:
        if name == "GlobalPhase":
            return state * np.exp(-1j * _param_at(letter[2][0], b))
        return state
    if name in NOOPS:
        return state
    return RS.apply_matrix(state, ref_matrix(letter, b), list(wpos), n)


def ref_states(letters, n):
    """-> (B, [state tensor per batch entry]) on positions 0..n-1 (B None = not broadcast, one state)."""
    B, ok_ = circuit_batch(letters)
    if not ok_:
        raise ValueError("inconsistent broadcast sizes")
    out = []
    for b in ([None] if B is None else range(B)):
        st = RS.zero_state(n)
        for l in letters:
            st = ref_apply(st, l, b if letter_batch(l) is not None else None, n)
        out.append(st)
    return B, out


# ------------------------------------------------------------------------------------------------ observables
_P1 = {"X": RG.X, "Y": RG.Y, "Z": RG.Z, "H": RG.H, "I": RG.I2}


def obs_wires(o):
    """Positions of an observable in PennyLane's wire order (order of first appearance)."""
    kind = o[0]
    if kind in _P1:
        return list(o[1])
    if kind in ("herm", "proj", "projv", "sparseH"):
        return list(o[2])
    if kind == "sprod":
        return obs_wires(o[2])
    subs = o[1:] if kind in ("prod", "sum") else o[2]
    out = []
    for s in subs:
        for w in obs_wires(s):
            if w not in out:
                out.append(w)
    return out


def obs_matrix(o, wires):
    """Reference matrix of observable spec `o` on the ordered position list `wires`."""
    kind = o[0]
    d = 2 ** len(wires)
    if kind in _P1:
        if not o[1]:
            return np.eye(d, dtype=complex)
        M = np.eye(d, dtype=complex)
        for w in o[1]:
            M = M @ RS.embed(_P1[kind], [w], wires)
        return M
    if kind in ("herm", "sparseH"):
        return RS.embed(token(o[1])[1], list(o[2]), wires)
    if kind == "proj":
        bits = token(o[1])[1]
        v = np.zeros(2 ** len(bits), dtype=complex)
        v[int("".join(str(int(x)) for x in bits), 2)] = 1
        return RS.embed(np.outer(v, v.conj()), list(o[2]), wires)
    if kind == "projv":
        v = token(o[1])[1]
        return RS.embed(np.outer(v, v.conj()), list(o[2]), wires)
    if kind == "sprod":
        return complex(o[1]) * obs_matrix(o[2], wires)
    if kind == "prod":
        M = np.eye(d, dtype=complex)
        for s in o[1:]:
            M = M @ obs_matrix(s, wires)
        return M
    if kind == "sum":
        return sum(obs_matrix(s, wires) for s in o[1:])
    if kind == "lc":
        M = np.zeros((d, d), dtype=complex)
        for c, s in zip(o[1], o[2]):
            M = M + complex(c) * obs_matrix(s, wires)
        return M
    raise KeyError(kind)


def build_obs(o, lab, conv=None):
    import pennylane as qp

    kind = o[0]
    W = lambda ps: [lab[i] for i in ps]
    if kind in _P1:
        cls = {"X": qp.X, "Y": qp.Y, "Z": qp.Z, "H": qp.Hadamard, "I": qp.Identity}[kind]
        ws = W(o[1])
        return cls(ws[0] if len(ws) == 1 else ws)
    if kind == "herm":
        A = token(o[1])[1]
        return qp.Hermitian(conv(A) if conv else A, wires=W(o[2]))
    if kind == "sparseH":
        import scipy.sparse as sp

        return qp.SparseHamiltonian(sp.csr_matrix(token(o[1])[1]), wires=W(o[2]))
    if kind == "proj":
        return qp.Projector(token(o[1])[1], wires=W(o[2]))
    if kind == "projv":
        return qp.Projector(token(o[1])[1], wires=W(o[2]))
    if kind == "sprod":
        return qp.s_prod(o[1], build_obs(o[2], lab, conv))
    if kind == "prod":
        return qp.prod(*[build_obs(s, lab, conv) for s in o[1:]])
    if kind == "sum":
        return qp.sum(*[build_obs(s, lab, conv) for s in o[1:]])
    if kind == "lc":
        cs = list(o[1])
        return qp.Hamiltonian(conv(np.array(cs)) if conv else cs, [build_obs(s, lab, conv) for s in o[2]])
    raise KeyError(kind)


# ------------------------------------------------------------------------------------------------ measurements
def meas_wires(m):
    kind = m[0]
    if kind in ("expval", "var", "probs_op"):
        return obs_wires(m[1])
    if kind == "state":
        return []
    if kind == "probs":
        return list(m[1] or [])
    if kind == "mi":
        return list(m[1]) + list(m[2])
    return list(m[1])


def build_meas(m, lab, conv=None):
    import pennylane as qp

    kind = m[0]
    W = lambda ps: [lab[i] for i in ps]
    if kind == "state":
        return qp.state()
    if kind == "probs":
        return qp.probs(wires=W(m[1])) if m[1] is not None else qp.probs()
    if kind == "probs_op":
        return qp.probs(op=build_obs(m[1], lab, conv))
    if kind == "expval":
        return qp.expval(build_obs(m[1], lab, conv))
    if kind == "var":
        return qp.var(build_obs(m[1], lab, conv))
    if kind == "dm":
        return qp.density_matrix(W(m[1]))
    if kind == "purity":
        return qp.purity(W(m[1]))
    if kind == "vn":
        return qp.vn_entropy(W(m[1]), log_base=m[2]) if m[2] else qp.vn_entropy(W(m[1]))
    if kind == "mi":
        return qp.mutual_info(W(m[1]), W(m[2]), log_base=m[3]) if m[3] else qp.mutual_info(W(m[1]), W(m[2]))
    raise KeyError(kind)


# eigenvectors (+1 first) of the single-qubit observables that define a rotated basis for probs(op=...)
_EIGV = {
    "Z": np.eye(2, dtype=complex),
    "X": np.array([[1, 1], [1, -1]], dtype=complex) / math.sqrt(2),
    "Y": np.array([[1, 1], [1j, -1j]], dtype=complex) / math.sqrt(2),
    "H": np.array([[math.cos(math.pi / 8), -math.sin(math.pi / 8)], [math.sin(math.pi / 8), math.cos(math.pi / 8)]], dtype=complex),
}


def ref_measure(m, state, order):
    """Reference value of measurement letter `m` on a pure state tensor over positions (axis i = position i).
    `order` = ordered positions that make up the "whole system" for state()/probs() (device wires or tape wires)."""
    n = state.ndim
    kind = m[0]
    if kind == "state":
        return ref_state_on(state, order)
    if kind == "probs":
        axes = list(order) if m[1] is None else list(m[1])
        return RS.probs_of(state, axes)
    if kind == "probs_op":
        o = m[1]
        factors = [o] if o[0] in _P1 else list(o[1:])
        st = state
        axes = []
        for f in factors:
            a = f[1][0]
            st = RS.apply_matrix(st, _EIGV[f[0]].conj().T, [a], n)
            axes.append(a)
        return RS.probs_of(st, axes)
    if kind in ("expval", "var"):
        own = obs_wires(m[1])
        if not own:
            M = obs_matrix(m[1], [0])
            e = float(np.real(M[0, 0]))
            return e if kind == "expval" else 0.0
        M = obs_matrix(m[1], own)
        e = RS.expval(state, M, own).real
        if kind == "expval":
            return e
        return RS.expval(state, M @ M, own).real - e * e
    if kind == "dm":
        return RS.reduced_dm(state, list(m[1]))
    if kind == "purity":
        rho = RS.reduced_dm(state, list(m[1]))
        return float(np.real(np.trace(rho @ rho)))
    if kind == "vn":
        return RS.entropy(RS.reduced_dm(state, list(m[1])), m[2])
    if kind == "mi":
        a, b, base = list(m[1]), list(m[2]), m[3]
        return (RS.entropy(RS.reduced_dm(state, a), base) + RS.entropy(RS.reduced_dm(state, b), base)
                - RS.entropy(RS.reduced_dm(state, a + b), base))
    raise KeyError(kind)


def ref_state_on(state, order):
    """State vector on the ordered positions `order`; positions not listed must be in |0> (untouched wires)."""
    n = state.ndim
    sl = [slice(None)] * n
    for a in range(n):
        if a not in order:
            sl[a] = 0
    sub = state[tuple(sl)]
    kept = [a for a in range(n) if a in order]
    perm = [kept.index(a) for a in order]
    return np.transpose(sub, perm).reshape(-1)


def ref_results(letters, meas, n, order):
    """-> list (one entry per measurement) of reference arrays, with a leading batch axis if broadcast."""
    B, states = ref_states(letters, n)
    out = []
    for m in meas:
        vals = [np.asarray(ref_measure(m, st, order)) for st in states]
        out.append(vals[0] if B is None else np.stack(vals))
    return B, out, states


def tape_order(letters, meas, lab=None):
    """Positions in the order a device *without* declared wires reports state()/probs(): the tape's standard wire
    order as documented in QuantumScript.map_to_standard_wires — operation wires in order of first appearance, then
    measurement-only wires; except that no re-mapping happens (natural integer order) when the operation wire labels
    are exactly {0..k-1} and the measurement-only labels exactly the next integers.  (Measurement-only wires are in
    |0>, so their relative order cannot change a state vector.)"""
    ops_, out = [], []
    for l in letters:
        if l[0] == "GlobalPhase":  # documented: its `wires` argument is unused, the operator carries no wires
            continue
        for w in l[1]:
            if w not in ops_:
                ops_.append(w)
    out = list(ops_)
    for m in meas:
        for w in meas_wires(m):
            if w not in out:
                out.append(w)
    if lab is not None:
        k = len(ops_)

        def isint(x):
            return isinstance(x, int) and not isinstance(x, bool)

        labs_ops = [lab[i] for i in ops_]
        labs_mo = [lab[i] for i in out[k:]]
        if all(isint(x) for x in labs_ops + labs_mo) and set(labs_ops) == set(range(k)) and set(labs_mo) == set(range(k, len(out))):
            return sorted(out, key=lambda i: lab[i])
    return out


# ------------------------------------------------------------------------------------------------ live objects
def make_conv(iface):
    """Parameter converter for an interface name (imports the framework lazily, inside the worker)."""
    if iface in (None, "numpy"):
        return lambda x: x
    if iface == "autograd":
        from pennylane import numpy as pnp

        return lambda x: pnp.array(x, requires_grad=True)
    if iface == "jax":
        import jax

        jax.config.update("jax_enable_x64", True)
        import jax.numpy as jnp

        return lambda x: jnp.array(x)
    if iface == "torch":
        import torch

        torch.set_num_threads(1)

        def conv(x):
            if isinstance(x, (float, int)):
                return torch.tensor(float(x), dtype=torch.float64)
            return torch.tensor(np.asarray(x))

        return conv
    raise KeyError(iface)


def build_op(letter, lab, conv=None):
    import pennylane as qp

    conv = conv or (lambda x: x)
    name, wpos, params = letter[0], letter[1], letter[2]
    hyper = letter[3] if len(letter) > 3 else {}
    wires = [lab[i] for i in wpos]
    args = []
    for p in params:
        if isinstance(p, str) and p.startswith("K"):
            continue
        if isinstance(p, str):
            kind, arr, bt, sparse = token(p)
            if sparse:
                import scipy.sparse as sp

                args.append(sp.csr_matrix(arr.reshape(1, -1) if arr.ndim == 1 else arr))
            elif kind == "bits":
                args.append(arr)
            else:
                args.append(conv(arr))
        elif isinstance(p, list):
            args.append(conv(np.array(p, dtype=float)))
        else:
            args.append(conv(float(p)))
    if name == "GlobalPhase":
        return qp.GlobalPhase(args[0], wires=wires) if wires else qp.GlobalPhase(args[0])
    if name == "Identity":
        return qp.Identity(wires) if wires else qp.Identity()
    if name == "MultiControlledX":
        return qp.MultiControlledX(wires=wires, control_values=hyper.get("control_values", [1] * (len(wires) - 1)))
    if name == "GroverOperator":
        return qp.GroverOperator(wires=wires)
    if name == "PauliRot":
        return qp.PauliRot(args[0], hyper["pauli_word"], wires=wires)
    if name == "Snapshot":
        kw = {}
        if hyper.get("tag") is not None:
            kw["tag"] = hyper["tag"]
        if hyper.get("meas") is not None:
            kw["measurement"] = build_meas(hyper["meas"], lab)
        return qp.Snapshot(**kw)
    if name == "Barrier":
        return qp.Barrier(wires=wires)
    if name == "QubitChannel":
        return qp.QubitChannel([conv(k) for k in kraus_token(params[0])], wires=wires)
    if name == "PauliError":
        return qp.PauliError(hyper["operators"], args[0], wires=wires)
    cls = getattr(qp, name)
    return cls(*args, wires=wires)


def to_numpy(x):
    """Result leaf -> numpy array (torch / jax / autograd tensors included)."""
    if hasattr(x, "detach"):
        x = x.detach().cpu().numpy()
    return np.asarray(x)


def fingerprint(arrs):
    h = hashlib.sha1()
    for a in arrs:
        a = np.asarray(a)
        v = np.round(np.concatenate([np.real(a).ravel(), np.imag(a).ravel()]).astype(float), 6) + 0.0
        h.update(str(a.shape).encode())
        h.update(v.tobytes())
    return h.hexdigest()[:10]


def letter_code(l):
    """Short human-readable code of a letter for signatures: RX[0]b3, QubitUnitary[2,0]:U2s …"""
    if l is None:
        return "-"
    s = l[0] + "[" + ",".join(str(w) for w in l[1]) + "]"
    toks = [p for p in l[2] if isinstance(p, str)]
    if toks:
        s += ":" + toks[0]
    b = letter_batch(l)
    if b is not None and not toks:
        s += f"b{b}"
    if len(l) > 3 and l[3].get("control_values"):
        s += "cv" + "".join(str(int(v)) for v in l[3]["control_values"])
    return s
