"""Operator-expression grammar for C03 (DESIGN §5.1 C03): JSON expression specs, a builder that turns a spec into a live
PennyLane operator through the public arithmetic API, and an independent numpy evaluator that turns the same spec into
(matrix, wires).  Pure numpy/scipy on the reference side; PennyLane is imported lazily and only by `build`.

Expression spec (nested JSON lists)
    ["L", name]                              leaf from LEAVES
    ["adj", e, lazy]                         qp.adjoint(e, lazy=lazy)
    ["pow", e, z, lazy]                      qp.pow(e, z, lazy=lazy)        (z int or float; the JSON type is preserved)
    ["ctrl", e, control, values, work]       qp.ctrl(e, control=control, control_values=values, work_wires=work or None)
    ["cctrl", e, control, values]            qp.ops.op_math.Controlled(e, control, control_values=values)   (class constructor)
    ["prod", e1, e2, ...] ["sum", e1, ...]   qp.prod / qp.sum
    ["sprod", [re, im], e]                   qp.s_prod(c, e)
    ["exp", e, [re, im]]                     qp.exp(e, c)
    ["cob", e1, e2]                          qp.change_op_basis(e1, e2)      (= adjoint(e1) . e2 . e1 as matrices: e1 is applied first)
    ["@", e1, e2] ["+", e1, e2] ["-", e1, e2] ["neg", e] ["*", [re, im], e] ["**", e, z]     the dunder forms
First wire = most significant qubit.  Leaves live on wires {0, 1}; controls on {2, 3}; work wire 4.
"""
import math

import numpy as np

from mc import refgates as RG
from mc import refsim as RS
from mc import x_alphabet as A

PI = math.pi
G1 = A.G1
HERM_A = np.round(A.ld_hermitian(2, 1), 12)
INF = float("inf")


def _qft(n):
    N = 2 ** n
    w = np.exp(2j * PI / N)
    return np.array([[w ** (j * k) for k in range(N)] for j in range(N)], dtype=complex) / math.sqrt(N)


# name -> (qp constructor path, args, wires, reference matrix, bound on the un-reduced eigenphases |theta * lambda(generator)| (inf: not unitary))
LEAVES = {
    "X0": ("PauliX", [], [0], RG.X, PI),
    "Y1": ("PauliY", [], [1], RG.Y, PI),
    "Z0": ("PauliZ", [], [0], RG.Z, PI),
    "H1": ("Hadamard", [], [1], RG.H, PI),
    "S0": ("S", [], [0], RG.S, PI / 2),
    "RX0": ("RX", [G1], [0], RG.RX(G1), G1 / 2),
    "RZ1": ("RZ", [PI], [1], RG.RZ(PI), PI / 2),
    "CNOT01": ("CNOT", [], [0, 1], RG.controlled(RG.X), PI),
    "SWAP10": ("SWAP", [], [1, 0], RG.SWAP, PI),
    "Herm0": ("Hermitian", [HERM_A], [0], HERM_A, INF),
    "I1": ("Identity", [], [1], RG.I2, 0.0),
    "PS0": ("PhaseShift", [2 * PI], [0], RG.PhaseShift(2 * PI), 2 * PI),
    "QFT01": ("QFT", [], [0, 1], _qft(2), PI),
    "RX0s": ("RX", [2 * PI + G1], [0], RG.RX(2 * PI + G1), PI + G1 / 2),  # = -RX(g1): same hash as RX(g1) (angles hashed mod 2pi), different matrix
    # extra leaves (thorough / sub-alphabets)
    "T1": ("T", [], [1], RG.T, PI / 4),
    "RY1": ("RY", [A.G2], [1], RG.RY(A.G2), abs(A.G2) / 2),
    "CRX10": ("CRX", [G1], [1, 0], RG.controlled(RG.RX(G1)), G1 / 2),
    # Paulis on ONE wire (products collapse to a phase times a Pauli / identity) and a non-Pauli operand on the other wire
    "Y0": ("PauliY", [], [0], RG.Y, PI),
    "RX1": ("RX", [G1], [1], RG.RX(G1), G1 / 2),
}
LEAF_ALL = ["X0", "Y1", "Z0", "H1", "S0", "RX0", "RZ1", "CNOT01", "SWAP10", "Herm0", "I1", "PS0", "QFT01", "RX0s"]
LEAF6 = ["X0", "Y1", "S0", "RX0", "CNOT01", "Herm0"]
LEAF4 = ["X0", "S0", "RX0", "CNOT01"]

BINARY = ("prod", "sum", "cob", "@", "+", "-")
NARY = ("prod", "sum")


class Skip(Exception):
    """The expression is outside the domain the property covers (reason in args[0])."""


def cnum(pair):
    return complex(pair[0], pair[1]) if pair[1] else float(pair[0])


# ---------------------------------------------------------------------------------------------------- builder (PennyLane side)
def build(e):
    """Live operator for the expression spec, built through the public arithmetic functions (never queued)."""
    import pennylane as qp

    with qp.QueuingManager.stop_recording():
        return _build(e, qp)


def _build(e, qp):
    k = e[0]
    if k == "L":
        cls, args, wires, _, _ = LEAVES[e[1]]
        return getattr(qp, cls)(*[np.array(a) if isinstance(a, np.ndarray) else a for a in args], wires=list(wires))
    if k == "adj":
        return qp.adjoint(_build(e[1], qp), lazy=bool(e[2]))
    if k == "pow":
        return qp.pow(_build(e[1], qp), e[2], lazy=bool(e[3]))
    if k == "**":
        return _build(e[1], qp) ** e[2]
    if k == "ctrl":
        return qp.ctrl(_build(e[1], qp), control=list(e[2]), control_values=list(e[3]), work_wires=(list(e[4]) or None))
    if k == "cctrl":  # the Controlled class called directly (qp.ctrl dispatches to specialised classes instead)
        return qp.ops.op_math.Controlled(_build(e[1], qp), list(e[2]), control_values=list(e[3]))
    if k == "prod":
        return qp.prod(*[_build(x, qp) for x in e[1:]])
    if k == "sum":
        return qp.sum(*[_build(x, qp) for x in e[1:]])
    if k == "@":
        return _build(e[1], qp) @ _build(e[2], qp)
    if k == "+":
        return _build(e[1], qp) + _build(e[2], qp)
    if k == "-":
        return _build(e[1], qp) - _build(e[2], qp)
    if k == "neg":
        return -_build(e[1], qp)
    if k == "sprod":
        return qp.s_prod(cnum(e[1]), _build(e[2], qp))
    if k == "*":
        return cnum(e[1]) * _build(e[2], qp)
    if k == "exp":
        return qp.exp(_build(e[1], qp), cnum(e[2]))
    if k == "cob":
        return qp.change_op_basis(_build(e[1], qp), _build(e[2], qp))
    raise AssertionError(k)


# ---------------------------------------------------------------------------------------------------- reference (numpy side)
def _union(ws):
    out = []
    for w in ws:
        for x in w:
            if x not in out:
                out.append(x)
    return out


def _is_unitary(M):
    return float(np.max(np.abs(M.conj().T @ M - np.eye(M.shape[0])))) < 1e-9


def principal_power(M, z):
    """U^z for a unitary U by the principal branch of each eigenphase (Schur form of a normal matrix is diagonal)."""
    from scipy.linalg import schur

    T, Z = schur(M, output="complex")
    lam = np.diag(T)
    if float(np.max(np.abs(T - np.diag(lam)))) > 1e-8:
        raise Skip("fractional-power:base-not-normal")
    ph = np.angle(lam)
    if np.any(np.abs(ph) >= PI - 1e-6):
        raise Skip("fractional-power:eigenphase-on-branch-cut")
    return Z @ np.diag(np.exp(1j * ph * z)) @ Z.conj().T


def evaluate(e):
    """(matrix, wires, phase_bound) of the expression by plain matrix arithmetic on the operands' matrices."""
    k = e[0]
    if k == "L":
        _, _, wires, M, b = LEAVES[e[1]]
        return np.asarray(M, dtype=complex), list(wires), b
    if k == "adj":
        M, W, b = evaluate(e[1])
        return M.conj().T, W, b
    if k in ("pow", "**"):
        M, W, b = evaluate(e[1])
        z = e[2]
        if isinstance(z, int):
            if z < 0:
                if np.linalg.cond(M) > 1e8:
                    raise Skip("negative-power-of-singular-matrix")
                return np.linalg.matrix_power(np.linalg.inv(M), -z), W, b * abs(z)
            return np.linalg.matrix_power(M, z), W, b * abs(z)
        # fractional: only inside the domain C01 covers (unitary base, un-reduced eigenphases strictly inside (-pi, pi))
        if not _is_unitary(M):
            raise Skip("fractional-power:base-not-unitary")
        if not b < PI - 1e-6:
            raise Skip("fractional-power:eigenphase-on-branch-cut")
        return principal_power(M, z), W, b * abs(z)
    if k in ("ctrl", "cctrl"):
        M, W, b = evaluate(e[1])
        cw, cv = list(e[2]), list(e[3])
        if set(cw) & set(W):
            raise Skip("control-wire-overlaps-target")
        return RG.controlled(M, len(cw), cv), cw + W, b
    if k in ("prod", "@", "sum", "+", "-"):
        parts = [evaluate(x) for x in e[1:]]
        W = _union([p[1] for p in parts])
        Ms = [RS.embed(p[0], p[1], W) for p in parts]
        if k in ("prod", "@"):
            M = Ms[0]
            for m in Ms[1:]:
                M = M @ m
            return M, W, sum(p[2] for p in parts)
        if k == "-":
            return Ms[0] - Ms[1], W, INF
        return sum(Ms[1:], Ms[0]), W, INF
    if k in ("sprod", "*", "neg"):
        c = -1.0 if k == "neg" else cnum(e[1])
        M, W, b = evaluate(e[-1])
        bb = b + abs(np.angle(c)) if abs(abs(c) - 1) < 1e-12 else INF
        return c * M, W, bb
    if k == "exp":
        from scipy.linalg import expm

        M, W, _ = evaluate(e[1])
        c = cnum(e[2])
        return expm(c * M), W, abs(c) * float(np.linalg.norm(M, 2))
    if k == "cob":
        M1, W1, _ = evaluate(e[1])
        M2, W2, b2 = evaluate(e[2])
        W = _union([W1, W2])
        E1, E2 = RS.embed(M1, W1, W), RS.embed(M2, W2, W)
        return E1.conj().T @ E2 @ E1, W, b2
    raise AssertionError(k)


# ---------------------------------------------------------------------------------------------------- spec utilities
def shape(e, depth=2):
    """Constructor skeleton of an expression down to `depth` levels ("pow(ctrl(*))"); leaves by their name."""
    k = e[0]
    if k == "L":
        return e[1]
    if depth == 0:
        return "*"
    kids = [x for x in e[1:] if isinstance(x, list) and x and isinstance(x[0], str) and (x[0] in _KINDS)]
    return f"{k}({','.join(shape(x, depth - 1) for x in kids)})"


_KINDS = {"L", "adj", "pow", "**", "ctrl", "cctrl", "prod", "sum", "@", "+", "-", "neg", "sprod", "*", "exp", "cob"}


def depth(e):
    if e[0] == "L":
        return 0
    return 1 + max(depth(x) for x in e[1:] if isinstance(x, list) and x and isinstance(x[0], str) and x[0] in _KINDS)


def leaves(e):
    if e[0] == "L":
        return [e[1]]
    out = []
    for x in e[1:]:
        if isinstance(x, list) and x and isinstance(x[0], str) and x[0] in _KINDS:
            out += leaves(x)
    return out


def has_kind(e, kinds):
    if e[0] in kinds:
        return True
    return any(has_kind(x, kinds) for x in e[1:] if isinstance(x, list) and x and isinstance(x[0], str) and x[0] in _KINDS)


# ---------------------------------------------------------------------------------------------------- constructor menus
def unary_menu(level):
    """List of functions e -> expression.  level 'full' (outermost), 'small', 'tiny' (inner levels)."""
    S = A.SCAL
    if level == "tiny":
        return [lambda e: ["adj", e, True], lambda e: ["pow", e, -1, True], lambda e: ["ctrl", e, [2], [0], []],
                lambda e: ["sprod", [0.3, -0.7], e]]
    if level == "small":
        return unary_menu("tiny") + [lambda e: ["pow", e, 2, True], lambda e: ["pow", e, 0.5, True], lambda e: ["exp", e, [0, G1]],
                                     lambda e: ["sprod", [-1, 0], e], lambda e: ["ctrl", e, [2, 3], [1, 0], []]]
    out = [lambda e: ["adj", e, True], lambda e: ["adj", e, False]]
    for z in A.EXPO:
        out.append(lambda e, z=z: ["pow", e, z, True])
    for z in (2, -1, 0.5, 0, 3):
        out.append(lambda e, z=z: ["pow", e, z, False])
    for cw, cv, wk in (([2], [1], []), ([2], [0], []), ([2, 3], [1, 1], []), ([2, 3], [1, 0], []), ([2, 3], [0, 1], []), ([2, 3], [0, 0], []),
                       ([2], [1], [4]), ([2, 3], [0, 1], [4]), ([3, 2], [1, 0], [])):
        out.append(lambda e, cw=cw, cv=cv, wk=wk: ["ctrl", e, cw, cv, wk])
    for c in S:
        out.append(lambda e, c=c: ["sprod", list(c), e])
    out += [lambda e: ["exp", e, [0, G1]], lambda e: ["exp", e, [-0.5, 0]], lambda e: ["neg", e], lambda e: ["*", [0.5, 0], e],
            lambda e: ["**", e, 2], lambda e: ["**", e, -1]]
    return out
