"""Reference model for C53: fermionic ladder operators as plain numpy matrices (documented Jordan-Wigner formula,
mode 0 = most significant qubit) and the 'computed' basis change between a candidate mapping and the reference.

A word is a list of [orbital, sign] with sign '+' (creation) or '-' (annihilation), in operator order."""
import itertools

import numpy as np

I2 = np.eye(2, dtype=complex)
PZ = np.diag([1.0, -1.0]).astype(complex)
PX = np.array([[0, 1], [1, 0]], dtype=complex)
PY = np.array([[0, -1j], [1j, 0]], dtype=complex)
LOWER = np.array([[0, 1], [0, 0]], dtype=complex)  # (X + iY)/2 = |0><1|

_LAD = {}


def kron(*ms):
    out = np.array([[1]], dtype=complex)
    for m in ms:
        out = np.kron(out, m)
    return out


def ladders(n):
    """[a_0 .. a_{n-1}] with a_j = Z x..x Z x (X+iY)/2 x I x .. x I."""
    if n not in _LAD:
        _LAD[n] = [kron(*([PZ] * j + [LOWER] + [I2] * (n - j - 1))) for j in range(n)]
    return _LAD[n]


def word_matrix(word, n):
    a = ladders(n)
    M = np.eye(2 ** n, dtype=complex)
    for orb, sign in word:
        M = M @ (a[orb].conj().T if sign == "+" else a[orb])
    return M


def letters(n):
    return [[j, s] for j in range(n) for s in ("+", "-")]


def all_words(n, maxlen, minlen=0):
    L = letters(n)
    for k in range(minlen, maxlen + 1):
        for w in itertools.product(L, repeat=k):
            yield [list(x) for x in w]


def adjoint_word(word):
    return [[o, "-" if s == "+" else "+"] for o, s in reversed(word)]


def parity_ladder_doc(j, n):
    """Documented parity-mapping annihilator: a_j = 1/2 (Z_{j-1} X_j + i Y_j) x X_{j+1} .. X_{n-1}."""
    t1 = [I2] * n
    t2 = [I2] * n
    t1[j] = PX
    t2[j] = PY
    if j > 0:
        t1[j - 1] = PZ
    for k in range(j + 1, n):
        t1[k] = PX
        t2[k] = PX
    return 0.5 * (kron(*t1) + 1j * kron(*t2))


def fock_basis_change(ann):
    """ann = candidate images of a_0..a_{n-1} (matrices).  Returns (U, problems): U maps the reference occupation basis
    |n_0 .. n_{n-1}> (index = binary n_0 n_1 ..) to (a_0^+)^{n_0} .. (a_{n-1}^+)^{n_{n-1}} |vac>, where |vac> spans the
    common kernel of the candidate annihilators (computed as the 0-eigenspace of the total number operator)."""
    n = len(ann)
    dim = ann[0].shape[0]
    N = sum(a.conj().T @ a for a in ann)
    problems = []
    if np.abs(N - N.conj().T).max() > 1e-12:
        problems.append("number operator not Hermitian")
    vals, vecs = np.linalg.eigh((N + N.conj().T) / 2)
    zero = [i for i, v in enumerate(vals) if abs(v) < 1e-9]
    if len(zero) != 1:
        problems.append(f"vacuum not unique: {len(zero)} zero modes of the number operator")
        return None, problems
    vac = vecs[:, zero[0]]
    U = np.zeros((dim, dim), dtype=complex)
    for idx in range(dim):
        occ = [(idx >> (n - 1 - j)) & 1 for j in range(n)]
        v = vac.copy()
        for j in reversed(range(n)):
            if occ[j]:
                v = ann[j].conj().T @ v
        U[:, idx] = v
    if np.abs(U.conj().T @ U - np.eye(dim)).max() > 1e-9:
        problems.append("Fock states built from the images are not orthonormal")
    return U, problems


def selftest():
    for n in (1, 2, 3):
        a = ladders(n)
        for i in range(n):
            for j in range(n):
                assert np.abs(a[i] @ a[j].conj().T + a[j].conj().T @ a[i] - (i == j) * np.eye(2 ** n)).max() < 1e-12
                assert np.abs(a[i] @ a[j] + a[j] @ a[i]).max() < 1e-12
        U, pr = fock_basis_change(a)
        assert not pr and np.abs(np.abs(U) - np.eye(2 ** n)).max() < 1e-12
