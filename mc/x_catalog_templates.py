"""Template recipes of the operator-instance catalogue (imported by mc.x_catalog._ensure; registers into RECIPES).

Every template is given at its one or two smallest legal sizes; array-valued parameters come from the deterministic
low-discrepancy table (mc.x_alphabet.ld) plus all-zeros and one-hot rows (DESIGN §3.3)."""
import math

import numpy as np

from mc import x_alphabet as A
from mc.x_catalog import ARR, OP, OPS, P, RECIPES, U, W, W1, _leaf, recipe, sk

T = "template"


def arrs(shape, salt=0, lo=-math.pi, hi=math.pi):
    """[(label, encoded array)]: generic low-discrepancy, zeros, one-hot."""
    oh = np.zeros(shape)
    if oh.size:
        oh.flat[oh.size // 2] = A.G1
    return [("generic", ARR(A.ld(shape, salt, lo, hi))), ("zeros", ARR(np.zeros(shape))), ("onehot", ARR(oh))]


def tmpl(name, f=None):
    return lambda *a, v="", p=(), **kw: sk(name, f or name, *a, v=v, p=p, **kw)


# ----------------------------------------------------------------------------------------------- subroutines
@recipe("QFT", T)
def _qft(tier):
    return [sk("QFT", "QFT", v=f"{n}w", wires=W(range(n))) for n in ((2, 1, 3) if tier != "thorough" else (2, 1, 3, 4))]


@recipe("AQFT", T)
def _aqft(tier):
    return [sk("AQFT", "AQFT", v=f"{n}w,order{o}", order=o, wires=W(range(n))) for n, o in ((3, 1), (2, 1), (3, 2), (4, 1), (3, 0))]


@recipe("Permute", T)
def _permute(tier):
    return [sk("Permute", "Permute", W(perm), v="".join(map(str, perm)), wires=W(range(len(perm))))
            for perm in ([1, 2, 0], [1, 0], [2, 1, 0], [0, 2, 1, 3], [3, 0, 1, 2])]


@recipe("GroverOperator", T)
def _grover(tier):
    return [sk("GroverOperator", "GroverOperator", v="2w", wires=W([0, 1])), sk("GroverOperator", "GroverOperator", v="3w", wires=W([0, 1, 2])),
            sk("GroverOperator", "GroverOperator", v="3w,work", wires=W([0, 1, 2]), work_wires=W([3]))]


@recipe("FlipSign", T)
def _flipsign(tier):
    return [sk("FlipSign", "FlipSign", st, v=str(st), wires=W(range(n))) for st, n in (([1, 0], 2), ([0, 0], 2), (1, 1), ([1, 1, 0], 3), (2, 2))]


@recipe("Incrementer", T)
def _incrementer(tier):
    return [sk("Incrementer", "Incrementer", v="2w", wires=W([0, 1])), sk("Incrementer", "Incrementer", v="3w", wires=W([0, 1, 2])),
            sk("Incrementer", "Incrementer", v="3w,work", wires=W([0, 1, 2]), work_wires=W([3]))]


@recipe("Adder", T)
def _adder(tier):
    return [sk("Adder", "Adder", 3, v="k3,mod8,3w", x_wires=W([0, 1, 2]), mod=8, work_wires=W([3, 4])),
            sk("Adder", "Adder", 2, v="k2,mod5,3w", x_wires=W([0, 1, 2]), mod=5, work_wires=W([3, 4])),
            sk("Adder", "Adder", 1, v="k1,mod4,2w", x_wires=W([0, 1]), mod=4, work_wires=W([2, 3]))]


@recipe("PhaseAdder", T)
def _phaseadder(tier):
    return [sk("PhaseAdder", "PhaseAdder", 3, v="k3,mod8,3w", x_wires=W([0, 1, 2]), mod=8),
            sk("PhaseAdder", "PhaseAdder", 2, v="k2,mod5,4w", x_wires=W([0, 1, 2, 3]), mod=5, work_wire=W([4])),
            sk("PhaseAdder", "PhaseAdder", 1, v="k1,mod4,2w", x_wires=W([0, 1]), mod=4)]


@recipe("Multiplier", T)
def _multiplier(tier):
    return [sk("Multiplier", "Multiplier", 3, v="k3,mod4,2w", x_wires=W([0, 1]), mod=4, work_wires=W([2, 3])),
            sk("Multiplier", "Multiplier", 2, v="k2,mod3,2w", x_wires=W([0, 1]), mod=3, work_wires=W([2, 3, 4, 5]))]


@recipe("OutAdder", T)
def _outadder(tier):
    return [sk("OutAdder", "OutAdder", v="mod4", x_wires=W([0, 1]), y_wires=W([2, 3]), output_wires=W([4, 5]), mod=4),
            sk("OutAdder", "OutAdder", v="mod3", x_wires=W([0, 1]), y_wires=W([2, 3]), output_wires=W([4, 5]), mod=3, work_wires=W([6, 7])),
            sk("OutAdder", "OutAdder", v="1+1->2", x_wires=W([0]), y_wires=W([1]), output_wires=W([2, 3]))]


@recipe("OutMultiplier", T)
def _outmult(tier):
    return [sk("OutMultiplier", "OutMultiplier", v="mod4", x_wires=W([0, 1]), y_wires=W([2, 3]), output_wires=W([4, 5]), mod=4),
            sk("OutMultiplier", "OutMultiplier", v="mod3", x_wires=W([0, 1]), y_wires=W([2, 3]), output_wires=W([4, 5]), mod=3, work_wires=W([6, 7])),
            sk("OutMultiplier", "OutMultiplier", v="1x1", x_wires=W([0]), y_wires=W([1]), output_wires=W([2, 3]))]


@recipe("ModExp", T)
def _modexp(tier):
    return [sk("ModExp", "ModExp", v="base3,mod4", x_wires=W([0, 1]), output_wires=W([2, 3]), base=3, mod=4, work_wires=W([4, 5])),
            sk("ModExp", "ModExp", v="base2,mod3", x_wires=W([0, 1]), output_wires=W([2, 3]), base=2, mod=3, work_wires=W([4, 5, 6, 7]))]


@recipe("OutPoly", T)
def _outpoly(tier):
    return [sk("OutPoly", "OutPoly", {"$fn": "poly_xy"}, v="x+2y,mod4", input_registers=[W([0, 1]), W([2, 3])], output_wires=W([4, 5]), mod=4),
            sk("OutPoly", "OutPoly", {"$fn": "poly_sq"}, v="x^2+1,mod3", input_registers=[W([0, 1])], output_wires=W([2, 3]), mod=3,
               work_wires=W([4, 5]))]


@recipe("SemiAdder", T)
def _semiadder(tier):
    return [sk("SemiAdder", "SemiAdder", v="2+2", x_wires=W([0, 1]), y_wires=W([2, 3]), work_wires=W([4])),
            sk("SemiAdder", "SemiAdder", v="1+2", x_wires=W([0]), y_wires=W([1, 2]), work_wires=W([3])),
            sk("SemiAdder", "SemiAdder", v="3+3", x_wires=W([0, 1, 2]), y_wires=W([3, 4, 5]), work_wires=W([6, 7])),
            sk("SemiAdder", "SemiAdder", v="2+1", x_wires=W([0, 1]), y_wires=W([2]))]


@recipe("OutSquare", T)
def _outsquare(tier):
    return [sk("OutSquare", "OutSquare", v="2->4", x_wires=W([0, 1]), output_wires=W([2, 3, 4, 5]), work_wires=W([6, 7, 8, 9])),
            sk("OutSquare", "OutSquare", v="2->4,zeroed", x_wires=W([0, 1]), output_wires=W([2, 3, 4, 5]), work_wires=W([6, 7, 8, 9]),
               output_wires_zeroed=True)]


@recipe("SignedOutSquare", T)
def _soutsquare(tier):
    return [sk("SignedOutSquare", "SignedOutSquare", v="2->4", x_wires=W([0, 1]), output_wires=W([2, 3, 4, 5]), work_wires=W([6, 7, 8, 9])),
            sk("SignedOutSquare", "SignedOutSquare", v="2->4,zeroed", x_wires=W([0, 1]), output_wires=W([2, 3, 4, 5]), work_wires=W([6, 7, 8, 9]),
               output_wires_zeroed=True)]


@recipe("SignedOutMultiplier", T)
def _soutmult(tier):
    return [sk("SignedOutMultiplier", "SignedOutMultiplier", v="2x2->4,zeroed", x_wires=W([0, 1]), y_wires=W([2, 3]), output_wires=W([4, 5, 6, 7]),
               work_wires=W([8, 9, 10, 11]), output_wires_zeroed=True),
            sk("SignedOutMultiplier", "SignedOutMultiplier", v="2x2->4,9work", x_wires=W([0, 1]), y_wires=W([2, 3]), output_wires=W([4, 5, 6, 7]),
               work_wires=W(range(8, 17)))]


@recipe("ControlledSequence", T)
def _cseq(tier):
    return [sk("ControlledSequence", "ControlledSequence", OP(_leaf("RX", A.G1, wires=[2])), v="RX,2c", control=W([0, 1])),
            sk("ControlledSequence", "ControlledSequence", OP(_leaf("PhaseShift", A.G2, wires=[1])), v="PhaseShift,1c", control=W([0])),
            sk("ControlledSequence", "ControlledSequence", OP(_leaf("IsingXX", A.G1, wires=[2, 3])), v="IsingXX,2c", control=W([0, 1]))]


@recipe("QuantumPhaseEstimation", T)
def _qpe(tier):
    return [sk("QuantumPhaseEstimation", "QuantumPhaseEstimation", OP(_leaf("RZ", A.G1, wires=[0])), v="RZ,2est", estimation_wires=W([1, 2])),
            sk("QuantumPhaseEstimation", "QuantumPhaseEstimation", U("haar2"), v="matrix,1est", target_wires=W([0]), estimation_wires=W([1])),
            sk("QuantumPhaseEstimation", "QuantumPhaseEstimation", OP(_leaf("T", wires=[0])), v="T,3est", estimation_wires=W([1, 2, 3]))]


@recipe("Select", T)
def _select(tier):
    ops4 = OPS([_leaf("PauliX", wires=[2]), _leaf("RY", A.G1, wires=[2]), _leaf("Hadamard", wires=[3]), _leaf("CNOT", wires=[2, 3])])
    ops3 = OPS([_leaf("PauliZ", wires=[2]), _leaf("RX", A.G2, wires=[2]), _leaf("SWAP", wires=[2, 3])])
    ops2 = OPS([_leaf("PauliX", wires=[1]), _leaf("PauliY", wires=[1])])
    return [sk("Select", "Select", ops4, v="4ops,2c", control=W([0, 1])), sk("Select", "Select", ops3, v="3ops,2c", control=W([0, 1])),
            sk("Select", "Select", ops2, v="2ops,1c", control=W([0])),
            sk("Select", "Select", ops3, v="3ops,2c,partial", control=W([0, 1]), partial=True),
            sk("Select", "Select", ops4, v="4ops,2c,work", control=W([0, 1]), work_wires=W([4]))]


@recipe("SelectPauliRot", T)
def _selectpaulirot(tier):
    out = []
    for ax in ("Z", "Y", "X"):
        out.append(sk("SelectPauliRot", "SelectPauliRot", ARR(A.ld((4,), 1)), v=f"2c,{ax}", control_wires=W([0, 1]), target_wire=W1(2), rot_axis=ax))
    out.append(sk("SelectPauliRot", "SelectPauliRot", ARR(A.ld((2,), 2)), v="1c,Z", control_wires=W([0]), target_wire=W1(1), rot_axis="Z"))
    out.append(sk("SelectPauliRot", "SelectPauliRot", ARR(np.zeros(4)), v="2c,Z,zeros", control_wires=W([0, 1]), target_wire=W1(2), rot_axis="Z"))
    return out


@recipe("QROM", T)
def _qrom(tier):
    bits = [[0, 1], [1, 1], [1, 0], [0, 0]]
    out = [sk("QROM", "QROM", ARR(bits, "int"), v="4x2,work,clean", control_wires=W([0, 1]), target_wires=W([2, 3]), work_wires=W([4, 5]), clean=True),
           sk("QROM", "QROM", ARR(bits, "int"), v="4x2,nowork", control_wires=W([0, 1]), target_wires=W([2, 3]), work_wires=W([]), clean=False),
           sk("QROM", "QROM", ARR(bits, "int"), v="4x2,work,dirty", control_wires=W([0, 1]), target_wires=W([2, 3]), work_wires=W([4, 5]), clean=False),
           sk("QROM", "QROM", ARR([[1], [0]], "int"), v="2x1", control_wires=W([0]), target_wires=W([1]), work_wires=W([]), clean=False),
           sk("QROM", "QROM", ARR(bits[:3], "int"), v="3x2", control_wires=W([0, 1]), target_wires=W([2, 3]), work_wires=W([4, 5]), clean=True)]
    return out


@recipe("Reflection", T)
def _reflection(tier):
    return [sk("Reflection", "Reflection", OP(_leaf("Hadamard", wires=[0])), P(0), p=[A.G1], v="H"),
            sk("Reflection", "Reflection", OP(sk("Prod", "prod", OP(_leaf("Hadamard", wires=[0])), OP(_leaf("RY", A.G2, wires=[1])))), P(0),
               p=[math.pi], v="H@RY"),
            sk("Reflection", "Reflection", OP(sk("Prod", "prod", OP(_leaf("Hadamard", wires=[0])), OP(_leaf("RY", A.G2, wires=[1])))), P(0),
               p=[A.G1], v="H@RY,refl0", reflection_wires=W([0]))]


@recipe("AmplitudeAmplification", T)
def _ampamp(tier):
    Uop = OP(sk("Prod", "prod", OP(_leaf("Hadamard", wires=[0])), OP(_leaf("Hadamard", wires=[1]))))
    O = OP(sk("FlipSign", "FlipSign", [1, 0], wires=W([0, 1])))
    return [sk("AmplitudeAmplification", "AmplitudeAmplification", Uop, O, v="iters1", iters=1),
            sk("AmplitudeAmplification", "AmplitudeAmplification", Uop, O, v="iters2", iters=2),
            sk("AmplitudeAmplification", "AmplitudeAmplification", Uop, O, v="fixed-point", iters=2, fixed_point=True, work_wire=W1(2))]


def _lcu():
    return sk("LinearCombination", "ops.LinearCombination", [0.5, -1.5, 2.0],
              OPS([_leaf("PauliX", wires=[2]), _leaf("PauliZ", wires=[2]), sk("Prod", "prod", OP(_leaf("PauliY", wires=[2])), OP(_leaf("PauliZ", wires=[3])))]))


def _lcu2():
    return sk("LinearCombination", "ops.LinearCombination", [0.6, 0.8], OPS([_leaf("PauliX", wires=[1]), _leaf("PauliZ", wires=[1])]))


@recipe("PrepSelPrep", T)
def _psp(tier):
    return [sk("PrepSelPrep", "PrepSelPrep", OP(_lcu()), v="3terms,2c", control=W([0, 1])),
            sk("PrepSelPrep", "PrepSelPrep", OP(_lcu2()), v="2terms,1c", control=W([0]))]


@recipe("Qubitization", T)
def _qubitization(tier):
    return [sk("Qubitization", "Qubitization", OP(_lcu()), v="3terms,2c", control=W([0, 1])),
            sk("Qubitization", "Qubitization", OP(_lcu2()), v="2terms,1c", control=W([0]))]


@recipe("QSVT", T)
def _qsvt(tier):
    be = OP(sk("BlockEncode", "BlockEncode", ARR([[0.3, 0.1], [0.1, -0.2]]), wires=W([0, 1])))
    pc = lambda a: sk("PCPhase", "PCPhase", P(0), p=[a], dim=2, wires=W([0, 1]))
    return [sk("QSVT", "QSVT", be, OPS([pc(A.G1), pc(A.G2), pc(0.789)]), v="BlockEncode,3proj"),
            sk("QSVT", "QSVT", be, OPS([pc(A.G1), pc(A.G2)]), v="BlockEncode,2proj"),
            sk("QSVT", "QSVT", OP(_leaf("Hadamard", wires=[0])), OPS([_leaf("RZ", A.G1, wires=[0]), _leaf("RZ", A.G2, wires=[0])]), v="H,2RZ")]


@recipe("GQSP", T)
def _gqsp(tier):
    return [sk("GQSP", "GQSP", OP(_leaf("RX", A.G1, wires=[1])), ARR(A.ld((3, 3), 2)), v="RX,deg2", control=W1(0)),
            sk("GQSP", "GQSP", OP(_leaf("PauliZ", wires=[1])), ARR(A.ld((3, 2), 3)), v="Z,deg1", control=W1(0)),
            sk("GQSP", "GQSP", OP(_leaf("IsingXX", A.G2, wires=[1, 2])), ARR(A.ld((3, 1), 4)), v="IsingXX,deg0", control=W1(0))]


@recipe("FABLE", T)
def _fable(tier):
    return [sk("FABLE", "FABLE", ARR(A.ld((2, 2), 1, -0.9, 0.9)), v="2x2", wires=W([0, 1, 2])),
            sk("FABLE", "FABLE", ARR(A.ld((2, 2), 1, -0.9, 0.9)), v="2x2,tol", wires=W([0, 1, 2]), tol=0.5),
            sk("FABLE", "FABLE", ARR(np.zeros((2, 2))), v="zeros", wires=W([0, 1, 2]))]


@recipe("TrotterProduct", T)
def _trotter(tier):
    H2 = sk("Sum", "sum", OP(_leaf("PauliX", wires=[0])), OP(_leaf("PauliZ", wires=[1])),
            OP(sk("SProd", "s_prod", 0.5, OP(sk("Prod", "prod", OP(_leaf("PauliY", wires=[0])), OP(_leaf("PauliY", wires=[1])))))))
    out = []
    for n, order in ((1, 1), (2, 1), (1, 2), (1, 4)):
        out.append(sk("TrotterProduct", "TrotterProduct", OP(H2), P(0), p=[A.G1], v=f"n{n},order{order}", n=n, order=order))
    return out


@recipe("ApproxTimeEvolution", T)
def _ate(tier):
    H = sk("LinearCombination", "ops.LinearCombination", [0.5, -1.5],
           OPS([_leaf("PauliX", wires=[0]), sk("Prod", "prod", OP(_leaf("PauliZ", wires=[0])), OP(_leaf("PauliZ", wires=[1])))]))
    return [sk("ApproxTimeEvolution", "ApproxTimeEvolution", OP(H), P(0), 1, p=[A.G1], v="n1"),
            sk("ApproxTimeEvolution", "ApproxTimeEvolution", OP(H), P(0), 2, p=[A.G2], v="n2")]


@recipe("CommutingEvolution", T)
def _commev(tier):
    H = sk("LinearCombination", "ops.LinearCombination", [0.5, -1.5],
           OPS([sk("Prod", "prod", OP(_leaf("PauliX", wires=[0])), OP(_leaf("PauliX", wires=[1]))),
                sk("Prod", "prod", OP(_leaf("PauliY", wires=[0])), OP(_leaf("PauliY", wires=[1])))]))
    return [sk("CommutingEvolution", "CommutingEvolution", OP(H), P(0), p=[A.G1], v="XX+YY"),
            sk("CommutingEvolution", "CommutingEvolution", OP(H), P(0), p=[A.G1], v="XX+YY,freq", frequencies={"$t": [1.0, 3.0]})]


@recipe("QDrift", T)
def _qdrift(tier):
    H = sk("LinearCombination", "ops.LinearCombination", [0.5, -1.5], OPS([_leaf("PauliX", wires=[0]), _leaf("PauliZ", wires=[1])]))
    return [sk("QDrift", "QDrift", OP(H), P(0), p=[A.G1], v="n2,seed1", n=2, seed=1)]


@recipe("HilbertSchmidt", T)
def _hs(tier):
    return [sk("HilbertSchmidt", "HilbertSchmidt", OPS([_leaf("RZ", A.G1, wires=[1])]), OPS([_leaf("Hadamard", wires=[0])]), v="1w")]


@recipe("LocalHilbertSchmidt", T)
def _lhs(tier):
    return [sk("LocalHilbertSchmidt", "LocalHilbertSchmidt", OPS([_leaf("RZ", A.G1, wires=[2]), _leaf("CNOT", wires=[2, 3])]),
               OPS([_leaf("CZ", wires=[0, 1])]), v="2w")]


@recipe("QuantumMonteCarlo", T)
def _qmc(tier):
    return [sk("QuantumMonteCarlo", "QuantumMonteCarlo", ARR([0.1, 0.2, 0.3, 0.4]), {"$fn": "qmc_func"}, v="2+1,2est", target_wires=W([0, 1, 2]),
               estimation_wires=W([3, 4]))]


@recipe("TwoLocalSwapNetwork", T)
def _tlsn(tier):
    return [sk("TwoLocalSwapNetwork", "TwoLocalSwapNetwork", v="4w,fermionic", wires=W(range(4)), acquaintances=None, weights=None, fermionic=True,
               shift=False),
            sk("TwoLocalSwapNetwork", "TwoLocalSwapNetwork", v="3w,swap,shift", wires=W(range(3)), acquaintances=None, weights=None,
               fermionic=False, shift=True)]


@recipe("FFFT", T)
def _ffft(tier):
    return [sk("FFFT", "FFFT", v="2w", wires=W([0, 1])), sk("FFFT", "FFFT", v="4w", wires=W(range(4)))]


@recipe("TwoWireFFT", T)
def _twfft(tier):
    return [sk("TwoWireFFT", "templates.TwoWireFFT", v="", wires=W([0, 1]))]


@recipe("IQP", T)
def _iqp(tier):
    return [sk("IQP", "IQP", v="2w", weights=[0.89, 0.54], wires=W([0, 1]), pattern=[[[0]], [[1]]], spin_sym=False),
            sk("IQP", "IQP", v="2w,pair", weights=[0.3, -1.234], wires=W([0, 1]), pattern=[[[0, 1]], [[1]]], spin_sym=False),
            sk("IQP", "IQP", v="2w,spin_sym", weights=[0.3], wires=W([0, 1]), pattern=[[[0, 1]]], spin_sym=True)]


# ----------------------------------------------------------------------------------------------- embeddings
@recipe("AngleEmbedding", T)
def _angleemb(tier):
    out = []
    for rot in ("X", "Y", "Z"):
        out.append(sk("AngleEmbedding", "AngleEmbedding", ARR(A.ld((2,), 1)), v=f"2f,2w,{rot}", wires=W([0, 1]), rotation=rot))
    out.append(sk("AngleEmbedding", "AngleEmbedding", ARR(A.ld((2,), 2)), v="2f,3w,X", wires=W([0, 1, 2]), rotation="X"))
    out.append(sk("AngleEmbedding", "AngleEmbedding", ARR(np.zeros(1)), v="zeros,1w", wires=W([0]), rotation="Y"))
    return out


@recipe("AmplitudeEmbedding", T)
def _ampemb(tier):
    return [sk("AmplitudeEmbedding", "AmplitudeEmbedding", ARR(A.ld_state(4, 1), "complex"), v="2w", wires=W([0, 1])),
            sk("AmplitudeEmbedding", "AmplitudeEmbedding", ARR([1.0, 2.0, 2.0]), v="2w,pad,normalize", wires=W([0, 1]), pad_with=0.0, normalize=True),
            sk("AmplitudeEmbedding", "AmplitudeEmbedding", ARR([0.6, 0.8]), v="1w,real", wires=W([0]))]


@recipe("IQPEmbedding", T)
def _iqpemb(tier):
    return [sk("IQPEmbedding", "IQPEmbedding", ARR(A.ld((2,), 1)), v="2w", wires=W([0, 1])),
            sk("IQPEmbedding", "IQPEmbedding", ARR(A.ld((3,), 2)), v="3w,rep2", wires=W([0, 1, 2]), n_repeats=2),
            sk("IQPEmbedding", "IQPEmbedding", ARR(A.ld((3,), 2)), v="3w,pattern", wires=W([0, 1, 2]), pattern=[W([0, 2])]),
            sk("IQPEmbedding", "IQPEmbedding", ARR(np.zeros(2)), v="2w,zeros", wires=W([0, 1]))]


@recipe("QAOAEmbedding", T)
def _qaoaemb(tier):
    out = []
    for lf in ("Y", "X", "Z"):
        out.append(sk("QAOAEmbedding", "QAOAEmbedding", ARR(A.ld((2,), 1)), ARR(A.ld((1, 3), 2)), v=f"2w,1layer,{lf}", wires=W([0, 1]), local_field=lf))
    out.append(sk("QAOAEmbedding", "QAOAEmbedding", ARR(A.ld((1,), 1)), ARR(A.ld((2, 1), 3)), v="1w,2layers", wires=W([0])))
    out.append(sk("QAOAEmbedding", "QAOAEmbedding", ARR(A.ld((3,), 1)), ARR(A.ld((1, 6), 4)), v="3w,1layer", wires=W([0, 1, 2])))
    return out


# ----------------------------------------------------------------------------------------------- layers
@recipe("BasicEntanglerLayers", T)
def _bel(tier):
    out = [sk("BasicEntanglerLayers", "BasicEntanglerLayers", a, v=f"1x2,{lab}", wires=W([0, 1])) for lab, a in arrs((1, 2), 1)]
    out.append(sk("BasicEntanglerLayers", "BasicEntanglerLayers", ARR(A.ld((2, 3), 2)), v="2x3,RY", wires=W([0, 1, 2]), rotation={"$cls": "RY"}))
    out.append(sk("BasicEntanglerLayers", "BasicEntanglerLayers", ARR(A.ld((1, 1), 2)), v="1x1", wires=W([0])))
    return out


@recipe("StronglyEntanglingLayers", T)
def _sel(tier):
    out = [sk("StronglyEntanglingLayers", "StronglyEntanglingLayers", a, v=f"1x2x3,{lab}", wires=W([0, 1])) for lab, a in arrs((1, 2, 3), 1)]
    out.append(sk("StronglyEntanglingLayers", "StronglyEntanglingLayers", ARR(A.ld((2, 3, 3), 2)), v="2x3x3,CZ,ranges", wires=W([0, 1, 2]),
                  ranges=[1, 2], imprimitive={"$cls": "CZ"}))
    out.append(sk("StronglyEntanglingLayers", "StronglyEntanglingLayers", ARR(A.ld((1, 1, 3), 3)), v="1x1x3", wires=W([0])))
    return out


@recipe("SimplifiedTwoDesign", T)
def _s2d(tier):
    return [sk("SimplifiedTwoDesign", "SimplifiedTwoDesign", ARR(A.ld((2,), 1)), ARR(A.ld((1, 1, 2), 2)), v="2w,1layer", wires=W([0, 1])),
            sk("SimplifiedTwoDesign", "SimplifiedTwoDesign", ARR(A.ld((3,), 1)), ARR(A.ld((2, 2, 2), 2)), v="3w,2layers", wires=W([0, 1, 2])),
            sk("SimplifiedTwoDesign", "SimplifiedTwoDesign", ARR(np.zeros(2)), ARR(np.zeros((1, 1, 2))), v="2w,zeros", wires=W([0, 1]))]


@recipe("RandomLayers", T)
def _randomlayers(tier):
    return [sk("RandomLayers", "RandomLayers", ARR(A.ld((1, 3), 1)), v="1x3,seed42", wires=W([0, 1])),
            sk("RandomLayers", "RandomLayers", ARR(A.ld((2, 2), 2)), v="2x2,seed7", wires=W([0, 1, 2]), seed=7, ratio_imprim=0.5)]


@recipe("GateFabric", T)
def _gatefabric(tier):
    out = [sk("GateFabric", "GateFabric", a, v=f"4w,{lab}", wires=W(range(4)), init_state=ARR([1, 1, 0, 0], "int")) for lab, a in arrs((1, 1, 2), 1)]
    out.append(sk("GateFabric", "GateFabric", ARR(A.ld((1, 1, 2), 2)), v="4w,include_pi", wires=W(range(4)), init_state=ARR([1, 1, 0, 0], "int"),
                  include_pi=True))
    return out


@recipe("ParticleConservingU1", T)
def _pcu1(tier):
    return [sk("ParticleConservingU1", "ParticleConservingU1", a, v=f"2w,{lab}", wires=W([0, 1]), init_state=ARR([1, 0], "int")) for lab, a in arrs((1, 1, 2), 1)]


@recipe("ParticleConservingU2", T)
def _pcu2(tier):
    return [sk("ParticleConservingU2", "ParticleConservingU2", a, v=f"2w,{lab}", wires=W([0, 1]), init_state=ARR([1, 0], "int")) for lab, a in arrs((1, 3), 1)]


# ----------------------------------------------------------------------------------------------- state preparations
@recipe("MottonenStatePreparation", T)
def _mottonen(tier):
    return [sk("MottonenStatePreparation", "MottonenStatePreparation", ARR(A.ld_state(4, 1), "complex"), v="2w,complex", wires=W([0, 1])),
            sk("MottonenStatePreparation", "MottonenStatePreparation", ARR(A.ld_state(2, 2), "complex"), v="1w", wires=W([0])),
            sk("MottonenStatePreparation", "MottonenStatePreparation", ARR(np.array([0, 0, 1, 0], dtype=complex), "complex"), v="2w,onehot", wires=W([0, 1])),
            sk("MottonenStatePreparation", "MottonenStatePreparation", ARR(A.ld_state(8, 3, real=True)), v="3w,real", wires=W([0, 1, 2]))]


@recipe("MultiplexerStatePreparation", T)
def _muxsp(tier):
    return [sk("MultiplexerStatePreparation", "MultiplexerStatePreparation", ARR(A.ld_state(4, 1), "complex"), v="2w,complex", wires=W([0, 1])),
            sk("MultiplexerStatePreparation", "MultiplexerStatePreparation", ARR(A.ld_state(2, 2), "complex"), v="1w", wires=W([0])),
            sk("MultiplexerStatePreparation", "MultiplexerStatePreparation", ARR(np.array([0, 0, 1, 0], dtype=complex), "complex"), v="2w,onehot", wires=W([0, 1]))]


@recipe("ArbitraryStatePreparation", T)
def _asp(tier):
    return [sk("ArbitraryStatePreparation", "ArbitraryStatePreparation", a, v=f"2w,{lab}", wires=W([0, 1])) for lab, a in arrs((6,), 1)] + \
           [sk("ArbitraryStatePreparation", "ArbitraryStatePreparation", ARR(A.ld((2,), 2)), v="1w", wires=W([0]))]


@recipe("ArbitraryUnitary", T)
def _au(tier):
    return [sk("ArbitraryUnitary", "ArbitraryUnitary", a, v=f"2w,{lab}", wires=W([0, 1])) for lab, a in arrs((15,), 1)] + \
           [sk("ArbitraryUnitary", "ArbitraryUnitary", ARR(A.ld((3,), 2)), v="1w", wires=W([0]))]


@recipe("CosineWindow", T)
def _coswin(tier):
    return [sk("CosineWindow", "CosineWindow", v=f"{n}w", wires=W(range(n))) for n in (2, 3)]


@recipe("Superposition", T)
def _superposition(tier):
    return [sk("Superposition", "Superposition", ARR(np.sqrt(np.array([1 / 3, 1 / 3, 1 / 3]))), ARR([[1, 1, 1], [0, 1, 0], [0, 0, 0]], "int"),
               W([0, 1, 2]), W1(3), v="3terms,3w"),
            sk("Superposition", "Superposition", ARR([0.6, 0.8]), ARR([[1, 0], [0, 1]], "int"), W([0, 1]), W1(2), v="2terms,2w")]


@recipe("MPSPrep", T)
def _mpsprep(tier):
    mps = [ARR([[0.0, 0.107], [0.994, 0.0]]), ARR([[[0.0, 0.0], [1.0, 0.0]], [[0.0, 1.0], [0.0, 0.0]]]), ARR([[-1.0, -0.0], [-0.0, -1.0]])]
    return [sk("MPSPrep", "MPSPrep", mps, v="3w,1work", wires=W([1, 2, 3]), work_wires=W([0])),
            sk("MPSPrep", "MPSPrep", mps, v="3w,1work,rc", wires=W([1, 2, 3]), work_wires=W([0]), right_canonicalize=True)]


@recipe("QROMStatePreparation", T)
def _qromsp(tier):
    return [sk("QROMStatePreparation", "QROMStatePreparation", ARR(np.sqrt([0.5, 0.0, 0.25, 0.25])), W([4, 5]), W([1, 2, 3]), W([0]), v="2w,3prec,1work"),
            sk("QROMStatePreparation", "QROMStatePreparation", ARR(A.ld_state(2, 1), "complex"), W([0]), W([1, 2]), v="1w,2prec,complex")]


@recipe("PartialUnaryStatePreparation", T)
def _pusp(tier):
    return [sk("PartialUnaryStatePreparation", "PartialUnaryStatePreparation", ARR(np.array([0.5, 0.5j, -0.5, 0.5]), "complex"), W([0, 1, 2]),
               {"$t": [0, 1, 4, 7]}, W([3, 4]), v="4of8")]


@recipe("SumOfSlatersPrep", T)
def _sosp(tier):
    return [sk("SumOfSlatersPrep", "SumOfSlatersPrep", ARR(np.array([0.5, 0.5j, -0.5, 0.5]), "complex"), W([0, 1, 2]), {"$t": [0, 1, 4, 7]}, v="4of8")]


@recipe("BasisRotation", T)
def _basisrot(tier):
    return [sk("BasisRotation", "BasisRotation", v="2w,haar", wires=W([0, 1]), unitary_matrix=U("haar2")),
            sk("BasisRotation", "BasisRotation", v="3w,real", wires=W([0, 1, 2]),
               unitary_matrix=ARR(np.array([[0.36, -0.48, 0.8], [0.8, 0.6, 0.0], [-0.48, 0.64, 0.6]]))),
            sk("BasisRotation", "BasisRotation", v="2w,identity", wires=W([0, 1]), unitary_matrix=U("I"))]


# ----------------------------------------------------------------------------------------------- qchem
@recipe("FermionicSingleExcitation", T)
def _fse(tier):
    return [sk("FermionicSingleExcitation", "FermionicSingleExcitation", P(0), p=[A.G1], v="3w", wires=W([0, 1, 2])),
            sk("FermionicSingleExcitation", "FermionicSingleExcitation", P(0), p=[A.G1], v="2w", wires=W([0, 1]))]


@recipe("FermionicDoubleExcitation", T)
def _fde(tier):
    return [sk("FermionicDoubleExcitation", "FermionicDoubleExcitation", P(0), p=[A.G1], v="2+2", wires1=W([0, 1]), wires2=W([2, 3])),
            sk("FermionicDoubleExcitation", "FermionicDoubleExcitation", P(0), p=[A.G1], v="3+2", wires1=W([0, 1, 2]), wires2=W([3, 4]))]


@recipe("AllSinglesDoubles", T)
def _asd(tier):
    return [sk("AllSinglesDoubles", "AllSinglesDoubles", a, v=f"4w,{lab}", wires=W(range(4)), hf_state=ARR([1, 1, 0, 0], "int"),
               singles=[W([0, 2]), W([1, 3])], doubles=[W([0, 1, 2, 3])]) for lab, a in arrs((3,), 1)]


@recipe("UCCSD", T)
def _uccsd(tier):
    return [sk("UCCSD", "UCCSD", a, v=f"4w,{lab}", wires=W(range(4)), s_wires=[W([0, 1, 2]), W([1, 2, 3])], d_wires=[[W([0, 1]), W([2, 3])]],
               init_state=ARR([1, 1, 0, 0], "int")) for lab, a in arrs((3,), 1)]


@recipe("kUpCCGSD", T)
def _kupccgsd(tier):
    return [sk("kUpCCGSD", "kUpCCGSD", a, v=f"4w,k1,{lab}", wires=W(range(4)), k=1, delta_sz=0, init_state=ARR([1, 1, 0, 0], "int"))
            for lab, a in arrs((1, 6), 1)]


# ----------------------------------------------------------------------------------------------- tensor networks
@recipe("MPS", T)
def _mps(tier):
    return [sk("MPS", "MPS", v="4w,block2", wires=W(range(4)), n_block_wires=2, block={"$fn": "mps_block"}, n_params_block=2,
               template_weights=ARR(A.ld((3, 2), 1)))]


@recipe("TTN", T)
def _ttn(tier):
    return [sk("TTN", "TTN", v="4w,block2", wires=W(range(4)), n_block_wires=2, block={"$fn": "mps_block"}, n_params_block=2,
               template_weights=ARR(A.ld((3, 2), 1)))]


@recipe("MERA", T)
def _mera(tier):
    return [sk("MERA", "MERA", v="4w,block2", wires=W(range(4)), n_block_wires=2, block={"$fn": "mps_block"}, n_params_block=2,
               template_weights=ARR(A.ld((5, 2), 1)))]


# ----------------------------------------------------------------------------------------------- QRAM
_BITS3 = [[0, 1, 0], [1, 1, 1], [1, 1, 0], [0, 0, 0]]


@recipe("BBQRAM", T)
def _bbqram(tier):
    return [sk("BBQRAM", "BBQRAM", ARR(_BITS3, "int"), v="4x3", control_wires=W([0, 1]), target_wires=W([2, 3, 4]), work_wires=W(range(5, 5 + 1 + 3 * 3)))]


@recipe("HybridQRAM", T)
def _hybridqram(tier):
    return [sk("HybridQRAM", "HybridQRAM", ARR(_BITS3, "int"), v="4x3,k1", control_wires=W([0, 1]), target_wires=W([2, 3, 4]),
               work_wires=W(range(5, 5 + 1 + 1 + 3)), k=1)]


@recipe("SelectOnlyQRAM", T)
def _soqram(tier):
    return [sk("SelectOnlyQRAM", "SelectOnlyQRAM", ARR(_BITS3, "int"), v="4x3", control_wires=W([0, 1]), target_wires=W([2, 3, 4])),
            sk("SelectOnlyQRAM", "SelectOnlyQRAM", ARR(_BITS3 + _BITS3[::-1], "int"), v="8x3,select", control_wires=W([0, 1]), target_wires=W([2, 3, 4]),
               select_wires=W([5]), select_value=1)]


@recipe("FFQRAM", T)
def _ffqram(tier):
    return [sk("FFQRAM", "FFQRAM", v="2addr", amplitudes=ARR(np.sqrt([0.3, 0.7])), wires=W([0, 1, 2, 3]), address=["000", "001"])]


# ----------------------------------------------------------------------------------------------- wrappers over templates
@recipe("LabelledOp", "symbolic")
def _labelled(tier):
    return [sk("LabelledOp", "drawer.label:LabelledOp", OP(_leaf("RX", A.G1, wires=[0])), "my-label", v="RX")]


@recipe("MarkedOp", "symbolic")
def _marked(tier):
    return [sk("MarkedOp", "fourier.mark:MarkedOp", OP(_leaf("RX", A.G1, wires=[0])), "x", v="RX")]


@recipe("TrotterizedQfunc", T)
def _trotterizedqfunc(tier):
    return [sk("TrotterizedQfunc", "templates.TrotterizedQfunc", P(0), 0.7, p=[A.G1], v=f"n{n},order{o}", qfunc={"$fn": "trotter_qfunc"}, n=n, order=o,
               wires=W([0, 1])) for n, o in ((1, 2), (2, 1), (1, 4))]
