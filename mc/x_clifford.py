"""Reference side for C70 (default.clifford): spec -> reference state / statistics, plain numpy.

An op spec is [name, wires] (+ [param] for GlobalPhase); names are the keys of the device's translation table.
Nothing here touches PennyLane: matrices come from mc.refgates ("Adjoint(G)" = conjugate transpose of G).
"""
import itertools
import math

import numpy as np

from mc import refgates as RG
from mc import refsim as RS

PAULI = {"I": RG.I2, "X": RG.X, "Y": RG.Y, "Z": RG.Z}


def ref_mat(name):
    if name.startswith("Adjoint(") and name.endswith(")"):
        return RG.matrix(name[8:-1]).conj().T
    return RG.matrix(name)


def n_wires_of(name):
    base = name[8:-1] if name.startswith("Adjoint(") else name
    return RG.TABLE[base][0]


def appearance_order(ops, extra=()):
    """Wire order of a tape: first appearance in the operations, then in the measurements (`extra`)."""
    out = []
    for o in ops:
        for w in o[1]:
            if w not in out:
                out.append(w)
    for w in extra:
        if w not in out:
            out.append(w)
    return out


def std_order(ops, extra=()):
    """Order in which QuantumScript.map_to_standard_wires lays out a tape (its docstring): operator wires in order of
    first appearance -- unless they already are {0..k-1} followed by the measurement-only wires, then no mapping at all
    (labels are indices) -- then measurement-only wires."""
    opw = appearance_order(ops)
    mo = sorted(set(extra) - set(opw), key=lambda w: (str(type(w)), w))
    k = len(opw)
    if set(opw) == set(range(k)) and mo == list(range(k, k + len(mo))):
        return sorted(opw) + mo
    return opw + mo


def reduced_noconj(state, wires, order):
    """psi psi^T (no conjugate) traced down to `wires` -- model of a known defect, never the oracle."""
    idx = {w: i for i, w in enumerate(order)}
    axes = [idx[w] for w in wires]
    n = state.ndim
    rest = [a for a in range(n) if a not in axes]
    psi = np.transpose(state, axes + rest).reshape(2 ** len(axes), -1)
    return psi @ psi.T


def run(ops, order, init=None):
    """State tensor (2,)*n of the op specs on |0..0> (or init) with `order[0]` most significant."""
    n = len(order)
    idx = {w: i for i, w in enumerate(order)}
    st = RS.zero_state(n) if init is None else np.asarray(init, dtype=complex).reshape((2,) * n)
    for o in ops:
        name, wires = o[0], o[1]
        if name in ("Barrier", "Snapshot"):
            continue
        if name == "GlobalPhase":
            st = st * np.exp(-1j * float(o[2]))
            continue
        st = RS.apply_matrix(st, ref_mat(name), [idx[w] for w in wires], n)
    return st


def unitary(ops, order):
    n = len(order)
    idx = {w: i for i, w in enumerate(order)}
    st = np.eye(2 ** n, dtype=complex).reshape((2,) * n + (2 ** n,))
    for o in ops:
        name, wires = o[0], o[1]
        if name in ("Barrier", "Snapshot"):
            continue
        if name == "GlobalPhase":
            st = st * np.exp(-1j * float(o[2]))
            continue
        st = RS.apply_matrix(st, ref_mat(name), [idx[w] for w in wires], n)
    return st.reshape(2 ** n, 2 ** n)


def word_matrix(word):
    return RG.kron(*[PAULI[c] for c in word])


def pauli_expval(state, word, wires, order):
    idx = {w: i for i, w in enumerate(order)}
    return RS.expval(state, word_matrix(word), [idx[w] for w in wires]).real


def obs_expval(state, M, wires, order):
    idx = {w: i for i, w in enumerate(order)}
    return RS.expval(state, M, [idx[w] for w in wires]).real


def probs(state, wires, order):
    idx = {w: i for i, w in enumerate(order)}
    return RS.probs_of(state, [idx[w] for w in wires])


def reduced(state, wires, order):
    idx = {w: i for i, w in enumerate(order)}
    return RS.reduced_dm(state, [idx[w] for w in wires])


def entropy(state, wires, order, base=None):
    return RS.entropy(reduced(state, wires, order), base)


def reorder(state, order_from, order_to):
    """Re-index a state tensor from wire order `order_from` to `order_to` (same wire set)."""
    perm = [order_from.index(w) for w in order_to]
    return np.transpose(state, perm)


# ----------------------------------------------------------------------------- tableau oracle (Aaronson-Gottesman)
def tableau_row_matrix(row, n):
    """(-1)^r * P(x,z): row = [x_1..x_n, z_1..z_n, r]; (x,z) = (1,0) X, (1,1) Y, (0,1) Z."""
    mats = []
    for j in range(n):
        x, z = int(row[j]), int(row[n + j])
        mats.append({(0, 0): RG.I2, (1, 0): RG.X, (1, 1): RG.Y, (0, 1): RG.Z}[(x, z)])
    return (-1) ** int(row[2 * n]) * RG.kron(*mats)


def tableau_problems(tab, U, n):
    """Rows 0..n-1 must equal U X_i U^dagger, rows n..2n-1 U Z_i U^dagger (Sec. III of Aaronson-Gottesman:
    the tableau starts as (X_i | Z_i) and every gate conjugates the generators).  Returns list of row indices that differ."""
    tab = np.asarray(tab)
    if tab.shape != (2 * n, 2 * n + 1):
        return ["shape"]
    badrows = []
    for i in range(n):
        for half, P in ((0, RG.X), (1, RG.Z)):
            G = RG.kron(*[P if j == i else RG.I2 for j in range(n)])
            want = U @ G @ U.conj().T
            got = tableau_row_matrix(tab[half * n + i], n)
            if not RS.close(want, got, 1e-9):
                badrows.append(half * n + i)
    return badrows


def stabilizer_problems(tab, state, n):
    """Weaker oracle (used after StatePrep, where only the state is defined): the n stabilizer rows stabilize `state`,
    the destabilizer row i anticommutes with stabilizer i and commutes with the other stabilizers."""
    tab = np.asarray(tab)
    if tab.shape != (2 * n, 2 * n + 1):
        return ["shape"]
    v = state.reshape(-1)
    out = []
    S = [tableau_row_matrix(tab[n + i], n) for i in range(n)]
    D = [tableau_row_matrix(tab[i], n) for i in range(n)]
    for i in range(n):
        if not RS.close(S[i] @ v, v, 1e-9):
            out.append(f"stab{i}")
        for j in range(n):
            comm = S[j] @ D[i] - (-1 if i == j else 1) * D[i] @ S[j]
            if not RS.close(comm, np.zeros_like(comm), 1e-9):
                out.append(f"destab{i}-{j}")
    return out


# ----------------------------------------------------------------------------- model of a known defect
def probs_precedence_model(state, wires, order):
    """What `_measure_probability` (tableau=True) returns given its operator-precedence slip
    `prefix_match & bit != outcome`  (parsed as `(prefix_match & bit) != outcome`), evaluated on the REFERENCE state.
    Used only to give that one defect an exact, narrow signature; never as the oracle."""
    idx = {w: i for i, w in enumerate(order)}
    axes = [idx[w] for w in wires]
    k = len(axes)
    n = state.ndim
    tgt = np.array(list(itertools.product((0, 1), repeat=k)), dtype=int).reshape(-1, k)
    integs = list(range(2 ** k))
    res = np.ones(2 ** k)
    visited = []
    for ti in range(2 ** k):
        if integs[ti] in visited:
            continue
        st = state.copy()
        for pos, a in enumerate(axes):
            nrm = float(np.sum(np.abs(st) ** 2))
            sl1 = [slice(None)] * n
            sl1[a] = 1
            p1 = float(np.sum(np.abs(st[tuple(sl1)]) ** 2)) / nrm
            if 1e-9 < p1 < 1 - 1e-9:
                res[ti] /= 2.0
            else:
                outcome = 1 if p1 > 0.5 else 0
                if pos:
                    pref = np.all(tgt[:, :pos] == tgt[ti, :pos], axis=-1)
                    nope = np.where((pref & tgt[:, pos]) != outcome)[0]
                else:
                    nope = np.where(tgt[:, pos] != outcome)[0]
                nope = np.setdiff1d(nope, visited)
                res[nope] = 0.0
                visited.extend(int(x) for x in nope)
                if tgt[ti, pos] != outcome:
                    res[ti] = 0.0
                    break
            sl = [slice(None)] * n
            sl[a] = 1 - int(tgt[ti, pos])
            st = st.copy()
            st[tuple(sl)] = 0
        visited.append(integs[ti])
    return res
