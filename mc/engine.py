"""Engine: case enumeration + sharding, violation bookkeeping, known findings, evidence, exit protocol.

Every explored case is a JSON-able *spec*; live objects are built from it inside the worker.  A check
function takes one spec and returns a Result (ok / bad / skip).  Nothing here samples: the set of explored
cases is exactly what the check's enumerator yields, and VERIF_SEED only rotates the order in which chunks
are handed to workers.
"""
import hashlib
import importlib
import json
import multiprocessing as mp
import os
import sys
import time
import traceback

ROOT = os.path.dirname(os.path.dirname(os.path.abspath(__file__)))
EVIDENCE_DIR = os.environ.get("VERIF_EVIDENCE_DIR") or os.path.join(ROOT, "evidence")
REPLAY_DIR = os.path.join(ROOT, "replays")
KNOWN_DIR = os.path.join(ROOT, "known_findings")
SCHEMA_FILE = os.path.join(ROOT, "mc", "schemas", "EVIDENCE.schema.json")

HARNESS_EXC = (ImportError, MemoryError, OSError, KeyboardInterrupt, SystemExit)


class HarnessError(Exception):
    pass


# ----------------------------------------------------------------------------------------------- results
def ok(outcome=None, nontrivial=True, **extra):
    """Case satisfied the oracle.  `outcome` = any small JSON-able fingerprint of what was observed
    (used to count distinct outcomes); nontrivial=False marks cases that hold trivially."""
    r = {"s": "ok", "o": outcome, "n": bool(nontrivial)}
    if extra:
        r["x"] = extra
    return r


def skip(reason, **extra):
    """Input rejected by the implementation with its documented error (counted, not failed)."""
    r = {"s": "skip", "o": "skip:" + str(reason), "n": False}
    if extra:
        r["x"] = extra
    return r


def bad(signature, observed=None, expected=None, **extra):
    """Oracle violated.  `signature` identifies the *class* of failure for known-finding matching."""
    return {"s": "bad", "sig": str(signature), "obs": _j(observed), "exp": _j(expected), "x": _j(extra),
            "o": "bad:" + str(signature), "n": True}


def _j(v):
    """Best-effort conversion to something json.dumps accepts."""
    try:
        json.dumps(v)
        return v
    except Exception:
        pass
    try:
        import numpy as np

        if isinstance(v, np.ndarray):
            if np.iscomplexobj(v):
                return {"re": np.round(v.real, 10).tolist(), "im": np.round(v.imag, 10).tolist()}
            return np.round(v, 10).tolist() if v.dtype.kind == "f" else v.tolist()
        if isinstance(v, (np.generic,)):
            return _j(v.item())
    except Exception:
        pass
    if isinstance(v, complex):
        return {"re": v.real, "im": v.imag}
    if isinstance(v, dict):
        return {str(k): _j(x) for k, x in v.items()}
    if isinstance(v, (list, tuple, set, frozenset)):
        return [_j(x) for x in v]
    return repr(v)[:2000]


def key_of(spec):
    return json.dumps(spec, sort_keys=True, separators=(",", ":"), default=repr)


def h8(s):
    return hashlib.sha1(s.encode() if isinstance(s, str) else s).digest()[:8]


# ----------------------------------------------------------------------------------------------- workers
_MODS = {}


def _init_worker(path, env):
    os.environ.update(env)
    for p in path:
        if p not in sys.path:
            sys.path.insert(0, p)
    try:
        import faulthandler

        faulthandler.enable()
    except Exception:
        pass


def _call(modname, fname, spec):
    mod = _MODS.get(modname)
    if mod is None:
        mod = _MODS[modname] = importlib.import_module(modname)
        if hasattr(mod, "setup_worker"):
            mod.setup_worker()
    fn = getattr(mod, fname)
    try:
        r = fn(spec)
    except HARNESS_EXC as e:
        return {"s": "harness", "o": "harness", "n": False, "err": f"{type(e).__name__}: {e}",
                "tb": traceback.format_exc()[-3000:]}
    except Exception as e:  # an exception escaping the check = the implementation raised where it must not
        return {"s": "bad", "sig": f"unexpected-exception:{type(e).__name__}", "obs": f"{type(e).__name__}: {e}"[:500],
                "exp": "no exception", "x": {"traceback": traceback.format_exc()[-3000:]},
                "o": "bad:exc", "n": True}
    if r is None or r is True:
        r = ok()
    return r


def _work(args):
    modname, fname, chunk = args
    out = []
    for i, spec in enumerate(chunk):
        r = _call(modname, fname, spec)
        k = key_of(spec)
        # compact: do not ship ok-payloads back, only fingerprints (plus the first spec of a chunk as sample)
        if r["s"] == "ok":
            out.append((k if i == 0 else None, h8(k), "ok", r["n"], h8(key_of(r["o"])), None))
        elif r["s"] == "skip":
            out.append((k if i == 0 else None, h8(k), "skip", False, h8(key_of(r["o"])), r["o"]))
        else:
            r["fn"] = fname
            out.append((k, h8(k), r["s"], r["n"], h8(key_of(r["o"])), r))
    return out


# ----------------------------------------------------------------------------------------------- context
class Ctx:
    def __init__(self, mod, tier, seed, workers=0, only=None):
        self.mod = mod
        self.modname = mod.__name__
        self.prop = mod.PROPERTY
        self.level = getattr(mod, "LEVEL", "exploration")
        self.tier = tier
        self.seed = seed
        self.only = only
        self.workers = workers or min(16, os.cpu_count() or 1)
        self.quick = tier == "quick"
        self.evaluations = 0
        self.nontrivial = set()
        self.outcomes = set()
        self.seen = set()
        self.duplicates = 0
        self.skipped = 0
        self.skip_reasons = {}
        self.samples = []
        self._last_sample = None
        self.violations = []  # dicts
        self.harness_errors = []
        self.coverage = {}  # extra keys contributed by the check
        self.assumptions = list(getattr(mod, "ASSUMPTIONS", []))
        self.notes = []
        self.per_axis = {}
        self._pool = None
        self._pool_kind = None
        self.known = _load_known(self.prop)

    # ---- pool
    def pool(self, start=None):
        start = start or getattr(self.mod, "START", "fork")
        if self._pool is not None and self._pool_kind == start:
            return self._pool
        self.close()
        c = mp.get_context(start)
        env = {k: os.environ[k] for k in os.environ if k.startswith(("VERIF", "OMP", "OPENBLAS", "MKL", "JAX", "PYTHONHASH", "TF_"))}
        self._pool = c.Pool(self.workers, initializer=_init_worker, initargs=(list(sys.path), env))
        self._pool_kind = start
        return self._pool

    def close(self):
        if self._pool is not None:
            try:
                self._pool.terminate()
                self._pool.join()
            except Exception:
                pass
            self._pool = None

    # ---- exploration drivers
    def enumerate(self, specs, fn="check", chunk=None, parallel=None, axis=None, start=None, sample_every=None):
        """Run check function `fn` (name of a module-level function of the check module) on every spec.
        Complete enumeration: every spec yielded is evaluated exactly once."""
        if parallel is None:
            parallel = getattr(self.mod, "PARALLEL", True)
        specs = list(specs) if not isinstance(specs, list) else specs
        n = len(specs)
        if axis:
            self.per_axis[axis] = self.per_axis.get(axis, 0) + n
        if n == 0:
            return
        if not parallel or n < 8 or self.workers <= 1:
            res = _work((self.modname, fn, specs))
            self._absorb(res, specs_by_key=None)
            return
        if chunk is None:
            chunk = max(1, min(256, n // (self.workers * 8) or 1))
        chunks = [specs[i:i + chunk] for i in range(0, n, chunk)]
        if self.seed:
            r = self.seed % len(chunks)
            chunks = chunks[r:] + chunks[:r]
        p = self.pool(start)
        for res in p.imap_unordered(_work, [(self.modname, fn, c) for c in chunks]):
            self._absorb(res)

    def record(self, spec, result):
        """Record one result produced in the driver process itself (BFS / schedule explorers)."""
        k = key_of(spec)
        if result is None or result is True:
            result = ok()
        r = result
        if r["s"] in ("ok", "skip"):
            self._absorb([(k, h8(k), r["s"], r["n"], h8(key_of(r["o"])), r["o"] if r["s"] == "skip" else None)])
        else:
            self._absorb([(k, h8(k), r["s"], r["n"], h8(key_of(r["o"])), r)])

    def _absorb(self, res, specs_by_key=None):
        for k, hk, status, nontriv, ho, payload in res:
            self.evaluations += 1
            if hk in self.seen:
                self.duplicates += 1
            else:
                self.seen.add(hk)
                if nontriv:
                    self.nontrivial.add(hk)
            self.outcomes.add(ho)
            if status == "skip":
                self.skipped += 1
                reason = str(payload)[:80]
                self.skip_reasons[reason] = self.skip_reasons.get(reason, 0) + 1
            elif status == "bad":
                self.violations.append({"key": k, **payload})
            elif status == "harness":
                self.harness_errors.append({"key": k, **payload})
            if k is not None and len(self.samples) < 3 and status != "bad":
                self.samples.append(json.loads(k))
            if k is not None:
                self._last_sample = k

    def add_samples(self, *specs):
        for s in specs:
            if len(self.samples) < 12:
                self.samples.append(_j(s))

    def note(self, text):
        self.notes.append(text)

    # ---- finish: known findings, replays, evidence, exit code
    def finish(self, wall):
        prop = self.prop
        if self.harness_errors:
            for h in self.harness_errors[:3]:
                print("HARNESS-ERROR", prop, h.get("err"), "\n", h.get("tb", ""))
            print(f"HARNESS-ERROR property={prop} {len(self.harness_errors)} cases failed inside the harness")
            return 2
        known_hit, new = {}, []
        for v in self.violations:
            ent = self.known.get(v["sig"])
            if ent is not None:
                known_hit.setdefault(v["sig"], []).append(v)
            else:
                new.append(v)
        for sig, vs in known_hit.items():
            ent = self.known[sig]
            print(f"KNOWN-FINDING: property={prop} {ent.get('what_fails', sig)} [signature={sig}; {len(vs)} case(s) this run]")
        paths = []
        seen_sig = {}
        for v in new:
            seen_sig.setdefault(v["sig"], []).append(v)
        for sig, vs in seen_sig.items():
            v = min(vs, key=lambda v: (len(v["key"] or ""), v["key"] or ""))  # smallest spec of that class
            paths.append((sig, len(vs), write_replay(prop, v, self.tier)))
        samples = list(self.samples)
        if self._last_sample is not None:
            try:
                samples.append(json.loads(self._last_sample))
            except Exception:
                pass
        if not samples:
            samples = ["(no sample recorded)"]
        cov = {
            "evaluations": int(self.evaluations),
            "distinct_nontrivial": int(len(self.nontrivial)),
            "rule": getattr(self.mod, "RULE", "complete enumeration of the declared alphabet x bound; distinct = distinct case spec; "
                            "non-trivial per the check's own predicate"),
            "samples": samples[:12],
            "exhaustive": True,
            "distinct_cases": len(self.seen),
            "duplicates": self.duplicates,
            "distinct_outcomes": len(self.outcomes),
            "rejected_by_documented_error": self.skipped,
            "reject_reasons": dict(sorted(self.skip_reasons.items(), key=lambda kv: -kv[1])[:12]),
            "per_axis_counts": self.per_axis,
            "known_findings_hit": {s: len(v) for s, v in known_hit.items()},
            "workers": self.workers,
        }
        cov.update(self.coverage)
        if self.notes:
            cov["notes"] = self.notes
        ev = {
            "property_id": prop,
            "tier": self.tier,
            "seed": int(self.seed),
            "level": self.level,
            "coverage": _j(cov),
            "assumptions": self.assumptions,
            "wall_s": round(float(wall), 3),
            "violations": len(new),
        }
        write_evidence(prop, ev)
        print(f"[{prop}] tier={self.tier} evaluations={self.evaluations} distinct={len(self.seen)} "
              f"nontrivial={len(self.nontrivial)} outcomes={len(self.outcomes)} skipped={self.skipped} "
              f"violations={len(new)} known={sum(len(v) for v in known_hit.values())} wall={wall:.1f}s"
              + "".join(f" {k}={v}" for k, v in self.coverage.items() if isinstance(v, (int, float, bool))))
        if self.evaluations >= 20 and len(self.outcomes) <= 1:
            print(f"WARNING property={prop}: a single distinct outcome over {self.evaluations} evaluations (vacuous?)")
        if new:
            for sig, n, path in paths[:8]:
                print(f"VIOLATION property={prop} replay={path}   # {sig} ({n} case(s))")
            return 1
        return 0


# ----------------------------------------------------------------------------------------------- files
def _load_known(prop):
    """known_findings/<prop>.json: {"findings": [{"property","signature","what_fails","status":"known"|"fixed",...}]}.
    Read-only at run time; only status == "known" suppresses, matched by exact signature."""
    try:
        with open(os.path.join(KNOWN_DIR, f"{prop}.json")) as f:
            data = json.load(f)
    except FileNotFoundError:
        return {}
    out = {}
    for e in data.get("findings", []):
        if e.get("property") == prop and e.get("status") == "known":
            out[e["signature"]] = e
    return out


def write_replay(prop, v, tier):
    d = os.path.join(REPLAY_DIR, prop)
    os.makedirs(d, exist_ok=True)
    key = v.get("key") or key_of(v.get("x"))
    name = hashlib.sha1((v["sig"] + "|" + key).encode()).hexdigest()[:16]
    path = os.path.join(d, name + ".json")
    body = {
        "property": prop,
        "signature": v["sig"],
        "fn": v.get("fn", "check"),
        "spec": json.loads(key) if v.get("key") else None,
        "observed": v.get("obs"),
        "expected": v.get("exp"),
        "extra": v.get("x"),
        "tier": tier,
        "how_to_replay": f"./run {prop} --replay {path}",
    }
    with open(path, "w") as f:
        json.dump(_j(body), f, indent=1, default=repr)
    return path


def write_evidence(prop, ev):
    os.makedirs(EVIDENCE_DIR, exist_ok=True)
    try:
        import jsonschema

        with open(SCHEMA_FILE) as f:
            schema = json.load(f)
        jsonschema.validate(ev, schema)
    except ImportError:
        pass
    path = os.path.join(EVIDENCE_DIR, f"{prop}.json")
    tmp = path + ".tmp"
    with open(tmp, "w") as f:
        json.dump(ev, f, indent=1, default=repr)
    os.replace(tmp, path)


def replay(mod, path):
    with open(path) as f:
        body = json.load(f)
    prop = mod.PROPERTY
    if hasattr(mod, "replay"):
        r = mod.replay(body)
    else:
        r = _call(mod.__name__, body.get("fn", "check"), body["spec"])
    if r is None or r is True:
        r = ok()
    if r["s"] == "bad":
        print(f"replayed: signature={r['sig']} observed={json.dumps(_j(r.get('obs')))[:600]} expected={json.dumps(_j(r.get('exp')))[:600]}")
        known = _load_known(prop)
        if r["sig"] in known:
            print(f"KNOWN-FINDING: property={prop} {known[r['sig']].get('what_fails')}")
            return 0
        print(f"VIOLATION property={prop} replay={path}")
        return 1
    print(f"replayed: case passes ({r['s']})")
    return 0
