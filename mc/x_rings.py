"""Independent reference arithmetic for Z[sqrt2], Z[omega] and D[omega] 2x2 matrices (used by checks/C16.py).

Everything is plain Python integers.  An element of Z[omega] is a 4-tuple (a, b, c, d) = a w^3 + b w^2 + c w + d
(the coefficient order PennyLane's ZOmega uses) and is multiplied as a polynomial in w reduced with w^4 = -1;
conjugations are the Galois automorphisms w -> w^k (k = 7: complex conjugate, k = 5: sqrt2 -> -sqrt2), evaluated
by substitution -- no product / conjugation formula is copied from the implementation.
An element of Z[sqrt2] is a pair (a, b) = a + b sqrt2."""
import cmath
import math

SQRT2 = math.sqrt(2.0)
OMEGA = cmath.exp(1j * math.pi / 4)


# ------------------------------------------------------------------ Z[omega]
def _poly(x):
    """(a, b, c, d) -> coefficient list [d, c, b, a] (index = power of w)."""
    a, b, c, d = x
    return [d, c, b, a]


def _unpoly(p):
    return (p[3], p[2], p[1], p[0])


def zw_reduce(coeffs):
    """reduce a coefficient list (index = power of w) with w^4 = -1."""
    out = [0, 0, 0, 0]
    for k, v in enumerate(coeffs):
        q, r = divmod(k, 4)
        out[r] += v if q % 2 == 0 else -v
    return out


def zw_mul(x, y):
    px, py = _poly(x), _poly(y)
    prod = [0] * 7
    for i, u in enumerate(px):
        for j, v in enumerate(py):
            prod[i + j] += u * v
    return _unpoly(zw_reduce(prod))


def zw_add(x, y):
    return tuple(u + v for u, v in zip(x, y))


def zw_neg(x):
    return tuple(-u for u in x)


def zw_scale(x, n):
    return tuple(u * n for u in x)


def zw_aut(x, k):
    """Galois automorphism w -> w^k (k odd)."""
    px = _poly(x)
    big = [0] * (3 * k + 1)
    for i, u in enumerate(px):
        big[i * k] += u
    return _unpoly(zw_reduce(big))


def zw_conj(x):
    return zw_aut(x, 7)


def zw_adj2(x):
    return zw_aut(x, 5)


ZW_ONE = (0, 0, 0, 1)
ZW_ZERO = (0, 0, 0, 0)
ZW_SQRT2 = (-1, 0, 1, 0)  # w - w^3


def zw_norm_int(x):
    """field norm Z[omega] -> Z: product of the four Galois conjugates."""
    p = ZW_ONE
    for k in (1, 3, 5, 7):
        p = zw_mul(p, zw_aut(x, k))
    assert p[0] == p[1] == p[2] == 0
    return p[3]


def zw_complex(x):
    a, b, c, d = x
    return a * OMEGA ** 3 + b * OMEGA ** 2 + c * OMEGA + d


def zw_divides(g, x):
    """does g divide x in Z[omega]?  x/g = x * (product of the other three conjugates of g) / N(g)."""
    if g == ZW_ZERO:
        return x == ZW_ZERO
    num = x
    for k in (3, 5, 7):
        num = zw_mul(num, zw_aut(g, k))
    n = zw_norm_int(g)
    return all(u % n == 0 for u in num)


# ------------------------------------------------------------------ Z[sqrt2]
def zs_mul(x, y):
    """(a + b r)(c + d r) with r*r = 2, expanded term by term."""
    a, b = x
    c, d = y
    return (a * c + (b * d) * 2, a * d + b * c)


def zs_add(x, y):
    return (x[0] + y[0], x[1] + y[1])


def zs_neg(x):
    return (-x[0], -x[1])


def zs_adj2(x):
    return (x[0], -x[1])


def zs_norm(x):
    n = zs_mul(x, zs_adj2(x))
    assert n[1] == 0
    return n[0]


def zs_float(x):
    return x[0] + x[1] * SQRT2


def zs_to_zw(x):
    """a + b sqrt2 with sqrt2 = w - w^3."""
    return zw_add(zw_scale(ZW_SQRT2, x[1]), (0, 0, 0, x[0]))


def zw_to_zs(x):
    """inverse of zs_to_zw, or None if x is not in Z[sqrt2]."""
    a, b, c, d = x
    if b != 0 or a != -c:
        return None
    return (d, c)


def zs_divides(g, x):
    if g == (0, 0):
        return x == (0, 0)
    n = zs_norm(g)
    num = zs_mul(x, zs_adj2(g))
    return num[0] % n == 0 and num[1] % n == 0


# ------------------------------------------------------------------ 2x2 matrices over Z[omega] / sqrt2^k
def dm_matmul(A, B):
    """A, B = ((a, b, c, d), k) with a..d Z[omega] tuples (row major); value = entries / sqrt2^k."""
    (a, b, c, d), k = A
    (e, f, g, h), l = B
    return ((zw_add(zw_mul(a, e), zw_mul(b, g)), zw_add(zw_mul(a, f), zw_mul(b, h)),
             zw_add(zw_mul(c, e), zw_mul(d, g)), zw_add(zw_mul(c, f), zw_mul(d, h))), k + l)


def zw_times_sqrt2_pow(x, n):
    for _ in range(n):
        x = zw_mul(x, ZW_SQRT2)
    return x


def dm_same_value(A, B):
    """entries_A / sqrt2^kA == entries_B / sqrt2^kB, decided exactly by cross-multiplication."""
    (ea, ka), (eb, kb) = A, B
    m = min(ka, kb)
    return all(zw_times_sqrt2_pow(x, kb - m) == zw_times_sqrt2_pow(y, ka - m) for x, y in zip(ea, eb))


def dm_add(A, B):
    (ea, ka), (eb, kb) = A, B
    k = max(ka, kb)
    return (tuple(zw_add(zw_times_sqrt2_pow(x, k - ka), zw_times_sqrt2_pow(y, k - kb)) for x, y in zip(ea, eb)), k)


def dm_complex(A):
    e, k = A
    s = SQRT2 ** (-k)
    return [[s * zw_complex(e[0]), s * zw_complex(e[1])], [s * zw_complex(e[2]), s * zw_complex(e[3])]]


# ------------------------------------------------------------------ small number theory
def small_primes(limit):
    sieve = bytearray([1]) * (limit + 1)
    sieve[0:2] = b"\x00\x00"
    for i in range(2, int(limit ** 0.5) + 1):
        if sieve[i]:
            sieve[i * i::i] = bytearray(len(range(i * i, limit + 1, i)))
    return sieve


def trial_factor(n):
    """prime factorisation of |n| >= 1 by trial division (sorted list)."""
    n = abs(n)
    out, p = [], 2
    while p * p <= n:
        while n % p == 0:
            out.append(p)
            n //= p
        p += 1 if p == 2 else 2
    if n > 1:
        out.append(n)
    return out
