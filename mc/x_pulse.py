"""Reference for C63 (pulse evolution): Hamiltonian specs -> (a) live qp.pulse ParametrizedHamiltonian + parameter
list (jax, imported lazily) and (b) an independent numpy H(t) with the coefficient functions re-implemented from
their documentation, integrated with scipy (expm on constant pieces, DOP853 between break points).
Two logical qubits; first wire = most significant."""
import math

import numpy as np

I2 = np.eye(2, dtype=complex)
PX = np.array([[0, 1], [1, 0]], dtype=complex)
PY = np.array([[0, -1j], [1j, 0]])
PZ = np.diag([1.0 + 0j, -1.0])
NUM = np.diag([0.0 + 0j, 1.0])  # n = (I - Z)/2, projector on |1>
OPS = {"X0": np.kron(PX, I2), "Z0": np.kron(PZ, I2), "Y1": np.kron(I2, PY), "Z0Z1": np.kron(PZ, PZ), "X0+X1": np.kron(PX, I2) + np.kron(I2, PX),
       "Y0": np.kron(PY, I2), "X1": np.kron(I2, PX), "N0": np.kron(NUM, I2), "N1": np.kron(I2, NUM), "N0N1": np.kron(NUM, NUM)}


# ------------------------------------------------------------------------------------------ coefficient functions (numpy)
def coeff_ref(f, p, t):
    """Value of coefficient spec f with parameters p at time t — from the documentation of qp.pulse.*"""
    k = f[0]
    if k == "fixed":
        return f[1]
    if k == "constant":  # qp.pulse.constant(scalar, t) = scalar
        return float(p)
    if k == "sin":
        return math.sin(float(p) * t)
    if k == "lin":
        return p[0] * t + p[1]
    if k == "pwc":  # bins of equal width on [t0, t1); 0 outside and at t1
        (t0, t1), n = f[1], len(p)
        if not (t0 <= t < t1):
            return 0.0
        return float(p[min(int(n * (t - t0) / (t1 - t0)), n - 1)])
    if k == "rect_sin":  # sin(p t) inside the closed windows, 0 outside
        return math.sin(float(p) * t) if any(a <= t <= b for a, b in f[1]) else 0.0
    raise KeyError(f)


def breaks_of(f, p):
    """Times at which coefficient f is discontinuous."""
    if f[0] == "pwc":
        (t0, t1), n = f[1], len(p)
        return [t0 + i * (t1 - t0) / n for i in range(n + 1)]
    if f[0] == "pwcf":
        (t0, t1), n = f[1], f[2]
        return [t0 + i * (t1 - t0) / n for i in range(n + 1)]
    if f[0] == "rect_sin":
        return [x for w in f[1] for x in w]
    return []


def is_const(f):
    return f[0] in ("fixed", "constant", "pwc", "pwcf")


# ------------------------------------------------------------------------------------------ specs
def n_params(f):
    return 0 if f[0] == "fixed" else 1


def ref_terms(spec, params, live_coeffs=None):
    """[(matrix 4x4, function t -> coefficient, breaks, piecewise-constant?)] for a Hamiltonian spec."""
    out = []
    if spec["kind"] == "generic":
        k = 0
        for term in spec["terms"]:
            f = term["f"]
            if f[0] == "fixed":
                out.append((OPS[term["op"]], (lambda t, c=f[1]: c), [], True))
                continue
            p = params[k]
            if f[0] == "pwcf":  # callable taken as given (declared): value of the live coefficient function
                fn = live_coeffs[k]
                out.append((OPS[term["op"]], (lambda t, fn=fn, p=p: float(fn(p, t))), breaks_of(f, p), True))
            else:
                out.append((OPS[term["op"]], (lambda t, f=f, p=p: coeff_ref(f, p, t)), breaks_of(f, p), is_const(f)))
            k += 1
        return out
    if spec["kind"] == "rydberg":
        # sum_{i<j} 2 pi C6 / R^6 n_i n_j  +  per drive: 1/2 Omega sum_q (cos(phi) X_q - sin(phi) Y_q) - delta sum_q n_q,
        # Omega = 2 pi amplitude, delta = 2 pi detuning; parameters in the order (amplitude, phase, detuning) per drive
        if spec.get("register"):
            r = np.linalg.norm(np.array(spec["register"][0], dtype=float) - np.array(spec["register"][1], dtype=float))
            out.append((OPS["N0N1"], (lambda t, v=2 * math.pi * spec["c6"] / r**6: v), [], True))
        k = 0
        for d in spec["drives"]:
            fns = {}
            for name in ("amp", "phase", "det"):
                f = d[name]
                if isinstance(f, list):
                    fns[name] = (lambda t, f=f, p=params[k]: coeff_ref(f, p, t))
                    k += 1
                else:
                    fns[name] = (lambda t, c=f: c)
            for q in d["wires"]:
                X, Y, N = (OPS["X0"], OPS["Y0"], OPS["N0"]) if q == 0 else (OPS["X1"], OPS["Y1"], OPS["N1"])
                out.append((X, (lambda t, a=fns["amp"], ph=fns["phase"]: 0.5 * 2 * math.pi * a(t) * math.cos(ph(t))), [], False))
                out.append((Y, (lambda t, a=fns["amp"], ph=fns["phase"]: -0.5 * 2 * math.pi * a(t) * math.sin(ph(t))), [], False))
                out.append((N, (lambda t, dt=fns["det"]: -2 * math.pi * dt(t)), [], False))
        return out
    raise KeyError(spec["kind"])


def propagators(terms, times):
    """[U(t_0, t_i) for t_i in times] by exact integration (expm on constant pieces, DOP853 rtol 1e-11 otherwise)."""
    from scipy.integrate import solve_ivp
    from scipy.linalg import expm

    times = [float(t) for t in times]
    pts = sorted(set(times) | {b for _, _, br, _ in terms for b in br if times[0] < b < times[-1]})
    all_const = all(c for *_, c in terms)

    def H(t):
        return sum(fn(t) * M for M, fn, _, _ in terms)

    U = np.eye(4, dtype=complex)
    out = {pts[0]: U}
    for a, b in zip(pts[:-1], pts[1:]):
        if all_const:
            U = expm(-1j * H(0.5 * (a + b)) * (b - a)) @ U
        else:
            eps = 1e-12 * max(1.0, abs(b - a))

            def rhs(t, y):
                tt = min(max(t, a + eps), b - eps)  # stay strictly inside the smooth piece
                return (-1j * H(tt) @ y.reshape(4, 4)).reshape(-1)

            sol = solve_ivp(rhs, (a, b), U.reshape(-1), method="DOP853", rtol=1e-11, atol=1e-13)
            U = sol.y[:, -1].reshape(4, 4)
        out[b] = U
    return [out[t] for t in times]


def embed3(U, wires):
    """Embed a 4x4 operator on logical qubits (0, 1) placed on device wires `wires` (labels from 0, 1, 2) into 3 qubits."""
    U4 = U.reshape(2, 2, 2, 2)  # out0 out1 in0 in1
    full = np.zeros((2,) * 6, dtype=complex)
    third = [w for w in (0, 1, 2) if w not in wires][0]
    for s in (0, 1):
        idx_out = [None] * 3
        for o0 in (0, 1):
            for o1 in (0, 1):
                for i0 in (0, 1):
                    for i1 in (0, 1):
                        out = [0, 0, 0]
                        inn = [0, 0, 0]
                        out[wires[0]], out[wires[1]], out[third] = o0, o1, s
                        inn[wires[0]], inn[wires[1]], inn[third] = i0, i1, s
                        full[tuple(out) + tuple(inn)] = U4[o0, o1, i0, i1]
    return full.reshape(8, 8)


# ------------------------------------------------------------------------------------------ live builders (jax)
def live_coeff(f):
    import jax.numpy as jnp
    import pennylane as qp

    k = f[0]
    if k == "constant":
        return qp.pulse.constant
    if k == "sin":
        return lambda p, t: jnp.sin(p * t)
    if k == "lin":
        return lambda p, t: p[0] * t + p[1]
    if k == "pwc":
        return qp.pulse.pwc(tuple(f[1]))
    if k == "pwcf":
        return qp.pulse.pwc_from_function(tuple(f[1]), f[2])(lambda p, t: p[0] * t + p[1])
    if k == "rect_sin":
        return qp.pulse.rect(lambda p, t: jnp.sin(p * t), windows=[tuple(w) for w in f[1]])
    raise KeyError(f)


def live_op(name, wires):
    import pennylane as qp

    w0, w1 = wires
    return {"X0": lambda: qp.X(w0), "Z0": lambda: qp.Z(w0), "Y1": lambda: qp.Y(w1), "Z0Z1": lambda: qp.Z(w0) @ qp.Z(w1),
            "X0+X1": lambda: qp.X(w0) + qp.X(w1)}[name]()


def live_hamiltonian(spec, wires=(0, 1)):
    """-> (ParametrizedHamiltonian, [live coefficient callables of the parametrized terms])."""
    import pennylane as qp

    if spec["kind"] == "generic":
        H, coeffs = None, []
        for term in spec["terms"]:
            f = term["f"]
            if f[0] == "fixed":
                t = f[1] * live_op(term["op"], wires)
            else:
                c = live_coeff(f)
                coeffs.append(c)
                t = c * live_op(term["op"], wires)
            H = t if H is None else H + t
        return H, coeffs
    if spec["kind"] == "rydberg":
        H = None
        if spec.get("register"):
            H = qp.pulse.rydberg_interaction(spec["register"], wires=list(wires), interaction_coeff=spec["c6"])
        for d in spec["drives"]:
            a = {n: (live_coeff(d[n]) if isinstance(d[n], list) else d[n]) for n in ("amp", "phase", "det")}
            Hd = qp.pulse.rydberg_drive(a["amp"], a["phase"], a["det"], wires=[wires[q] for q in d["wires"]])
            H = Hd if H is None else H + Hd
        return H, []
    raise KeyError(spec["kind"])


def live_params(params):
    import jax.numpy as jnp

    return [jnp.array(p, dtype=float) for p in params]
