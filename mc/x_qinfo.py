"""Plain-numpy reference for quantum-information quantities (C49) + a deterministic family of test states.

Everything is written from the textbook definitions: reduced states by explicit index contraction of the
(2,)*2n tensor, entropies from eigenvalues, fidelity as the squared nuclear norm of sqrt(rho) sqrt(sigma), trace
distance as half the sum of singular values, relative entropy on supports.  Nothing here calls PennyLane.
"""
import itertools
import math

import numpy as np

PURE = ["zero", "ones", "basis", "plus", "ghz", "w", "g1", "g2", "prod"]
MIXED = ["mm", "r2", "depol", "diag", "prodmix", "r2b"]
FAMILY = PURE + MIXED


def _unit(v):
    v = np.asarray(v, dtype=complex)
    return v / np.linalg.norm(v)


def pure(name, n):
    d = 2 ** n
    if name == "zero":
        v = np.zeros(d, dtype=complex)
        v[0] = 1
        return v
    if name == "ones":
        v = np.zeros(d, dtype=complex)
        v[-1] = 1
        return v
    if name == "basis":
        v = np.zeros(d, dtype=complex)
        v[(d // 3) or (d - 1)] = 1
        return v
    if name == "plus":
        return _unit(np.ones(d))
    if name == "ghz":
        v = np.zeros(d, dtype=complex)
        v[0] = v[-1] = 1
        return _unit(v)
    if name == "w":
        v = np.zeros(d, dtype=complex)
        for k in range(n):
            v[1 << k] = 1
        return _unit(v)
    if name == "g1":
        return _unit([math.sin(1 + 2.3 * k) + 1j * math.cos(0.7 + 1.1 * k * k) for k in range(d)])
    if name == "g2":
        return _unit([math.cos(2 + 1.7 * k) * (1 + k % 3) + 1j * math.sin(0.3 + 0.9 * k) for k in range(d)])
    if name == "prod":  # product of pairwise different single-qubit states
        v = np.ones(1, dtype=complex)
        for k in range(n):
            t, p = 0.4 + 0.55 * k, 0.3 + 1.3 * k
            v = np.kron(v, np.array([math.cos(t), np.exp(1j * p) * math.sin(t)]))
        return v
    raise KeyError(name)


def proj(v):
    return np.outer(v, v.conj())


def dm(name, n):
    d = 2 ** n
    if name in PURE:
        return proj(pure(name, n))
    if name == "mm":
        return np.eye(d, dtype=complex) / d
    if name == "r2":  # rank 2, generic
        return 0.3 * proj(pure("g1", n)) + 0.7 * proj(pure("g2", n))
    if name == "r2b":  # rank <= 2, overlapping support with "basis"/"zero"
        return 0.5 * proj(pure("zero", n)) + 0.5 * proj(pure("ghz", n))
    if name == "depol":
        return 0.6 * proj(pure("g1", n)) + 0.4 * np.eye(d) / d
    if name == "diag":
        p = np.arange(1, d + 1, dtype=float)
        return np.diag(p / p.sum()).astype(complex)
    if name == "prodmix":
        r = np.ones((1, 1), dtype=complex)
        for k in range(n):
            a = 0.15 + 0.2 * k
            blk = np.array([[1 - a, 0.2 * np.exp(1j * (0.5 + k))], [0.2 * np.exp(-1j * (0.5 + k)), a]])
            r = np.kron(r, blk)
        return r
    raise KeyError(name)


def generic_matrix(d, seed=0):
    return np.array([[math.sin(1 + 3 * i + 7 * j + seed) + 1j * math.cos(2 + 5 * i - 3 * j + 2 * seed) for j in range(d)] for i in range(d)])


def batch_names(name, b, family):
    """The b states of a batch headed by `name`: cyclic successors in the family (all different)."""
    i = family.index(name)
    return [family[(i + k) % len(family)] for k in range(b)]


# ------------------------------------------------------------------------------------------------ references
def rdm(rho, keep):
    """Reduced matrix on the wires `keep` (in that order) by explicit contraction; works for any square matrix."""
    d = rho.shape[0]
    n = int(round(math.log2(d)))
    T = np.asarray(rho, dtype=complex).reshape((2,) * (2 * n))
    rows = list(range(n))
    cols = [n + i if i in keep else i for i in range(n)]
    out = [i for i in keep] + [n + i for i in keep]
    R = np.einsum(T, rows + cols, out)
    k = len(keep)
    return R.reshape(2 ** k, 2 ** k)


def ptrace(rho, traced):
    n = int(round(math.log2(rho.shape[0])))
    return rdm(rho, [i for i in range(n) if i not in traced])


def evals(rho):
    return np.clip(np.linalg.eigvalsh(0.5 * (rho + rho.conj().T)).real, 0.0, None)


def entropy(rho, base=None):
    ev = evals(rho)
    ev = ev[ev > 1e-14]
    s = float(-(ev * np.log(ev)).sum())
    return s / math.log(base) if base else s


def max_entropy(rho, base=None):
    r = int((evals(rho) > 1e-8).sum())
    s = math.log(r)
    return s / math.log(base) if base else s


def min_entropy(rho, base=None):
    s = -math.log(float(evals(rho).max()))
    return s / math.log(base) if base else s


def purity(rho):
    return float(np.trace(rho @ rho).real)


def psd_sqrt(rho):
    w, v = np.linalg.eigh(0.5 * (rho + rho.conj().T))
    w = np.clip(w, 0, None)
    return (v * np.sqrt(w)) @ v.conj().T


def fidelity(rho, sigma):
    s = np.linalg.svd(psd_sqrt(rho) @ psd_sqrt(sigma), compute_uv=False)
    return float(s.sum() ** 2)


def trace_distance(rho, sigma):
    return float(0.5 * np.linalg.svd(rho - sigma, compute_uv=False).sum())


def relative_entropy(rho, sigma, base=None):
    """Tr rho (log rho - log sigma); +inf if the support of rho is not inside the support of sigma."""
    ws, vs = np.linalg.eigh(0.5 * (sigma + sigma.conj().T))
    ker = vs[:, ws <= 1e-10]
    if ker.shape[1] and np.linalg.norm(ker.conj().T @ rho @ ker) > 1e-9:
        return math.inf
    wr, vr = np.linalg.eigh(0.5 * (rho + rho.conj().T))
    t1 = sum(w * math.log(w) for w in wr if w > 1e-12)
    t2 = 0.0
    for w, k in zip(ws, range(len(ws))):
        if w > 1e-10:
            u = vs[:, k]
            t2 += math.log(w) * float((u.conj() @ rho @ u).real)
    s = t1 - t2
    return s / math.log(base) if base else s


def embed(M, wires, order):
    """M on `wires` re-expressed on `order` by explicit tensor re-indexing (identity on the other wires)."""
    n, k = len(order), len(wires)
    pos = [order.index(w) for w in wires]
    rest = [i for i in range(n) if i not in pos]
    T = np.asarray(M, dtype=complex).reshape((2,) * (2 * k))
    out = np.zeros((2,) * (2 * n), dtype=complex)
    for r in itertools.product((0, 1), repeat=len(rest)):
        idx = [slice(None)] * (2 * n)
        for a, v in zip(rest, r):
            idx[a] = v
            idx[n + a] = v
        # remaining free axes are pos (rows) then pos (cols) in increasing axis order; reorder T accordingly
        order_rows = sorted(range(k), key=lambda t: pos[t])
        perm = order_rows + [k + t for t in order_rows]
        out[tuple(idx)] = np.transpose(T, perm)
    return out.reshape(2 ** n, 2 ** n)


def ordered_subsets(n, kmin=1, kmax=None):
    kmax = n if kmax is None else kmax
    for k in range(kmin, kmax + 1):
        for p in itertools.permutations(range(n), k):
            yield list(p)


def selftest():
    """Internal consistency of the reference (kron identities), returns list of failures."""
    bad = []
    A, B = generic_matrix(2, 1), generic_matrix(2, 2)
    AB = np.kron(A, B)
    if not np.allclose(rdm(AB, [0]), A * np.trace(B)):
        bad.append("rdm keep 0")
    if not np.allclose(rdm(AB, [1]), B * np.trace(A)):
        bad.append("rdm keep 1")
    if not np.allclose(rdm(AB, [1, 0]), np.kron(B, A)):
        bad.append("rdm swap")
    if not np.allclose(embed(A, ["a"], ["b", "a"]), np.kron(np.eye(2), A)):
        bad.append("embed 1")
    if not np.allclose(embed(AB, ["x", "y"], ["y", "z", "x"]), np.kron(np.kron(B, np.eye(2)), A)):
        bad.append("embed 2")
    C = generic_matrix(2, 3)
    ABC = np.kron(np.kron(A, B), C)
    if not np.allclose(rdm(ABC, [2, 0]), np.kron(C, A) * np.trace(B)):
        bad.append("rdm 3")
    return bad
