"""Reference for C62 (quantum chemistry): geometries, PySCF RHF / FCI / CASCI energies, Jordan-Wigner number / S_z / S^2
matrices and sector selection in plain numpy, brute-force excitation lists.  First wire = most significant qubit.
pyscf and pennylane are imported inside functions only."""
import itertools
import math

import numpy as np

ANG = 1.0 / 0.529177210903  # Angstrom -> Bohr

MOLS = {
    "H2": dict(symbols=["H", "H"], charge=0, shape="chain"),
    "HeH+": dict(symbols=["He", "H"], charge=1, shape="chain"),
    "H3+lin": dict(symbols=["H", "H", "H"], charge=1, shape="chain"),
    "H3+tri": dict(symbols=["H", "H", "H"], charge=1, shape="triangle"),
    "H4": dict(symbols=["H", "H", "H", "H"], charge=0, shape="chain"),
    "LiH": dict(symbols=["Li", "H"], charge=0, shape="chain"),
    "H6": dict(symbols=["H"] * 6, charge=0, shape="chain"),
}
Z = {"H": 1, "He": 2, "Li": 3}


def geometry_angstrom(name, d):
    m = MOLS[name]
    n = len(m["symbols"])
    if m["shape"] == "chain":
        return np.array([[0.0, 0.0, i * d] for i in range(n)])
    return np.array([[0.0, 0.0, 0.0], [0.0, 0.0, d], [0.0, d * math.sqrt(3) / 2, d / 2]])


def n_electrons(name):
    m = MOLS[name]
    return sum(Z[s] for s in m["symbols"]) - m["charge"]


def pyscf_energies(name, d, active=None):
    """(E_RHF, E_FCI or E_CASCI) total energies in Hartree from PySCF (independent of PennyLane)."""
    from pyscf import fci, gto, mcscf, scf

    m = MOLS[name]
    coords = geometry_angstrom(name, d) * ANG
    mol = gto.M(atom=[(s, tuple(c)) for s, c in zip(m["symbols"], coords)], unit="Bohr", basis="sto-3g", charge=m["charge"], spin=0, verbose=0)
    mf = scf.RHF(mol)
    mf.conv_tol = 1e-12
    mf.kernel()
    if active is None:
        e = fci.FCI(mf).kernel()[0]
    else:
        cas = mcscf.CASCI(mf, active[1], active[0])
        cas.verbose = 0
        e = cas.kernel()[0]
    return float(mf.e_tot), float(e), int(mol.nao)


# ------------------------------------------------------------------------------------------ Jordan-Wigner reference
def _kron(ms):
    out = np.array([[1.0 + 0j]])
    for m in ms:
        out = np.kron(out, m)
    return out


_I = np.eye(2, dtype=complex)
_Zm = np.diag([1.0 + 0j, -1.0])
_LOWER = np.array([[0, 1], [0, 0]], dtype=complex)  # |0><1| : annihilates an occupied orbital


def annihilators(n):
    return [_kron([_Zm] * j + [_LOWER] + [_I] * (n - j - 1)) for j in range(n)]


def number_sz_s2(n):
    a = annihilators(n)
    num = [x.conj().T @ x for x in a]
    N = sum(num)
    Sz = 0.5 * sum(num[j] if j % 2 == 0 else -num[j] for j in range(n))
    Sp = sum(a[2 * k].conj().T @ a[2 * k + 1] for k in range(n // 2))
    S2 = Sp.conj().T @ Sp + Sz @ (Sz + np.eye(2**n))
    return N, Sz, S2


def sector_indices(n, n_e, sz2=0):
    """Computational-basis indices with n_e occupied spin orbitals and 2 S_z = sz2 (even wires = spin up)."""
    out = []
    for idx in range(2**n):
        bits = [(idx >> (n - 1 - j)) & 1 for j in range(n)]
        if sum(bits) == n_e and sum(b if j % 2 == 0 else -b for j, b in enumerate(bits)) == sz2:
            out.append(idx)
    return out


def basis_index(bits):
    idx = 0
    for b in bits:
        idx = 2 * idx + int(b)
    return idx


def excitations_ref(n_e, n, delta_sz):
    sz = [0.5 if i % 2 == 0 else -0.5 for i in range(n)]
    occ, vir = range(n_e), range(n_e, n)
    singles = {(r, p) for r in occ for p in vir if sz[p] - sz[r] == delta_sz}
    doubles = {(s, r, q, p) for s, r in itertools.combinations(occ, 2) for q, p in itertools.combinations(vir, 2)
               if sz[p] + sz[q] - sz[r] - sz[s] == delta_sz}
    return singles, doubles
