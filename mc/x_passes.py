"""x_passes — circuit-letter grammar shared by C17 / C18 / C19 (compilation passes).

A *letter* is a small JSON list describing one gate on integer wire positions 0..n-1:

    ["Hadamard", [0]]                       named gate (PennyLane class name), wires
    ["RX", [0], [0.3]]                      named gate with parameters
    ["adj", <letter>]                       qp.adjoint(<letter>, lazy=True)   (Adjoint wrapper)
    ["ctrl", <letter>, [c...], [v...]?]     qp.ctrl(<letter>, control=c, control_values=v)
    ["QU", "<matrix name>", [w...]]         qp.QubitUnitary(MATS[name], wires)
    ["CQU", "<matrix name>", [w...]]        qp.ControlledQubitUnitary(MATS[name], wires)  (first wire = control)
    ["GP", phi, [w...] | None]              qp.GlobalPhase(phi, wires)
    ["Barrier", [w...], only_visual?]       qp.Barrier
    ["MCX", [w...], [v...]]                 qp.MultiControlledX(wires, control_values)
    ["PauliRot", [w...], [theta], "XY"]     qp.PauliRot
    ["MultiRZ", [w...], [theta]]
    ["AE", "<vector name>", [w...]]         qp.AmplitudeEmbedding(VECS[name], wires)

`build(letter, lab)` makes the live operator (wire position i -> label lab[i]); `letter_matrix(letter)` gives the
reference matrix and wire positions *from the spec alone* (plain numpy + mc.refgates, never asks PennyLane), so the
input side of every comparison is independent of the implementation.  `op_matrix_ref(op)` is the reference matrix
of a live operator coming OUT of a pass: refgates table when the gate is named there, explicit adjoint / control
construction for the symbolic wrappers, `qp.matrix(op)` otherwise (declared dependence, as in mc.refsim).
"""
import cmath
import json
import math

import numpy as np

from mc import refgates as RG
from mc import refsim as RS

PI = math.pi
G1 = 0.3
G2 = -1.234

_s2 = 1 / math.sqrt(2)


def _haar2():
    # fixed U(2) matrix with no special structure
    a, b, c, d = 0.4, 1.1, -0.7, 0.25
    return cmath.exp(1j * d) * (RG.RZ(a) @ RG.RY(b) @ RG.RZ(c))


def _haar4():
    # fixed generic two-qubit unitary: locals . exp(i(xXX+yYY+zZZ)) . locals  (3-CNOT class)
    from scipy.linalg import expm

    XX, YY, ZZ = RG.kron(RG.X, RG.X), RG.kron(RG.Y, RG.Y), RG.kron(RG.Z, RG.Z)
    core = expm(1j * (0.37 * XX + 0.21 * YY + 0.11 * ZZ))
    l1 = RG.kron(RG.Rot(0.1, 0.7, -0.4), RG.Rot(1.3, 0.2, 0.5))
    l2 = RG.kron(RG.Rot(-0.6, 1.9, 0.3), RG.Rot(0.8, 2.4, -1.1))
    return cmath.exp(0.4j) * (l2 @ core @ l1)


def _two_cnot():
    from scipy.linalg import expm

    XX, YY = RG.kron(RG.X, RG.X), RG.kron(RG.Y, RG.Y)
    l1 = RG.kron(RG.Rot(0.3, 0.4, 0.5), RG.H)
    return RG.kron(RG.S, RG.Rot(-1.0, 0.6, 0.2)) @ expm(1j * (0.37 * XX + 0.21 * YY)) @ l1


def _mats():
    M = {
        "I": RG.I2, "X": RG.X, "Y": RG.Y, "Z": RG.Z, "H": RG.H, "S": RG.S, "T": RG.T, "SX": RG.SX,
        "RZg": RG.RZ(G1), "RYg": RG.RY(G1), "iX": 1j * RG.X, "mI": -RG.I2,
        "haar2": _haar2(),
        "I4": np.eye(4, dtype=complex),
        "CNOT": RG.controlled(RG.X),
        "CNOTr": RG.kron(RG.H, RG.H) @ RG.controlled(RG.X) @ RG.kron(RG.H, RG.H),  # control on the 2nd wire
        "CZ": RG.controlled(RG.Z),
        "SWAP": RG.SWAP,
        "ISWAP": RG.ISWAP,
        "HT": RG.kron(RG.H, RG.T),
        "XI": RG.kron(RG.X, RG.I2),
        "CRYg": RG.controlled(RG.RY(G1)),
        "SISWAP": RG.SISWAP,
        "two_cnot": _two_cnot(),
        "haar4": _haar4(),
        "mSWAP": -RG.SWAP,
        "Toffoli": RG.controlled(RG.X, 2),
    }
    return {k: np.asarray(v, dtype=complex) for k, v in M.items()}


MATS = _mats()

VECS = {
    "0": [1.0, 0.0],
    "1": [0.0, 1.0],
    "+": [_s2, _s2],
    "i": [_s2, 1j * _s2],
    "g": [0.6, 0.8],
    "bell": [_s2, 0.0, 0.0, _s2],
    "01": [0.0, 1.0, 0.0, 0.0],
    "g4": [0.5, -0.5, 0.5j, 0.5],
    "B+": [[1.0, 0.0], [_s2, _s2], [0.6, -0.8]],       # batched, batch size 3
    "Bg": [[0.0, 1.0], [0.6, 0.8], [_s2, -1j * _s2]],  # batched, batch size 3
}


# --------------------------------------------------------------------------------------------- live objects
def build(letter, lab=None):
    """Live PennyLane operator for a letter; wire position i becomes label lab[i]."""
    import pennylane as qp

    def W(ws):
        return [w if lab is None else lab[w] for w in ws]

    kind = letter[0]
    if kind == "adj":
        return qp.adjoint(build(letter[1], lab), lazy=True)
    if kind == "ctrl":
        vals = letter[3] if len(letter) > 3 else None
        return qp.ctrl(build(letter[1], lab), control=W(letter[2]), control_values=vals)
    if kind == "QU":
        return qp.QubitUnitary(MATS[letter[1]].copy(), wires=W(letter[2]))
    if kind == "CQU":
        return qp.ControlledQubitUnitary(MATS[letter[1]].copy(), wires=W(letter[2]))
    if kind == "GP":
        ws = letter[2] if len(letter) > 2 else None
        return qp.GlobalPhase(letter[1]) if ws is None else qp.GlobalPhase(letter[1], wires=W(ws))
    if kind == "Barrier":
        return qp.Barrier(wires=W(letter[1]), only_visual=bool(letter[2]) if len(letter) > 2 else False)
    if kind == "MCX":
        return qp.MultiControlledX(wires=W(letter[1]), control_values=letter[2])
    if kind == "PauliRot":
        return qp.PauliRot(letter[2][0], letter[3], wires=W(letter[1]))
    if kind == "AE":
        return qp.AmplitudeEmbedding(np.array(VECS[letter[1]]), wires=W(letter[2]))
    cls = getattr(qp, kind)
    params = letter[2] if len(letter) > 2 else []
    return cls(*params, wires=W(letter[1]))


def build_ops(word, lab=None):
    return [build(l, lab) for l in word]


def letter_wires(letter):
    kind = letter[0]
    if kind == "adj":
        return letter_wires(letter[1])
    if kind == "ctrl":
        return list(letter[2]) + letter_wires(letter[1])
    if kind in ("QU", "CQU", "AE"):
        return list(letter[2])
    if kind == "GP":
        return list(letter[2]) if len(letter) > 2 and letter[2] is not None else []
    return list(letter[1])


def name_of(letter):
    """Short printable token, e.g. adj(S@0), CNOT@01, RX(0.3)@0."""
    kind = letter[0]
    ws = "".join(str(w) for w in letter_wires(letter))
    if kind == "adj":
        return f"adj({name_of(letter[1])})"
    if kind == "ctrl":
        v = "" if len(letter) < 4 or letter[3] is None else "v" + "".join(str(int(x)) for x in letter[3])
        return f"ctrl{v}[{''.join(str(c) for c in letter[2])}]({name_of(letter[1])})"
    if kind in ("QU", "CQU", "AE"):
        return f"{kind}:{letter[1]}@{ws}"
    if kind == "GP":
        return f"GP({letter[1]:.4g})@{ws}"
    if kind == "MCX":
        return f"MCX{''.join(str(v) for v in letter[2])}@{ws}"
    if kind == "PauliRot":
        return f"PauliRot{letter[3]}({letter[2][0]:.4g})@{ws}"
    if kind == "Barrier":
        return f"Barrier{'v' if len(letter) > 2 and letter[2] else ''}@{ws}"
    p = "" if len(letter) < 3 or not letter[2] else "(" + ",".join(f"{x:.4g}" for x in letter[2]) + ")"
    return f"{kind}{p}@{ws}"


# --------------------------------------------------------------------------------------------- reference from the spec
def letter_matrix(letter):
    """(matrix, wire positions) of a letter, from the documentation formulas only."""
    kind = letter[0]
    if kind == "adj":
        U, ws = letter_matrix(letter[1])
        return U.conj().T, ws
    if kind == "ctrl":
        U, ws = letter_matrix(letter[1])
        vals = letter[3] if len(letter) > 3 and letter[3] is not None else [1] * len(letter[2])
        if ws:
            return RG.controlled(U, len(letter[2]), vals), list(letter[2]) + ws
        # controlled global phase: phase on the control pattern only
        d = np.ones(2 ** len(letter[2]), dtype=complex)
        d[int("".join(str(int(bool(v))) for v in vals), 2)] = U[0, 0]
        return np.diag(d), list(letter[2])
    if kind == "QU":
        return MATS[letter[1]], list(letter[2])
    if kind == "CQU":
        return RG.controlled(MATS[letter[1]], 1), list(letter[2])
    if kind == "GP":
        ws = letter[2] if len(letter) > 2 and letter[2] is not None else []
        return cmath.exp(-1j * letter[1]) * np.eye(2 ** len(ws), dtype=complex), list(ws)
    if kind == "Barrier":
        return np.eye(2 ** len(letter[1]), dtype=complex), list(letter[1])
    if kind == "MCX":
        return RG.controlled(RG.X, len(letter[1]) - 1, letter[2]), list(letter[1])
    if kind == "PauliRot":
        return RG.pauli_rot(letter[2][0], letter[3]), list(letter[1])
    if kind == "MultiRZ":
        return RG.pauli_rot(letter[2][0], "Z" * len(letter[1])), list(letter[1])
    if kind == "Identity":
        return np.eye(2 ** len(letter[1]), dtype=complex), list(letter[1])
    params = letter[2] if len(letter) > 2 else []
    return RG.matrix(kind, params), list(letter[1])


_EMB = {}


def embed_cached(U, ws, n, key):
    k = (key, n)
    M = _EMB.get(k)
    if M is None:
        M = RS.embed(U, ws, list(range(n)))
        if len(_EMB) < 20000:
            _EMB[k] = M
    return M


def word_unitary(word, n):
    """Reference unitary of a word on wire positions 0..n-1 (first = most significant)."""
    U = np.eye(2 ** n, dtype=complex)
    for l in word:
        M, ws = letter_matrix(l)
        if not ws:
            U = M[0, 0] * U
            continue
        U = embed_cached(M, ws, n, json.dumps(l)) @ U
    return U


# --------------------------------------------------------------------------------------------- reference of live ops
def op_matrix_ref(op):
    """Reference matrix of a live operator on op.wires."""
    name = op.name
    if name in ("Barrier", "Snapshot", "WireCut", "Identity"):
        return np.eye(2 ** len(op.wires), dtype=complex)
    if name.startswith("Adjoint(") and hasattr(op, "base"):
        return op_matrix_ref(op.base).conj().T
    if name.startswith("C(") and hasattr(op, "base") and not len(getattr(op, "work_wires", ())):
        base = op.base
        vals = [int(bool(v)) for v in op.control_values]
        if len(base.wires) == 0:
            ph = cmath.exp(-1j * float(base.data[0])) if base.name == "GlobalPhase" else 1.0
            d = np.ones(2 ** len(op.control_wires), dtype=complex)
            d[int("".join(str(v) for v in vals), 2)] = ph
            return np.diag(d)
        if list(op.wires) == list(op.control_wires) + list(base.wires):
            return RG.controlled(op_matrix_ref(base), len(op.control_wires), vals)
    if name == "MultiControlledX" and not len(getattr(op, "work_wires", ())):
        return RG.controlled(RG.X, len(op.wires) - 1, [int(bool(v)) for v in op.control_values])
    if name == "QubitUnitary" and getattr(op, "batch_size", None) is None:
        return np.asarray(op.data[0], dtype=complex)
    return RS.op_matrix(op)


def ops_unitary(ops, wire_order):
    """Unitary of a list of live operators on `wire_order` (first = most significant)."""
    n = len(wire_order)
    idx = {w: i for i, w in enumerate(wire_order)}
    U = np.eye(2 ** n, dtype=complex)
    for op in ops:
        if len(op.wires) == 0:
            if op.name == "GlobalPhase":
                U = cmath.exp(-1j * float(op.data[0])) * U
            continue
        M = op_matrix_ref(op)
        U = RS.embed(M, [idx[w] for w in op.wires], list(range(n))) @ U
    return U


def phase_distance(A, B):
    """max |A - e^{i a} B| with the aligning phase taken from <B, A> (robust against single-entry noise)."""
    A = np.asarray(A)
    B = np.asarray(B)
    if A.shape != B.shape:
        return float("inf")
    t = np.vdot(B, A)
    ph = t / abs(t) if abs(t) > 1e-9 else 1.0
    return float(np.max(np.abs(A - ph * B)))


def op_fingerprint(op):
    """Deep, id-free fingerprint of an operator: type, name, wires, data (dtype/shape/bytes), hyper-parameters."""
    import pennylane as qp

    data = []
    for d in op.data:
        a = np.asarray(d) if isinstance(d, (int, float, complex, np.ndarray, np.generic)) else np.asarray(qp.math.toarray(d))
        data.append((str(a.dtype), tuple(a.shape), a.tobytes().hex()))
    hyp = []
    for k, v in sorted(op.hyperparameters.items(), key=lambda kv: kv[0]):
        if isinstance(v, qp.operation.Operator):
            hyp.append((k, op_fingerprint(v)))
        elif isinstance(v, (list, tuple)) and v and all(isinstance(x, qp.operation.Operator) for x in v):
            hyp.append((k, tuple(op_fingerprint(x) for x in v)))
        elif isinstance(v, np.ndarray):
            hyp.append((k, v.tobytes().hex()))
        else:
            hyp.append((k, repr(v)))
    return (type(op).__name__, op.name, tuple(repr(w) for w in op.wires), tuple(data), tuple(hyp))
