"""Reference simulators, plain numpy, kept boring.

R-sv     state-vector simulation by tensordot on explicit axes
R-dm     density-matrix simulation by explicit Kraus sums
R-branch dynamic circuits: set of (outcome history, unnormalised state) branches
R-meas   measurement statistics by explicit index arithmetic
R-fd     central finite differences (8th order)

Gate matrices come from mc.refgates when the gate is in the table, otherwise from op.matrix() (declared
dependence: checks that use R-sv on non-table operators trust C01/C02/C10 for those operators).
"""
import itertools
import math

import numpy as np

from mc import refgates as RG

ATOL = 1e-9


# --------------------------------------------------------------------------------------------- matrices
def op_matrix(op):
    """Reference matrix of a live PennyLane operator on op.wires (first wire most significant)."""
    import pennylane as qp

    name = op.name
    if getattr(op, "batch_size", None) is None:
        try:
            if name in RG.TABLE and len(op.wires) == RG.TABLE[name][0]:
                return RG.matrix(name, [float(np.real(p)) for p in op.data])
            if name in ("MultiRZ",):
                return RG.matrix(name, [float(op.data[0])], n_wires=len(op.wires))
            if name == "PauliRot":
                return RG.matrix(name, [float(op.data[0])], hyper={"pauli_word": op.hyperparameters["pauli_word"]})
            if name == "GlobalPhase":
                return RG.matrix(name, [float(op.data[0])], n_wires=len(op.wires))
        except (TypeError, ValueError):
            pass
    return np.asarray(qp.matrix(op), dtype=complex)


def wire_index(wire_order):
    return {w: i for i, w in enumerate(wire_order)}


def apply_matrix(state, U, axes, n):
    """state: array of shape (2,)*n + extra; U acts on `axes` (list of ints, first = most significant)."""
    k = len(axes)
    Ut = np.asarray(U, dtype=complex).reshape((2,) * (2 * k))
    out = np.tensordot(Ut, state, axes=(list(range(k, 2 * k)), list(axes)))
    return np.moveaxis(out, list(range(k)), list(axes))


def zero_state(n):
    s = np.zeros((2,) * n, dtype=complex)
    s[(0,) * n] = 1
    return s


def run_state(ops, wire_order, init=None):
    """Final state (shape (2,)*n) of applying `ops` to |0..0> (or init, flat or tensor)."""
    n = len(wire_order)
    idx = wire_index(wire_order)
    state = zero_state(n) if init is None else np.asarray(init, dtype=complex).reshape((2,) * n)
    for op in ops:
        state = apply_op(state, op, idx, n)
    return state


def apply_op(state, op, idx, n):
    name = op.name
    if name in ("Barrier", "Snapshot", "WireCut"):
        return state
    if name in ("StatePrep", "QubitStateVector", "BasisState", "BasisEmbedding", "AmplitudeEmbedding"):
        # only legal as a preparation on |0..0>: replace the listed wires' factor
        vec = prep_vector(op)
        k = len(op.wires)
        axes = [idx[w] for w in op.wires]
        # project the listed wires onto |0..0> and replace (valid because state is |0> there by contract)
        sl = [slice(None)] * state.ndim
        for a in axes:
            sl[a] = 0
        rest = state[tuple(sl)]
        out = np.tensordot(vec.reshape((2,) * k), rest, axes=0)
        return np.moveaxis(out, list(range(k)), axes)
    if len(op.wires) == 0:  # GlobalPhase / Identity without wires
        if name == "GlobalPhase":
            return state * np.exp(-1j * float(op.data[0]))
        return state
    U = op_matrix(op)
    return apply_matrix(state, U, [idx[w] for w in op.wires], n)


def prep_vector(op):
    name = op.name
    if name in ("BasisState", "BasisEmbedding"):
        bits = np.asarray(op.data[0] if op.data else op.hyperparameters.get("basis_state")).astype(int).ravel()
        if bits.size == 1 and len(op.wires) > 1:
            bits = np.array([int(b) for b in np.binary_repr(int(bits[0]), len(op.wires))])
        v = np.zeros(2 ** len(op.wires), dtype=complex)
        v[int("".join(str(int(b)) for b in bits), 2)] = 1
        return v
    import pennylane as qp

    return np.asarray(op.state_vector(wire_order=op.wires), dtype=complex).ravel()


def unitary(ops, wire_order):
    """Matrix of the circuit `ops` on wire_order (first wire most significant)."""
    n = len(wire_order)
    idx = wire_index(wire_order)
    state = np.eye(2 ** n, dtype=complex).reshape((2,) * n + (2 ** n,))
    for op in ops:
        state = apply_op(state, op, idx, n)
    return state.reshape(2 ** n, 2 ** n)


def embed(U, wires, wire_order):
    """Matrix U on `wires` expanded to `wire_order` by explicit tensor re-indexing."""
    n = len(wire_order)
    idx = wire_index(wire_order)
    state = np.eye(2 ** n, dtype=complex).reshape((2,) * n + (2 ** n,))
    return apply_matrix(state, U, [idx[w] for w in wires], n).reshape(2 ** n, 2 ** n)


def phase_align(A, B):
    """Return B multiplied by the unit phase that best aligns it with A (using A's largest entry)."""
    A = np.asarray(A)
    B = np.asarray(B)
    i = np.unravel_index(np.argmax(np.abs(A)), A.shape)
    if abs(A[i]) < 1e-12 or abs(B[i]) < 1e-12:
        return B
    ph = (A[i] / abs(A[i])) / (B[i] / abs(B[i]))
    return B * ph


def close(A, B, atol=ATOL):
    A = np.asarray(A)
    B = np.asarray(B)
    if A.shape != B.shape:
        return False
    scale = max(1.0, float(np.max(np.abs(A))) if A.size else 1.0)
    return bool(np.all(np.abs(A - B) <= atol * scale))


def close_up_to_phase(A, B, atol=ATOL):
    A = np.asarray(A)
    B = np.asarray(B)
    if A.shape != B.shape:
        return False
    return close(A, phase_align(A, B), atol)


def maxdiff(A, B):
    A = np.asarray(A)
    B = np.asarray(B)
    if A.shape != B.shape:
        return float("inf")
    return float(np.max(np.abs(A - B))) if A.size else 0.0


# --------------------------------------------------------------------------------------------- observables
def obs_matrix(obs, wires=None):
    """Reference matrix of an observable on `wires` (default obs.wires)."""
    import pennylane as qp

    wires = list(obs.wires) if wires is None else list(wires)
    name = obs.name
    own = list(obs.wires)
    if name in ("PauliX", "PauliY", "PauliZ", "Hadamard", "Identity") and len(own) <= 1:
        M = {"PauliX": RG.X, "PauliY": RG.Y, "PauliZ": RG.Z, "Hadamard": RG.H, "Identity": RG.I2}[name]
        if not own:
            return np.eye(2 ** len(wires), dtype=complex)
        return embed(M, own, wires)
    if name == "Hermitian":
        return embed(np.asarray(obs.data[0], dtype=complex), own, wires)
    if name == "Projector":
        st = np.asarray(obs.data[0])
        if st.size == len(own):
            v = np.zeros(2 ** len(own), dtype=complex)
            v[int("".join(str(int(b)) for b in st), 2)] = 1
        else:
            v = st.astype(complex)
        return embed(np.outer(v, v.conj()), own, wires)
    if name == "Prod" or type(obs).__name__ in ("Prod", "Tensor"):
        M = np.eye(2 ** len(wires), dtype=complex)
        for o in obs.operands:
            M = M @ obs_matrix(o, wires)
        return M
    if type(obs).__name__ in ("Sum",):
        return sum(obs_matrix(o, wires) for o in obs.operands)
    if type(obs).__name__ == "SProd":
        return complex(obs.scalar) * obs_matrix(obs.base, wires)
    if type(obs).__name__ in ("LinearCombination", "Hamiltonian"):
        cs, os_ = obs.terms()
        M = np.zeros((2 ** len(wires),) * 2, dtype=complex)
        for c, o in zip(cs, os_):
            M = M + complex(c) * obs_matrix(o, wires)
        return M
    return np.asarray(qp.matrix(obs, wire_order=wires), dtype=complex)


# --------------------------------------------------------------------------------------------- measurements
def probs_of(state, axes):
    """Marginal probabilities on `axes` (ordered): explicit index sum."""
    n = state.ndim
    p = np.abs(state) ** 2
    k = len(axes)
    out = np.zeros(2 ** k)
    for bits in itertools.product((0, 1), repeat=n):
        j = 0
        for a in axes:
            j = 2 * j + bits[a]
        out[j] += p[bits]
    return out


def reduced_dm(state, axes):
    """Reduced density matrix on `axes` (ordered) of a pure state tensor."""
    n = state.ndim
    k = len(axes)
    rest = [a for a in range(n) if a not in axes]
    psi = np.transpose(state, list(axes) + rest).reshape(2 ** k, -1)
    return psi @ psi.conj().T


def dm_reduce(rho, axes, n):
    """Partial trace of an n-qubit density matrix keeping `axes` in that order."""
    k = len(axes)
    rest = [a for a in range(n) if a not in axes]
    t = rho.reshape((2,) * (2 * n))
    perm = list(axes) + rest + [n + a for a in axes] + [n + a for a in rest]
    t = np.transpose(t, perm).reshape(2 ** k, 2 ** (n - k), 2 ** k, 2 ** (n - k))
    return np.einsum("ajbj->ab", t)


def entropy(rho, base=None):
    ev = np.linalg.eigvalsh((rho + rho.conj().T) / 2)
    ev = ev[ev > 1e-14]
    s = float(-np.sum(ev * np.log(ev)))
    return s / math.log(base) if base else s


def expval(state, M, axes):
    n = state.ndim
    phi = apply_matrix(state, M, list(axes), n)
    return complex(np.vdot(state, phi))


def measure(mp, state, wire_order):
    """Reference value of a PennyLane measurement process on a pure state tensor."""
    idx = wire_index(wire_order)
    n = len(wire_order)
    kind = type(mp).__name__
    if kind == "StateMP":
        return state.reshape(-1)
    if kind == "DensityMatrixMP":
        return reduced_dm(state, [idx[w] for w in mp.wires])
    if kind in ("ExpectationMP", "VarianceMP"):
        obs = mp.obs
        own = list(obs.wires)
        M = obs_matrix(obs, own) if own else np.eye(1) * obs_matrix(obs, [wire_order[0]])[0, 0]
        if not own:
            e = complex(M[0, 0])
            return e.real if kind == "ExpectationMP" else 0.0
        axes = [idx[w] for w in own]
        e = expval(state, M, axes).real
        if kind == "ExpectationMP":
            return e
        e2 = expval(state, M @ M, axes).real
        return e2 - e * e
    if kind == "ProbabilityMP":
        if mp.obs is not None:
            # probabilities in the eigenbasis of the observable: rotate with the eigenvectors of its matrix
            own = list(mp.obs.wires)
            M = obs_matrix(mp.obs, own)
            w, V = np.linalg.eigh(M)
            raise NotImplementedError("probs(op) reference not needed")
        wires = list(mp.wires) if len(mp.wires) else list(wire_order)
        return probs_of(state, [idx[w] for w in wires])
    if kind == "PurityMP":
        rho = reduced_dm(state, [idx[w] for w in mp.wires])
        return float(np.real(np.trace(rho @ rho)))
    if kind == "VnEntropyMP":
        rho = reduced_dm(state, [idx[w] for w in mp.wires])
        return entropy(rho, getattr(mp, "log_base", None))
    if kind == "MutualInfoMP":
        w0, w1 = [list(w) for w in mp._wires] if isinstance(mp._wires, (list, tuple)) and len(mp._wires) == 2 and not isinstance(mp._wires[0], (int, str)) else (None, None)
        if w0 is None:
            raise NotImplementedError("mutual info wires")
        a = [idx[w] for w in w0]
        b = [idx[w] for w in w1]
        base = getattr(mp, "log_base", None)
        return entropy(reduced_dm(state, a), base) + entropy(reduced_dm(state, b), base) - entropy(reduced_dm(state, a + b), base)
    raise NotImplementedError(kind)


# --------------------------------------------------------------------------------------------- density matrices
def dm_zero(n):
    rho = np.zeros((2 ** n, 2 ** n), dtype=complex)
    rho[0, 0] = 1
    return rho


def dm_apply_kraus(rho, kraus, axes, n):
    """rho -> sum_k K rho K^dagger with K acting on `axes`."""
    out = np.zeros_like(rho)
    t = rho.reshape((2,) * n + (2 ** n,))
    for K in kraus:
        K = np.asarray(K, dtype=complex)
        a = apply_matrix(t, K, axes, n).reshape(2 ** n, 2 ** n)  # K rho
        b = apply_matrix(a.conj().T.reshape((2,) * n + (2 ** n,)), K, axes, n).reshape(2 ** n, 2 ** n)  # K (K rho)^dagger
        out = out + b.conj().T
    return out


def run_dm(ops, wire_order, kraus_of=None):
    """Density-matrix simulation; kraus_of(op) -> list of Kraus matrices for channels (default op.kraus_matrices())."""
    n = len(wire_order)
    idx = wire_index(wire_order)
    rho = dm_zero(n)
    for op in ops:
        if op.name in ("Barrier", "Snapshot"):
            continue
        axes = [idx[w] for w in op.wires]
        if hasattr(op, "kraus_matrices") and not getattr(op, "has_matrix", False):
            Ks = kraus_of(op) if kraus_of else op.kraus_matrices()
        elif kraus_of is not None and kraus_of(op) is not None:
            Ks = kraus_of(op)
        else:
            if len(op.wires) == 0:
                continue
            Ks = [op_matrix(op)]
        rho = dm_apply_kraus(rho, Ks, axes, n)
    return rho


# --------------------------------------------------------------------------------------------- dynamic circuits
def eval_mv(mv, history):
    """Evaluate a MeasurementValue on a concrete outcome history {mcm id -> 0/1} (20-line interpreter)."""
    vals = [history[_mid(m)] for m in mv.measurements]
    return mv.processing_fn(*vals)


def _mid(m):
    return getattr(m, "id", None) or id(m)


def run_branches(ops, wire_order, init=None, prune=1e-14):
    """Return list of (history dict, unnormalised state tensor) after walking ops; MidMeasure splits branches."""
    n = len(wire_order)
    idx = wire_index(wire_order)
    state0 = zero_state(n) if init is None else np.asarray(init, dtype=complex).reshape((2,) * n)
    branches = [({}, state0)]
    for op in ops:
        tname = type(op).__name__
        if tname in ("MidMeasureMP", "MidMeasure"):
            a = idx[op.wires[0]]
            new = []
            for hist, st in branches:
                for outcome in (0, 1):
                    if op.postselect is not None and outcome != op.postselect:
                        continue
                    sl = [slice(None)] * n
                    sl[a] = 1 - outcome
                    proj = st.copy()
                    proj[tuple(sl)] = 0
                    if float(np.sum(np.abs(proj) ** 2)) <= prune:
                        continue
                    if op.reset and outcome == 1:
                        proj = apply_matrix(proj, RG.X, [a], n)
                    h2 = dict(hist)
                    h2[_mid(op)] = outcome
                    new.append((h2, proj))
            branches = new
        elif tname == "Conditional":
            new = []
            for hist, st in branches:
                if bool(eval_mv(op.meas_val, hist)):
                    st = apply_op(st, op.base, idx, n)
                new.append((hist, st))
            branches = new
        else:
            branches = [(h, apply_op(st, op, idx, n)) for h, st in branches]
    return branches


def branch_mixture(branches, n):
    """Density matrix of the (renormalised) mixture of branches + total surviving probability."""
    rho = np.zeros((2 ** n, 2 ** n), dtype=complex)
    tot = 0.0
    for _, st in branches:
        v = st.reshape(-1)
        rho += np.outer(v, v.conj())
        tot += float(np.vdot(v, v).real)
    return (rho / tot if tot > 0 else rho), tot


# --------------------------------------------------------------------------------------------- derivatives
_FD8 = {1: 4 / 5, 2: -1 / 5, 3: 4 / 105, 4: -1 / 280}


def fd_derivative(f, x, h=1e-2):
    """8th-order central difference of a scalar-argument function (vector valued allowed)."""
    acc = 0
    for k, c in _FD8.items():
        acc = acc + c * (np.asarray(f(x + k * h)) - np.asarray(f(x - k * h)))
    return acc / h


def fd_jacobian(f, x, h=1e-2):
    """Jacobian of f: R^p -> array, shape = f(x).shape + (p,)."""
    x = np.asarray(x, dtype=float)
    cols = []
    for i in range(x.size):
        def g(t, i=i):
            y = x.copy().ravel()
            y[i] = t
            return np.asarray(f(y.reshape(x.shape)))
        cols.append(fd_derivative(g, float(x.ravel()[i]), h))
    return np.stack(cols, axis=-1)
